// Command drive executes line-protocol op streams on the real gmqtt code.
// One output line per input line, same protocol as lean/Driver (the Lean oracle).
package main

import (
	"bufio"
	"fmt"
	"os"
	"sort"
	"strings"
)

// component: consumes one op line, returns one canonical output line.
type component interface {
	Step(line string) string
}

var components = map[string]func(args []string) component{}

func main() {
	if len(os.Args) < 2 {
		names := []string{}
		for k := range components {
			names = append(names, k)
		}
		sort.Strings(names)
		fmt.Fprintln(os.Stderr, "usage: drive <component> [args]; components:", strings.Join(names, " "))
		os.Exit(2)
	}
	mk, ok := components[os.Args[1]]
	if !ok {
		fmt.Fprintln(os.Stderr, "unknown component", os.Args[1])
		os.Exit(2)
	}
	c := mk(os.Args[2:])
	in := bufio.NewScanner(os.Stdin)
	in.Buffer(make([]byte, 1<<20), 1<<26)
	out := bufio.NewWriterSize(os.Stdout, 1<<16)
	defer out.Flush()
	for in.Scan() {
		line := in.Text()
		out.WriteString(safeStep(c, line))
		out.WriteByte('\n')
	}
}

// safeStep recovers panics of the code under test and reports them as output.
func safeStep(c component, line string) (res string) {
	defer func() {
		if r := recover(); r != nil {
			res = "panic"
			if os.Getenv("VERIF_PANIC_DETAIL") != "" {
				res = fmt.Sprintf("panic %v", r)
			}
		}
	}()
	return c.Step(line)
}
