// drive_aliasfifo: line-protocol driver for the REAL outbound topic alias manager topicalias/fifo (C13),
// used through the public server.TopicAliasManager API in the call sequence of the broker:
// registerClient: mgr = factory(cfg, ClientTopicAliasMax, clientID); writeLoop: mgr.Check(publish) per PUBLISH.
//
//	new <max>      -> ok                      fifo.New(cfg, max, "c")
//	check <topic>  -> <alias> <0|1> | panic   raw Check
//	pub <topic>    -> <topic|-> <alias|->     Check wrapped in the rewriting that writeLoop applies (replicated here,
//	                                          the real writeLoop is exercised by the wire stream `aliasin`)
package main

import (
	"fmt"
	"strings"

	"verifharness/internal/drv"

	"github.com/DrmagicE/gmqtt/config"
	"github.com/DrmagicE/gmqtt/pkg/packets"
	"github.com/DrmagicE/gmqtt/server"
	"github.com/DrmagicE/gmqtt/topicalias/fifo"
)

type aliasDrv struct {
	max uint16
	mgr server.TopicAliasManager
}

func (d *aliasDrv) Step(line string) string {
	f := strings.Fields(line)
	if len(f) != 2 {
		return "bad-op"
	}
	if f[0] == "new" {
		n := drv.Atoi(f[1])
		if n < 0 || n > 65535 {
			return "bad-op"
		}
		d.max = uint16(n)
		var factory server.NewTopicAliasManager = fifo.New
		d.mgr = factory(config.DefaultConfig(), d.max, "c")
		return "ok"
	}
	if d.mgr == nil {
		return "bad-op"
	}
	p := &packets.Publish{Version: packets.Version5, TopicName: []byte(f[1]), Properties: &packets.Properties{}}
	switch f[0] {
	case "check":
		alias, exist := d.mgr.Check(p)
		e := 0
		if exist {
			e = 1
		}
		return fmt.Sprintf("%d %d", alias, e)
	case "pub":
		// server/client.go writeLoop, case *packets.Publish, client.version == packets.Version5
		if d.max > 0 { // client.opts.ClientTopicAliasMax > 0
			if alias, ok := d.mgr.Check(p); ok {
				p.TopicName = []byte{}
				p.Properties.TopicAlias = &alias
			} else {
				if alias != 0 {
					p.Properties.TopicAlias = &alias
				}
			}
		}
		t, a := "-", "-"
		if len(p.TopicName) > 0 {
			t = string(p.TopicName)
		}
		if p.Properties.TopicAlias != nil {
			a = fmt.Sprint(*p.Properties.TopicAlias)
		}
		return t + " " + a
	}
	return "bad-op"
}

func main() { drv.Main(&aliasDrv{}) }
