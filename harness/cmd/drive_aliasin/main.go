// drive_aliasin: wire-level driver for the topic alias handling of a REAL in-process gmqtt broker (C13).
// Same protocol as lean/Driver/AliasInbound.lean:
//
//	connect <serverAliasMax> <receiveMax> [<subscriberAliasMax>] -> ok ta=<CONNACK Topic Alias Maximum> rm=<CONNACK Receive Maximum>
//	pub <alias|-> <topic|->  -> ok <topic|-> | ok <wire-topic|-> <wire-alias|-> | disc:<hex> | closed | hung
//
// A fresh broker (config topic_alias_maximum / server_receive_maximum as given) per `connect`; v5 client "s" subscribes
// to `#` (declaring Topic Alias Maximum <subscriberAliasMax> if given), v5 client "p" sends the QoS 0 PUBLISH packets.
// The result of a `pub` is what "s" receives for it (topic name and alias property exactly as on the wire), or the
// DISCONNECT reason "p" receives, or `closed` if the broker drops "p" without DISCONNECT.
package main

import (
	"bufio"
	"context"
	"fmt"
	"net"
	"strconv"
	"strings"
	"time"

	"verifharness/internal/drv"
	"verifharness/internal/memnet"

	"github.com/DrmagicE/gmqtt/config"
	_ "github.com/DrmagicE/gmqtt/persistence"
	"github.com/DrmagicE/gmqtt/pkg/packets"
	"github.com/DrmagicE/gmqtt/server"
	_ "github.com/DrmagicE/gmqtt/topicalias/fifo"
	"go.uber.org/zap"
)

const wait = 3 * time.Second
const pubWait = 500 * time.Millisecond

type event struct {
	from string // "s" | "p"
	pkt  packets.Packet
	err  error
}

type cli struct {
	c net.Conn
	w *packets.Writer
}

// broker is what server.New returns (its concrete type is unexported)
type broker interface {
	server.Server
	Init(opts ...server.Options) error
	Run() error
}

type aliasDrv struct {
	srv    broker
	ln     *memnet.Listener
	s, p   *cli
	ev     chan event
	up     bool
	wire   bool
	seq    int
	closed []net.Conn
}

func (d *aliasDrv) stop() {
	for _, c := range d.closed {
		c.Close()
	}
	d.closed = nil
	if d.srv != nil {
		ctx, cancel := context.WithTimeout(context.Background(), wait)
		_ = d.srv.Stop(ctx)
		cancel()
		d.ln.Close()
		d.srv = nil
	}
	d.up = false
}

// dial connects a v5 client and returns it together with its CONNACK; packets are then pumped into d.ev.
func (d *aliasDrv) dial(name string, aliasMax *uint16, ev chan event) (*cli, *packets.Connack, error) {
	nc, err := d.ln.Dial()
	if err != nil {
		return nil, nil, err
	}
	d.closed = append(d.closed, nc)
	c := &cli{c: nc, w: packets.NewWriter(nc)}
	r := packets.NewReader(bufio.NewReader(nc))
	r.SetVersion(packets.Version5)
	_ = nc.SetDeadline(time.Now().Add(wait))
	err = c.w.WriteAndFlush(&packets.Connect{
		Version: packets.Version5, ProtocolName: []byte("MQTT"), ProtocolLevel: 5, CleanStart: true, KeepAlive: 0,
		ClientID: []byte(name), Properties: &packets.Properties{TopicAliasMaximum: aliasMax},
	})
	if err != nil {
		return nil, nil, err
	}
	pk, err := r.ReadPacket()
	if err != nil {
		return nil, nil, err
	}
	ack, ok := pk.(*packets.Connack)
	if !ok || ack.Code != 0 {
		return nil, nil, fmt.Errorf("no connack")
	}
	_ = nc.SetDeadline(time.Time{})
	go func() {
		for {
			pk, err := r.ReadPacket()
			ev <- event{from: name, pkt: pk, err: err}
			if err != nil {
				return
			}
		}
	}()
	return c, ack, nil
}

func (d *aliasDrv) connect(ta, rm int, sub *uint16) string {
	d.stop()
	cfg := config.DefaultConfig()
	cfg.Listeners = nil
	cfg.API = config.API{}
	cfg.Log.Level = "error"
	cfg.MQTT.TopicAliasMax = uint16(ta)
	cfg.MQTT.ReceiveMax = uint16(rm)
	if err := cfg.MQTT.Validate(); err != nil {
		return "invalid-config"
	}
	d.ln = memnet.Listen()
	d.srv = broker(server.New(server.WithConfig(cfg), server.WithTCPListener(d.ln), server.WithLogger(zap.NewNop())))
	if err := d.srv.Init(); err != nil {
		return "err-init"
	}
	go d.srv.Run()
	d.ev = make(chan event, 1024)
	var err error
	if d.s, _, err = d.dial("s", sub, d.ev); err != nil {
		return "err-connect-s"
	}
	_ = d.s.c.SetWriteDeadline(time.Now().Add(wait))
	if err = d.s.w.WriteAndFlush(&packets.Subscribe{Version: packets.Version5, PacketID: 1,
		Topics: []packets.Topic{{Name: "#", SubOptions: packets.SubOptions{Qos: 0}}}, Properties: &packets.Properties{}}); err != nil {
		return "err-subscribe"
	}
	select {
	case e := <-d.ev:
		if _, ok := e.pkt.(*packets.Suback); !ok {
			return "err-suback"
		}
	case <-time.After(wait):
		return "err-suback"
	}
	var ack *packets.Connack
	if d.p, ack, err = d.dial("p", nil, d.ev); err != nil {
		return "err-connect-p"
	}
	d.up, d.wire, d.seq = true, sub != nil, 0
	u := func(p *uint16) string {
		if p == nil {
			return "-"
		}
		return strconv.Itoa(int(*p))
	}
	return fmt.Sprintf("ok ta=%s rm=%s", u(ack.Properties.TopicAliasMaximum), u(ack.Properties.ReceiveMaximum))
}

func (d *aliasDrv) pub(a, t string) string {
	if !d.up {
		return "closed"
	}
	d.seq++
	ppt := &packets.Properties{}
	if a != "-" {
		n, err := strconv.Atoi(a)
		if err != nil || n < 0 || n > 65535 {
			return "bad-op"
		}
		v := uint16(n)
		ppt.TopicAlias = &v
	}
	topic := []byte{}
	if t != "-" {
		topic = []byte(t)
	}
	payload := strconv.Itoa(d.seq)
	_ = d.p.c.SetWriteDeadline(time.Now().Add(wait))
	werr := d.p.w.WriteAndFlush(&packets.Publish{Version: packets.Version5, Qos: 0, TopicName: topic,
		Payload: []byte(payload), Properties: ppt})
	deadline := time.After(pubWait)
	for {
		select {
		case e := <-d.ev:
			switch {
			case e.from == "p" && e.err != nil:
				d.up = false
				return "closed"
			case e.from == "p":
				if dis, ok := e.pkt.(*packets.Disconnect); ok {
					d.up = false
					return fmt.Sprintf("disc:%02x", dis.Code)
				}
			case e.from == "s" && e.err != nil:
				d.up = false
				return "subscriber-lost"
			case e.from == "s":
				if pb, ok := e.pkt.(*packets.Publish); ok && string(pb.Payload) == payload {
					tn := "-"
					if len(pb.TopicName) > 0 {
						tn = string(pb.TopicName)
					}
					if !d.wire {
						if pb.Properties != nil && pb.Properties.TopicAlias != nil {
							return fmt.Sprintf("ok %s alias=%d?", tn, *pb.Properties.TopicAlias)
						}
						return "ok " + tn
					}
					al := "-"
					if pb.Properties != nil && pb.Properties.TopicAlias != nil {
						al = strconv.Itoa(int(*pb.Properties.TopicAlias))
					}
					return "ok " + tn + " " + al
				}
			}
		case <-deadline:
			d.up = false
			if werr != nil {
				return "hung-send"
			}
			return "hung" // neither delivered nor refused nor disconnected: the connection is a zombie
		}
	}
}

func (d *aliasDrv) Step(line string) string {
	f := strings.Fields(line)
	switch {
	case len(f) >= 3 && len(f) <= 4 && f[0] == "connect":
		ta, rm := drv.Atoi(f[1]), drv.Atoi(f[2])
		if ta < 0 || ta > 65535 || rm < 0 || rm > 65535 {
			return "bad-op"
		}
		var sub *uint16
		if len(f) == 4 {
			v := uint16(drv.Atoi(f[3]))
			sub = &v
		}
		return d.connect(ta, rm, sub)
	case len(f) == 3 && f[0] == "pub":
		return d.pub(f[1], f[2])
	}
	return "bad-op"
}

func main() {
	d := &aliasDrv{}
	defer d.stop()
	drv.Main(d)
}
