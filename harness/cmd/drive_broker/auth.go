package main

// C19: the real plugin/auth loaded into the in-process broker, account API called in-process, password file in a
// private temp dir, state snapshot. Registered through the extension points of extra.go; selected by `new … auth=<alg>`.
//
//   new … auth=plain|md5|sha256|bcrypt [pf=rel|abs] [cwd=same|other] [enh=1] [seed=<user>:<spec>,…]
//        seed = initial password file; spec: H(<pass>) = the configured hash of <pass>, U(<pass>) = that hash in upper
//        case (near miss), anything else = literal stored value. enh=1 installs a small OnEnhancedAuth test hook.
//   api acct set <user> <pass>        Update   -> ok | err:<class>
//   api acct del <user>               Delete   -> ok | err:<class>
//   api acct get <user>               Get      -> <user>:<hash> | err:notfound | err:invalid
//   api acct list                     List     -> n=<total> [user:hash,…]   (indexer order)
//   api acct file                     the password files parsed back: load=<ConfigDir>/<file>, cwd=./<file> (same | absent | […])
//   api acct failsave 0|1             the next saves fail / work again (plugin/auth/verif_export_auth.go)
//   api acct write <hex>              overwrite the file Load reads with raw bytes
//   api acct seedfile <user>:<spec>,… overwrite the file Load reads with these accounts (yaml.Marshal, as the plugin saves)
//   api restartauth                   a new plugin instance built from config + file ("what a restarted broker loads")
//   api state                         sessions / online clients / subscriptions / retained messages
//   dial <conn> [v=5]                 open a connection WITHOUT sending CONNECT (for pre-CONNECT packets via `raw`)
// user / pass tokens: `~` = empty, `hex:<hex>` = arbitrary bytes.

import (
	"sync/atomic"
	"context"
	"crypto/md5"
	"crypto/sha256"
	"encoding/hex"
	"fmt"
	"io/ioutil"
	"os"
	"path/filepath"
	"sort"
	"strings"
	"sync"
	"time"

	"golang.org/x/crypto/bcrypt"
	"google.golang.org/grpc/codes"
	"google.golang.org/grpc/status"
	"gopkg.in/yaml.v2"

	"github.com/DrmagicE/gmqtt"
	"github.com/DrmagicE/gmqtt/config"
	"github.com/DrmagicE/gmqtt/persistence/subscription"
	mqttcodes "github.com/DrmagicE/gmqtt/pkg/codes"
	"github.com/DrmagicE/gmqtt/plugin/auth"
	"github.com/DrmagicE/gmqtt/server"
)

const pwFileName = "gmqtt_password.yml"

type authEnv struct {
	mu       sync.Mutex
	cur      *auth.Auth
	cfg      config.Config
	alg      string
	base     string // private temp dir
	confDir  string
	cwdDir   string
	loadPath string // where Load reads
	savePath string // where saveFileHandler writes
	failSave bool
	loadErr  string
	enh      bool
	known    []string // passwords the script has used (to render stored hashes symbolically)
	upper    map[string]string // upper-cased hash -> password (seed spec U(...))
}

var (
	authState *authEnv
	origWD    string
)

func init() {
	origWD, _ = os.Getwd()
	sweepStaleAuthDirs()
	optionHooks = append(optionHooks, authOption)
	apiOps["acct"] = acctOp
	apiOps["restartauth"] = restartAuthOp
	apiOps["state"] = stateOp
	extraOps["dial"] = dialOp
}

// dirs of driver processes that ended without a further `new` are removed by the next process
func sweepStaleAuthDirs() {
	ms, _ := filepath.Glob(filepath.Join(os.TempDir(), "verif-auth-*"))
	for _, m := range ms {
		if st, err := os.Stat(m); err == nil && time.Since(st.ModTime()) > 10*time.Minute {
			_ = os.RemoveAll(m)
		}
	}
}

func cleanupAuth() {
	if authState != nil {
		_ = os.Chdir(origWD)
		_ = os.RemoveAll(authState.base)
		authState = nil
	}
}

// authShim is the plugin the server sees; it forwards to the current real *auth.Auth so that `api restartauth`
// can replace the instance the way a broker restart would.
type authShim struct{ env *authEnv }

func (s *authShim) Name() string  { return auth.Name }
func (s *authShim) Unload() error { return nil }
func (s *authShim) Load(service server.Server) error {
	s.env.mu.Lock()
	defer s.env.mu.Unlock()
	if err := s.env.cur.Load(service); err != nil {
		s.env.loadErr = errClass(err)
	}
	return nil
}
func (s *authShim) HookWrapper() server.HookWrapper {
	return server.HookWrapper{
		OnBasicAuthWrapper: func(pre server.OnBasicAuth) server.OnBasicAuth {
			return func(ctx context.Context, client server.Client, req *server.ConnectRequest) error {
				s.env.mu.Lock()
				cur := s.env.cur
				s.env.mu.Unlock()
				return cur.OnBasicAuthWrapper(pre)(ctx, client, req)
			}
		},
		OnEnhancedAuthWrapper: s.enhWrapper(),
	}
}

// the enhanced-authentication test hook (mirrored by `testHook` in lean/Driver/AuthBroker.lean):
// method "M"; data "go" = success, "c" = challenge "ch"; AUTH data "ok" = success, "more" = challenge "ch2"; else refused.
func (s *authShim) enhWrapper() server.OnEnhancedAuthWrapper {
	if !s.env.enh {
		return nil
	}
	return func(pre server.OnEnhancedAuth) server.OnEnhancedAuth {
		return func(ctx context.Context, client server.Client, req *server.ConnectRequest) (*server.EnhancedAuthResponse, error) {
			p := req.Connect.Properties
			if string(p.AuthMethod) != "M" {
				return nil, &mqttcodes.Error{Code: mqttcodes.BadAuthMethod}
			}
			switch string(p.AuthData) {
			case "go":
				return &server.EnhancedAuthResponse{Continue: false}, nil
			case "c":
				return &server.EnhancedAuthResponse{Continue: true, AuthData: []byte("ch"), OnAuth: func(ctx context.Context, client server.Client, req *server.AuthRequest) (*server.AuthResponse, error) {
					d := ""
					if req.Auth.Properties != nil {
						d = string(req.Auth.Properties.AuthData)
					}
					switch d {
					case "ok":
						return &server.AuthResponse{Continue: false}, nil
					case "more":
						return &server.AuthResponse{Continue: true, AuthData: []byte("ch2")}, nil
					}
					return nil, &mqttcodes.Error{Code: mqttcodes.NotAuthorized}
				}}, nil
			}
			return nil, &mqttcodes.Error{Code: mqttcodes.NotAuthorized}
		}
	}
}

func (e *authEnv) newInstance() (*auth.Auth, error) {
	p, err := auth.New(e.cfg) // the registered factory of plugin/auth, as cmd/gmqttd calls it
	if err != nil {
		return nil, err
	}
	return p.(*auth.Auth), nil
}

func authOption(d *brokerDrv, m map[string]string) []server.Options {
	cleanupAuth()
	alg, ok := m["auth"]
	if !ok {
		return nil
	}
	base, err := ioutil.TempDir("", "verif-auth-")
	if err != nil {
		return nil
	}
	e := &authEnv{alg: alg, base: base, confDir: filepath.Join(base, "conf")}
	other := filepath.Join(base, "other")
	_ = os.MkdirAll(e.confDir, 0o755)
	_ = os.MkdirAll(other, 0o755)
	e.cwdDir = e.confDir
	if m["cwd"] == "other" {
		e.cwdDir = other
	}
	_ = os.Chdir(e.cwdDir)
	pf := pwFileName
	e.loadPath = filepath.Join(e.confDir, pwFileName)
	e.savePath = filepath.Join(e.cwdDir, pwFileName)
	if m["pf"] == "abs" {
		pf = e.loadPath
		e.savePath = e.loadPath
	}
	e.enh = m["enh"] == "1"
	if sd, ok := m["seed"]; ok {
		_ = e.writeSeed(sd)
	}
	e.cfg = config.Config{ConfigDir: e.confDir, Plugins: map[string]config.Configuration{auth.Name: &auth.Config{Hash: alg, PasswordFile: pf}}}
	if err := e.cfg.Plugins[auth.Name].Validate(); err != nil {
		e.loadErr = "config"
	}
	cur, err := e.newInstance()
	if err != nil {
		return nil
	}
	e.cur = cur
	cur.VerifSetSaveFail(false) // installs the "saved under a.mu" check on the real save
	authState = e
	return []server.Options{server.WithPlugin(&authShim{env: e})}
}

func errClass(err error) string {
	if err == nil {
		return "ok"
	}
	if err == auth.ErrVerifInjectedSave {
		return "err:save"
	}
	if st, ok := status.FromError(err); ok {
		switch st.Code() {
		case codes.InvalidArgument:
			return "err:invalid"
		case codes.NotFound:
			return "err:notfound"
		}
	}
	s := err.Error()
	switch {
	case strings.Contains(s, "password length exceeds"):
		return "err:toolong"
	case strings.Contains(s, "duplicated username"):
		return "err:dup"
	case strings.Contains(s, "empty username"):
		return "err:emptyuser"
	case strings.Contains(s, "yaml"):
		return "err:yaml"
	case strings.Contains(s, "no such file"), strings.Contains(s, "rename"), strings.Contains(s, "is a directory"):
		return "err:fs"
	}
	return "err:other"
}

func argBytes(s string) string {
	if s == "~" {
		return ""
	}
	if strings.HasPrefix(s, "hex:") {
		if b, err := hex.DecodeString(s[4:]); err == nil {
			return string(b)
		}
	}
	return s
}

func showBytes(s string) string {
	if s == "" {
		return "~"
	}
	for _, c := range []byte(s) {
		if c <= 0x20 || c >= 0x7f || c == ',' || c == ':' || c == '[' || c == ']' || c == '=' || c == '|' {
			return "hex:" + hex.EncodeToString([]byte(s))
		}
	}
	if strings.HasPrefix(s, "hex:") || s == "~" {
		return "hex:" + hex.EncodeToString([]byte(s))
	}
	return s
}

// realHash is the harness's own computation of the configured hash (bcrypt: a fresh salted hash).
func (e *authEnv) realHash(p string) string {
	switch e.alg {
	case auth.MD5:
		x := md5.Sum([]byte(p))
		return hex.EncodeToString(x[:])
	case auth.SHA256:
		x := sha256.Sum256([]byte(p))
		return hex.EncodeToString(x[:])
	case auth.Bcrypt:
		b, err := bcrypt.GenerateFromPassword([]byte(p), bcrypt.MinCost)
		if err != nil {
			return "!toolong"
		}
		return string(b)
	}
	return p
}

func (e *authEnv) know(p string) {
	for _, k := range e.known {
		if k == p {
			return
		}
	}
	e.known = append(e.known, p)
}

// symbolic renders a stored hash as H(<pass>) / U(<pass>) when it is the (upper-cased) hash of a password the script used.
func (e *authEnv) symbolic(stored string) string {
	if e.alg == auth.Plain {
		return showBytes(stored)
	}
	for _, p := range e.known {
		switch e.alg {
		case auth.Bcrypt:
			// bcrypt only looks at the first 72 bytes: longer candidates would "match" a 72-byte password
			if len(p) <= 72 && bcrypt.CompareHashAndPassword([]byte(stored), []byte(p)) == nil {
				return "H(" + showBytes(p) + ")"
			}
		default:
			h := e.realHash(p)
			if stored == h {
				return "H(" + showBytes(p) + ")"
			}
			if stored == strings.ToUpper(h) {
				return "U(" + showBytes(p) + ")"
			}
		}
	}
	return showBytes(stored)
}

func (e *authEnv) showAccount(a *auth.Account) string {
	if u, ok := e.upper[a.Password]; ok {
		return showBytes(a.Username) + ":U(" + showBytes(u) + ")"
	}
	return showBytes(a.Username) + ":" + e.symbolic(a.Password)
}

// specValue turns a seed spec into the stored value.
func (e *authEnv) specValue(spec string) string {
	if strings.HasSuffix(spec, ")") && (strings.HasPrefix(spec, "H(") || strings.HasPrefix(spec, "U(")) {
		p := argBytes(spec[2 : len(spec)-1])
		e.know(p)
		h := e.realHash(p)
		if spec[0] == 'U' {
			up := strings.ToUpper(h)
			if e.upper == nil {
				e.upper = map[string]string{}
			}
			if up != h {
				e.upper[up] = p
			}
			return up
		}
		return h
	}
	return argBytes(spec)
}

func (e *authEnv) writeSeed(sd string) error {
	acts := []*auth.Account{}
	if sd != "~" && sd != "" {
		for _, ent := range strings.Split(sd, ",") {
			i := strings.IndexByte(ent, ':')
			if i < 0 {
				continue
			}
			acts = append(acts, &auth.Account{Username: argBytes(ent[:i]), Password: e.specValue(ent[i+1:])})
		}
	}
	b, err := yaml.Marshal(acts)
	if err != nil {
		return err
	}
	return ioutil.WriteFile(e.loadPath, b, 0o644)
}

func (e *authEnv) showFile(path string) string {
	b, err := ioutil.ReadFile(path)
	if err != nil {
		return "absent"
	}
	var acts []*auth.Account
	if err := yaml.Unmarshal(b, &acts); err != nil {
		return "unparsable"
	}
	parts := make([]string, 0, len(acts))
	for _, a := range acts {
		if a == nil {
			parts = append(parts, "null")
			continue
		}
		parts = append(parts, e.showAccount(a))
	}
	return "[" + strings.Join(parts, ",") + "]"
}

func acctOp(d *brokerDrv, pos []string, m map[string]string) string {
	e := authState
	if e == nil || len(pos) < 2 {
		return "bad-op"
	}
	ctx := context.Background()
	res := "bad-op"
	switch pos[1] {
	case "set":
		if len(pos) < 4 {
			return "bad-op"
		}
		e.know(argBytes(pos[3]))
		_, err := e.cur.Update(ctx, &auth.UpdateAccountRequest{Username: argBytes(pos[2]), Password: argBytes(pos[3])})
		res = errClass(err)
	case "del":
		if len(pos) < 3 {
			return "bad-op"
		}
		_, err := e.cur.Delete(ctx, &auth.DeleteAccountRequest{Username: argBytes(pos[2])})
		res = errClass(err)
	case "get":
		if len(pos) < 3 {
			return "bad-op"
		}
		r, err := e.cur.Get(ctx, &auth.GetAccountRequest{Username: argBytes(pos[2])})
		if err != nil {
			res = errClass(err)
		} else {
			res = e.showAccount(r.Account)
		}
	case "list":
		var parts []string
		total := uint32(0)
		for page := uint32(1); ; page++ {
			r, err := e.cur.List(ctx, &auth.ListAccountsRequest{Page: page, PageSize: 50})
			if err != nil {
				return errClass(err)
			}
			total = r.TotalCount
			for _, a := range r.Accounts {
				parts = append(parts, e.showAccount(a))
			}
			if len(r.Accounts) == 0 || uint32(len(parts)) >= total {
				break
			}
		}
		res = fmt.Sprintf("n=%d [%s]", total, strings.Join(parts, ","))
	case "file":
		if e.loadPath == e.savePath {
			res = "load=" + e.showFile(e.loadPath) + " cwd=same"
		} else {
			res = "load=" + e.showFile(e.loadPath) + " cwd=" + e.showFile(e.savePath)
		}
	case "failsave":
		if len(pos) < 3 {
			return "bad-op"
		}
		e.failSave = pos[2] == "1"
		e.cur.VerifSetSaveFail(e.failSave)
		res = "ok"
	case "seedfile":
		if len(pos) < 3 {
			return "bad-op"
		}
		if err := e.writeSeed(pos[2]); err != nil {
			return "err:fs"
		}
		res = "ok"
	case "write":
		if len(pos) < 3 {
			return "bad-op"
		}
		bs, err := hex.DecodeString(pos[2])
		if err != nil {
			return "bad-op"
		}
		if err := ioutil.WriteFile(e.loadPath, bs, 0o644); err != nil {
			return "err:fs"
		}
		res = "ok"
	}
	if n := atomic.SwapInt64(&auth.VerifSaveUnlocked, 0); n > 0 {
		// the password file was written outside the critical section that changed the index
		res += " UNLOCKED-SAVE"
	}
	return res + " " + d.collect("")
}

func restartAuthOp(d *brokerDrv, pos []string, m map[string]string) string {
	e := authState
	if e == nil {
		return "bad-op"
	}
	p, err := e.newInstance()
	if err != nil {
		return "err:new " + d.collect("")
	}
	lerr := p.Load(d.b.Srv) // same call server.loadPlugins makes; the API registrar is the server's own
	e.mu.Lock()
	e.cur = p
	e.mu.Unlock()
	p.VerifSetSaveFail(e.failSave)
	if lerr != nil {
		return "load-" + errClass(lerr) + " " + d.collect("")
	}
	return "ok " + d.collect("")
}

// stateOp prints everything C19 calls "broker state": stored sessions, online clients, subscriptions, retained messages.
func stateOp(d *brokerDrv, pos []string, m map[string]string) string {
	srv := d.b.Srv
	var sess, online, subs, ret []string
	_ = srv.ClientService().IterateSession(func(s *gmqtt.Session) bool {
		sess = append(sess, showBytes(s.ClientID))
		return true
	})
	srv.ClientService().IterateClient(func(c server.Client) bool {
		online = append(online, showBytes(c.ClientOptions().ClientID))
		return true
	})
	srv.SubscriptionService().Iterate(func(clientID string, sub *gmqtt.Subscription) bool {
		subs = append(subs, fmt.Sprintf("%s/%s/%d", showBytes(clientID), showBytes(sub.GetFullTopicName()), sub.QoS))
		return true
	}, subscription.IterationOptions{Type: subscription.TypeAll})
	srv.RetainedService().Iterate(func(msg *gmqtt.Message) bool {
		ret = append(ret, fmt.Sprintf("%s/%s/%d", showBytes(msg.Topic), payloadTag(msg.Payload), msg.QoS))
		return true
	})
	sort.Strings(sess)
	sort.Strings(online)
	sort.Strings(subs)
	sort.Strings(ret)
	return fmt.Sprintf("sessions=[%s] online=[%s] subs=[%s] retained=[%s]", strings.Join(sess, ","), strings.Join(online, ","),
		strings.Join(subs, ","), strings.Join(ret, ","))
}

// dialOp opens a connection and starts its reader without sending anything.
func dialOp(d *brokerDrv, pos []string, m map[string]string) string {
	if len(pos) < 1 {
		return "bad-op"
	}
	c, err := d.b.Dial(pos[0])
	if err != nil {
		return "dial-failed"
	}
	c.ClientID = "?" + pos[0] // never a real client id: nothing received on it is attributed to a session
	c.Version = byte(geti(m, "v", 4))
	c.StartReader()
	return d.collect("")
}
