package main

// C19: the real plugin/auth loaded into the in-process broker, account API called in-process, password file in a
// private temp dir, state snapshot. Registered through the extension points of extra.go; selected by `new … auth=<alg>`.
//
//   new … auth=plain|md5|sha256|bcrypt [pf=rel|abs] [cwd=same|other] [file=<hex of initial password file>]
//   api acct set <user> <pass>        Update   -> ok | err:<class>
//   api acct del <user>               Delete   -> ok | err:<class>
//   api acct get <user>               Get      -> <user>:<hash> | err:notfound | err:invalid
//   api acct list                     List     -> n=<total> [user:hash,…]   (indexer order)
//   api acct file                     the password file(s) parsed back: load=[…] save=[…]
//   api acct failsave 0|1             the next saves fail / work again (plugin/auth/verif_export_auth.go)
//   api acct write <hex>              overwrite the file Load reads with raw bytes
//   api restartauth                   a new plugin instance built from config + file ("what a restarted broker loads")
//   api state                         sessions / online clients / subscriptions / retained messages
//   dial <conn> [v=5]                 open a connection WITHOUT sending CONNECT (for pre-CONNECT packets via `raw`)
// user / pass tokens: `~` = empty, `hex:<hex>` = arbitrary bytes.

import (
	"context"
	"encoding/hex"
	"fmt"
	"io/ioutil"
	"os"
	"path/filepath"
	"sort"
	"strings"
	"sync"
	"time"

	"google.golang.org/grpc/codes"
	"google.golang.org/grpc/status"
	"gopkg.in/yaml.v2"

	"github.com/DrmagicE/gmqtt"
	"github.com/DrmagicE/gmqtt/config"
	"github.com/DrmagicE/gmqtt/persistence/subscription"
	"github.com/DrmagicE/gmqtt/plugin/auth"
	"github.com/DrmagicE/gmqtt/server"
)

const pwFileName = "gmqtt_password.yml"

type authEnv struct {
	mu       sync.Mutex
	cur      *auth.Auth
	cfg      config.Config
	alg      string
	base     string // private temp dir
	confDir  string
	cwdDir   string
	loadPath string // where Load reads
	savePath string // where saveFileHandler writes
	failSave bool
	loadErr  string
}

var (
	authState *authEnv
	origWD    string
)

func init() {
	origWD, _ = os.Getwd()
	sweepStaleAuthDirs()
	optionHooks = append(optionHooks, authOption)
	apiOps["acct"] = acctOp
	apiOps["restartauth"] = restartAuthOp
	apiOps["state"] = stateOp
	extraOps["dial"] = dialOp
}

// dirs of driver processes that ended without a further `new` are removed by the next process
func sweepStaleAuthDirs() {
	ms, _ := filepath.Glob(filepath.Join(os.TempDir(), "verif-auth-*"))
	for _, m := range ms {
		if st, err := os.Stat(m); err == nil && time.Since(st.ModTime()) > 10*time.Minute {
			_ = os.RemoveAll(m)
		}
	}
}

func cleanupAuth() {
	if authState != nil {
		_ = os.Chdir(origWD)
		_ = os.RemoveAll(authState.base)
		authState = nil
	}
}

// authShim is the plugin the server sees; it forwards to the current real *auth.Auth so that `api restartauth`
// can replace the instance the way a broker restart would.
type authShim struct{ env *authEnv }

func (s *authShim) Name() string  { return auth.Name }
func (s *authShim) Unload() error { return nil }
func (s *authShim) Load(service server.Server) error {
	s.env.mu.Lock()
	defer s.env.mu.Unlock()
	if err := s.env.cur.Load(service); err != nil {
		s.env.loadErr = errClass(err)
	}
	return nil
}
func (s *authShim) HookWrapper() server.HookWrapper {
	return server.HookWrapper{
		OnBasicAuthWrapper: func(pre server.OnBasicAuth) server.OnBasicAuth {
			return func(ctx context.Context, client server.Client, req *server.ConnectRequest) error {
				s.env.mu.Lock()
				cur := s.env.cur
				s.env.mu.Unlock()
				return cur.OnBasicAuthWrapper(pre)(ctx, client, req)
			}
		},
	}
}

func (e *authEnv) newInstance() (*auth.Auth, error) {
	p, err := auth.New(e.cfg) // the registered factory of plugin/auth, as cmd/gmqttd calls it
	if err != nil {
		return nil, err
	}
	return p.(*auth.Auth), nil
}

func authOption(d *brokerDrv, m map[string]string) []server.Options {
	cleanupAuth()
	alg, ok := m["auth"]
	if !ok {
		return nil
	}
	base, err := ioutil.TempDir("", "verif-auth-")
	if err != nil {
		return nil
	}
	e := &authEnv{alg: alg, base: base, confDir: filepath.Join(base, "conf")}
	other := filepath.Join(base, "other")
	_ = os.MkdirAll(e.confDir, 0o755)
	_ = os.MkdirAll(other, 0o755)
	e.cwdDir = e.confDir
	if m["cwd"] == "other" {
		e.cwdDir = other
	}
	_ = os.Chdir(e.cwdDir)
	pf := pwFileName
	e.loadPath = filepath.Join(e.confDir, pwFileName)
	e.savePath = filepath.Join(e.cwdDir, pwFileName)
	if m["pf"] == "abs" {
		pf = e.loadPath
		e.savePath = e.loadPath
	}
	if h, ok := m["file"]; ok {
		if bs, err := hex.DecodeString(h); err == nil {
			_ = ioutil.WriteFile(e.loadPath, bs, 0o644)
		}
	}
	e.cfg = config.Config{ConfigDir: e.confDir, Plugins: map[string]config.Configuration{auth.Name: &auth.Config{Hash: alg, PasswordFile: pf}}}
	if err := e.cfg.Plugins[auth.Name].Validate(); err != nil {
		e.loadErr = "config"
	}
	cur, err := e.newInstance()
	if err != nil {
		return nil
	}
	e.cur = cur
	authState = e
	return []server.Options{server.WithPlugin(&authShim{env: e})}
}

func errClass(err error) string {
	if err == nil {
		return "ok"
	}
	if err == auth.ErrVerifInjectedSave {
		return "err:save"
	}
	if st, ok := status.FromError(err); ok {
		switch st.Code() {
		case codes.InvalidArgument:
			return "err:invalid"
		case codes.NotFound:
			return "err:notfound"
		}
	}
	s := err.Error()
	switch {
	case strings.Contains(s, "password length exceeds"):
		return "err:toolong"
	case strings.Contains(s, "duplicated username"):
		return "err:dup"
	case strings.Contains(s, "empty username"):
		return "err:emptyuser"
	case strings.Contains(s, "yaml"):
		return "err:yaml"
	case strings.Contains(s, "no such file"), strings.Contains(s, "rename"), strings.Contains(s, "is a directory"):
		return "err:fs"
	}
	return "err:other"
}

func argBytes(s string) string {
	if s == "~" {
		return ""
	}
	if strings.HasPrefix(s, "hex:") {
		if b, err := hex.DecodeString(s[4:]); err == nil {
			return string(b)
		}
	}
	return s
}

func showBytes(s string) string {
	if s == "" {
		return "~"
	}
	for _, c := range []byte(s) {
		if c <= 0x20 || c >= 0x7f || c == ',' || c == ':' || c == '[' || c == ']' || c == '=' || c == '|' {
			return "hex:" + hex.EncodeToString([]byte(s))
		}
	}
	if strings.HasPrefix(s, "hex:") || s == "~" {
		return "hex:" + hex.EncodeToString([]byte(s))
	}
	return s
}

func (e *authEnv) showAccount(a *auth.Account) string {
	h := showBytes(a.Password)
	if e.alg == auth.Bcrypt && strings.HasPrefix(a.Password, "$2") {
		h = "$bcrypt" // salted: not comparable as text
	}
	return showBytes(a.Username) + ":" + h
}

func (e *authEnv) showFile(path string) string {
	b, err := ioutil.ReadFile(path)
	if err != nil {
		return "absent"
	}
	var acts []*auth.Account
	if err := yaml.Unmarshal(b, &acts); err != nil {
		return "unparsable"
	}
	parts := make([]string, 0, len(acts))
	for _, a := range acts {
		if a == nil {
			parts = append(parts, "null")
			continue
		}
		parts = append(parts, e.showAccount(a))
	}
	return "[" + strings.Join(parts, ",") + "]"
}

func acctOp(d *brokerDrv, pos []string, m map[string]string) string {
	e := authState
	if e == nil || len(pos) < 2 {
		return "bad-op"
	}
	ctx := context.Background()
	res := "bad-op"
	switch pos[1] {
	case "set":
		if len(pos) < 4 {
			return "bad-op"
		}
		_, err := e.cur.Update(ctx, &auth.UpdateAccountRequest{Username: argBytes(pos[2]), Password: argBytes(pos[3])})
		res = errClass(err)
	case "del":
		if len(pos) < 3 {
			return "bad-op"
		}
		_, err := e.cur.Delete(ctx, &auth.DeleteAccountRequest{Username: argBytes(pos[2])})
		res = errClass(err)
	case "get":
		if len(pos) < 3 {
			return "bad-op"
		}
		r, err := e.cur.Get(ctx, &auth.GetAccountRequest{Username: argBytes(pos[2])})
		if err != nil {
			res = errClass(err)
		} else {
			res = e.showAccount(r.Account)
		}
	case "list":
		var parts []string
		total := uint32(0)
		for page := uint32(1); ; page++ {
			r, err := e.cur.List(ctx, &auth.ListAccountsRequest{Page: page, PageSize: 50})
			if err != nil {
				return errClass(err)
			}
			total = r.TotalCount
			for _, a := range r.Accounts {
				parts = append(parts, e.showAccount(a))
			}
			if len(r.Accounts) == 0 || uint32(len(parts)) >= total {
				break
			}
		}
		res = fmt.Sprintf("n=%d [%s]", total, strings.Join(parts, ","))
	case "file":
		if e.loadPath == e.savePath {
			res = "load=" + e.showFile(e.loadPath) + " save=same"
		} else {
			res = "load=" + e.showFile(e.loadPath) + " save=" + e.showFile(e.savePath)
		}
	case "failsave":
		if len(pos) < 3 {
			return "bad-op"
		}
		e.failSave = pos[2] == "1"
		e.cur.VerifSetSaveFail(e.failSave)
		res = "ok"
	case "write":
		if len(pos) < 3 {
			return "bad-op"
		}
		bs, err := hex.DecodeString(pos[2])
		if err != nil {
			return "bad-op"
		}
		if err := ioutil.WriteFile(e.loadPath, bs, 0o644); err != nil {
			return "err:fs"
		}
		res = "ok"
	}
	return res + " " + d.collect("")
}

func restartAuthOp(d *brokerDrv, pos []string, m map[string]string) string {
	e := authState
	if e == nil {
		return "bad-op"
	}
	p, err := e.newInstance()
	if err != nil {
		return "err:new " + d.collect("")
	}
	lerr := p.Load(d.b.Srv) // same call server.loadPlugins makes; the API registrar is the server's own
	e.mu.Lock()
	e.cur = p
	e.mu.Unlock()
	p.VerifSetSaveFail(e.failSave)
	if lerr != nil {
		return "load-" + errClass(lerr) + " " + d.collect("")
	}
	return "ok " + d.collect("")
}

// stateOp prints everything C19 calls "broker state": stored sessions, online clients, subscriptions, retained messages.
func stateOp(d *brokerDrv, pos []string, m map[string]string) string {
	srv := d.b.Srv
	var sess, online, subs, ret []string
	_ = srv.ClientService().IterateSession(func(s *gmqtt.Session) bool {
		sess = append(sess, showBytes(s.ClientID))
		return true
	})
	srv.ClientService().IterateClient(func(c server.Client) bool {
		online = append(online, showBytes(c.ClientOptions().ClientID))
		return true
	})
	srv.SubscriptionService().Iterate(func(clientID string, sub *gmqtt.Subscription) bool {
		subs = append(subs, fmt.Sprintf("%s/%s/%d", showBytes(clientID), showBytes(sub.GetFullTopicName()), sub.QoS))
		return true
	}, subscription.IterationOptions{Type: subscription.TypeAll})
	srv.RetainedService().Iterate(func(msg *gmqtt.Message) bool {
		ret = append(ret, fmt.Sprintf("%s/%s/%d", showBytes(msg.Topic), payloadTag(msg.Payload), msg.QoS))
		return true
	})
	sort.Strings(sess)
	sort.Strings(online)
	sort.Strings(subs)
	sort.Strings(ret)
	on, off, wills, qs, uas := srv.VerifCounts()
	return fmt.Sprintf("sessions=[%s] online=[%s] subs=[%s] retained=[%s] n=%d/%d/%d/%d/%d", strings.Join(sess, ","), strings.Join(online, ","),
		strings.Join(subs, ","), strings.Join(ret, ","), on, off, wills, qs, uas)
}

// dialOp opens a connection and starts its reader without sending anything.
func dialOp(d *brokerDrv, pos []string, m map[string]string) string {
	if len(pos) < 1 {
		return "bad-op"
	}
	c, err := d.b.Dial(pos[0])
	if err != nil {
		return "dial-failed"
	}
	c.ClientID = "?" + pos[0] // never a real client id: nothing received on it is attributed to a session
	c.Version = byte(geti(m, "v", 4))
	c.StartReader()
	return d.collect("")
}
