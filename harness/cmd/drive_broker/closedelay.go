package main

// `new … closedelay=<ms>`: an OnClosed hook that sleeps — the tear-down of a connection then takes that long between the
// moment the connection is dead and the moment it is unregistered; with `api term <id> nowait=1` (TerminateSession returns,
// the harness does not wait for the broker to come to rest) a CONNECT for the same client id arrives inside that window.

import (
	"context"
	"time"

	"github.com/DrmagicE/gmqtt/server"
)

func init() {
	optionHooks = append(optionHooks, func(d *brokerDrv, m map[string]string) []server.Options {
		ms := geti(m, "closedelay", 0)
		if ms <= 0 {
			return nil
		}
		return []server.Options{server.WithHook(server.Hooks{OnClosed: func(ctx context.Context, client server.Client, err error) {
			time.Sleep(time.Duration(ms) * time.Millisecond)
		}})}
	})
}
