package main

import (
	"github.com/DrmagicE/gmqtt/server"
)

// brokerOptions: plugins / hooks selected by the `new` line (filled in by the per-property files).
func brokerOptions(d *brokerDrv, m map[string]string) []server.Options {
	return nil
}

func apiExtra(d *brokerDrv, pos []string, m map[string]string) string { return "bad-op" }

func extraOp(d *brokerDrv, op string, pos []string, m map[string]string) string { return "bad-op" }
