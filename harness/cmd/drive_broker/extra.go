package main

import (
	"fmt"
	"runtime"
	"strings"
	"sync"
	"time"

	"github.com/DrmagicE/gmqtt/pkg/packets"
	"github.com/DrmagicE/gmqtt/server"

	"verifharness/internal/drv"
	"verifharness/internal/mqttcli"
	"verifharness/internal/wire"
)

// Extension points: other files of this package register in init().
//   optionHooks: extra server options (plugins, hooks) derived from the `new` line's key=value map
//   extraOps:    additional op keywords
//   apiOps:      additional `api <name> …` sub-commands
var (
	optionHooks []func(d *brokerDrv, m map[string]string) []server.Options
	extraOps    = map[string]func(d *brokerDrv, pos []string, m map[string]string) string{}
	apiOps      = map[string]func(d *brokerDrv, pos []string, m map[string]string) string{}
)

func init() { extraOps["race"] = raceOp; extraOps["cpub"] = parOp; extraOps["pp"] = pingPongOp }

// pingPongOp: `pp <conn> k=<n> q=<1|2> pid0=<p>` — a well-behaved client with ONE publish in flight at a time: it sends a
// QoS>0 PUBLISH (to a topic nobody subscribes), waits for the acknowledgement and sends the next packet THE MOMENT the
// acknowledgement has arrived (no wait for the broker to come to rest in between). With `new … wdelay=<ms>` the broker's
// write calls return only after the client has seen the bytes, so whatever the broker does "after the write" races with
// the client's next packet. Prints `pp acks=<n> disc=<code|-> closed=<0|1>`.
func pingPongOp(d *brokerDrv, pos []string, m map[string]string) string {
	if len(pos) < 1 {
		return "bad-op"
	}
	c := d.b.Conns[pos[0]]
	if c == nil || c.EOF() {
		return "no-conn"
	}
	k, q, pid0 := geti(m, "k", 5), byte(geti(m, "q", 1)), geti(m, "pid0", 1000)
	seen := len(c.Received())
	waitFor := func(typ byte, pid uint16) bool {
		deadline := time.Now().Add(3 * time.Second)
		for time.Now().Before(deadline) {
			ps := c.Received()
			for ; seen < len(ps); seen++ {
				if ps[seen].Type == typ && ps[seen].PacketID == pid {
					seen++
					return true
				}
				if ps[seen].Type == packets.DISCONNECT {
					return false
				}
			}
			if c.EOF() {
				return false
			}
			runtime.Gosched()
		}
		return false
	}
	acks := 0
	for i := 0; i < k; i++ {
		pid := uint16(pid0 + i)
		pp := &packets.Publish{Version: c.Version, TopicName: []byte("zz/pp"), Qos: q, PacketID: pid, Payload: []byte("x")}
		if c.Version == 5 {
			pp.Properties = &packets.Properties{}
		}
		if c.Send(pp) != nil {
			break
		}
		if q == 1 {
			if !waitFor(packets.PUBACK, pid) {
				break
			}
		} else {
			if !waitFor(packets.PUBREC, pid) {
				break
			}
			if c.Send(&packets.Pubrel{PacketID: pid}) != nil || !waitFor(packets.PUBCOMP, pid) {
				break
			}
		}
		acks++
	}
	d.collect("")
	disc := "-"
	for _, p := range c.Received() {
		if p.Type == packets.DISCONNECT {
			disc = fmt.Sprint(p.Code)
		}
	}
	closed := 0
	if c.EOF() {
		closed = 1
	}
	return fmt.Sprintf("pp acks=%d disc=%s closed=%d", acks, disc, closed)
}

func brokerOptions(d *brokerDrv, m map[string]string) []server.Options {
	var opts []server.Options
	for _, h := range optionHooks {
		opts = append(opts, h(d, m)...)
	}
	return opts
}

func apiExtra(d *brokerDrv, pos []string, m map[string]string) string {
	if len(pos) > 0 {
		if f, ok := apiOps[pos[0]]; ok {
			return f(d, pos, m)
		}
	}
	return "bad-op"
}

func extraOp(d *brokerDrv, op string, pos []string, m map[string]string) string {
	if f, ok := extraOps[op]; ok {
		return f(d, pos, m)
	}
	return "bad-op"
}

// parOp: `cpub <conn>,<topic>,<qos>,<pid>,<tag> …` — the named connections send these PUBLISH packets at the same moment,
// each connection its own packets in the order written, from one goroutine per connection.
func parOp(d *brokerDrv, pos []string, m map[string]string) string {
	type item struct {
		c *wire.Conn
		p *packets.Publish
	}
	var order []string
	by := map[string][]item{}
	for _, tk := range pos {
		f := strings.Split(tk, ",")
		if len(f) != 5 {
			return "bad-op"
		}
		c := d.b.Conns[f[0]]
		if c == nil || c.EOF() {
			continue
		}
		pp := &packets.Publish{Version: c.Version, TopicName: []byte(unesc(f[1])), Qos: byte(drv.Atoi(f[2])),
			PacketID: packets.PacketID(drv.Atoi(f[3])), Payload: []byte(unesc(f[4]))}
		if c.Version == 5 {
			pp.Properties = &packets.Properties{}
		}
		if _, ok := by[f[0]]; !ok {
			order = append(order, f[0])
		}
		by[f[0]] = append(by[f[0]], item{c, pp})
	}
	// real parallelism for this op (the drivers otherwise run on one P)
	prev := runtime.GOMAXPROCS(4)
	defer runtime.GOMAXPROCS(prev)
	start := make(chan struct{})
	var wg sync.WaitGroup
	for _, n := range order {
		wg.Add(1)
		go func(its []item) {
			defer wg.Done()
			<-start
			for _, it := range its {
				if it.c.Send(it.p) != nil {
					return
				}
				if len(its) > 1 {
					runtime.Gosched()
				}
			}
		}(by[n])
	}
	close(start)
	wg.Wait()
	return d.collect("")
}

// raceOp: `race <n> <cid> v= cs= se=` — n connections send CONNECT with ONE client id at the same moment.
// Afterwards every connection that is still open is pinged. Output: alive=<answering connections> online=<len(srv.clients)>.
func raceOp(d *brokerDrv, pos []string, m map[string]string) string {
	if len(pos) < 2 {
		return "bad-op"
	}
	n := drv.Atoi(pos[0])
	cid := pos[1]
	v := byte(geti(m, "v", 5))
	var conns []*wire.Conn
	for i := 0; i < n; i++ {
		c, err := d.b.Dial(fmt.Sprintf("r%d_%d", d.opIndex, i))
		if err != nil {
			return "dial-failed"
		}
		c.ClientID = cid
		c.Version = v
		c.StartReader()
		conns = append(conns, c)
	}
	if _, ok := d.sessions[cid]; !ok {
		d.sessions[cid] = &session{}
	}
	start := make(chan struct{})
	var wg sync.WaitGroup
	for _, c := range conns {
		wg.Add(1)
		go func(c *wire.Conn) {
			defer wg.Done()
			cp := &packets.Connect{Version: v, ProtocolLevel: v, ProtocolName: []byte("MQTT"), CleanStart: geti(m, "cs", 0) == 1, ClientID: []byte(cid)}
			if v == 5 {
				se := uint32(geti(m, "se", 300))
				cp.Properties = &packets.Properties{SessionExpiryInterval: &se}
			}
			<-start
			_ = c.Send(cp)
		}(c)
	}
	close(start)
	wg.Wait()
	wire.Quiesce(d.qTimeout)
	for _, c := range conns {
		c.Take()
	}
	for _, c := range conns {
		if !c.EOF() {
			_ = c.Send(&packets.Pingreq{})
		}
	}
	wire.Quiesce(d.qTimeout)
	alive := 0
	for _, c := range conns {
		ps, _ := c.Take()
		for _, p := range ps {
			if p.Type == mqttcli.PINGRESP {
				alive++
			}
		}
	}
	on, _, _, _, _ := d.b.Srv.VerifCounts()
	// leave no racing connection behind
	for _, c := range conns {
		c.Close()
	}
	wire.Quiesce(d.qTimeout)
	for _, c := range conns {
		c.Take()
		delete(d.b.Conns, c.Name)
	}
	return fmt.Sprintf("alive=%d online=%d", alive, on)
}
