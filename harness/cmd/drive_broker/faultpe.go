package main

// `new … pe=faulty`: the memory persistence behind a wrapper whose session store can be told to REPORT A FAILURE from
// Remove (`api failremove 1`) — after doing the removal, like a backend whose reply is lost: the stored state stays what
// the model says, the broker sees an error return at that point. Whatever else has to happen when a session ends
// (queue and unack clean-up, UnsubscribeAll — leaving every share group) must happen regardless.

import (
	"errors"
	"sync"
	"sync/atomic"

	"github.com/DrmagicE/gmqtt"
	"github.com/DrmagicE/gmqtt/config"
	"github.com/DrmagicE/gmqtt/persistence"
	"github.com/DrmagicE/gmqtt/persistence/queue"
	sessstore "github.com/DrmagicE/gmqtt/persistence/session"
	"github.com/DrmagicE/gmqtt/persistence/subscription"
	"github.com/DrmagicE/gmqtt/persistence/unack"
	"github.com/DrmagicE/gmqtt/server"

	"verifharness/internal/drv"
)

var (
	faultyOnce   sync.Once
	failRemove   int32
	failSet      int32
	failAt       int32 // `api failat k`: the k-th wrapped persistence call from now fails without being performed (0 = disarmed)
	errInjectedS = errors.New("verif: injected session store failure")
)

// hit counts one wrapped call; true = this is the call that has to fail
func hit() bool {
	for {
		v := atomic.LoadInt32(&failAt)
		if v <= 0 {
			return false
		}
		if atomic.CompareAndSwapInt32(&failAt, v, v-1) {
			return v == 1
		}
	}
}

type faultyPE struct{ server.Persistence }

type faultyQueue struct{ queue.Store }

func (q *faultyQueue) Init(o *queue.InitOptions) error {
	if hit() {
		return errInjectedS
	}
	return q.Store.Init(o)
}

func (q *faultyQueue) Clean() error {
	if hit() {
		return errInjectedS
	}
	return q.Store.Clean()
}

type faultyUnack struct{ unack.Store }

func (u *faultyUnack) Init(cleanStart bool) error {
	if hit() {
		return errInjectedS
	}
	return u.Store.Init(cleanStart)
}

type faultySubs struct{ subscription.Store }

func (s *faultySubs) UnsubscribeAll(clientID string) error {
	if hit() {
		return errInjectedS
	}
	return s.Store.UnsubscribeAll(clientID)
}

func (p *faultyPE) NewQueueStore(c config.Config, n queue.Notifier, clientID string) (queue.Store, error) {
	if hit() {
		return nil, errInjectedS
	}
	q, err := p.Persistence.NewQueueStore(c, n, clientID)
	if err != nil {
		return nil, err
	}
	return &faultyQueue{q}, nil
}

func (p *faultyPE) NewUnackStore(c config.Config, clientID string) (unack.Store, error) {
	if hit() {
		return nil, errInjectedS
	}
	u, err := p.Persistence.NewUnackStore(c, clientID)
	if err != nil {
		return nil, err
	}
	return &faultyUnack{u}, nil
}

func (p *faultyPE) NewSubscriptionStore(c config.Config) (subscription.Store, error) {
	st, err := p.Persistence.NewSubscriptionStore(c)
	if err != nil {
		return nil, err
	}
	return &faultySubs{st}, nil
}

func (s *faultySessions) SetSessionExpiry(clientID string, expiry uint32) error {
	if hit() {
		return errInjectedS
	}
	return s.Store.SetSessionExpiry(clientID, expiry)
}

func (s *faultySessions) Get(clientID string) (*gmqtt.Session, error) {
	if hit() {
		return nil, errInjectedS
	}
	return s.Store.Get(clientID)
}

type faultySessions struct{ sessstore.Store }

func (s *faultySessions) Remove(clientID string) error {
	err := s.Store.Remove(clientID)
	if atomic.LoadInt32(&failRemove) == 1 {
		return errInjectedS
	}
	return err
}

// Set: `api failset 1` makes it fail WITHOUT storing (a write the backend rejected)
func (s *faultySessions) Set(sess *gmqtt.Session) error {
	if atomic.LoadInt32(&failSet) == 1 || hit() {
		return errInjectedS
	}
	return s.Store.Set(sess)
}

func (p *faultyPE) NewSessionStore(c config.Config) (sessstore.Store, error) {
	st, err := p.Persistence.NewSessionStore(c)
	if err != nil {
		return nil, err
	}
	return &faultySessions{st}, nil
}


func init() {
	optionHooks = append(optionHooks, func(d *brokerDrv, m map[string]string) []server.Options {
		atomic.StoreInt32(&failRemove, 0)
		atomic.StoreInt32(&failSet, 0)
		atomic.StoreInt32(&failAt, 0)
		if m["pe"] != "faulty" {
			return nil
		}
		faultyOnce.Do(func() {
			server.RegisterPersistenceFactory("veriffaulty", func(c config.Config) (server.Persistence, error) {
				pe, err := persistence.NewMemory(c)
				if err != nil {
					return nil, err
				}
				return &faultyPE{pe}, nil
			})
		})
		return []server.Options{server.VerifWithPersistenceType("veriffaulty")}
	})
	apiOps["failat"] = func(d *brokerDrv, pos []string, m map[string]string) string {
		k := 0
		if len(pos) > 1 {
			k = drv.Atoi(pos[1])
		}
		atomic.StoreInt32(&failAt, int32(k))
		return d.collect("")
	}
	apiOps["failset"] = func(d *brokerDrv, pos []string, m map[string]string) string {
		v := int32(0)
		if len(pos) > 1 && pos[1] == "1" {
			v = 1
		}
		atomic.StoreInt32(&failSet, v)
		return d.collect("")
	}
	apiOps["failremove"] = func(d *brokerDrv, pos []string, m map[string]string) string {
		v := int32(0)
		if len(pos) > 1 && pos[1] == "1" {
			v = 1
		}
		atomic.StoreInt32(&failRemove, v)
		return d.collect("")
	}
}
