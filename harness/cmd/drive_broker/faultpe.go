package main

// `new … pe=faulty`: the memory persistence behind a wrapper whose session store can be told to REPORT A FAILURE from
// Remove (`api failremove 1`) — after doing the removal, like a backend whose reply is lost: the stored state stays what
// the model says, the broker sees an error return at that point. Whatever else has to happen when a session ends
// (queue and unack clean-up, UnsubscribeAll — leaving every share group) must happen regardless.

import (
	"errors"
	"sync"
	"sync/atomic"

	"github.com/DrmagicE/gmqtt/config"
	"github.com/DrmagicE/gmqtt/persistence"
	sessstore "github.com/DrmagicE/gmqtt/persistence/session"
	"github.com/DrmagicE/gmqtt/server"
)

var (
	faultyOnce   sync.Once
	failRemove   int32
	errInjectedS = errors.New("verif: injected session store failure")
)

type faultyPE struct{ server.Persistence }

type faultySessions struct{ sessstore.Store }

func (s *faultySessions) Remove(clientID string) error {
	err := s.Store.Remove(clientID)
	if atomic.LoadInt32(&failRemove) == 1 {
		return errInjectedS
	}
	return err
}

func (p *faultyPE) NewSessionStore(c config.Config) (sessstore.Store, error) {
	st, err := p.Persistence.NewSessionStore(c)
	if err != nil {
		return nil, err
	}
	return &faultySessions{st}, nil
}


func init() {
	optionHooks = append(optionHooks, func(d *brokerDrv, m map[string]string) []server.Options {
		atomic.StoreInt32(&failRemove, 0)
		if m["pe"] != "faulty" {
			return nil
		}
		faultyOnce.Do(func() {
			server.RegisterPersistenceFactory("veriffaulty", func(c config.Config) (server.Persistence, error) {
				pe, err := persistence.NewMemory(c)
				if err != nil {
					return nil, err
				}
				return &faultyPE{pe}, nil
			})
		})
		return []server.Options{server.VerifWithPersistenceType("veriffaulty")}
	})
	apiOps["failremove"] = func(d *brokerDrv, pos []string, m map[string]string) string {
		v := int32(0)
		if len(pos) > 1 && pos[1] == "1" {
			v = 1
		}
		atomic.StoreInt32(&failRemove, v)
		return d.collect("")
	}
}
