package main

// Recording / verdict plugins for property C14 (hook decisions are enforced; wrappers compose in configured order).
//
// `new … order=b,a,c base=1` loads the registered plugins vh_b, vh_a, vh_c through config.PluginOrder (the same path
// as a configured `plugin_order`) and, with base=1, installs recording base hooks through server.WithHook.
// Every plugin exposes EVERY wrapper kind: its server.HookWrapper value is built by reflection over the struct's
// fields, so a wrapper kind added to the broker later is picked up automatically (and a field that is not of the
// shape `func(H) H` makes `new` fail loudly).
//
// Each wrapper logs `>plugin` before and `<plugin` after calling the next hook and never short-circuits; the base hook
// logs `*`. Entries are grouped per goroutine into events `Kind(detail):>b>a*<a<b`.
// Scripted verdicts (`hook <Kind> <who> k=v …`) are applied by the plugin (or `base`) named `who` after the inner
// hooks returned.

import (
	"context"
	"errors"
	"fmt"
	"net"
	"os"
	"reflect"
	"runtime"
	"sort"
	"strconv"
	"strings"
	"sync"

	"github.com/DrmagicE/gmqtt"
	"github.com/DrmagicE/gmqtt/config"
	"github.com/DrmagicE/gmqtt/persistence/subscription"
	"github.com/DrmagicE/gmqtt/pkg/codes"
	"github.com/DrmagicE/gmqtt/pkg/packets"
	"github.com/DrmagicE/gmqtt/server"
)

var vhNames = []string{"a", "b", "c"}

type verdict struct {
	who string
	kv  map[string]string
}

type hookEvent struct {
	kind   string
	detail string
	seq    strings.Builder
	depth  int
}

type hookRec struct {
	mu       sync.Mutex
	order    []string
	base     bool
	verdicts map[string]*verdict
	events   []*hookEvent
	open     map[int64][]*hookEvent // goroutine id -> stack of events under construction
}

// curRec is the recorder of the broker created by the last `new` line (nil: no hook machinery requested).
var curRec *hookRec

func init() {
	for _, n := range vhNames {
		n := n
		server.RegisterPlugin("vh_"+n, func(cfg config.Config) (server.Plugin, error) {
			if curRec == nil {
				return nil, errors.New("vh plugin without recorder")
			}
			return &vhPlugin{name: n, rec: curRec}, nil
		})
	}
	optionHooks = append(optionHooks, hookOptions)
}

func hookOptions(d *brokerDrv, m map[string]string) []server.Options {
	_, hasOrder := m["order"]
	_, hasPlugins := m["plugins"]
	_, hasBase := m["base"]
	if !hasOrder && !hasPlugins && !hasBase {
		curRec = nil
		return nil
	}
	r := &hookRec{verdicts: map[string]*verdict{}, open: map[int64][]*hookEvent{}, base: geti(m, "base", 0) == 1}
	n := geti(m, "plugins", -1)
	if hasOrder {
		if m["order"] != "" && m["order"] != "~" {
			for _, p := range strings.Split(m["order"], ",") {
				ok := false
				for _, k := range vhNames {
					if k == p {
						ok = true
					}
				}
				if !ok {
					panic("unknown plugin " + p)
				}
				r.order = append(r.order, p)
			}
		}
	} else {
		for i := 0; i < n && i < len(vhNames); i++ {
			r.order = append(r.order, vhNames[i])
		}
	}
	if n >= 0 && n != len(r.order) {
		panic("plugins= does not agree with order=")
	}
	curRec = r
	names := make([]string, len(r.order))
	for i, p := range r.order {
		names[i] = "vh_" + p
	}
	opts := []server.Options{server.VerifWithPluginOrder(names...)}
	if r.base {
		opts = append(opts, server.WithHook(r.baseHooks()))
	}
	return opts
}

type vhPlugin struct {
	name string
	rec  *hookRec
}

func (p *vhPlugin) Load(service server.Server) error { return nil }
func (p *vhPlugin) Unload() error                    { return nil }
func (p *vhPlugin) Name() string                     { return "vh_" + p.name }
func (p *vhPlugin) HookWrapper() server.HookWrapper  { return p.rec.buildWrapper(p.name) }

// ---------------------------------------------------------------- reflection-built wrappers and base hooks

// buildWrapper fills EVERY field of server.HookWrapper with a recording wrapper.
func (r *hookRec) buildWrapper(plugin string) server.HookWrapper {
	var hw server.HookWrapper
	v := reflect.ValueOf(&hw).Elem()
	t := v.Type()
	for i := 0; i < t.NumField(); i++ {
		f := t.Field(i)
		ft := f.Type
		if ft.Kind() != reflect.Func || ft.NumIn() != 1 || ft.NumOut() != 1 || ft.In(0) != ft.Out(0) || ft.In(0).Kind() != reflect.Func ||
			!strings.HasSuffix(f.Name, "Wrapper") {
			panic("HookWrapper." + f.Name + " is not of the shape func(H) H: the recording plugin cannot expose it")
		}
		kind := strings.TrimSuffix(f.Name, "Wrapper")
		hookT := ft.In(0)
		w := reflect.MakeFunc(ft, func(a []reflect.Value) []reflect.Value {
			inner := a[0]
			h := reflect.MakeFunc(hookT, func(args []reflect.Value) []reflect.Value {
				r.enter(">"+plugin, kind, args)
				res := inner.Call(args)
				r.apply(plugin, kind, hookT, args, res)
				r.leave("<" + plugin)
				return res
			})
			return []reflect.Value{h}
		})
		v.Field(i).Set(w)
	}
	// completeness: no field may be left nil
	for i := 0; i < t.NumField(); i++ {
		if v.Field(i).IsNil() {
			panic("HookWrapper." + t.Field(i).Name + " left nil")
		}
	}
	return hw
}

// baseHooks fills every (embedded) field of server.Hooks with a recording base hook returning the neutral verdict.
func (r *hookRec) baseHooks() server.Hooks {
	var hs server.Hooks
	v := reflect.ValueOf(&hs).Elem()
	t := v.Type()
	for i := 0; i < t.NumField(); i++ {
		f := t.Field(i)
		ft := f.Type
		if ft.Kind() != reflect.Func {
			panic("Hooks." + f.Name + " is not a func")
		}
		kind := f.Name
		h := reflect.MakeFunc(ft, func(args []reflect.Value) []reflect.Value {
			r.enter("*", kind, args)
			res := make([]reflect.Value, ft.NumOut())
			for k := range res {
				ot := ft.Out(k)
				switch {
				case ot.Kind() == reflect.Bool:
					res[k] = reflect.ValueOf(true)
				case ot.Kind() == reflect.Ptr && ot.Elem().Kind() == reflect.Struct:
					res[k] = reflect.New(ot.Elem())
				default:
					res[k] = reflect.Zero(ot)
				}
			}
			r.apply("base", kind, ft, args, res)
			r.leave("")
			return res
		})
		v.Field(i).Set(h)
	}
	return hs
}

func gid() int64 {
	var buf [64]byte
	n := runtime.Stack(buf[:], false)
	f := strings.Fields(string(buf[:n]))
	if len(f) >= 2 {
		id, _ := strconv.ParseInt(f[1], 10, 64)
		return id
	}
	return 0
}

func (r *hookRec) enter(mark, kind string, args []reflect.Value) {
	g := gid()
	r.mu.Lock()
	defer r.mu.Unlock()
	st := r.open[g]
	var ev *hookEvent
	if len(st) > 0 && st[len(st)-1].kind == kind {
		ev = st[len(st)-1]
	} else {
		ev = &hookEvent{kind: kind, detail: hookDetail(kind, args)}
		r.events = append(r.events, ev)
		r.open[g] = append(st, ev)
	}
	ev.seq.WriteString(mark)
	ev.depth++
}

func (r *hookRec) leave(mark string) {
	g := gid()
	r.mu.Lock()
	defer r.mu.Unlock()
	st := r.open[g]
	if len(st) == 0 {
		return
	}
	ev := st[len(st)-1]
	ev.seq.WriteString(mark)
	ev.depth--
	if ev.depth <= 0 {
		if len(st) == 1 {
			delete(r.open, g)
		} else {
			r.open[g] = st[:len(st)-1]
		}
	}
}

func cleanTok(s string) string {
	if s == "" {
		return "~"
	}
	return strings.NewReplacer(" ", "_", ",", ";", "(", "[", ")", "]").Replace(s)
}

func msgDetail(m *gmqtt.Message) string {
	if m == nil {
		return "nil"
	}
	return fmt.Sprintf("%s/q%d/r%d/%s", cleanTok(m.Topic), m.QoS, b2i(m.Retained), payloadTag(m.Payload))
}

// hookDetail renders the arguments of a hook call canonically (what the event is about).
func hookDetail(kind string, args []reflect.Value) string {
	var parts []string
	cid := ""
	for _, a := range args {
		if !a.IsValid() || !a.CanInterface() {
			continue
		}
		switch x := a.Interface().(type) {
		case server.Client:
			if x != nil {
				cid = x.ClientOptions().ClientID
				parts = append(parts, "%CID%")
			}
		case net.Conn:
		case string:
			parts = append(parts, cleanTok(x))
		case *server.ConnectRequest:
			if x != nil && x.Connect != nil {
				if cid == "" {
					cid = string(x.Connect.ClientID)
				}
			}
		case *server.SubscribeRequest:
			if x != nil && x.Subscribe != nil {
				var ts []string
				for _, t := range x.Subscribe.Topics {
					ts = append(ts, fmt.Sprintf("%s/q%d", cleanTok(t.Name), t.Qos))
				}
				parts = append(parts, strings.Join(ts, "+"))
			}
		case *server.UnsubscribeRequest:
			if x != nil && x.Unsubscribe != nil {
				var ts []string
				for _, t := range x.Unsubscribe.Topics {
					ts = append(ts, cleanTok(t))
				}
				parts = append(parts, strings.Join(ts, "+"))
			}
		case *gmqtt.Subscription:
			if x != nil {
				parts = append(parts, fmt.Sprintf("%s/q%d", cleanTok(x.GetFullTopicName()), x.QoS))
			}
		case *server.MsgArrivedRequest:
			if x != nil {
				parts = append(parts, msgDetail(x.Message))
			}
		case *server.WillMsgRequest:
			if x != nil {
				parts = append(parts, msgDetail(x.Message))
			}
		case *gmqtt.Message:
			if kind == "OnDelivered" || kind == "OnMsgDropped" {
				// the topic may have been replaced by an alias and the QoS is the delivery's; keep the payload identity
				if x != nil {
					parts = append(parts, payloadTag(x.Payload))
				}
			} else {
				parts = append(parts, msgDetail(x))
			}
		case *packets.Auth:
			if x != nil {
				parts = append(parts, fmt.Sprintf("code%d", x.Code))
			}
		case server.SessionTerminatedReason:
			parts = append(parts, fmt.Sprintf("reason%d", byte(x)))
		}
	}
	s := strings.Join(parts, ",")
	return strings.Replace(s, "%CID%", cleanTok(cid), 1)
}

func errVal(e error) reflect.Value { return reflect.ValueOf(&e).Elem() }

func codeErr(kv map[string]string) error {
	if v, ok := kv["code"]; ok {
		n, _ := strconv.Atoi(v)
		return &codes.Error{Code: byte(n)}
	}
	if kv["plain"] == "1" {
		return errors.New("denied by hook")
	}
	return nil
}

// pairs parses "t/1:135,t/2:128" into an ordered list of (name, value).
func pairs(s string) (ks []string, vs []string) {
	if s == "" {
		return
	}
	for _, p := range strings.Split(s, ",") {
		i := strings.LastIndexByte(p, ':')
		if i < 0 {
			continue
		}
		ks = append(ks, unesc(p[:i]))
		vs = append(vs, p[i+1:])
	}
	return
}

func rewriteMsg(kv map[string]string, m *gmqtt.Message) (*gmqtt.Message, bool) {
	_, ht := kv["t"]
	_, hp := kv["tag"]
	_, hq := kv["q"]
	_, hr := kv["r"]
	if !(ht || hp || hq || hr) || m == nil {
		return m, false
	}
	out := m
	if kv["inplace"] != "1" {
		out = m.Copy()
	}
	if ht {
		out.Topic = unesc(kv["t"])
	}
	if hp {
		out.Payload = []byte(unesc(kv["tag"]))
	}
	if hq {
		n, _ := strconv.Atoi(kv["q"])
		out.QoS = byte(n)
	}
	if hr {
		out.Retained = kv["r"] == "1"
	}
	return out, true
}

// apply lets `who` (a plugin name or "base") impose the scripted verdict of this hook kind on the call's request
// objects (args) and results (res), after the inner hooks have returned.
func (r *hookRec) apply(who, kind string, ht reflect.Type, args, res []reflect.Value) {
	r.mu.Lock()
	v := r.verdicts[kind]
	r.mu.Unlock()
	if v == nil || v.who != who {
		return
	}
	kv := v.kv
	arg := func(i int) interface{} {
		if i < len(args) && args[i].IsValid() && args[i].CanInterface() {
			return args[i].Interface()
		}
		return nil
	}
	switch kind {
	case "OnAccept":
		if kv["accept"] == "0" && len(res) == 1 && res[0].Kind() == reflect.Bool {
			res[0] = reflect.ValueOf(false)
		}
	case "OnBasicAuth":
		if e := codeErr(kv); e != nil {
			res[0] = errVal(e)
		}
	case "OnEnhancedAuth":
		if e := codeErr(kv); e != nil {
			res[0] = reflect.Zero(ht.Out(0))
			res[1] = errVal(e)
		} else if kv["nilresp"] == "1" {
			res[0] = reflect.Zero(ht.Out(0))
		} else if kv["continue"] == "1" {
			res[0] = reflect.ValueOf(&server.EnhancedAuthResponse{Continue: true, OnAuth: r.onAuth, AuthData: []byte("challenge")})
		}
	case "OnReAuth":
		if e := codeErr(kv); e != nil {
			res[0] = reflect.Zero(ht.Out(0))
			res[1] = errVal(e)
		} else if kv["nilresp"] == "1" {
			res[0] = reflect.Zero(ht.Out(0))
		} else if kv["continue"] == "1" {
			res[0] = reflect.ValueOf(&server.AuthResponse{Continue: true, AuthData: []byte("more")})
		}
	case "OnSubscribe":
		req, _ := arg(2).(*server.SubscribeRequest)
		if req != nil {
			ks, vs := pairs(kv["rej"])
			for i := range ks {
				n, _ := strconv.Atoi(vs[i])
				req.Reject(ks[i], &codes.Error{Code: byte(n)})
			}
			ks, vs = pairs(kv["grant"])
			for i := range ks {
				n, _ := strconv.Atoi(vs[i])
				req.GrantQoS(ks[i], byte(n))
			}
		}
		if e := codeErr(kv); e != nil {
			res[0] = errVal(e)
		}
	case "OnUnsubscribe":
		req, _ := arg(2).(*server.UnsubscribeRequest)
		if req != nil {
			ks, vs := pairs(kv["rej"])
			for i := range ks {
				n, _ := strconv.Atoi(vs[i])
				req.Reject(ks[i], &codes.Error{Code: byte(n)})
			}
			ks, vs = pairs(kv["ren"])
			for i := range ks {
				if u := req.Unsubs[ks[i]]; u != nil {
					u.TopicName = unesc(vs[i])
				}
			}
		}
		if e := codeErr(kv); e != nil {
			res[0] = errVal(e)
		}
	case "OnMsgArrived":
		req, _ := arg(2).(*server.MsgArrivedRequest)
		if req != nil {
			if m, ok := rewriteMsg(kv, req.Message); ok {
				req.Message = m
			}
			if kv["drop"] == "1" {
				req.Drop()
			}
		}
		if e := codeErr(kv); e != nil {
			res[0] = errVal(e)
		}
	case "OnWillPublish":
		req, _ := arg(2).(*server.WillMsgRequest)
		if req != nil {
			if m, ok := rewriteMsg(kv, req.Message); ok {
				req.Message = m
			}
			if kv["drop"] == "1" {
				req.Drop()
			}
		}
	}
}

// onAuth is the OnAuth callback handed out by an OnEnhancedAuth `continue` verdict (it is not a wrapped hook kind);
// scripted by `hook OnAuth base continue=1 | code=N | nilresp=1`, success otherwise.
func (r *hookRec) onAuth(ctx context.Context, client server.Client, req *server.AuthRequest) (*server.AuthResponse, error) {
	args := []reflect.Value{reflect.ValueOf(client), reflect.ValueOf(req.Auth)}
	r.enter("*", "OnAuth", args)
	defer r.leave("")
	r.mu.Lock()
	v := r.verdicts["OnAuth"]
	r.mu.Unlock()
	if v != nil {
		if e := codeErr(v.kv); e != nil {
			return nil, e
		}
		if v.kv["nilresp"] == "1" {
			return nil, nil
		}
		if v.kv["continue"] == "1" {
			return &server.AuthResponse{Continue: true, AuthData: []byte("more")}, nil
		}
	}
	return &server.AuthResponse{}, nil
}

func subscriptionAll() subscription.IterationOptions {
	return subscription.IterationOptions{Type: subscription.TypeAll}
}

// ---------------------------------------------------------------- ops

func init() {
	extraOps["hook"] = hookOp
	extraOps["hooklog"] = hooklogOp
	extraOps["auth"] = authOp
	apiOps["snapshot"] = snapshotOp
}

// hook <Kind> <who> k=v …   set the verdict of a hook kind (sticky)
// hook <Kind> clear         remove it;  hook clear  removes all
func hookOp(d *brokerDrv, pos []string, m map[string]string) string {
	r := curRec
	if r == nil {
		return "nohooks"
	}
	r.mu.Lock()
	defer r.mu.Unlock()
	if len(pos) == 1 && pos[0] == "clear" {
		r.verdicts = map[string]*verdict{}
		return "ok"
	}
	if len(pos) < 2 {
		return "bad-op"
	}
	if pos[1] == "clear" {
		delete(r.verdicts, pos[0])
		return "ok"
	}
	r.verdicts[pos[0]] = &verdict{who: pos[1], kv: m}
	return "ok"
}

// hooklog prints the events recorded since the last call (in order of their first entry) and clears the log.
func hooklogOp(d *brokerDrv, pos []string, m map[string]string) string {
	r := curRec
	if r == nil {
		return "nohooks"
	}
	r.mu.Lock()
	defer r.mu.Unlock()
	var out []string
	for _, ev := range r.events {
		s := ev.kind + "(" + ev.detail + "):" + ev.seq.String()
		if ev.depth > 0 {
			s += "!open"
		}
		out = append(out, s)
	}
	r.events = nil
	if len(out) == 0 {
		return "-"
	}
	return strings.Join(out, " ")
}

// auth <conn> code=<0|24|25> [am=<method>] [ad=<data>]   send an AUTH packet
func authOp(d *brokerDrv, pos []string, m map[string]string) string {
	if len(pos) < 1 {
		return "bad-op"
	}
	c := d.b.Conns[pos[0]]
	if c == nil || c.EOF() {
		return "no-conn"
	}
	ap := &packets.Auth{Code: byte(geti(m, "code", 24)), Properties: &packets.Properties{}}
	if v, ok := m["am"]; ok {
		ap.Properties.AuthMethod = []byte(unesc(v))
	}
	if v, ok := m["ad"]; ok {
		ap.Properties.AuthData = []byte(unesc(v))
	}
	if err := c.Send(ap); err != nil {
		if os.Getenv("VERIF_LOG") != "" {
			fmt.Fprintln(os.Stderr, "auth send:", err)
		}
		return "send-failed " + d.collect("")
	}
	return d.collect("")
}

// api snapshot: sessions (with will marker), subscriptions, retained messages, pending delayed wills, table sizes.
func snapshotOp(d *brokerDrv, pos []string, m map[string]string) string {
	srv := d.b.Srv
	var sess, subs, ret []string
	_ = srv.ClientService().IterateSession(func(s *gmqtt.Session) bool {
		x := cleanTok(s.ClientID)
		if s.Will != nil {
			x += "!" + payloadTag(s.Will.Payload)
		}
		sess = append(sess, x)
		return true
	})
	srv.SubscriptionService().Iterate(func(clientID string, sub *gmqtt.Subscription) bool {
		subs = append(subs, fmt.Sprintf("%s:%s:%d", cleanTok(clientID), cleanTok(sub.GetFullTopicName()), sub.QoS))
		return true
	}, subscriptionAll())
	srv.RetainedService().Iterate(func(msg *gmqtt.Message) bool {
		ret = append(ret, fmt.Sprintf("%s:%d:%s", cleanTok(msg.Topic), msg.QoS, payloadTag(msg.Payload)))
		return true
	})
	sort.Strings(sess)
	sort.Strings(subs)
	sort.Strings(ret)
	j := func(xs []string) string {
		if len(xs) == 0 {
			return "~"
		}
		return strings.Join(xs, "+")
	}
	on, off, wills, qs, uas := srv.VerifCounts()
	return fmt.Sprintf("sess=%s subs=%s ret=%s online=%d offline=%d wills=%d queues=%d unacks=%d", j(sess), j(subs), j(ret), on, off, wills, qs, uas)
}
