package main

// Lifecycle ops for property C15 (goroutine / channel protocol of a connection, Stop). Mirror: lean/Driver/Lifecycle.lean.
//
//	new … lc=1                 registers a tiny plugin counting Load / Unload / OnStop and answering enhanced
//	                           authentication (CONNECT with Authentication Method: AUTH(continue) until the client
//	                           sends Authentication Data "done")
//	rawconn <name> v=4|5 noread=1   dial without sending CONNECT (noread: the scripted peer never reads — a stalled peer)
//	burst <conn> <tok>…        several packets in ONE write
//	par <conn>:<tok>+<tok>… …  one burst per connection, all written at the same moment
//	census                     broker goroutines by kind, and those parked in a wait nothing will ever end
//	lclose <conn>              the scripted peer closes its socket (allowed on a connection the broker has closed)
//	release                    handlers held in the OnSubscribe hook (SUBSCRIBE to lc/hold) go on
//	lcev                       `ev=<hook events in order> subs=<subscriptions in the store>`; events: enter:<cid> exit:<cid>
//	                           (the held handler), closed:<cid> (OnClosed), onstop; a client id hc… makes the OnClosed hook wait
//	                           for `release` too (closed:<cid> … cdone:<cid>): internalClose is then in progress for that long
//	lstop release=1            Stop is called while a handler is held; once the broker is quiescent again the line notes
//	                           whether Stop has already returned (`early=1`), then releases the handler
//	lstop [burst=<conn>:<tok>+…]   Stop (3 s context); then census and plugin counters BEFORE the scripted peers are closed
//
// packet tokens:  C:<cid>:<v>  CONNECT (cid ~ = empty)      CA:<cid>  v5 CONNECT with an Authentication Method
//	AU:more AU:done  AUTH(0x18) with that data    PING  DISC  SUB:<pid>:<topic>  PUB0:<topic>  PUB1:<pid>:<topic>
//	ERR  PUBLISH with RETAIN=1 (refused by the handler when the broker runs with ret=0)
//	MAL  two bytes no decoder accepts (packet type 0)       X:<hex>  raw bytes

import (
	"bytes"
	"context"
	"encoding/hex"
	"fmt"
	"runtime"
	"sort"
	"strings"
	"sync"
	"sync/atomic"
	"time"

	"github.com/DrmagicE/gmqtt/pkg/codes"
	"github.com/DrmagicE/gmqtt/pkg/packets"
	"github.com/DrmagicE/gmqtt/server"

	"verifharness/internal/drv"
	"verifharness/internal/wire"
)

type lcPlugin struct {
	load, unload, onStop int32

	mu     sync.Mutex
	gate   chan struct{} // a SUBSCRIBE to lc/hold keeps its handler inside the OnSubscribe hook until `release`
	events []string      // enter:<cid> exit:<cid> (the held handler), closed:<cid> (OnClosed), onstop
}

func (p *lcPlugin) log(e string) {
	p.mu.Lock()
	p.events = append(p.events, e)
	p.mu.Unlock()
}

func (p *lcPlugin) curGate() chan struct{} {
	p.mu.Lock()
	defer p.mu.Unlock()
	return p.gate
}

// release lets every handler that is waiting in the hook go on; later ones wait for the next release
func (p *lcPlugin) release() {
	p.mu.Lock()
	close(p.gate)
	p.gate = make(chan struct{})
	p.mu.Unlock()
}

func (p *lcPlugin) evString() string {
	p.mu.Lock()
	defer p.mu.Unlock()
	if len(p.events) == 0 {
		return "-"
	}
	return strings.Join(p.events, ",")
}

var lcCur *lcPlugin

func (p *lcPlugin) Load(service server.Server) error { atomic.AddInt32(&p.load, 1); return nil }
func (p *lcPlugin) Unload() error                    { atomic.AddInt32(&p.unload, 1); return nil }
func (p *lcPlugin) Name() string                     { return "verif_lifecycle" }
func (p *lcPlugin) HookWrapper() server.HookWrapper {
	return server.HookWrapper{
		OnStopWrapper: func(pre server.OnStop) server.OnStop {
			return func(ctx context.Context) {
				atomic.AddInt32(&p.onStop, 1)
				p.log("onstop")
				pre(ctx)
			}
		},
		OnSubscribeWrapper: func(pre server.OnSubscribe) server.OnSubscribe {
			return func(ctx context.Context, client server.Client, req *server.SubscribeRequest) error {
				for _, t := range req.Subscribe.Topics {
					if t.Name == "lc/hold" {
						cid := client.ClientOptions().ClientID
						p.log("enter:" + cid)
						<-p.curGate()
						p.log("exit:" + cid)
						break
					}
				}
				return pre(ctx, client, req)
			}
		},
		OnClosedWrapper: func(pre server.OnClosed) server.OnClosed {
			return func(ctx context.Context, client server.Client, err error) {
				cid := client.ClientOptions().ClientID
				p.log("closed:" + cid)
				if strings.HasPrefix(cid, "hc") {
					// the tear-down of this connection (internalClose: unregister, will, session end, `closed`) waits here
					<-p.curGate()
					p.log("cdone:" + cid)
				}
				pre(ctx, client, err)
			}
		},
		OnEnhancedAuthWrapper: func(pre server.OnEnhancedAuth) server.OnEnhancedAuth {
			return func(ctx context.Context, client server.Client, req *server.ConnectRequest) (*server.EnhancedAuthResponse, error) {
				return &server.EnhancedAuthResponse{
					Continue: true,
					AuthData: []byte("go-on"),
					OnAuth: func(ctx context.Context, client server.Client, req *server.AuthRequest) (*server.AuthResponse, error) {
						if string(req.Auth.Properties.AuthData) == "done" {
							return &server.AuthResponse{Continue: false}, nil
						}
						return &server.AuthResponse{Continue: true, AuthData: []byte("go-on")}, nil
					},
				}, nil
			}
		},
	}
}

func init() {
	optionHooks = append(optionHooks, func(d *brokerDrv, m map[string]string) []server.Options {
		lcCur = nil
		if m["lc"] != "1" {
			return nil
		}
		lcCur = &lcPlugin{gate: make(chan struct{})}
		return []server.Options{server.WithPlugin(lcCur)}
	})
	extraOps["rawconn"] = lcRawconn
	extraOps["burst"] = lcBurst
	extraOps["par"] = lcPar
	extraOps["census"] = func(d *brokerDrv, pos []string, m map[string]string) string { lcHurry(d); return lcCensus() }
	extraOps["lstop"] = lcStop
	extraOps["release"] = func(d *brokerDrv, pos []string, m map[string]string) string {
		if lcCur == nil {
			return "bad-op"
		}
		lcHurry(d)
		lcCur.release()
		return d.collect("")
	}
	extraOps["lcev"] = func(d *brokerDrv, pos []string, m map[string]string) string {
		if lcCur == nil {
			return "bad-op"
		}
		return fmt.Sprintf("ev=%s subs=%d", lcCur.evString(), d.b.Srv.StatsManager().GetGlobalStats().SubscriptionStats.SubscriptionsCurrent)
	}
	extraOps["lclose"] = func(d *brokerDrv, pos []string, m map[string]string) string {
		// like `close`, but also allowed on a connection the broker has already closed
		if len(pos) < 1 || d.b.Conns[pos[0]] == nil {
			return "bad-op"
		}
		lcHurry(d)
		d.b.Conns[pos[0]].Close()
		return d.collect("")
	}
}

// lcHurry: once an op has reported HANG the broker is wedged for good (or the machine hopelessly slow); the remaining ops
// of the script only document the state, they need not wait the full quiescence timeout again.
func lcHurry(d *brokerDrv) {
	if d.b != nil && d.b.Hang && d.qTimeout > 300*time.Millisecond {
		d.qTimeout = 300 * time.Millisecond
	}
}

func lcRawconn(d *brokerDrv, pos []string, m map[string]string) string {
	lcHurry(d)
	if len(pos) < 1 {
		return "bad-op"
	}
	c, err := d.b.Dial(pos[0])
	if err != nil {
		return "dial-failed"
	}
	c.Version = byte(geti(m, "v", 4))
	c.ClientID = unesc(m["cid"])
	if geti(m, "noread", 0) == 0 {
		c.StartReader()
	}
	return d.collect("")
}

func lcEncode(c *wire.Conn, toks []string) ([]byte, bool) {
	var b bytes.Buffer
	for _, t := range toks {
		f := strings.Split(t, ":")
		var p packets.Packet
		switch f[0] {
		case "C":
			if len(f) < 3 {
				return nil, false
			}
			v := byte(drv.Atoi(f[2]))
			cp := &packets.Connect{Version: v, ProtocolLevel: v, ProtocolName: []byte("MQTT"), CleanStart: true, ClientID: []byte(unesc(f[1]))}
			if v == 3 {
				cp.ProtocolName = []byte("MQIsdp")
			}
			if v == 5 {
				cp.Properties = &packets.Properties{}
			}
			p = cp
		case "CA":
			if len(f) < 2 {
				return nil, false
			}
			p = &packets.Connect{Version: 5, ProtocolLevel: 5, ProtocolName: []byte("MQTT"), CleanStart: true, ClientID: []byte(unesc(f[1])),
				Properties: &packets.Properties{AuthMethod: []byte("m"), AuthData: []byte("hello")}}
		case "AU":
			if len(f) < 2 {
				return nil, false
			}
			p = &packets.Auth{Code: codes.ContinueAuthentication, Properties: &packets.Properties{AuthMethod: []byte("m"), AuthData: []byte(f[1])}}
		case "PING":
			p = &packets.Pingreq{}
		case "DISC":
			dp := &packets.Disconnect{Version: c.Version}
			if c.Version == 5 {
				dp.Properties = &packets.Properties{}
			}
			p = dp
		case "SUB":
			if len(f) < 3 {
				return nil, false
			}
			sp := &packets.Subscribe{Version: c.Version, PacketID: packets.PacketID(drv.Atoi(f[1])), Topics: []packets.Topic{{Name: f[2]}}}
			if c.Version == 5 {
				sp.Properties = &packets.Properties{}
			}
			p = sp
		case "PUB0", "PUB1", "ERR":
			pp := &packets.Publish{Version: c.Version, Payload: []byte("x")}
			switch f[0] {
			case "PUB0":
				if len(f) < 2 {
					return nil, false
				}
				pp.TopicName = []byte(f[1])
			case "PUB1":
				if len(f) < 3 {
					return nil, false
				}
				pp.Qos, pp.PacketID, pp.TopicName = 1, packets.PacketID(drv.Atoi(f[1])), []byte(f[2])
			case "ERR":
				pp.TopicName, pp.Retain = []byte("lc/err"), true
			}
			if c.Version == 5 {
				pp.Properties = &packets.Properties{}
			}
			p = pp
		case "MAL":
			b.Write([]byte{0x00, 0x00})
			continue
		case "X":
			if len(f) < 2 {
				return nil, false
			}
			bs, err := hex.DecodeString(f[1])
			if err != nil {
				return nil, false
			}
			b.Write(bs)
			continue
		default:
			return nil, false
		}
		if err := p.Pack(&b); err != nil {
			return nil, false
		}
	}
	return b.Bytes(), true
}

func lcBurst(d *brokerDrv, pos []string, m map[string]string) string {
	if len(pos) < 2 {
		return "bad-op"
	}
	lcHurry(d)
	c := d.b.Conns[pos[0]]
	if c == nil {
		return "no-conn"
	}
	bs, ok := lcEncode(c, pos[1:])
	if !ok {
		return "bad-op"
	}
	if err := c.SendRaw(bs); err != nil {
		return "send-failed " + d.collect("")
	}
	return d.collect("")
}

type lcWrite struct {
	c  *wire.Conn
	bs []byte
}

func lcParse(d *brokerDrv, spec string) (*lcWrite, string) {
	i := strings.IndexByte(spec, ':')
	if i < 0 {
		return nil, "bad-op"
	}
	c := d.b.Conns[spec[:i]]
	if c == nil {
		return nil, "no-conn"
	}
	bs, ok := lcEncode(c, strings.Split(spec[i+1:], "+"))
	if !ok {
		return nil, "bad-op"
	}
	return &lcWrite{c, bs}, ""
}

// lcPar: all bursts are written at the same moment by one goroutine each.
func lcPar(d *brokerDrv, pos []string, m map[string]string) string {
	lcHurry(d)
	var ws []*lcWrite
	for _, spec := range pos {
		w, e := lcParse(d, spec)
		if w == nil {
			return e
		}
		ws = append(ws, w)
	}
	start := make(chan struct{})
	var wg sync.WaitGroup
	for _, w := range ws {
		wg.Add(1)
		go func(w *lcWrite) {
			defer wg.Done()
			<-start
			_ = w.c.SendRaw(w.bs)
		}(w)
	}
	close(start)
	wg.Wait()
	return d.collect("")
}

var lcKinds = []struct{ frame, name string }{
	{"server.(*client).readLoop(", "read"},
	{"server.(*client).writeLoop(", "write"},
	{"server.(*client).readHandle(", "handle"},
	{"server.(*client).pollMessageHandler(", "poll"},
	{"server.(*client).serve(", "serve"},
}

var lcOK = map[string]bool{"select": true, "chan receive": true, "sync.Cond.Wait": true, "IO wait": true, "sync.WaitGroup.Wait": true}

// lcCensus: `serve=N read=N write=N handle=N poll=N stuck=<kind:state,…|->`. A goroutine is reported as stuck when it is
// parked in a state that no input from a peer can end (`chan send`: client.in / client.out full with no receiver left,
// `sync.Mutex.Lock` / `sync.Once`: errOnce held by a goroutine that is itself blocked).
func lcCensus() string {
	buf := make([]byte, 1<<20)
	for {
		n := runtime.Stack(buf, true)
		if n < len(buf) {
			buf = buf[:n]
			break
		}
		buf = make([]byte, 2*len(buf))
	}
	count := map[string]int{}
	var stuck []string
	for _, g := range bytes.Split(buf, []byte("\n\n")) {
		s := string(g)
		kind := ""
		for _, k := range lcKinds {
			if strings.Contains(s, k.frame) {
				kind = k.name
				break
			}
		}
		if kind == "" {
			continue
		}
		count[kind]++
		nl := strings.IndexByte(s, '\n')
		if nl < 0 {
			continue
		}
		head := s[:nl]
		lb, rb := strings.IndexByte(head, '['), strings.LastIndexByte(head, ']')
		if lb < 0 || rb < lb {
			continue
		}
		state := head[lb+1 : rb]
		if i := strings.IndexByte(state, ','); i >= 0 {
			state = state[:i]
		}
		if !lcOK[state] {
			stuck = append(stuck, kind+":"+strings.ReplaceAll(state, " ", "_"))
		}
	}
	sort.Strings(stuck)
	st := "-"
	if len(stuck) > 0 {
		st = strings.Join(stuck, ",")
	}
	return fmt.Sprintf("serve=%d read=%d write=%d handle=%d poll=%d stuck=%s", count["serve"], count["read"], count["write"],
		count["handle"], count["poll"], st)
}

// lcStop: Stop with a 3 s context. The facts are taken while the scripted peers still hold their sockets open:
// whatever is left then was left behind by Stop itself.
func lcStop(d *brokerDrv, pos []string, m map[string]string) string {
	var w *lcWrite
	if spec, ok := m["burst"]; ok {
		var e string
		if w, e = lcParse(d, spec); w == nil {
			return e
		}
	}
	lcHurry(d)
	limit := 3 * time.Second
	if d.b.Hang {
		limit = 500 * time.Millisecond // Stop waits for the wedged connection: it will not return
	}
	ctx, cancel := context.WithTimeout(context.Background(), limit)
	defer cancel()
	done := make(chan error, 1)
	start := make(chan struct{})
	var wg sync.WaitGroup
	if w != nil {
		wg.Add(1)
		go func() { defer wg.Done(); <-start; _ = w.c.SendRaw(w.bs) }()
	}
	go func() { <-start; done <- d.b.Srv.Stop(ctx) }()
	close(start)
	early := ""
	if geti(m, "release", 0) == 1 && lcCur != nil {
		// Stop has to wait for the connection whose handler is still inside the hook
		wire.Quiesce(d.qTimeout)
		select {
		case err := <-done:
			done <- err
			early = " early=1"
		default:
			early = " early=0"
		}
		var sv, rd, wr, hd, pl int
		fmt.Sscanf(lcCensus(), "serve=%d read=%d write=%d handle=%d poll=%d", &sv, &rd, &wr, &hd, &pl)
		early += fmt.Sprintf(" held=%d", hd)
		lcCur.release()
	}
	res := "stopped"
	select {
	case err := <-done:
		if err != nil || ctx.Err() != nil {
			res = "stop-timeout"
		}
	case <-time.After(limit + 2*time.Second):
		res = "stop-hang"
	}
	wg.Wait()
	ok, _ := wire.Quiesce(d.qTimeout)
	if !ok {
		res += " HANG"
	}
	census := lcCensus()
	counters := "unload=- onstop=-"
	if lcCur != nil {
		counters = fmt.Sprintf("unload=%d onstop=%d", atomic.LoadInt32(&lcCur.unload), atomic.LoadInt32(&lcCur.onStop))
	}
	got := d.collect("")
	// now release everything the scripted side holds
	for _, c := range d.b.Conns {
		c.Close()
	}
	wire.Quiesce(d.qTimeout)
	d.b = nil
	evs := ""
	if lcCur != nil && geti(m, "release", 0) == 1 {
		evs = " ev=" + lcCur.evString()
	}
	return res + early + " " + counters + evs + " " + census + " " + got
}
