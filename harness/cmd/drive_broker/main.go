// Command drive_broker executes wire-level scenarios against a real in-process gmqtt broker.
// One output line per op line; see DESIGN.md §2.3 and lean/Driver/Broker.lean for the protocol.
package main

import (
	"bytes"
	"encoding/hex"
	"fmt"
	"os"
	"regexp"
	"sort"
	"strconv"
	"strings"
	"time"

	"go.uber.org/zap"

	"github.com/DrmagicE/gmqtt"
	"github.com/DrmagicE/gmqtt/config"
	"github.com/DrmagicE/gmqtt/pkg/packets"
	"github.com/DrmagicE/gmqtt/server"

	"verifharness/internal/drv"
	"verifharness/internal/memnet"
	"verifharness/internal/mqttcli"
	"verifharness/internal/wire"
)

func main() { drv.Main(&brokerDrv{}) }

// inflight publish received from the broker on a session, awaiting acks by the scripted client
type rxEntry struct {
	key   string // the rendered packet with the id masked: canonical tie-break
	op    int
	tag   string
	sids  string
	qos   byte
	id    packets.PacketID
	acked bool // puback / pubrec sent
	comp  bool // pubcomp sent
}

type session struct {
	rx []*rxEntry
}

type brokerDrv struct {
	b        *wire.Broker
	sessions map[string]*session
	opIndex  int
	qTimeout time.Duration
}

func kv(tokens []string) (pos []string, m map[string]string) {
	m = map[string]string{}
	for _, t := range tokens {
		if i := strings.IndexByte(t, '='); i > 0 {
			m[t[:i]] = t[i+1:]
		} else {
			pos = append(pos, t)
		}
	}
	return
}

func geti(m map[string]string, k string, def int) int {
	if v, ok := m[k]; ok {
		n, err := strconv.Atoi(v)
		if err == nil {
			return n
		}
	}
	return def
}

func unesc(s string) string {
	if s == "~" {
		return ""
	}
	return s
}

func (d *brokerDrv) stopOld() {
	if d.b != nil {
		d.b.Stop(3 * time.Second)
		d.b = nil
	}
}

func (d *brokerDrv) newBroker(m map[string]string) string {
	d.stopOld()
	cfg := config.DefaultConfig()
	cfg.Listeners = nil
	cfg.API = config.API{}
	cfg.Log.Level = "error"

	// wdelay=<ms>: the broker's socket writes return that much after the peer has seen the bytes (see memnet)
	memnet.SetWriteReturnDelay(time.Duration(geti(m, "wdelay", 0)) * time.Millisecond)
	q := &cfg.MQTT
	if v, ok := m["mode"]; ok {
		q.DeliveryMode = v
	}
	q.QueueQos0Msg = geti(m, "q0", 1) == 1
	q.MaxQueuedMsg = geti(m, "maxq", 1000)
	q.MaxInflight = uint16(geti(m, "mi", 100))
	q.ReceiveMax = uint16(geti(m, "rm", 100))
	q.TopicAliasMax = uint16(geti(m, "ta", 10))
	q.MaxPacketSize = uint32(geti(m, "mp", int(packets.MaximumSize)))
	q.SessionExpiry = time.Duration(geti(m, "se", 7200)) * time.Second
	q.MessageExpiry = time.Duration(geti(m, "me", 7200)) * time.Second
	q.InflightExpiry = time.Duration(geti(m, "ie", 30)) * time.Second
	q.MaxKeepAlive = uint16(geti(m, "ka", 300))
	q.AllowZeroLenClientID = geti(m, "zl", 1) == 1
	q.MaximumQoS = uint8(geti(m, "qos", 2))
	q.RetainAvailable = geti(m, "ret", 1) == 1
	q.WildcardAvailable = geti(m, "wild", 1) == 1
	q.SubscriptionIDAvailable = geti(m, "subid", 1) == 1
	q.SharedSubAvailable = geti(m, "shared", 1) == 1
	if geti(m, "novalidate", 0) == 0 {
		if err := q.Validate(); err != nil {
			return "invalid-config"
		}
	}
	opts0 := brokerOptions(d, m)
	if os.Getenv("VERIF_LOG") != "" {
		lg, _ := zap.NewDevelopment()
		opts0 = append(opts0, server.WithLogger(lg))
	}
	b, err := wire.NewBroker(cfg, opts0...)
	if err != nil {
		return "err:" + strings.ReplaceAll(err.Error(), " ", "_")
	}
	d.b = b
	d.sessions = map[string]*session{}
	d.opIndex = 0
	d.qTimeout = time.Duration(geti(m, "qt", 20000)) * time.Millisecond
	return "ok"
}

func b2i(b bool) int {
	if b {
		return 1
	}
	return 0
}

func payloadTag(p []byte) string {
	s := string(p)
	if i := strings.IndexByte(s, '.'); i >= 0 {
		s = s[:i]
	}
	if s == "" {
		return "~"
	}
	return s
}

func sidsOf(pk *mqttcli.Packet) string {
	ids := pk.All(0x0B)
	if len(ids) == 0 {
		return "-"
	}
	sort.Slice(ids, func(i, j int) bool { return ids[i] < ids[j] })
	parts := make([]string, len(ids))
	for i, v := range ids {
		parts[i] = strconv.Itoa(int(v))
	}
	return strings.Join(parts, "+")
}

func optProp(pk *mqttcli.Packet, id byte) string {
	if p, ok := pk.Get(id); ok {
		return strconv.FormatUint(uint64(p.Num), 10)
	}
	return "-"
}

func codesStr(cs []byte) string {
	parts := make([]string, len(cs))
	for i, c := range cs {
		parts[i] = strconv.Itoa(int(c))
	}
	return strings.Join(parts, "+")
}

func tok(s []byte) string {
	if len(s) == 0 {
		return "~"
	}
	return strings.ReplaceAll(string(s), " ", "_")
}

// render returns the canonical text of a packet and whether it belongs to the poll-loop stream (P).
func render(x *mqttcli.Packet, inConnOp bool) (string, bool) {
	switch x.Type {
	case mqttcli.CONNACK:
		s := fmt.Sprintf("connack(sp=%d,code=%d", b2i(x.SessionPresent), x.Code)
		if x.HasProps {
			s += fmt.Sprintf(",se=%s,rm=%s,ta=%s,mp=%s,ka=%s", optProp(x, 0x11), optProp(x, 0x21), optProp(x, 0x22), optProp(x, 0x27), optProp(x, 0x13))
		}
		return s + ")", false
	case mqttcli.PUBLISH:
		return fmt.Sprintf("publish(t=%s,q=%d,r=%d,d=%d,id=%d,p=%s,n=%d,sid=%s,exp=%s,al=%s,sz=%d)", tok(x.Topic), x.Qos, b2i(x.Retain),
			b2i(x.Dup), x.PacketID, payloadTag(x.Payload), len(x.Payload), sidsOf(x), optProp(x, 0x02), optProp(x, 0x23), x.Raw), true
	case mqttcli.SUBACK:
		return fmt.Sprintf("suback(%d,%s)", x.PacketID, codesStr(x.Codes)), false
	case mqttcli.UNSUBACK:
		return fmt.Sprintf("unsuback(%d,%s)", x.PacketID, codesStr(x.Codes)), false
	case mqttcli.PUBACK:
		return fmt.Sprintf("puback(%d,%d)", x.PacketID, x.Code), false
	case mqttcli.PUBREC:
		return fmt.Sprintf("pubrec(%d,%d)", x.PacketID, x.Code), false
	case mqttcli.PUBREL:
		return fmt.Sprintf("pubrel(%d)", x.PacketID), inConnOp
	case mqttcli.PUBCOMP:
		return fmt.Sprintf("pubcomp(%d)", x.PacketID), false
	case mqttcli.PINGRESP:
		return "pingresp", false
	case mqttcli.DISCONNECT:
		return fmt.Sprintf("disconnect(%d)", x.Code), false
	case mqttcli.AUTH:
		return fmt.Sprintf("auth(%d)", x.Code), false
	}
	return fmt.Sprintf("other(%d)", x.Type), false
}

// collect waits for quiescence and renders what every connection received during this op.
func (d *brokerDrv) collect(inConnOp string) string {
	ok, busy := wire.Quiesce(d.qTimeout)
	names := make([]string, 0, len(d.b.Conns))
	for n := range d.b.Conns {
		names = append(names, n)
	}
	sort.Strings(names)
	var parts []string
	if !ok {
		d.b.Hang = true
		detail := ""
		if os.Getenv("VERIF_HANG_DETAIL") != "" {
			detail = ":" + strings.ReplaceAll(strings.Join(busy, ";"), " ", "_")
		}
		parts = append(parts, "HANG"+detail)
	}
	for _, n := range names {
		c := d.b.Conns[n]
		ps, eof := c.Take()
		if len(ps) == 0 && !eof {
			continue
		}
		var h, p []string
		sess := d.sessions[c.ClientID]
		for _, pk := range ps {
			s, isP := render(pk, inConnOp == n)
			if isP {
				p = append(p, s)
			} else {
				h = append(h, s)
			}
			if pub := pk; pub.Type == mqttcli.PUBLISH && pub.Qos > 0 && sess != nil {
				known := false
				for _, e := range sess.rx {
					if e.id == pub.PacketID && !(e.acked && (e.qos == 1 || e.comp)) {
						known = true
					}
				}
				if !known {
					sess.rx = append(sess.rx, &rxEntry{key: maskID(s), op: d.opIndex, tag: payloadTag(pub.Payload), sids: sidsOf(pub),
						qos: pub.Qos, id: pub.PacketID})
				}
			}
			if ca := pk; ca.Type == mqttcli.CONNACK && !ca.SessionPresent && ca.Code == 0 {
				d.sessions[c.ClientID] = &session{}
				sess = d.sessions[c.ClientID]
			}
		}
		if eof {
			h = append(h, "closed")
			if os.Getenv("VERIF_LOG") != "" {
				fmt.Fprintln(os.Stderr, "conn", n, "read error:", c.ReadErr())
			}
		}
		parts = append(parts, n+"|H:"+strings.Join(h, ",")+"|P:"+strings.Join(p, ","))
	}
	if len(parts) == 0 {
		return "-"
	}
	return strings.Join(parts, " ")
}

var idRe = regexp.MustCompile(`,id=\d+`)

func maskID(s string) string { return idRe.ReplaceAllString(s, ",id=?") }

func (d *brokerDrv) outstanding(sess *session, kind string) []*rxEntry {
	var es []*rxEntry
	for _, e := range sess.rx {
		switch kind {
		case "puback":
			if e.qos == 1 && !e.acked {
				es = append(es, e)
			}
		case "pubrec":
			if e.qos == 2 && !e.acked {
				es = append(es, e)
			}
		case "pubcomp":
			if e.qos == 2 && e.acked && !e.comp {
				es = append(es, e)
			}
		}
	}
	sort.SliceStable(es, func(i, j int) bool {
		a, b := es[i], es[j]
		if a.op != b.op {
			return a.op < b.op
		}
		if a.tag != b.tag {
			return a.tag < b.tag
		}
		if a.sids != b.sids {
			return a.sids < b.sids
		}
		return a.key < b.key
	})
	return es
}

func (d *brokerDrv) Step(line string) string {
	f := strings.Fields(line)
	if len(f) == 0 {
		return "bad-op"
	}
	if f[0] == "new" {
		_, m := kv(f[1:])
		return d.newBroker(m)
	}
	if d.b == nil {
		return "no-broker"
	}
	d.opIndex++
	pos, m := kv(f[1:])
	switch f[0] {
	case "conn":
		if len(pos) < 2 {
			return "bad-op"
		}
		c, err := d.b.Dial(pos[0])
		if err != nil {
			return "dial-failed"
		}
		c.ClientID = unesc(pos[1])
		v := geti(m, "v", 4)
		cp := &packets.Connect{Version: byte(v), ProtocolLevel: byte(v), ProtocolName: []byte("MQTT"), CleanStart: geti(m, "cs", 1) == 1,
			KeepAlive: uint16(geti(m, "ka", 0)), ClientID: []byte(c.ClientID)}
		if v == 3 {
			cp.ProtocolName = []byte("MQIsdp")
		}
		c.Version = byte(v)
		if v == 5 {
			pp := &packets.Properties{}
			if _, ok := m["se"]; ok {
				x := uint32(geti(m, "se", 0))
				pp.SessionExpiryInterval = &x
			}
			if _, ok := m["rm"]; ok {
				x := uint16(geti(m, "rm", 0))
				pp.ReceiveMaximum = &x
			}
			if _, ok := m["mp"]; ok {
				x := uint32(geti(m, "mp", 0))
				pp.MaximumPacketSize = &x
			}
			if _, ok := m["ta"]; ok {
				x := uint16(geti(m, "ta", 0))
				pp.TopicAliasMaximum = &x
			}
			if am, ok := m["am"]; ok {
				pp.AuthMethod = []byte(am)
			}
			if ad, ok := m["ad"]; ok {
				pp.AuthData = []byte(ad)
			}
			cp.Properties = pp
		}
		if u, ok := m["user"]; ok {
			cp.UsernameFlag = true
			cp.Username = []byte(unesc(u))
		}
		if pw, ok := m["pass"]; ok {
			cp.PasswordFlag = true
			cp.Password = []byte(unesc(pw))
		}
		if w, ok := m["will"]; ok { // topic,qos,retain,delay,tag[,exp]
			ws := strings.Split(w, ",")
			if len(ws) >= 5 {
				cp.WillFlag = true
				cp.WillTopic = []byte(unesc(ws[0]))
				cp.WillQos = byte(drv.Atoi(ws[1]))
				cp.WillRetain = ws[2] == "1"
				cp.WillMsg = []byte(ws[4])
				if v == 5 {
					wp := &packets.Properties{}
					if dl := uint32(drv.Atoi(ws[3])); dl != 0 {
						wp.WillDelayInterval = &dl
					}
					if len(ws) >= 6 {
						e := uint32(drv.Atoi(ws[5]))
						wp.MessageExpiry = &e
					}
					cp.WillProperties = wp
				}
			}
		}
		if _, ok := d.sessions[c.ClientID]; !ok {
			d.sessions[c.ClientID] = &session{}
		}
		c.StartReader()
		if err := c.Send(cp); err != nil {
			return "send-failed " + d.collect(pos[0])
		}
		return d.collect(pos[0])
	case "sub":
		c := d.b.Conns[pos[0]]
		if c == nil || c.EOF() {
			return "no-conn"
		}
		sp := &packets.Subscribe{Version: c.Version, PacketID: packets.PacketID(drv.Atoi(pos[1]))}
		for _, t := range pos[2:] {
			ps := strings.Split(t, "|")
			tp := packets.Topic{Name: unesc(ps[0])}
			if len(ps) > 1 {
				tp.Qos = byte(drv.Atoi(ps[1]))
			}
			for _, o := range ps[2:] {
				switch {
				case o == "nl":
					tp.NoLocal = true
				case o == "rap":
					tp.RetainAsPublished = true
				case strings.HasPrefix(o, "rh"):
					tp.RetainHandling = byte(drv.Atoi(o[2:]))
				}
			}
			sp.Topics = append(sp.Topics, tp)
		}
		if c.Version == 5 {
			sp.Properties = &packets.Properties{}
			if id := geti(m, "id", 0); id != 0 {
				sp.Properties.SubscriptionIdentifier = []uint32{uint32(id)}
			}
		}
		if err := c.Send(sp); err != nil {
			return "send-failed " + d.collect("")
		}
		return d.collect("")
	case "unsub":
		c := d.b.Conns[pos[0]]
		if c == nil || c.EOF() {
			return "no-conn"
		}
		up := &packets.Unsubscribe{Version: c.Version, PacketID: packets.PacketID(drv.Atoi(pos[1]))}
		for _, t := range pos[2:] {
			up.Topics = append(up.Topics, unesc(t))
		}
		if c.Version == 5 {
			up.Properties = &packets.Properties{}
		}
		if err := c.Send(up); err != nil {
			return "send-failed " + d.collect("")
		}
		return d.collect("")
	case "pub":
		c := d.b.Conns[pos[0]]
		if c == nil || c.EOF() {
			return "no-conn"
		}
		payload := []byte(unesc(m["tag"]))
		if n := geti(m, "n", 0); n > len(payload) {
			payload = append(payload, '.')
			for len(payload) < n {
				payload = append(payload, 'x')
			}
		}
		pp := &packets.Publish{Version: c.Version, TopicName: []byte(unesc(pos[1])), Qos: byte(geti(m, "q", 0)), Retain: geti(m, "r", 0) == 1,
			Dup: geti(m, "d", 0) == 1, PacketID: packets.PacketID(geti(m, "pid", 0)), Payload: payload}
		if c.Version == 5 {
			pr := &packets.Properties{}
			if _, ok := m["a"]; ok {
				x := uint16(geti(m, "a", 0))
				pr.TopicAlias = &x
			}
			if _, ok := m["e"]; ok {
				x := uint32(geti(m, "e", 0))
				pr.MessageExpiry = &x
			}
			pp.Properties = pr
		}
		if err := c.Send(pp); err != nil {
			return "send-failed " + d.collect("")
		}
		return d.collect("")
	case "ack": // ack <conn> puback|pubrec|pubcomp k=<n>|all [code=N]
		c := d.b.Conns[pos[0]]
		if c == nil || c.EOF() {
			return "no-conn"
		}
		sess := d.sessions[c.ClientID]
		kind := pos[1]
		es := d.outstanding(sess, kind)
		var pick []*rxEntry
		if len(pos) > 2 && pos[2] == "all" {
			pick = es
		} else if k := geti(m, "k", 0); k < len(es) {
			pick = es[k : k+1]
		}
		if len(pick) == 0 {
			return "none " + d.collect("")
		}
		code := byte(geti(m, "code", 0))
		for _, e := range pick {
			var pk packets.Packet
			switch kind {
			case "puback":
				pk = &packets.Puback{Version: c.Version, PacketID: e.id, Code: code, Properties: &packets.Properties{}}
				e.acked = true
			case "pubrec":
				pk = &packets.Pubrec{Version: c.Version, PacketID: e.id, Code: code, Properties: &packets.Properties{}}
				e.acked = true
				if code >= 0x80 && c.Version == packets.Version5 { // v3.1.1 has no reason codes: the packet is a plain PUBREC
					e.comp = true
				}
			case "pubcomp":
				pk = &packets.Pubcomp{Version: c.Version, PacketID: e.id, Code: code, Properties: &packets.Properties{}}
				e.comp = true
			default:
				return "bad-op"
			}
			if err := c.Send(pk); err != nil {
				return "send-failed " + d.collect("")
			}
		}
		return d.collect("")
	case "rel":
		c := d.b.Conns[pos[0]]
		if c == nil || c.EOF() {
			return "no-conn"
		}
		if err := c.Send(&packets.Pubrel{PacketID: packets.PacketID(drv.Atoi(pos[1]))}); err != nil {
			return "send-failed " + d.collect("")
		}
		return d.collect("")
	case "ping":
		c := d.b.Conns[pos[0]]
		if c == nil || c.EOF() {
			return "no-conn"
		}
		if err := c.Send(&packets.Pingreq{}); err != nil {
			return "send-failed " + d.collect("")
		}
		return d.collect("")
	case "disc":
		c := d.b.Conns[pos[0]]
		if c == nil || c.EOF() {
			return "no-conn"
		}
		dp := &packets.Disconnect{Version: c.Version, Code: byte(geti(m, "code", 0))}
		if c.Version == 5 {
			dp.Properties = &packets.Properties{}
			if _, ok := m["se"]; ok {
				x := uint32(geti(m, "se", 0))
				dp.Properties.SessionExpiryInterval = &x
			}
		}
		if k := geti(m, "pre", 0); k > 0 {
			// pipelining: k QoS 0 publishes (to a topic nobody subscribes) and the DISCONNECT leave in ONE write and the
			// socket is closed at once, so the broker finds the DISCONNECT buffered behind other packets when it sees EOF.
			// A DISCONNECT the client has sent must still be honoured (will suppression, session expiry update).
			var buf bytes.Buffer
			if m["prek"] == "ping" {
				// k PINGREQs and the DISCONNECT in one write; the client keeps reading until the broker closes: answers that
				// are still queued when the connection ends may or may not reach the peer — those that do must be counted
				for i := 0; i < k; i++ {
					buf.Write([]byte{0xc0, 0x00})
					c.NoteSent(packets.PINGREQ, 2, 0)
				}
				n0 := buf.Len()
				if err := packets.NewWriter(&buf).WriteAndFlush(dp); err != nil {
					return "bad-op"
				}
				c.NoteSent(packets.DISCONNECT, buf.Len()-n0, 0)
				if err := c.WriteRaw(buf.Bytes()); err != nil {
					return "send-failed " + d.collect("")
				}
				r := d.collect("")
				c.Close()
				return r + " " + d.collect("")
			}
			for i := 0; i < k; i++ {
				pp := &packets.Publish{Version: c.Version, TopicName: []byte("zz/pre"), Payload: []byte("x")}
				if c.Version == 5 {
					pp.Properties = &packets.Properties{}
				}
				n0 := buf.Len()
				if err := packets.NewWriter(&buf).WriteAndFlush(pp); err != nil {
					return "bad-op"
				}
				c.NoteSent(packets.PUBLISH, buf.Len()-n0, 0)
			}
			n0 := buf.Len()
			if err := packets.NewWriter(&buf).WriteAndFlush(dp); err != nil {
				return "bad-op"
			}
			c.NoteSent(packets.DISCONNECT, buf.Len()-n0, 0)
			if err := c.SendRawThenClose(buf.Bytes()); err != nil {
				return "send-failed " + d.collect("")
			}
			r := d.collect("")
			return r + " " + d.collect("")
		}
		if err := c.Send(dp); err != nil {
			return "send-failed " + d.collect("")
		}
		r := d.collect("")
		c.Close()
		return r + " " + d.collect("")
	case "close":
		c := d.b.Conns[pos[0]]
		if c == nil || c.EOF() {
			return "no-conn"
		}
		if bl, ok := m["burst"]; ok {
			// `close <conn> burst=<pid>:<tag>,… q=<qos> topic=<t>`: the PUBLISH packets and the end of the stream reach the
			// broker at once (a publisher that pipelines a burst and loses its connection): packets still buffered when the
			// broker notices the end must be handled like any other packet that was received. The publisher sees none of
			// the answers; its own part of the output is left out on both sides.
			var buf bytes.Buffer
			for _, it := range strings.Split(bl, ",") {
				ps := strings.SplitN(it, ":", 2)
				if len(ps) != 2 {
					return "bad-op"
				}
				pp := &packets.Publish{Version: c.Version, TopicName: []byte(unesc(m["topic"])), Qos: byte(geti(m, "q", 2)),
					PacketID: packets.PacketID(drv.Atoi(ps[0])), Payload: []byte(ps[1])}
				if c.Version == 5 {
					pp.Properties = &packets.Properties{}
				}
				n0 := buf.Len()
				if err := packets.NewWriter(&buf).WriteAndFlush(pp); err != nil {
					return "bad-op"
				}
				c.NoteSent(packets.PUBLISH, buf.Len()-n0, pp.Qos)
			}
			if err := c.SendRawThenClose(buf.Bytes()); err != nil {
				return "send-failed " + d.collect("")
			}
			var keep []string
			for _, part := range strings.Split(d.collect(""), " ") {
				if !strings.HasPrefix(part, pos[0]+"|") {
					keep = append(keep, part)
				}
			}
			if len(keep) == 0 {
				return "-"
			}
			return strings.Join(keep, " ")
		}
		c.Close()
		return d.collect("")
	case "raw":
		c := d.b.Conns[pos[0]]
		if c == nil || c.EOF() {
			return "no-conn"
		}
		bs, err := hex.DecodeString(pos[1])
		if err != nil {
			return "bad-op"
		}
		if err := c.SendRaw(bs); err != nil {
			return "send-failed " + d.collect("")
		}
		return d.collect("")
	case "api":
		switch pos[0] {
		case "pub": // api pub <topic> q= r= tag= e=
			msg := &gmqtt.Message{Topic: unesc(pos[1]), QoS: byte(geti(m, "q", 0)), Retained: geti(m, "r", 0) == 1,
				Payload: []byte(unesc(m["tag"])), MessageExpiry: uint32(geti(m, "e", 0))}
			d.b.Srv.Publisher().Publish(msg)
		case "term":
			d.b.Srv.ClientService().TerminateSession(unesc(pos[1]))
			if geti(m, "nowait", 0) == 1 {
				return "ok" // what the termination makes the broker write shows up in the next op's output
			}
		case "expire":
			d.b.Srv.VerifSessionExpireCheck()
		case "backdate":
			if !d.b.Srv.VerifBackdate(unesc(pos[1]), time.Duration(drv.Atoi(pos[2]))*time.Second) {
				return "nosession " + d.collect("")
			}
		default:
			return apiExtra(d, pos, m)
		}
		return d.collect("")
	case "pause": // the scripted client stops reading; what the broker writes meanwhile is seen at `resume`
		c := d.b.Conns[pos[0]]
		if c == nil || c.EOF() {
			return "no-conn"
		}
		c.Pause()
		return d.collect("")
	case "resume":
		c := d.b.Conns[pos[0]]
		if c == nil || c.EOF() {
			return "no-conn"
		}
		c.Resume()
		return d.collect("")
	case "sleep":
		time.Sleep(time.Duration(drv.Atoi(pos[0])) * time.Millisecond)
		return d.collect("")
	case "counts":
		// VerifCounts takes server.mu: with the lock leaked (a seeded defect) the call never returns — report that instead of
		// hanging until the stream's timeout
		type cnt struct{ on, off, wills, qs, uas int }
		ch := make(chan cnt, 1)
		srv := d.b.Srv
		go func() {
			on, off, wills, qs, uas := srv.VerifCounts()
			ch <- cnt{on, off, wills, qs, uas}
		}()
		limit := 5 * time.Second
		if d.b.Hang {
			limit = 500 * time.Millisecond
		}
		select {
		case c := <-ch:
			return fmt.Sprintf("online=%d offline=%d wills=%d queues=%d unacks=%d", c.on, c.off, c.wills, c.qs, c.uas)
		case <-time.After(limit):
			d.b.Hang = true
			return "HANG counts: server.mu is not released"
		}
	case "stop":
		ok := d.b.Stop(3 * time.Second)
		r := d.collect("")
		d.b = nil
		if ok {
			return "stopped " + r
		}
		return "stop-timeout " + r
	}
	return extraOp(d, f[0], pos, m)
}

var _ = server.WithHook
