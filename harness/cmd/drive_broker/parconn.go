package main

// `parconn <name>,<cid>,<v>,<user>,<pass> …` — one fresh connection per spec; all CONNECT packets are written at the same
// moment, one goroutine each (GOMAXPROCS > 1 makes them run in parallel inside the broker: OnBasicAuth → the auth plugin's
// validate, registerClient, …). The CONNECT of each is what `conn <name> <cid> v=<v> cs=1 user=<user> pass=<pass>` sends.
// Output: what every connection received, in name order (the specs are given in name order).

import (
	"strings"
	"sync"

	"github.com/DrmagicE/gmqtt/pkg/packets"

	"verifharness/internal/drv"
	"verifharness/internal/wire"
)

func init() { extraOps["parconn"] = parConnOp }

func parConnOp(d *brokerDrv, pos []string, m map[string]string) string {
	type job struct {
		c  *wire.Conn
		cp *packets.Connect
	}
	var jobs []job
	for _, spec := range pos {
		f := strings.Split(spec, ",")
		if len(f) != 5 {
			return "bad-op"
		}
		c, err := d.b.Dial(f[0])
		if err != nil {
			return "dial-failed"
		}
		v := drv.Atoi(f[2])
		c.ClientID = unesc(f[1])
		c.Version = byte(v)
		cp := &packets.Connect{Version: byte(v), ProtocolLevel: byte(v), ProtocolName: []byte("MQTT"), CleanStart: true,
			ClientID: []byte(c.ClientID), UsernameFlag: true, Username: []byte(unesc(f[3])), PasswordFlag: true, Password: []byte(unesc(f[4]))}
		if v == 3 {
			cp.ProtocolName = []byte("MQIsdp")
		}
		if v == 5 {
			cp.Properties = &packets.Properties{}
		}
		if _, ok := d.sessions[c.ClientID]; !ok {
			d.sessions[c.ClientID] = &session{}
		}
		c.StartReader()
		jobs = append(jobs, job{c, cp})
	}
	start := make(chan struct{})
	var wg sync.WaitGroup
	failed := false
	var mu sync.Mutex
	for _, j := range jobs {
		wg.Add(1)
		go func(j job) {
			defer wg.Done()
			<-start
			if err := j.c.Send(j.cp); err != nil {
				mu.Lock()
				failed = true
				mu.Unlock()
			}
		}(j)
	}
	close(start)
	wg.Wait()
	if failed {
		return "send-failed " + d.collect("")
	}
	return d.collect("")
}
