package main

// C09: the broker on the redis persistence backend (persistence.type=redis) over the in-process fake redis, and the
// crash/restart scan.
//
//	new pe=redis …          the broker of this case persists to a fresh internal/respfake server
//	j <op …>                runs <op …> and appends ` J=<n>`: the number of redis WRITE commands executed so far
//	                        (crash points lie between write commands)
//	crashscan               for EVERY prefix k of the write journal: a fresh respfake loaded with the first k commands,
//	                        a fresh broker on it, and what that broker shows (see observeCrash). Output:
//	                        `W=<n> JH=<journal> k0{…} k1{…} …`
//
// The journal is printed so that the Lean side can run `recover` on every prefix of exactly this command sequence.

import (
	"fmt"
	"sort"
	"strconv"
	"strings"
	"time"

	"github.com/DrmagicE/gmqtt"
	"github.com/DrmagicE/gmqtt/persistence/subscription"
	"github.com/DrmagicE/gmqtt/pkg/packets"
	"github.com/DrmagicE/gmqtt/server"

	"verifharness/internal/mqttcli"
	"verifharness/internal/respfake"
	"verifharness/internal/wire"
)

type q2pub struct {
	cid string
	pid int
}

type redisState struct {
	fake    *respfake.Server // the fake of the running case
	pending *respfake.Server // set by the crash scan: the next broker uses this (pre-loaded) fake
	newArgs map[string]string
	q2      []q2pub  // QoS 2 publishes sent by the scripted clients (client id, packet id)
	cids    []string // client ids that connected in the history, in order of first use
}

var rds redisState

func init() {
	optionHooks = append(optionHooks, redisOption)
	extraOps["j"] = jOp
	extraOps["crashscan"] = crashScanOp
	wire.ExtraBusy = func(state, stack string) bool {
		// a broker goroutine waiting for the reply of the fake redis is not waiting for external input
		return state == "IO wait" && strings.Contains(stack, "gomodule/redigo")
	}
}

func redisOption(d *brokerDrv, m map[string]string) []server.Options {
	if m["pe"] != "redis" {
		return nil
	}
	var fake *respfake.Server
	if rds.pending != nil {
		fake, rds.pending = rds.pending, nil
	} else {
		if rds.fake != nil {
			rds.fake.Close()
		}
		f, err := respfake.Start()
		if err != nil {
			return nil
		}
		fake = f
		rds.fake = f
		rds.newArgs = m
		rds.q2 = nil
		rds.cids = nil
	}
	return []server.Options{server.VerifWithRedisPersistence(fake.Addr())}
}

func writesSoFar() int {
	if rds.fake == nil {
		return 0
	}
	return len(respfake.Writes(rds.fake.Journal()))
}

func jOp(d *brokerDrv, pos []string, m map[string]string) string {
	if len(pos) == 0 {
		return "bad-op"
	}
	toks := append([]string(nil), pos...)
	keys := make([]string, 0, len(m))
	for k := range m {
		keys = append(keys, k)
	}
	sort.Strings(keys)
	for _, k := range keys {
		toks = append(toks, k+"="+m[k])
	}
	if pos[0] == "pub" && geti(m, "q", 0) == 2 && len(pos) > 1 {
		if c := d.b.Conns[pos[1]]; c != nil {
			rds.q2 = append(rds.q2, q2pub{c.ClientID, geti(m, "pid", 0)})
		}
	}
	if pos[0] == "conn" && len(pos) > 2 {
		cid, seen := unesc(pos[2]), false
		for _, c := range rds.cids {
			seen = seen || c == cid
		}
		if !seen {
			rds.cids = append(rds.cids, cid)
		}
	}
	out := d.Step(strings.Join(toks, " "))
	return out + " J=" + strconv.Itoa(writesSoFar())
}

func crashScanOp(d *brokerDrv, pos []string, m map[string]string) string {
	if rds.fake == nil {
		return "no-redis"
	}
	// the history ends here: what the broker writes while it is being stopped is not part of it (it "died")
	w := respfake.Writes(rds.fake.Journal())
	if d.b != nil {
		d.b.Stop(3 * time.Second)
		for _, c := range d.b.Conns {
			c.Close()
		}
		wire.Quiesce(d.qTimeout)
		d.b = nil
	}
	limit := geti(m, "w", -1)
	if limit >= 0 && limit < len(w) {
		w = w[:limit]
	}
	step := geti(m, "step", 1)
	jh := make([]string, len(w))
	for i, e := range w {
		jh[i] = respfake.Show(e.Args)
	}
	parts := []string{"W=" + strconv.Itoa(len(w)), "JH=" + strings.Join(jh, ";")}
	for k := 0; k <= len(w); k += step {
		parts = append(parts, fmt.Sprintf("k%d{%s}", k, observeCrash(w[:k], d.qTimeout)))
	}
	return strings.Join(parts, " ")
}

func renderObs(ps []*mqttcli.Packet) (sp string, items []string) {
	sp = "?"
	for _, p := range ps {
		switch p.Type {
		case mqttcli.CONNACK:
			sp = fmt.Sprintf("%d/%d", b2i(p.SessionPresent), p.Code)
		case mqttcli.PUBLISH:
			id := strconv.Itoa(int(p.PacketID))
			if !p.Dup && p.Qos > 0 {
				id = "*" // a fresh id chosen by the restarted broker
			}
			items = append(items, fmt.Sprintf("pub(%s,%d,%d,%s)", payloadTag(p.Payload), p.Qos, b2i(p.Dup), id))
		case mqttcli.PUBREL:
			items = append(items, fmt.Sprintf("rel(%d)", p.PacketID))
		}
	}
	return
}

// ghostSubs: every client id of the history that has NO session after the restart connects (Clean Start 0) to the
// restarted broker, which creates a new session; the broker is then restarted once more on the resulting dataset.
// Subscriptions the second restart shows for such a client were never made in its (new) session: leftovers of a
// session removal that the first crash interrupted.
func ghostSubs(prefix []respfake.Entry, fake *respfake.Server, d2 *brokerDrv, known map[string]bool, qt time.Duration) string {
	var missing []string
	for _, c := range rds.cids {
		if !known[c] {
			missing = append(missing, c)
		}
	}
	if len(missing) == 0 {
		return ""
	}
	for i, cid := range missing {
		c, err := d2.b.Dial(fmt.Sprintf("g%d", i))
		if err != nil {
			return "dial-failed"
		}
		c.ClientID = cid
		c.Version = 5
		c.StartReader()
		se := uint32(3600)
		c.Send(&packets.Connect{Version: 5, ProtocolLevel: 5, ProtocolName: []byte("MQTT"), CleanStart: false, ClientID: []byte(cid),
			Properties: &packets.Properties{SessionExpiryInterval: &se}})
		wire.Quiesce(qt)
		c.Take()
	}
	second := append(append([]respfake.Entry(nil), prefix...), respfake.Writes(fake.Journal())...)
	d2.stopOld()
	wire.Quiesce(qt)
	fake3 := respfake.FromJournal(second)
	if err := fake3.Listen("127.0.0.1:0"); err != nil {
		return "err-fake"
	}
	defer fake3.Close()
	rds.pending = fake3
	d3 := &brokerDrv{}
	defer func() {
		rds.pending = nil
		d3.stopOld()
		wire.Quiesce(qt)
	}()
	if r := d3.newBroker(rds.newArgs); r != "ok" {
		return "fail"
	}
	isMissing := map[string]bool{}
	for _, c := range missing {
		isMissing[c] = true
	}
	var ghosts []string
	d3.b.Srv.SubscriptionService().Iterate(func(clientID string, s *gmqtt.Subscription) bool {
		if isMissing[clientID] {
			ghosts = append(ghosts, tok([]byte(clientID))+":"+tok([]byte(s.GetFullTopicName())))
		}
		return true
	}, subscription.IterationOptions{Type: subscription.TypeAll})
	sort.Strings(ghosts)
	return strings.Join(ghosts, ",")
}

// observeCrash: what a broker restarted on the dataset after `prefix` shows.
//
//	fail:<why>                                   start-up failed
//	<cid>{exp=<n>;subs=[…];conn=<sp>/<code>;rx=[…];dup=[<pid>=<0|1>,…]}, … one block per recovered session (sorted by id):
//	  subs  the subscriptions SubscriptionService reports for the client
//	  conn  CONNACK of a v5 reconnect with Clean Start 0
//	  rx    what the client is sent after that CONNACK: pub(tag,qos,dup,id) / rel(id)
//	  dup   for every QoS 2 packet id the client used in the history: 1 if a retransmitted PUBLISH with that id is
//	        recognised as a duplicate (not delivered to a probe subscriber again)
func observeCrash(prefix []respfake.Entry, qt time.Duration) (res string) {
	fake := respfake.FromJournal(prefix)
	if err := fake.Listen("127.0.0.1:0"); err != nil {
		return "err-fake"
	}
	defer fake.Close()
	rds.pending = fake
	d2 := &brokerDrv{}
	defer func() {
		if r := recover(); r != nil {
			res = "fail:panic"
		}
		rds.pending = nil
		d2.stopOld()
		wire.Quiesce(qt)
	}()
	if r := d2.newBroker(rds.newArgs); r != "ok" {
		return "fail:" + r
	}
	b := d2.b
	var sess []*gmqtt.Session
	b.Srv.ClientService().IterateSession(func(s *gmqtt.Session) bool { sess = append(sess, s); return true })
	sort.Slice(sess, func(i, j int) bool { return sess[i].ClientID < sess[j].ClientID })
	subsOf := map[string][]string{}
	b.Srv.SubscriptionService().Iterate(func(clientID string, s *gmqtt.Subscription) bool {
		subsOf[clientID] = append(subsOf[clientID], fmt.Sprintf("%s:%d:%d:%d:%d:%d", tok([]byte(s.GetFullTopicName())), s.QoS, b2i(s.NoLocal), b2i(s.RetainAsPublished), s.RetainHandling, s.ID))
		return true
	}, subscription.IterationOptions{Type: subscription.TypeAll})
	known := map[string]bool{}
	for _, s := range sess {
		known[s.ClientID] = true
	}
	var extra []string
	for cid := range subsOf {
		if !known[cid] {
			extra = append(extra, tok([]byte(cid)))
		}
	}
	sort.Strings(extra)
	// probe subscriber for the duplicate test
	probe, err := b.Dial("probe")
	if err != nil {
		return "dial-failed"
	}
	probe.ClientID = "__probe"
	probe.Version = 5
	probe.StartReader()
	zero := uint32(0)
	probe.Send(&packets.Connect{Version: 5, ProtocolLevel: 5, ProtocolName: []byte("MQTT"), CleanStart: true, ClientID: []byte("__probe"),
		Properties: &packets.Properties{SessionExpiryInterval: &zero}})
	wire.Quiesce(qt)
	probe.Send(&packets.Subscribe{Version: 5, PacketID: 1, Topics: []packets.Topic{{Name: "__probe/#"}}, Properties: &packets.Properties{}})
	wire.Quiesce(qt)
	probe.Take()
	var blocks []string
	for i, s := range sess {
		sort.Strings(subsOf[s.ClientID])
		c, err := b.Dial(fmt.Sprintf("s%d", i))
		if err != nil {
			return "dial-failed"
		}
		c.ClientID = s.ClientID
		c.Version = 5
		c.StartReader()
		se := uint32(3600)
		if err := c.Send(&packets.Connect{Version: 5, ProtocolLevel: 5, ProtocolName: []byte("MQTT"), CleanStart: false, ClientID: []byte(s.ClientID),
			Properties: &packets.Properties{SessionExpiryInterval: &se}}); err != nil {
			return "send-failed"
		}
		if ok, _ := wire.Quiesce(qt); !ok {
			return "fail:hang"
		}
		ps, eof := c.Take()
		sp, items := renderObs(ps)
		if eof {
			items = append(items, "closed")
		}
		var dups []string
		for _, q := range rds.q2 {
			if q.cid != s.ClientID || eof {
				continue
			}
			c.Send(&packets.Publish{Version: 5, TopicName: []byte("__probe/x"), Qos: 2, Dup: true, PacketID: packets.PacketID(q.pid), Payload: []byte("p"), Properties: &packets.Properties{}})
			wire.Quiesce(qt)
			c.Take()
			got, _ := probe.Take()
			delivered := false
			for _, p := range got {
				if p.Type == mqttcli.PUBLISH {
					delivered = true
				}
			}
			dups = append(dups, fmt.Sprintf("%d=%d", q.pid, b2i(!delivered)))
		}
		blocks = append(blocks, fmt.Sprintf("%s{exp=%d;subs=[%s];conn=%s;rx=[%s];dup=[%s]}", tok([]byte(s.ClientID)), s.ExpiryInterval,
			strings.Join(subsOf[s.ClientID], ","), sp, strings.Join(items, ","), strings.Join(dups, ",")))
	}
	out := strings.Join(blocks, ",")
	if g := ghostSubs(prefix, fake, d2, known, qt); g != "" {
		out += ";ghost=[" + g + "]"
	}
	if len(extra) > 0 {
		out += ";orphansubs=[" + strings.Join(extra, ",") + "]"
	}
	if out == "" {
		return "-"
	}
	return out
}
