package main

// C20: op `stats` — the broker's statistics next to the harness's own record of what happened.
//
//   new … stats=1     installs recording hooks (session created / resumed / terminated, connected, closed, message dropped)
//   stats             -> G:<global counters> C:<cid>{counters};… ## T:… Q:… S:… N:… H:…
//
// Left of `##`: what srv.StatsManager() reports, canonically (sorted by client id, every non-zero counter by name):
//   pr.<type>/br.<type>  packets / bytes received     ps.<type>/bs.<type>  packets / bytes sent      (type "total" included)
//   mr.q<n> ms.q<n>      messages received / sent     md.q<n>.<reason>     messages dropped
//   infl queued          gauges                       subs.cur subs.total  subscription statistics
//   cn.connected cn.disconnected se.created se.term.<reason> active inactive   (global only)
// Right of `##`: GROUND TRUTH kept by the harness, independent of statsManager:
//   T:<conn>=<cid>|acc:<0|1>|tx:<type>=<n>/<bytes>,…|rx:…|mtx:<qos>=<n>,…|mrx:…   (acc: a CONNACK with code 0 was received) everything the scripted client wrote / decoded on that
//        connection, cumulative (tx bytes = counted at the socket; rx bytes = size of the decoded packet)
//   Q:<cid>=<len>/<inflight>   real contents of every session queue (persistence/queue/mem VerifLens)
//   S:<cid>=<n>                subscriptions per client found by SubscriptionService.Iterate
//   N:<online>/<offline>       len(srv.clients) / len(srv.offlineClients)
//   H:<op>:<event>,…           hook calls since the previous `stats`, in call order, tagged with the op index

import (
	"context"
	"fmt"
	"sort"
	"strings"
	"sync"

	"github.com/DrmagicE/gmqtt"
	"github.com/DrmagicE/gmqtt/persistence/queue"
	"github.com/DrmagicE/gmqtt/persistence/subscription"
	"github.com/DrmagicE/gmqtt/server"

	"verifharness/internal/mqttcli"
)

type statsRec struct {
	mu  sync.Mutex
	d   *brokerDrv
	log []string
}

var statsState *statsRec

func init() {
	optionHooks = append(optionHooks, statsOption)
	extraOps["stats"] = statsOp
}

func (r *statsRec) add(format string, a ...interface{}) {
	r.mu.Lock()
	defer r.mu.Unlock()
	r.log = append(r.log, fmt.Sprintf("%d:", r.d.opIndex)+fmt.Sprintf(format, a...))
}

func (r *statsRec) Name() string             { return "verifstats" }
func (r *statsRec) Load(server.Server) error { return nil }
func (r *statsRec) Unload() error            { return nil }
func (r *statsRec) HookWrapper() server.HookWrapper {
	return server.HookWrapper{
		OnSessionCreatedWrapper: func(pre server.OnSessionCreated) server.OnSessionCreated {
			return func(ctx context.Context, c server.Client) {
				r.add("created/%s", showBytes(c.ClientOptions().ClientID))
				pre(ctx, c)
			}
		},
		OnSessionResumedWrapper: func(pre server.OnSessionResumed) server.OnSessionResumed {
			return func(ctx context.Context, c server.Client) {
				r.add("resumed/%s", showBytes(c.ClientOptions().ClientID))
				pre(ctx, c)
			}
		},
		OnSessionTerminatedWrapper: func(pre server.OnSessionTerminated) server.OnSessionTerminated {
			return func(ctx context.Context, clientID string, reason server.SessionTerminatedReason) {
				name := map[server.SessionTerminatedReason]string{server.NormalTermination: "normal", server.TakenOverTermination: "takenover",
					server.ExpiredTermination: "expired"}[reason]
				r.add("terminated/%s/%s", showBytes(clientID), name)
				pre(ctx, clientID, reason)
			}
		},
		OnConnectedWrapper: func(pre server.OnConnected) server.OnConnected {
			return func(ctx context.Context, c server.Client) {
				r.add("connected/%s", showBytes(c.ClientOptions().ClientID))
				pre(ctx, c)
			}
		},
		OnClosedWrapper: func(pre server.OnClosed) server.OnClosed {
			return func(ctx context.Context, c server.Client, err error) {
				r.add("closed/%s", showBytes(c.ClientOptions().ClientID))
				pre(ctx, c, err)
			}
		},
		OnMsgDroppedWrapper: func(pre server.OnMsgDropped) server.OnMsgDropped {
			return func(ctx context.Context, clientID string, msg *gmqtt.Message, err error) {
				r.add("dropped/%s/%d/%s", showBytes(clientID), msg.QoS, dropReason(err))
				pre(ctx, clientID, msg, err)
			}
		},
	}
}

func dropReason(err error) string {
	switch err {
	case queue.ErrDropExceedsMaxPacketSize:
		return "oversize"
	case queue.ErrDropQueueFull:
		return "full"
	case queue.ErrDropExpired:
		return "expired"
	case queue.ErrDropExpiredInflight:
		return "inflexpired"
	}
	return "internal"
}

func statsOption(d *brokerDrv, m map[string]string) []server.Options {
	statsState = nil
	if m["stats"] != "1" {
		return nil
	}
	statsState = &statsRec{d: d}
	return []server.Options{server.WithPlugin(statsState)}
}

var typeNames = map[byte]string{1: "connect", 2: "connack", 3: "publish", 4: "puback", 5: "pubrec", 6: "pubrel", 7: "pubcomp",
	8: "subscribe", 9: "suback", 10: "unsubscribe", 11: "unsuback", 12: "pingreq", 13: "pingresp", 14: "disconnect", 15: "auth"}

func kvList(m map[string]uint64) string {
	ks := make([]string, 0, len(m))
	for k, v := range m {
		if v != 0 {
			ks = append(ks, k)
		}
	}
	sort.Strings(ks)
	parts := make([]string, len(ks))
	for i, k := range ks {
		parts[i] = fmt.Sprintf("%s=%d", k, m[k])
	}
	return strings.Join(parts, ",")
}

func putBytes(m map[string]uint64, prefix string, b server.PacketBytes) {
	m[prefix+"auth"] = b.Auth
	m[prefix+"connect"] = b.Connect
	m[prefix+"connack"] = b.Connack
	m[prefix+"disconnect"] = b.Disconnect
	m[prefix+"pingreq"] = b.Pingreq
	m[prefix+"pingresp"] = b.Pingresp
	m[prefix+"puback"] = b.Puback
	m[prefix+"pubcomp"] = b.Pubcomp
	m[prefix+"publish"] = b.Publish
	m[prefix+"pubrec"] = b.Pubrec
	m[prefix+"pubrel"] = b.Pubrel
	m[prefix+"suback"] = b.Suback
	m[prefix+"subscribe"] = b.Subscribe
	m[prefix+"unsuback"] = b.Unsuback
	m[prefix+"unsubscribe"] = b.Unsubscribe
	m[prefix+"total"] = b.Total
}

func putPackets(m map[string]uint64, p server.PacketStats) {
	putBytes(m, "br.", p.BytesReceived)
	putBytes(m, "pr.", p.ReceivedTotal)
	putBytes(m, "bs.", p.BytesSent)
	putBytes(m, "ps.", p.SentTotal)
}

func putMessages(m map[string]uint64, s server.MessageStats) {
	for q, x := range []server.MessageQosStats{s.Qos0, s.Qos1, s.Qos2} {
		m[fmt.Sprintf("mr.q%d", q)] = x.ReceivedTotal
		m[fmt.Sprintf("ms.q%d", q)] = x.SentTotal
		m[fmt.Sprintf("md.q%d.internal", q)] = x.DroppedTotal.Internal
		m[fmt.Sprintf("md.q%d.oversize", q)] = x.DroppedTotal.ExceedsMaxPacketSize
		m[fmt.Sprintf("md.q%d.full", q)] = x.DroppedTotal.QueueFull
		m[fmt.Sprintf("md.q%d.expired", q)] = x.DroppedTotal.Expired
		m[fmt.Sprintf("md.q%d.inflexpired", q)] = x.DroppedTotal.InflightExpired
	}
	m["infl"] = s.InflightCurrent
	m["queued"] = s.QueuedCurrent
}

func statsOp(d *brokerDrv, pos []string, m map[string]string) string {
	srv := d.b.Srv
	rd := srv.StatsManager()
	// ---- the broker's view
	g := rd.GetGlobalStats()
	gm := map[string]uint64{}
	putPackets(gm, g.PacketStats)
	putMessages(gm, g.MessageStats)
	gm["cn.connected"] = g.ConnectionStats.ConnectedTotal
	gm["cn.disconnected"] = g.ConnectionStats.DisconnectedTotal
	gm["se.created"] = g.ConnectionStats.SessionCreatedTotal
	gm["se.term.normal"] = g.ConnectionStats.SessionTerminated.Normal
	gm["se.term.expired"] = g.ConnectionStats.SessionTerminated.Expired
	gm["se.term.takenover"] = g.ConnectionStats.SessionTerminated.TakenOver
	gm["active"] = g.ConnectionStats.ActiveCurrent
	gm["inactive"] = g.ConnectionStats.InactiveCurrent
	gm["subs.cur"] = g.SubscriptionStats.SubscriptionsCurrent
	gm["subs.total"] = g.SubscriptionStats.SubscriptionsTotal

	// candidate client ids: everything the harness has used, every stored session, "" (packets before CONNECT)
	ids := map[string]bool{"": true}
	for _, c := range d.b.Conns {
		ids[c.ClientID] = true
	}
	_ = srv.ClientService().IterateSession(func(s *gmqtt.Session) bool { ids[s.ClientID] = true; return true })
	var idl []string
	for id := range ids {
		idl = append(idl, id)
	}
	sort.Strings(idl)
	var cparts []string
	for _, id := range idl {
		cs, ok := rd.GetClientStats(id)
		if !ok {
			continue
		}
		cm := map[string]uint64{}
		putPackets(cm, cs.PacketStats)
		putMessages(cm, cs.MessageStats)
		cm["subs.cur"] = cs.SubscriptionStats.SubscriptionsCurrent
		cm["subs.total"] = cs.SubscriptionStats.SubscriptionsTotal
		cparts = append(cparts, showBytes(id)+"{"+kvList(cm)+"}")
	}

	// ---- ground truth
	names := make([]string, 0, len(d.b.Conns))
	for n := range d.b.Conns {
		names = append(names, n)
	}
	sort.Strings(names)
	var tparts []string
	for _, n := range names {
		c := d.b.Conns[n]
		tx, txb, rx, rxb := map[string]uint64{}, map[string]uint64{}, map[string]uint64{}, map[string]uint64{}
		mtx, mrx := map[string]uint64{}, map[string]uint64{}
		for _, s := range c.Sent() {
			tx[typeNames[s.Type]]++
			txb[typeNames[s.Type]] += uint64(s.Bytes)
			if s.Type == 3 {
				mtx[fmt.Sprint(s.Qos)]++
			}
		}
		acc := 0
		for _, p := range c.Received() {
			if p.Type == mqttcli.CONNACK && p.Code == 0 {
				acc = 1
			}
			rx[typeNames[p.Type]]++
			rxb[typeNames[p.Type]] += uint64(p.Raw)
			if p.Type == mqttcli.PUBLISH {
				mrx[fmt.Sprint(p.Qos)]++
			}
		}
		pair := func(a, b map[string]uint64) string {
			ks := make([]string, 0, len(a))
			for k := range a {
				ks = append(ks, k)
			}
			sort.Strings(ks)
			ps := make([]string, len(ks))
			for i, k := range ks {
				ps[i] = fmt.Sprintf("%s=%d/%d", k, a[k], b[k])
			}
			return strings.Join(ps, ",")
		}
		tparts = append(tparts, fmt.Sprintf("%s=%s|acc:%d|tx:%s|rx:%s|mtx:%s|mrx:%s", n, showBytes(c.ClientID), acc, pair(tx, txb), pair(rx, rxb), kvList(mtx), kvList(mrx)))
	}
	var qparts []string
	if ql, ok := srv.(interface{ VerifQueueLens() map[string][2]int }); ok {
		lens := ql.VerifQueueLens()
		var qs []string
		for id := range lens {
			qs = append(qs, id)
		}
		sort.Strings(qs)
		for _, id := range qs {
			qparts = append(qparts, fmt.Sprintf("%s=%d/%d", showBytes(id), lens[id][0], lens[id][1]))
		}
	}
	subs := map[string]int{}
	srv.SubscriptionService().Iterate(func(clientID string, sub *gmqtt.Subscription) bool {
		subs[clientID]++
		return true
	}, subscription.IterationOptions{Type: subscription.TypeAll})
	var sl []string
	for id, n := range subs {
		sl = append(sl, fmt.Sprintf("%s=%d", showBytes(id), n))
	}
	sort.Strings(sl)
	on, off, _, _, _ := srv.VerifCounts()
	hl := ""
	if statsState != nil {
		statsState.mu.Lock()
		hl = strings.Join(statsState.log, ",")
		statsState.log = nil
		statsState.mu.Unlock()
	}
	return fmt.Sprintf("G:%s C:%s ## T:%s Q:%s S:%s N:%d/%d H:%s", kvList(gm), strings.Join(cparts, ";"), strings.Join(tparts, ";"),
		strings.Join(qparts, ";"), strings.Join(sl, ";"), on, off, hl)
}
