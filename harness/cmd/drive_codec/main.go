// drive_codec: line-protocol driver for pkg/packets + message.go (property C06).
//
// ops (one output line per input line; stateless, every line is self-contained):
//
//	dec <3|4|5> <hex>     ReadPacket with Reader.version preset; canonical dump, consumed, TotalBytes, Pack, re-decode
//	vbi <hex>             EncodeRemainLength on the bytes (the function that READS a variable byte integer)
//	evbi <n>              DecodeRemainLength (the function that WRITES one)
//	vt|vf|v5 x<hex>       ValidUTF8 && ValidTopicName(true,·) | ValidTopicFilter(true,·) | ValidV5Topic  (what the decoders apply)
//	rvt|rvf|rv5 x<hex>    the bare helpers; u8 x<hex> = ValidUTF8
//	msg <3|4|5> <hex>     decode a PUBLISH, MessageFromPublish, TotalBytes, MessageToPublish, Pack
//	mk <ver> <qos> <retain> <dup> <pid> <topic> <payload> <ct> <cd> <expiry> <pf> <rt> <subids> <user>
//	                      build a gmqtt.Message directly (byte fields: - = nil, x<hex> = non-nil), TotalBytes vs Pack
//	alloc <3|4|5> <hex>   heap bytes allocated by one ReadPacket, as a class
//	stream <hex>          ReadPacket in a loop on one Reader (version switches on CONNECT)
//	keep <3|4|5> <hex>,<hex>,…   decode every packet and KEEP it alive while later packets are decoded, all kept packets are
//	                      packed again and again and filler packets are decoded/packed (everything that takes buffers from
//	                      the package's pool); only then dump + re-encode all of them. Answer = the `dec` answers joined by " | ":
//	                      decoded packets must not alias memory that later codec calls reuse.
package main

import (
	"bufio"
	"bytes"
	"encoding/hex"
	"errors"
	"fmt"
	"io"
	"runtime"
	"strconv"
	"strings"

	"verifharness/internal/drv"

	"github.com/DrmagicE/gmqtt"
	"github.com/DrmagicE/gmqtt/pkg/codes"
	"github.com/DrmagicE/gmqtt/pkg/packets"
)

func main() { drv.Main(&codecDrv{}) }

type codecDrv struct{}

func errClass(err error) string {
	var ce *codes.Error
	if errors.As(err, &ce) {
		switch ce.Code {
		case codes.MalformedPacket:
			return "malformed"
		case codes.ProtocolError:
			return "protocol"
		}
		return fmt.Sprintf("code%02x", ce.Code)
	}
	if err == io.EOF || err == io.ErrUnexpectedEOF {
		return "io"
	}
	return "other"
}

func b2i(b bool) int {
	if b {
		return 1
	}
	return 0
}

// hx: nil slice -> "-", otherwise "x"+hex
func hx(b []byte) string {
	if b == nil {
		return "-"
	}
	return "x" + hex.EncodeToString(b)
}

func unhx(s string) ([]byte, bool) {
	if s == "-" {
		return nil, true
	}
	if !strings.HasPrefix(s, "x") {
		return nil, false
	}
	b, err := hex.DecodeString(s[1:])
	if err != nil {
		return nil, false
	}
	if b == nil {
		b = []byte{}
	}
	return b, true
}

func showProps(p *packets.Properties) string {
	if p == nil {
		return "nil"
	}
	var s []string
	pb := func(id byte, v *byte) {
		if v != nil {
			s = append(s, fmt.Sprintf("%02x=%d", id, *v))
		}
	}
	p16 := func(id byte, v *uint16) {
		if v != nil {
			s = append(s, fmt.Sprintf("%02x=%d", id, *v))
		}
	}
	p32 := func(id byte, v *uint32) {
		if v != nil {
			s = append(s, fmt.Sprintf("%02x=%d", id, *v))
		}
	}
	ps := func(id byte, v []byte) {
		if v != nil {
			s = append(s, fmt.Sprintf("%02x=%s", id, hx(v)))
		}
	}
	// the order of Properties.Pack
	pb(0x01, p.PayloadFormat)
	p32(0x02, p.MessageExpiry)
	ps(0x03, p.ContentType)
	ps(0x08, p.ResponseTopic)
	ps(0x09, p.CorrelationData)
	if len(p.SubscriptionIdentifier) != 0 {
		var t []string
		for _, v := range p.SubscriptionIdentifier {
			t = append(t, strconv.FormatUint(uint64(v), 10))
		}
		s = append(s, "0b="+strings.Join(t, "|"))
	}
	p32(0x11, p.SessionExpiryInterval)
	ps(0x12, p.AssignedClientID)
	p16(0x13, p.ServerKeepAlive)
	ps(0x15, p.AuthMethod)
	ps(0x16, p.AuthData)
	pb(0x17, p.RequestProblemInfo)
	p32(0x18, p.WillDelayInterval)
	pb(0x19, p.RequestResponseInfo)
	ps(0x1a, p.ResponseInfo)
	ps(0x1c, p.ServerReference)
	ps(0x1f, p.ReasonString)
	p16(0x21, p.ReceiveMaximum)
	p16(0x22, p.TopicAliasMaximum)
	p16(0x23, p.TopicAlias)
	pb(0x24, p.MaximumQoS)
	pb(0x25, p.RetainAvailable)
	if len(p.User) != 0 {
		var t []string
		for _, u := range p.User {
			t = append(t, hx(u.K)+":"+hx(u.V))
		}
		s = append(s, "26="+strings.Join(t, "|"))
	}
	p32(0x27, p.MaximumPacketSize)
	pb(0x28, p.WildcardSubAvailable)
	pb(0x29, p.SubIDAvailable)
	pb(0x2a, p.SharedSubAvailable)
	return "{" + strings.Join(s, ",") + "}"
}

func dump(p packets.Packet) string {
	switch t := p.(type) {
	case *packets.Connect:
		return fmt.Sprintf("CONNECT ver=%d level=%d name=%s uf=%d pf=%d wr=%d wq=%d wf=%d cs=%d ka=%d cid=%s wt=%s wm=%s user=%s pass=%s props=%s wprops=%s",
			t.Version, t.ProtocolLevel, hx(t.ProtocolName), b2i(t.UsernameFlag), b2i(t.PasswordFlag), b2i(t.WillRetain), t.WillQos,
			b2i(t.WillFlag), b2i(t.CleanStart), t.KeepAlive, hx(t.ClientID), hx(t.WillTopic), hx(t.WillMsg), hx(t.Username), hx(t.Password),
			showProps(t.Properties), showProps(t.WillProperties))
	case *packets.Connack:
		return fmt.Sprintf("CONNACK ver=%d code=%d sp=%d props=%s", t.Version, t.Code, b2i(t.SessionPresent), showProps(t.Properties))
	case *packets.Publish:
		return fmt.Sprintf("PUBLISH ver=%d dup=%d qos=%d retain=%d topic=%s pid=%d payload=%s props=%s",
			t.Version, b2i(t.Dup), t.Qos, b2i(t.Retain), hx(t.TopicName), t.PacketID, hx(t.Payload), showProps(t.Properties))
	case *packets.Puback:
		return fmt.Sprintf("PUBACK ver=%d pid=%d code=%d props=%s", t.Version, t.PacketID, t.Code, showProps(t.Properties))
	case *packets.Pubrec:
		return fmt.Sprintf("PUBREC ver=%d pid=%d code=%d props=%s", t.Version, t.PacketID, t.Code, showProps(t.Properties))
	case *packets.Pubrel:
		return fmt.Sprintf("PUBREL pid=%d code=%d props=%s", t.PacketID, t.Code, showProps(t.Properties))
	case *packets.Pubcomp:
		return fmt.Sprintf("PUBCOMP ver=%d pid=%d code=%d props=%s", t.Version, t.PacketID, t.Code, showProps(t.Properties))
	case *packets.Subscribe:
		var ts []string
		for _, x := range t.Topics {
			ts = append(ts, fmt.Sprintf("%s:%d:%d:%d:%d", hx([]byte(x.Name)), x.Qos, b2i(x.NoLocal), b2i(x.RetainAsPublished), x.RetainHandling))
		}
		return fmt.Sprintf("SUBSCRIBE ver=%d pid=%d topics=[%s] props=%s", t.Version, t.PacketID, strings.Join(ts, ","), showProps(t.Properties))
	case *packets.Suback:
		return fmt.Sprintf("SUBACK ver=%d pid=%d payload=%s props=%s", t.Version, t.PacketID, hx(t.Payload), showProps(t.Properties))
	case *packets.Unsubscribe:
		var ts []string
		for _, x := range t.Topics {
			ts = append(ts, hx([]byte(x)))
		}
		return fmt.Sprintf("UNSUBSCRIBE ver=%d pid=%d topics=[%s] props=%s", t.Version, t.PacketID, strings.Join(ts, ","), showProps(t.Properties))
	case *packets.Unsuback:
		return fmt.Sprintf("UNSUBACK ver=%d pid=%d payload=%s props=%s", t.Version, t.PacketID, hx(t.Payload), showProps(t.Properties))
	case *packets.Pingreq:
		return "PINGREQ"
	case *packets.Pingresp:
		return "PINGRESP"
	case *packets.Disconnect:
		return fmt.Sprintf("DISCONNECT ver=%d code=%d props=%s", t.Version, t.Code, showProps(t.Properties))
	case *packets.Auth:
		return fmt.Sprintf("AUTH code=%d props=%s", t.Code, showProps(t.Properties))
	}
	return "?"
}

// readOne runs Reader.ReadPacket on data with the reader's version preset; consumed = bytes taken from the stream.
func readOne(ver byte, data []byte) (packets.Packet, error, int) {
	src := bytes.NewReader(data)
	br := bufio.NewReaderSize(src, 2048)
	r := packets.NewReader(br)
	r.SetVersion(ver)
	p, err := r.ReadPacket()
	consumed := len(data) - src.Len() - br.Buffered()
	return p, err, consumed
}

func verOf(s string) (byte, bool) {
	switch s {
	case "3":
		return packets.Version31, true
	case "4":
		return packets.Version311, true
	case "5":
		return packets.Version5, true
	}
	return 0, false
}

// failWriter accepts `left` bytes, then fails every write
type failWriter struct{ left int }

func (w *failWriter) Write(p []byte) (int, error) {
	if len(p) <= w.left {
		w.left -= len(p)
		return len(p), nil
	}
	n := w.left
	w.left = 0
	return n, errors.New("write failed")
}

func pack(p packets.Packet) ([]byte, error) {
	var w bytes.Buffer
	err := p.Pack(&w)
	return w.Bytes(), err
}

func (d *codecDrv) dec(ver byte, data []byte) string {
	p, err, consumed := readOne(ver, data)
	if err != nil {
		return fmt.Sprintf("err:%s consumed=%d", errClass(err), consumed)
	}
	return d.report(ver, p, consumed, packets.TotalBytes(p))
}

// filler: a v5 PUBLISH with a property block and a recognisable payload, and its encoding
func filler(fill byte, n int) (*packets.Publish, []byte) {
	one := byte(1)
	alias := uint16(9)
	pl := bytes.Repeat([]byte{fill}, n)
	p := &packets.Publish{Version: packets.Version5, Qos: 1, PacketID: 0x5a5a, TopicName: bytes.Repeat([]byte{fill & 0x5f | 0x40}, 24),
		Payload: pl, Properties: &packets.Properties{PayloadFormat: &one, TopicAlias: &alias, ContentType: bytes.Repeat([]byte{'Q'}, 40),
			CorrelationData: bytes.Repeat([]byte{fill}, 33), User: []packets.UserProperty{{K: bytes.Repeat([]byte{'k'}, 17), V: bytes.Repeat([]byte{'v'}, 19)}}}}
	b, _ := pack(p)
	return p, b
}

type fillerPkt struct {
	p *packets.Publish
	b []byte
}

var fillers = func() []fillerPkt {
	var fs []fillerPkt
	for i, n := range []int{3, 200, 3000} {
		p, b := filler(byte(0xA0+i), n)
		fs = append(fs, fillerPkt{p, b})
	}
	return fs
}()

var fillerRaw = [][]byte{
	{0x10, 0x13, 0, 4, 'M', 'Q', 'T', 'T', 5, 2, 0, 60, 5, 0x11, 0xee, 0xee, 0xee, 0xee, 0, 1, 'z'},
	{0x82, 0x0b, 0x12, 0x34, 0x00, 0, 5, 'e', 'e', '/', 'e', 'e', 1},
	{0x40, 0x0a, 0x12, 0x34, 0x10, 0x06, 0x1f, 0, 3, 'e', 'e', 'e'},
}

// churn makes the codec take and release pooled buffers of several sizes, overwriting whatever they held
func churn(kept []packets.Packet) {
	for _, q := range kept {
		if q != nil {
			pack(q)
		}
	}
	for _, f := range fillers {
		pack(f.p)
		if q, err, _ := readOne(packets.Version5, f.b); err == nil {
			pack(q)
		}
	}
	for _, raw := range fillerRaw {
		if q, err, _ := readOne(packets.Version5, raw); err == nil {
			pack(q)
		}
	}
}

type keptPacket struct {
	p        packets.Packet
	err      error
	consumed int
	size0    uint32
}

func (d *codecDrv) keep(ver byte, datas [][]byte) string {
	var ks []keptPacket
	var live []packets.Packet
	for _, data := range datas {
		p, err, consumed := readOne(ver, data)
		k := keptPacket{p: p, err: err, consumed: consumed}
		if err == nil {
			k.size0 = packets.TotalBytes(p)
			live = append(live, p)
		}
		ks = append(ks, k)
		churn(live)
	}
	churn(live)
	var out []string
	for _, k := range ks {
		if k.err != nil {
			out = append(out, fmt.Sprintf("err:%s consumed=%d", errClass(k.err), k.consumed))
		} else {
			out = append(out, d.report(ver, k.p, k.consumed, k.size0))
		}
	}
	return "keep " + strings.Join(out, " | ")
}

// report: canonical dump, Pack, TotalBytes, re-decode of what Pack wrote
func (d *codecDrv) report(ver byte, p packets.Packet, consumed int, size0 uint32) string {
	d0 := dump(p)
	out, perr := pack(p)
	if perr != nil {
		return fmt.Sprintf("ok %s consumed=%d size0=%d packerr:%s", d0, consumed, size0, errClass(perr))
	}
	size := packets.TotalBytes(p)
	// re-decode what Pack produced, with the same reader version
	rt := "ok"
	p2, err2, c2 := readOne(ver, out)
	if err2 != nil {
		rt = "err:" + errClass(err2)
	} else if c2 != len(out) {
		rt = fmt.Sprintf("short:%d", c2)
	} else if dump(p2) != d0 {
		rt = "differs"
	}
	return fmt.Sprintf("ok %s consumed=%d size0=%d size=%d reenc=%s rt=%s", d0, consumed, size0, size, hex.EncodeToString(out), rt)
}

func parseU32List(s string) []uint32 {
	if s == "-" {
		return nil
	}
	var r []uint32
	for _, x := range strings.Split(s, "|") {
		n, _ := strconv.ParseUint(x, 10, 32)
		r = append(r, uint32(n))
	}
	return r
}

func msgReport(m *gmqtt.Message, ver byte) string {
	total := m.TotalBytes(ver)
	pub := gmqtt.MessageToPublish(m, ver)
	out, err := pack(pub)
	if err != nil {
		return fmt.Sprintf("total=%d packerr:%s", total, errClass(err))
	}
	return fmt.Sprintf("total=%d len=%d repack=%s", total, len(out), hex.EncodeToString(out))
}

func (d *codecDrv) Step(line string) string {
	f := strings.Fields(line)
	if len(f) == 0 {
		return "bad-op"
	}
	switch f[0] {
	case "keep":
		if len(f) != 3 {
			return "bad-op"
		}
		ver, ok := verOf(f[1])
		if !ok {
			return "bad-op"
		}
		var datas [][]byte
		for _, h := range strings.Split(f[2], ",") {
			b, err := unhex(h)
			if err != nil {
				return "bad-op"
			}
			datas = append(datas, b)
		}
		return d.keep(ver, datas)
	case "pf":
		// a Pack that FAILS part-way: the packet is encoded into a writer that accepts n bytes and then errors (a connection
		// that dies while a packet is flushed). Whatever the encoder keeps between calls (pooled scratch buffers) must not
		// carry anything over into the next encode: the ops that follow re-encode as usual.
		if len(f) != 4 {
			return "bad-op"
		}
		ver, ok := verOf(f[1])
		data, err := unhex(f[2])
		if !ok || err != nil {
			return "bad-op"
		}
		if q, err, _ := readOne(ver, data); err == nil {
			_ = q.Pack(&failWriter{left: drv.Atoi(f[3])})
		}
		return "pf"
	case "dec", "msg", "alloc":
		if len(f) != 3 {
			return "bad-op"
		}
		ver, ok := verOf(f[1])
		data, err := unhex(f[2])
		if !ok || err != nil {
			return "bad-op"
		}
		switch f[0] {
		case "dec":
			return d.dec(ver, data)
		case "msg":
			p, err, _ := readOne(ver, data)
			if err != nil {
				return "err:" + errClass(err)
			}
			pub, ok := p.(*packets.Publish)
			if !ok {
				return "notpublish"
			}
			m := gmqtt.MessageFromPublish(pub)
			m.PacketID = pub.PacketID
			return msgReport(m, ver)
		default:
			var m0, m1 runtime.MemStats
			runtime.ReadMemStats(&m0)
			_, err, _ := readOne(ver, data)
			runtime.ReadMemStats(&m1)
			delta := m1.TotalAlloc - m0.TotalAlloc
			res := "ok"
			if err != nil {
				res = "err:" + errClass(err)
			}
			// bufio (2 KiB) + reader + packet structs: a fixed overhead; everything else should be O(len)
			cls := "proportional"
			if delta > uint64(4*len(data)+16384) {
				cls = "excess"
			}
			return res + " alloc=" + cls
		}
	case "stream":
		if len(f) != 2 {
			return "bad-op"
		}
		data, err := unhex(f[1])
		if err != nil {
			return "bad-op"
		}
		src := bytes.NewReader(data)
		br := bufio.NewReaderSize(src, 2048)
		r := packets.NewReader(br)
		var parts []string
		for {
			before := len(data) - src.Len() - br.Buffered()
			if before >= len(data) {
				break
			}
			p, err := r.ReadPacket()
			after := len(data) - src.Len() - br.Buffered()
			if err != nil {
				parts = append(parts, fmt.Sprintf("err:%s@%d", errClass(err), after))
				break
			}
			name := strings.Fields(dump(p))[0]
			v := ""
			if c, ok := p.(*packets.Connect); ok {
				v = fmt.Sprintf("v%d", c.Version)
			}
			parts = append(parts, fmt.Sprintf("%s%s@%d", name, v, after))
		}
		return strings.TrimSpace("stream " + strings.Join(parts, " "))
	case "vbi":
		if len(f) != 2 {
			return "bad-op"
		}
		data, err := unhex(f[1])
		if err != nil {
			return "bad-op"
		}
		rd := bytes.NewReader(data)
		n, e := packets.EncodeRemainLength(rd)
		if e != nil {
			return fmt.Sprintf("err:%s consumed=%d", errClass(e), len(data)-rd.Len())
		}
		return fmt.Sprintf("ok %d consumed=%d", n, len(data)-rd.Len())
	case "evbi":
		if len(f) != 2 {
			return "bad-op"
		}
		n, err := strconv.Atoi(f[1])
		if err != nil {
			return "bad-op"
		}
		b, e := packets.DecodeRemainLength(n)
		if e != nil {
			return "err:" + errClass(e)
		}
		return "ok " + hex.EncodeToString(b)
	case "vt", "vf", "v5", "u8", "rvt", "rvf", "rv5":
		if len(f) != 2 {
			return "bad-op"
		}
		data, ok := unhx(f[1])
		if !ok || data == nil {
			return "bad-op"
		}
		var r bool
		// vt/vf/v5: what the decoders apply to a topic field: readUTF8String(true,…) = ValidUTF8, then the topic check.
		// rvt/rvf/rv5: the bare helper functions.
		switch f[0] {
		case "vt":
			r = packets.ValidUTF8(data) && packets.ValidTopicName(true, data)
		case "vf":
			r = packets.ValidUTF8(data) && packets.ValidTopicFilter(true, data)
		case "v5":
			r = packets.ValidUTF8(data) && packets.ValidV5Topic(data)
		case "rvt":
			r = packets.ValidTopicName(true, data)
		case "rvf":
			r = packets.ValidTopicFilter(true, data)
		case "rv5":
			r = packets.ValidV5Topic(data)
		case "u8":
			r = packets.ValidUTF8(data)
		}
		return strconv.Itoa(b2i(r))
	case "mk":
		// mk <ver> <qos> <retain> <dup> <pid> <topic> <payload> <ct> <cd> <expiry> <pf> <rt> <subids> <user>
		if len(f) != 15 {
			return "bad-op"
		}
		ver, ok := verOf(f[1])
		if !ok {
			return "bad-op"
		}
		topic, _ := unhx(f[6])
		payload, _ := unhx(f[7])
		ct, _ := unhx(f[8])
		cd, _ := unhx(f[9])
		rt, _ := unhx(f[12])
		m := &gmqtt.Message{QoS: byte(drv.Atoi(f[2])), Retained: f[3] == "1", Dup: f[4] == "1", PacketID: uint16(drv.Atoi(f[5])),
			Topic: string(topic), Payload: payload, ContentType: string(ct), CorrelationData: cd,
			MessageExpiry: uint32(drv.Atoi(f[10])), PayloadFormat: byte(drv.Atoi(f[11])), ResponseTopic: string(rt),
			SubscriptionIdentifier: parseU32List(f[13])}
		if f[14] != "-" {
			for _, kv := range strings.Split(f[14], "|") {
				p := strings.SplitN(kv, ":", 2)
				if len(p) != 2 {
					return "bad-op"
				}
				k, _ := unhx(p[0])
				v, _ := unhx(p[1])
				m.UserProperties = append(m.UserProperties, packets.UserProperty{K: k, V: v})
			}
		}
		return msgReport(m, ver)
	}
	return "bad-op"
}

// unhex: "-" is the empty byte string
func unhex(s string) ([]byte, error) {
	if s == "-" {
		return []byte{}, nil
	}
	return hex.DecodeString(s)
}
