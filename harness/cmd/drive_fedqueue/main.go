// drive_fedqueue: the real federation.eventQueue behind the line protocol of lean/Driver/FedQueue.lean.
package main

import (
	"fmt"
	"strconv"
	"strings"

	"verifharness/internal/drv"

	fed "github.com/DrmagicE/gmqtt/plugin/federation"
)

func main() { drv.Main(&qdrv{q: fed.VerifNewQueue()}) }

type qdrv struct{ q *fed.VerifQueue }

func (d *qdrv) dump() string {
	ids, cur, cid, nid, closed := d.q.Dump()
	lst := "[]"
	if len(ids) > 0 {
		consecutive := true
		for i, v := range ids {
			consecutive = consecutive && v == ids[0]+uint64(i)
		}
		if consecutive {
			lst = fmt.Sprintf("[%d..%d]", ids[0], ids[len(ids)-1])
		} else {
			s := make([]string, len(ids))
			for i, v := range ids {
				s[i] = strconv.FormatUint(v, 10)
			}
			lst = "[" + strings.Join(s, ",") + "]"
		}
	}
	c := "nil"
	if cur != "nil" {
		c = fmt.Sprintf("%s:%d", cur, cid)
	}
	cl := 0
	if closed {
		cl = 1
	}
	return fmt.Sprintf("l=%s cur=%s nid=%d closed=%d", lst, c, nid, cl)
}

func tagEvent(tag string) *fed.Event {
	return &fed.Event{Event: &fed.Event_Subscribe{Subscribe: &fed.Subscribe{TopicFilter: tag}}}
}

func (d *qdrv) Step(line string) string {
	f := strings.Fields(line)
	if len(f) == 0 {
		return "bad-op"
	}
	switch {
	case f[0] == "new" && len(f) == 1:
		d.q = fed.VerifNewQueue()
		return "ok " + d.dump()
	case f[0] == "add" && len(f) == 2:
		id := d.q.Add(tagEvent(strconv.Itoa(drv.Atoi(f[1]))))
		return fmt.Sprintf("id=%d ", id) + d.dump()
	case f[0] == "fetch" && len(f) == 1:
		evs, blocked := d.q.Fetch()
		if blocked {
			return "blocked " + d.dump()
		}
		if evs == nil {
			return "closed " + d.dump()
		}
		s := make([]string, len(evs))
		for i, e := range evs {
			s[i] = fmt.Sprintf("%d:%s", e.Id, e.GetSubscribe().GetTopicFilter())
		}
		return "ev=[" + strings.Join(s, ",") + "] " + d.dump()
	case f[0] == "ack" && len(f) == 2:
		d.q.Ack(uint64(drv.Atoi(f[1])))
		return "ok " + d.dump()
	case f[0] == "setpos" && len(f) == 2:
		d.q.SetReadPosition(uint64(drv.Atoi(f[1])))
		return "ok " + d.dump()
	case f[0] == "clear" && len(f) == 1:
		d.q.Clear()
		return "ok " + d.dump()
	case f[0] == "close" && len(f) == 1:
		d.q.Close()
		return "ok " + d.dump()
	case f[0] == "open" && len(f) == 1:
		d.q.Open()
		return "ok " + d.dump()
	}
	return "bad-op"
}
