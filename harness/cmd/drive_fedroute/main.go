// drive_fedroute: the real Federation.sendMessage, entered through OnMsgArrivedWrapper, against a real federation
// subscription tree (mem.TrieDB), a real local subscription store and real per-peer eventQueues.
package main

import (
	"context"
	"fmt"
	"sort"
	"strings"

	"verifharness/internal/drv"

	"github.com/DrmagicE/gmqtt"
	"github.com/DrmagicE/gmqtt/config"
	_ "github.com/DrmagicE/gmqtt/persistence"
	"github.com/DrmagicE/gmqtt/persistence/subscription"
	fed "github.com/DrmagicE/gmqtt/plugin/federation"
	"github.com/DrmagicE/gmqtt/server"
	_ "github.com/DrmagicE/gmqtt/topicalias/fifo"
)

func main() { drv.Main(&rdrv{}) }

type rdrv struct {
	f         *fed.VerifFed
	hookCalls int
	realPub   bool
}

// realPublisher wires f.publisher to the Publisher of a real (initialised, not running) server value whose OnMsgArrived
// hook is the federation's wrapper — the chain a received Message event takes in production.
func (d *rdrv) realPublisher() error {
	if d.realPub {
		return nil
	}
	hook := d.f.F.OnMsgArrivedWrapper(func(ctx context.Context, c server.Client, req *server.MsgArrivedRequest) error {
		d.hookCalls++
		return nil
	})
	srv := server.New(server.WithConfig(config.DefaultConfig()), server.WithHook(server.Hooks{OnMsgArrived: hook}))
	if err := srv.Init(); err != nil {
		return err
	}
	d.f.SetPublisher(srv.Publisher())
	d.realPub = true
	return nil
}

func opt(s string) string {
	if s == "-" {
		return ""
	}
	return s
}

func (d *rdrv) Step(line string) string {
	f := strings.Fields(line)
	if len(f) == 0 {
		return "bad-op"
	}
	if f[0] == "new" && len(f) == 2 {
		d.f = fed.VerifNewFed(f[1], nil)
		d.hookCalls, d.realPub = 0, false
		return "ok"
	}
	if d.f == nil {
		return "bad-op"
	}
	switch {
	case f[0] == "peer" && len(f) == 2:
		d.f.NodeJoin(f[1])
		return "ok"
	case f[0] == "fsub" && len(f) == 4:
		d.f.FedSubscribe(f[1], opt(f[2]), f[3])
		return "ok"
	case f[0] == "funsub" && len(f) == 3:
		d.f.FedUnsubscribe(f[1], f[2])
		return "ok"
	case f[0] == "lsub" && len(f) == 4:
		_, _ = d.f.Local.Subscribe(f[1], &gmqtt.Subscription{ShareName: opt(f[2]), TopicFilter: f[3]})
		return "ok"
	case f[0] == "lunsub" && len(f) == 3:
		_ = d.f.Local.Unsubscribe(f[1], f[2])
		return "ok"
	case f[0] == "cnt" && len(f) == 3:
		d.f.SetSharedSent(f[1], uint64(drv.Atoi(f[2])))
		return "ok"
	case f[0] == "recvpub" && len(f) == 4:
		// a Message event from peer f[1] through the real Hello + EventStream loop into the REAL Publisher
		if err := d.realPublisher(); err != nil {
			return "err-init"
		}
		before := 0
		for _, p := range d.f.Peers() {
			before += len(d.f.PeerQueue(p).Events())
		}
		calls := d.hookCalls
		if _, _, err := d.f.Hello(f[1], "recvpub-session"); err != nil {
			return "err-hello"
		}
		st, err := d.f.OpenStream(f[1])
		if err != nil {
			return "err-open"
		}
		_, next, _, _ := d.f.SessionInfo(f[1])
		acks, _, hang := st.Deliver(&fed.Event{Id: next, Event: &fed.Event_Message{Message: &fed.Message{
			TopicName: f[2], Retained: f[3] == "1", Payload: []byte("x"), Qos: 1}}}, false)
		st.Break()
		if hang || len(acks) != 1 {
			return "hang"
		}
		after := 0
		for _, p := range d.f.Peers() {
			after += len(d.f.PeerQueue(p).Events())
		}
		return fmt.Sprintf("hookcalls=%d queued=%d", d.hookCalls-calls, after-before)
	case (f[0] == "pub" || f[0] == "pubd" || f[0] == "wpub") && len(f) == 3: // wpub: a will message (OnWillPublishWrapper); pubd: the client's PUBLISH carries DUP=1 (a retransmission the broker sees for the first time)
		before := map[string]int{}
		for _, p := range d.f.Peers() {
			before[p] = len(d.f.PeerQueue(p).Events())
		}
		msg := &gmqtt.Message{Topic: opt(f[1]), Retained: f[2] == "1", Payload: []byte("x"), QoS: 1, Dup: f[0] == "pubd"}
		var dropped bool
		var opts subscription.IterationOptions
		if f[0] == "wpub" {
			dropped, opts = d.f.HookWillPublish("pubclient", msg)
		} else {
			var err error
			dropped, opts, err = d.f.HookMsgArrived("pubclient", msg)
			if err != nil {
				return "err"
			}
		}
		var targets []string
		for _, p := range d.f.Peers() {
			evs := d.f.PeerQueue(p).Events()
			n := len(evs) - before[p]
			for _, e := range evs[before[p]:] {
				m := e.GetMessage()
				if m == nil || m.TopicName != msg.Topic || m.Retained != msg.Retained || string(m.Payload) != "x" {
					return "wrong-event"
				}
			}
			for i := 0; i < n; i++ { // a node listed twice = message added twice to its queue
				targets = append(targets, p)
			}
		}
		sort.Strings(targets)
		nso := 0
		if opts.Type == subscription.TypeAll^subscription.TypeShared && opts.TopicName == msg.Topic && opts.MatchType == subscription.MatchFilter {
			nso = 1
		} else if opts != (subscription.IterationOptions{}) {
			return "odd-options"
		}
		dr := 0
		if dropped {
			dr = 1
		}
		var cnt []string
		for k, v := range d.f.SharedSent() {
			cnt = append(cnt, fmt.Sprintf("%s:%d", k, v))
		}
		sort.Strings(cnt)
		// every peer queue as it is now: id:topic of each queued event (ids are what the peer will see on the wire)
		var qs []string
		for _, p := range d.f.Peers() {
			var es []string
			for _, e := range d.f.PeerQueue(p).Events() {
				t := "?"
				if m := e.GetMessage(); m != nil {
					t = m.TopicName
					if t == "" {
						t = "-"
					}
				}
				es = append(es, fmt.Sprintf("%d:%s", e.Id, t))
			}
			qs = append(qs, p+"="+strings.Join(es, ","))
		}
		sort.Strings(qs)
		return fmt.Sprintf("targets=[%s] drop=%d nso=%d cnt=[%s] qs=[%s]", strings.Join(targets, ","), dr, nso, strings.Join(cnt, ";"),
			strings.Join(qs, ";"))
	}
	return "bad-op"
}
