// drive_fedroute: the real Federation.sendMessage, entered through OnMsgArrivedWrapper, against a real federation
// subscription tree (mem.TrieDB), a real local subscription store and real per-peer eventQueues.
package main

import (
	"fmt"
	"sort"
	"strings"

	"verifharness/internal/drv"

	"github.com/DrmagicE/gmqtt"
	"github.com/DrmagicE/gmqtt/persistence/subscription"
	fed "github.com/DrmagicE/gmqtt/plugin/federation"
)

func main() { drv.Main(&rdrv{}) }

type rdrv struct{ f *fed.VerifFed }

func opt(s string) string {
	if s == "-" {
		return ""
	}
	return s
}

func (d *rdrv) Step(line string) string {
	f := strings.Fields(line)
	if len(f) == 0 {
		return "bad-op"
	}
	if f[0] == "new" && len(f) == 2 {
		d.f = fed.VerifNewFed(f[1], nil)
		return "ok"
	}
	if d.f == nil {
		return "bad-op"
	}
	switch {
	case f[0] == "peer" && len(f) == 2:
		d.f.NodeJoin(f[1])
		return "ok"
	case f[0] == "fsub" && len(f) == 4:
		d.f.FedSubscribe(f[1], opt(f[2]), f[3])
		return "ok"
	case f[0] == "funsub" && len(f) == 3:
		d.f.FedUnsubscribe(f[1], f[2])
		return "ok"
	case f[0] == "lsub" && len(f) == 4:
		_, _ = d.f.Local.Subscribe(f[1], &gmqtt.Subscription{ShareName: opt(f[2]), TopicFilter: f[3]})
		return "ok"
	case f[0] == "lunsub" && len(f) == 3:
		_ = d.f.Local.Unsubscribe(f[1], f[2])
		return "ok"
	case f[0] == "cnt" && len(f) == 3:
		d.f.SetSharedSent(f[1], uint64(drv.Atoi(f[2])))
		return "ok"
	case f[0] == "pub" && len(f) == 3:
		before := map[string]int{}
		for _, p := range d.f.Peers() {
			before[p] = len(d.f.PeerQueue(p).Events())
		}
		msg := &gmqtt.Message{Topic: opt(f[1]), Retained: f[2] == "1", Payload: []byte("x"), QoS: 1}
		dropped, opts, err := d.f.HookMsgArrived("pubclient", msg)
		if err != nil {
			return "err"
		}
		var targets []string
		for _, p := range d.f.Peers() {
			evs := d.f.PeerQueue(p).Events()
			n := len(evs) - before[p]
			for _, e := range evs[before[p]:] {
				m := e.GetMessage()
				if m == nil || m.TopicName != msg.Topic || m.Retained != msg.Retained || string(m.Payload) != "x" {
					return "wrong-event"
				}
			}
			for i := 0; i < n; i++ { // a node listed twice = message added twice to its queue
				targets = append(targets, p)
			}
		}
		sort.Strings(targets)
		nso := 0
		if opts.Type == subscription.TypeAll^subscription.TypeShared && opts.TopicName == msg.Topic && opts.MatchType == subscription.MatchFilter {
			nso = 1
		} else if opts != (subscription.IterationOptions{}) {
			return "odd-options"
		}
		dr := 0
		if dropped {
			dr = 1
		}
		var cnt []string
		for k, v := range d.f.SharedSent() {
			cnt = append(cnt, fmt.Sprintf("%s:%d", k, v))
		}
		sort.Strings(cnt)
		return fmt.Sprintf("targets=[%s] drop=%d nso=%d cnt=[%s]", strings.Join(targets, ","), dr, nso, strings.Join(cnt, ";"))
	}
	return "bad-op"
}
