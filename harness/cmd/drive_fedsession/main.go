// drive_fedsession: the real receiver side of the federation event stream (sessionMgr, Federation.Hello,
// Federation.EventStream loop + eventStreamHandler, nodeJoin/nodeFail) behind the line protocol of
// lean/Driver/FedSession.lean. No serf, no gRPC: the stream is a step-driven in-memory implementation of
// Federation_EventStreamServer, the publisher records, the subscription tree is the real mem.TrieDB.
package main

import (
	"fmt"
	"strconv"
	"strings"

	"verifharness/internal/drv"

	fed "github.com/DrmagicE/gmqtt/plugin/federation"
)

func main() { drv.Main(&sdrv{}) }

type sdrv struct {
	f       *fed.VerifFed
	streams map[string]*fed.VerifServerStream
	npubs   int
}

func opt(s string) string {
	if s == "-" {
		return ""
	}
	return s
}
func sopt(s string) string {
	if s == "" {
		return "-"
	}
	return s
}

func payloadOf(tag string) []byte {
	if tag == "0" {
		return nil
	}
	return []byte("p" + tag)
}
func tagOf(p string) string {
	if p == "" {
		return "0"
	}
	return strings.TrimPrefix(p, "p")
}

func (d *sdrv) peers() string { return "peers=[" + strings.Join(d.f.Peers(), ",") + "]" }

func (d *sdrv) seen(node string) (next uint64, s string) {
	_, next, seen, ok := d.f.SessionInfo(node)
	if !ok {
		return 0, "nosession"
	}
	if len(seen) == 0 {
		return next, "0/-/-/0"
	}
	var sum uint64
	for _, v := range seen {
		sum += v
	}
	return next, fmt.Sprintf("%d/%d/%d/%d", len(seen), seen[0], seen[len(seen)-1], sum)
}

func (d *sdrv) dump() string {
	var subs, sess, ret []string
	for _, s := range d.f.FedSubs() {
		subs = append(subs, s[0]+"|"+sopt(s[1])+"|"+s[2])
	}
	for _, n := range d.f.Sessions() {
		id, next, _, _ := d.f.SessionInfo(n)
		sess = append(sess, fmt.Sprintf("%s:%s:%d", n, id, next))
	}
	for _, r := range d.f.RetainedDump() {
		ret = append(ret, r[0]+"="+tagOf(r[1]))
	}
	return fmt.Sprintf("subs=[%s] sess=[%s] retained=[%s] pubs=%d %s", strings.Join(subs, ";"), strings.Join(sess, ";"),
		strings.Join(ret, ";"), d.npubs, d.peers())
}

func (d *sdrv) reap() {
	for n, s := range d.streams {
		if s.Ended() {
			delete(d.streams, n)
		}
	}
}

var _ = strconv.Itoa

func (d *sdrv) Step(line string) string {
	f := strings.Fields(line)
	if len(f) == 0 {
		return "bad-op"
	}
	if f[0] == "new" && len(f) == 2 {
		for _, s := range d.streams {
			s.Break()
		}
		d.f = fed.VerifNewFed(f[1], nil)
		d.streams = map[string]*fed.VerifServerStream{}
		d.npubs = 0
		return "ok"
	}
	if d.f == nil {
		return "bad-op"
	}
	switch {
	case f[0] == "join" && len(f) == 2:
		d.f.NodeJoin(f[1])
		return "ok " + d.peers()
	case f[0] == "fail" && len(f) == 2:
		had := false
		for _, p := range d.f.Peers() {
			had = had || p == f[1]
		}
		d.f.NodeFail(f[1])
		if s := d.streams[f[1]]; s != nil && had {
			// sessionMgr.del closed the session: the handler returns; gRPC then cancels the stream
			select {
			case err := <-s.Done:
				s.Done <- err
			}
			delete(d.streams, f[1])
		}
		return "ok " + d.peers()
	case f[0] == "hello" && len(f) == 3:
		if s := d.streams[f[1]]; s != nil {
			if s.Break() {
				return "hang"
			}
			delete(d.streams, f[1])
		}
		clean, next, err := d.f.Hello(f[1], f[2])
		if err != nil {
			return "err"
		}
		c := 0
		if clean {
			c = 1
		}
		return fmt.Sprintf("clean=%d next=%d", c, next)
	case f[0] == "open" && len(f) == 2:
		if d.streams[f[1]] != nil {
			return "bad-op"
		}
		s, err := d.f.OpenStream(f[1])
		if err != nil {
			return "err"
		}
		d.streams[f[1]] = s
		return "ok"
	case f[0] == "ev" && len(f) >= 5:
		node, id, ackok := f[1], uint64(drv.Atoi(f[2])), f[3] == "1"
		var ev *fed.Event
		r := f[4:]
		switch {
		case r[0] == "sub" && len(r) == 3:
			ev = &fed.Event{Id: id, Event: &fed.Event_Subscribe{Subscribe: &fed.Subscribe{ShareName: opt(r[1]), TopicFilter: r[2]}}}
		case r[0] == "unsub" && len(r) == 2:
			ev = &fed.Event{Id: id, Event: &fed.Event_Unsubscribe{Unsubscribe: &fed.Unsubscribe{TopicName: r[1]}}}
		case r[0] == "msg" && len(r) == 5:
			ev = &fed.Event{Id: id, Event: &fed.Event_Message{Message: &fed.Message{TopicName: opt(r[1]), Retained: r[2] == "1",
				Payload: payloadOf(strconv.Itoa(drv.Atoi(r[3]))), Qos: uint32(drv.Atoi(r[4]))}}}
		default:
			return "bad-op"
		}
		s := d.streams[node]
		if s == nil {
			return "closed"
		}
		acks, ended, hang := s.Deliver(ev, !ackok)
		if hang {
			return "hang"
		}
		if ended {
			delete(d.streams, node)
		}
		next, seen := d.seen(node)
		res := "ackfail"
		if ackok {
			if len(acks) != 1 {
				return fmt.Sprintf("acks=%d", len(acks))
			}
			res = fmt.Sprintf("ack=%d", acks[0].EventId)
		}
		res += fmt.Sprintf(" next=%d seen=%s", next, seen)
		for _, m := range d.f.Pub.Take() {
			d.npubs++
			rt := 0
			if m.Retained {
				rt = 1
			}
			res += fmt.Sprintf(" pub=%s:%d:%s:%d", m.Topic, rt, tagOf(string(m.Payload)), m.QoS)
		}
		return res
	case f[0] == "break" && len(f) == 2:
		s := d.streams[f[1]]
		if s == nil {
			return "noop"
		}
		if s.Break() {
			return "hang"
		}
		delete(d.streams, f[1])
		return "ok"
	case f[0] == "dump" && len(f) == 1:
		return d.dump()
	}
	return "bad-op"
}
