// drive_fedsim: two real Federation values, S (sender) and R (receiver), connected by the real client loops
// (peer.initStream, stream.serve = readLoop + sendEvents) and the real server handlers (Federation.Hello,
// Federation.EventStream) over an in-memory FederationClient / EventStream pair with one-shot fault injection.
// Every op returns after the system is quiet again (stream up, S's queue fully acknowledged), then reports.
package main

import (
	"context"
	"errors"
	"fmt"
	"sort"
	"strings"
	"sync"
	"time"

	"verifharness/internal/drv"

	"github.com/DrmagicE/gmqtt"
	fed "github.com/DrmagicE/gmqtt/plugin/federation"
	"google.golang.org/grpc"
	"google.golang.org/grpc/metadata"
)

func main() { drv.Main(&sim{}) }

var errCut = errors.New("fedsim: injected fault")

type applied struct {
	id   uint64
	body string
}

type link struct {
	ctx    context.Context
	cancel context.CancelFunc
	up     chan *fed.Event
	down   chan *fed.Ack
}

type sim struct {
	mu        sync.Mutex
	S, R      *fed.VerifFed
	lk        *link
	srvIdle   bool // R's loop is blocked in Recv
	log       []applied
	connected bool
	stop      chan struct{}
	loopDone  chan struct{}
	cutSend   int // -1 = not armed
	cutAck    int
	cutOpen   bool
	cutHello  bool
	cutReq    bool // the next Hello never reaches R
	pubBase   int // publishes recorded by earlier incarnations of R
	armBefore func() // hook to run when the next clean start enters clear()
	armAfter  func() // hook to run right after that clear()
}

func bodyOf(e *fed.Event) string {
	if s := e.GetSubscribe(); s != nil {
		return "sub:" + s.ShareName + ":" + s.TopicFilter
	}
	if u := e.GetUnsubscribe(); u != nil {
		return "unsub:" + u.TopicName
	}
	if m := e.GetMessage(); m != nil {
		return "msg:" + m.TopicName + ":" + string(m.Payload)
	}
	return "none"
}

// ---- client side of the fake connection

type fakeClient struct{ s *sim }

func (c *fakeClient) Hello(ctx context.Context, in *fed.ClientHello, _ ...grpc.CallOption) (*fed.ServerHello, error) {
	s := c.s
	s.mu.Lock()
	defer s.mu.Unlock()
	select {
	case <-s.stop:
		return nil, errCut
	default:
	}
	if s.cutReq {
		s.cutReq = false
		return nil, errCut
	}
	resp, err := s.R.F.Hello(metadata.NewIncomingContext(context.Background(), metadata.Pairs("node_name", "S")), in)
	if err != nil {
		return nil, err
	}
	if resp.CleanStart {
		s.log = nil // R created a new session: its applied log starts empty
	}
	if s.cutHello {
		s.cutHello = false
		return nil, errCut // R processed the Hello, the response is lost
	}
	return resp, nil
}

func (c *fakeClient) EventStream(ctx context.Context, _ ...grpc.CallOption) (grpc.BidiStreamingClient[fed.Event, fed.Ack], error) {
	s := c.s
	s.mu.Lock()
	defer s.mu.Unlock()
	if s.cutOpen {
		s.cutOpen = false
		return nil, errCut
	}
	lctx, cancel := context.WithCancel(context.Background())
	lk := &link{ctx: lctx, cancel: cancel, up: make(chan *fed.Event), down: make(chan *fed.Ack)}
	s.lk = lk
	s.srvIdle = false
	r := s.R
	go func() {
		_ = r.F.EventStream(&srvStream{s: s, lk: lk, r: r})
		cancel()
	}()
	return &cliStream{s: s, lk: lk}, nil
}

type cliStream struct {
	grpc.ClientStream
	s  *sim
	lk *link
}

func (c *cliStream) Context() context.Context { return c.lk.ctx }
func (c *cliStream) CloseSend() error         { return nil }

func (c *cliStream) Send(e *fed.Event) error {
	s := c.s
	s.mu.Lock()
	if s.cutSend == 0 {
		s.cutSend = -1
		s.mu.Unlock()
		// let R finish what it already received, then lose the connection
		for i := 0; i < 100000; i++ {
			s.mu.Lock()
			idle := s.srvIdle
			s.mu.Unlock()
			if idle || c.lk.ctx.Err() != nil {
				break
			}
			time.Sleep(50 * time.Microsecond)
		}
		c.lk.cancel()
		return errCut
	}
	if s.cutSend > 0 {
		s.cutSend--
	}
	s.mu.Unlock()
	select {
	case c.lk.up <- e:
		return nil
	case <-c.lk.ctx.Done():
		return errCut
	}
}

func (c *cliStream) Recv() (*fed.Ack, error) {
	select {
	case a := <-c.lk.down:
		return a, nil
	case <-c.lk.ctx.Done():
		return nil, errCut
	}
}

// ---- server side

type srvStream struct {
	grpc.ServerStream
	s  *sim
	lk *link
	r  *fed.VerifFed
}

func (v *srvStream) Context() context.Context {
	return metadata.NewIncomingContext(v.lk.ctx, metadata.Pairs("node_name", "S"))
}

func (v *srvStream) Recv() (*fed.Event, error) {
	v.s.mu.Lock()
	v.s.srvIdle = true
	v.s.mu.Unlock()
	select {
	case e := <-v.lk.up:
		v.s.mu.Lock()
		v.s.srvIdle = false
		if v.r == v.s.R {
			_, _, seen, _ := v.r.SessionInfo("S")
			dup := false
			for _, x := range seen {
				dup = dup || x == e.Id
			}
			if !dup { // eventStreamHandler will apply it
				v.s.log = append(v.s.log, applied{e.Id, bodyOf(e)})
			}
		}
		v.s.mu.Unlock()
		return e, nil
	case <-v.lk.ctx.Done():
		return nil, errCut
	}
}

func (v *srvStream) Send(a *fed.Ack) error {
	v.s.mu.Lock()
	if v.s.cutAck == 0 {
		v.s.cutAck = -1
		v.s.mu.Unlock()
		v.lk.cancel()
		return errCut
	}
	if v.s.cutAck > 0 {
		v.s.cutAck--
	}
	v.s.mu.Unlock()
	select {
	case v.lk.down <- a:
		return nil
	case <-v.lk.ctx.Done():
		return errCut
	}
}

// ---- driver

func (s *sim) newR() {
	if s.R != nil {
		s.pubBase += s.R.Pub.Len()
	}
	s.R = fed.VerifNewFed("R", nil)
	s.R.NodeJoin("S")
	s.log = nil
}

func (s *sim) startLoop() {
	s.stop = make(chan struct{})
	s.loopDone = make(chan struct{})
	stop, done := s.stop, s.loopDone
	S := s.S
	go func() {
		defer close(done)
		for {
			select {
			case <-stop:
				return
			default:
			}
			_, _ = S.InitStreamAndServe("R", &fakeClient{s})
			time.Sleep(200 * time.Microsecond)
		}
	}()
}

func (s *sim) stopLoop() {
	if s.stop == nil {
		return
	}
	close(s.stop)
	s.mu.Lock()
	if s.lk != nil {
		s.lk.cancel()
	}
	s.mu.Unlock()
	select {
	case <-s.loopDone:
	case <-time.After(5 * time.Second):
	}
	s.stop = nil
}

func (s *sim) quiet() bool {
	s.mu.Lock()
	lk, idle := s.lk, s.srvIdle
	s.mu.Unlock()
	if lk == nil || lk.ctx.Err() != nil || !idle {
		return false
	}
	q := s.S.PeerQueue("R")
	if q == nil {
		return false
	}
	ids, cur, _, _, closed := q.Dump()
	return len(ids) == 0 && cur == "nil" && !closed
}

// hurried: once a wait for quiescence has run out the stream is wedged for good (or the machine hopelessly slow); the remaining
// ops of the script only document the state and need not wait the full time again
var hurried bool

func (s *sim) waitQuiet() (ok bool) {
	limit := 15 * time.Second
	if hurried {
		limit = 300 * time.Millisecond
	}
	defer func() {
		if !ok {
			hurried = true
		}
	}()
	deadline := time.Now().Add(limit)
	stable := 0
	for time.Now().Before(deadline) {
		if s.quiet() {
			stable++
			if stable >= 3 {
				return true
			}
		} else {
			stable = 0
		}
		time.Sleep(100 * time.Microsecond)
	}
	return false
}

func (s *sim) report() string {
	hist, _ := s.S.PeerHistory("R")
	s.mu.Lock()
	log := append([]applied(nil), s.log...)
	s.mu.Unlock()
	order := "ok"
	for i, a := range log {
		if a.id != uint64(i) || i >= len(hist) || bodyOf(hist[i]) != a.body {
			order = "bad"
			break
		}
	}
	var view, local []string
	for _, e := range s.R.FedSubs() {
		if e[0] == "S" {
			view = append(view, e[2])
		}
	}
	topics, _, _ := s.S.LocalSubsDump()
	for _, t := range topics {
		local = append(local, t[0])
	}
	sort.Strings(view)
	sort.Strings(local)
	return fmt.Sprintf("n=%d applied=%d order=%s view=[%s] local=[%s] pubs=%d", len(hist), len(log), order,
		strings.Join(view, ","), strings.Join(local, ","), s.pubBase+s.R.Pub.Len())
}

func (s *sim) fin() string {
	if s.connected && !s.waitQuiet() {
		return "hang " + s.report()
	}
	return s.report()
}

// arm (re-)installs the pending clear hooks on the current peer queue; each fires at most once
func (s *sim) arm() bool {
	s.mu.Lock()
	b, a := s.armBefore, s.armAfter
	s.mu.Unlock()
	var before, after func()
	if b != nil {
		before = func() {
			s.mu.Lock()
			s.armBefore = nil
			s.mu.Unlock()
			b()
		}
	}
	if a != nil {
		after = func() {
			s.mu.Lock()
			s.armAfter = nil
			s.mu.Unlock()
			a()
		}
	}
	return s.S.OnPeerQueueClear("R", before, after)
}

func (s *sim) setupPeer() {
	s.S.NodeJoin("R")
	s.S.RecordPeerQueue("R")
	s.arm()
	s.S.FedSubscribe("R", "", "t/#") // R has subscribers for t/#: non-retained publishes on t/... are forwarded
}

func (s *sim) Step(line string) string {
	f := strings.Fields(line)
	if len(f) == 0 {
		return "bad-op"
	}
	if f[0] == "new" && len(f) == 1 {
		hurried = false
		s.stopLoop()
		s.mu.Lock()
		s.armBefore, s.armAfter = nil, nil
		s.S = fed.VerifNewFed("S", nil)
		s.R, s.pubBase = nil, 0
		s.mu.Unlock()
		s.setupPeer()
		s.mu.Lock()
		s.newR()
		s.lk, s.connected = nil, false
		s.cutSend, s.cutAck, s.cutOpen, s.cutHello, s.cutReq = -1, -1, false, false, false
		s.armBefore, s.armAfter = nil, nil
		s.mu.Unlock()
		return "ok"
	}
	if s.S == nil {
		return "bad-op"
	}
	switch {
	case f[0] == "connect" && len(f) == 1:
		if !s.connected {
			s.connected = true
			s.startLoop()
		}
		return s.fin()
	case f[0] == "lsub" && len(f) == 3:
		s.S.HookSubscribed(f[1], "", f[2])
		return s.fin()
	case f[0] == "lunsub" && len(f) == 3:
		s.S.HookUnsubscribed(f[1], f[2])
		return s.fin()
	case f[0] == "pub" && len(f) == 3:
		_, _, _ = s.S.HookMsgArrived("pc", &gmqtt.Message{Topic: f[1], Payload: []byte(f[2]), QoS: 1})
		return s.fin()
	case f[0] == "retain" && len(f) == 3:
		m := &gmqtt.Message{Topic: f[1], Payload: []byte(f[2]), QoS: 1, Retained: true}
		s.S.Retained.AddOrReplace(m.Copy())
		_, _, _ = s.S.HookMsgArrived("pc", m)
		return s.fin()
	case f[0] == "cut-after-send" && len(f) == 2:
		s.mu.Lock()
		s.cutSend = drv.Atoi(f[1])
		s.mu.Unlock()
		return "armed"
	case f[0] == "cut-before-ack" && len(f) == 2:
		s.mu.Lock()
		s.cutAck = drv.Atoi(f[1])
		s.mu.Unlock()
		return "armed"
	case f[0] == "cut-open" && len(f) == 1:
		s.mu.Lock()
		s.cutOpen = true
		s.mu.Unlock()
		return "armed"
	case f[0] == "cut-hello-resp" && len(f) == 1:
		s.mu.Lock()
		s.cutHello = true
		s.mu.Unlock()
		return "armed"
	case (f[0] == "at-clear" || f[0] == "after-clear") && len(f) == 4 && (f[1] == "lsub" || f[1] == "lunsub"):
		// a subscribe/unsubscribe hook of another client that runs exactly when the next clean start clears the queue
		// (at-clear: on entry of clear(); after-clear: between clear() and the snapshot of the local topics)
		S, kind, c, t := s.S, f[1], f[2], f[3]
		hook := func() {
			if kind == "lsub" {
				S.HookSubscribed(c, "", t)
			} else {
				S.HookUnsubscribed(c, t)
			}
		}
		s.mu.Lock()
		if f[0] == "at-clear" {
			s.armBefore = hook
		} else {
			s.armAfter = hook
		}
		s.mu.Unlock()
		if !s.arm() {
			return "bad-op"
		}
		return "armed"
	case f[0] == "cut-hello-req" && len(f) == 1:
		s.mu.Lock()
		s.cutReq = true
		s.mu.Unlock()
		return "armed"
	case f[0] == "break" && len(f) == 1:
		s.mu.Lock()
		if s.lk != nil {
			s.lk.cancel()
		}
		s.mu.Unlock()
		return s.fin()
	case f[0] == "peer-restart" && len(f) == 1:
		s.mu.Lock()
		s.newR() // a fresh process: no sessions, empty federation tree
		if s.lk != nil {
			s.lk.cancel()
		}
		s.mu.Unlock()
		return s.fin()
	case f[0] == "sender-restart" && len(f) == 1:
		was := s.connected
		s.stopLoop()
		s.S.NodeFail("R") // S re-creates its peer for R: new session id, new queue (local subscriptions stay)
		s.setupPeer()
		if was {
			s.startLoop()
		}
		return s.fin()
	case f[0] == "settle" && len(f) == 1:
		return s.fin()
	}
	return "bad-op"
}
