// drive_hookrestore: a real broker booted on a NON-EMPTY store (sessions restored from persistence), with k plugins that
// expose an OnMsgDroppedWrapper (and an OnMsgArrivedWrapper as a control). Messages published through the Publisher API
// overflow the restored sessions' queues; every drop must pass through every plugin's wrapper exactly once
// (property C14: "every hook wrapper a plugin exposes is installed … each hook fires exactly once per event").
//
//	new maxq=<n> plugins=<k> restore=<r> [base=1]   r sessions r1..rr (subscription t/# QoS 1, offline) are in the store at boot
//	pub <count> <qos>                                count messages to t/a through Publisher().Publish
//	                                                 -> dropped=<D> wrappers=<w1>,…,<wk> base=<b>  (calls since the last line)
package main

import (
	"context"
	"fmt"
	"strings"
	"sync"
	"sync/atomic"

	"verifharness/internal/drv"
	"verifharness/internal/memnet"

	"github.com/DrmagicE/gmqtt"
	"github.com/DrmagicE/gmqtt/config"
	"github.com/DrmagicE/gmqtt/persistence"
	"github.com/DrmagicE/gmqtt/persistence/session"
	"github.com/DrmagicE/gmqtt/persistence/subscription"
	"github.com/DrmagicE/gmqtt/server"
	_ "github.com/DrmagicE/gmqtt/topicalias/fifo"
)

func main() { drv.Main(&rdrv{}) }

var (
	restoreN   int32
	wrapCalls  [8]int64
	baseCalls  int64
	regOnce    sync.Once
	pluginName = []string{"vr_a", "vr_b", "vr_c"}
)

// restorePE is the memory persistence whose session and subscription stores already hold r sessions when the broker opens them.
type restorePE struct{ server.Persistence }

func (p *restorePE) NewSessionStore(c config.Config) (session.Store, error) {
	st, err := p.Persistence.NewSessionStore(c)
	if err != nil {
		return nil, err
	}
	for i := 1; i <= int(atomic.LoadInt32(&restoreN)); i++ {
		if err := st.Set(&gmqtt.Session{ClientID: fmt.Sprintf("r%d", i), ExpiryInterval: 7200}); err != nil {
			return nil, err
		}
	}
	return st, nil
}

func (p *restorePE) NewSubscriptionStore(c config.Config) (subscription.Store, error) {
	st, err := p.Persistence.NewSubscriptionStore(c)
	if err != nil {
		return nil, err
	}
	for i := 1; i <= int(atomic.LoadInt32(&restoreN)); i++ {
		if _, err := st.Subscribe(fmt.Sprintf("r%d", i), &gmqtt.Subscription{TopicFilter: "t/#", QoS: 1}); err != nil {
			return nil, err
		}
	}
	return st, nil
}

type recPlugin struct{ idx int }

func (p *recPlugin) Load(service server.Server) error { return nil }
func (p *recPlugin) Unload() error                    { return nil }
func (p *recPlugin) Name() string                     { return pluginName[p.idx] }
func (p *recPlugin) HookWrapper() server.HookWrapper {
	return server.HookWrapper{
		OnMsgDroppedWrapper: func(next server.OnMsgDropped) server.OnMsgDropped {
			return func(ctx context.Context, clientID string, msg *gmqtt.Message, err error) {
				atomic.AddInt64(&wrapCalls[p.idx], 1)
				next(ctx, clientID, msg, err)
			}
		},
	}
}

type rdrv struct {
	srv     server.Server
	plugins int
}

func kvs(f []string) map[string]string {
	m := map[string]string{}
	for _, t := range f {
		if i := strings.IndexByte(t, '='); i > 0 {
			m[t[:i]] = t[i+1:]
		}
	}
	return m
}

func (d *rdrv) Step(line string) string {
	f := strings.Fields(line)
	if len(f) == 0 {
		return "bad-op"
	}
	switch f[0] {
	case "new":
		regOnce.Do(func() {
			server.RegisterPersistenceFactory("verifrestore", func(c config.Config) (server.Persistence, error) {
				pe, err := persistence.NewMemory(c)
				if err != nil {
					return nil, err
				}
				return &restorePE{pe}, nil
			})
			for i := range pluginName {
				i := i
				server.RegisterPlugin(pluginName[i], func(c config.Config) (server.Plugin, error) { return &recPlugin{idx: i}, nil })
			}
		})
		if d.srv != nil {
			_ = d.srv.Stop(context.Background())
			d.srv = nil
		}
		m := kvs(f[1:])
		cfg := config.DefaultConfig()
		cfg.Persistence.Type = "verifrestore"
		cfg.MQTT.MaxQueuedMsg = drv.Atoi(m["maxq"])
		d.plugins = drv.Atoi(m["plugins"])
		if d.plugins > len(pluginName) {
			return "bad-op"
		}
		cfg.PluginOrder = append([]string(nil), pluginName[:d.plugins]...)
		cfg.Log.Level = "error"
		atomic.StoreInt32(&restoreN, int32(drv.Atoi(m["restore"])))
		for i := range wrapCalls {
			atomic.StoreInt64(&wrapCalls[i], 0)
		}
		atomic.StoreInt64(&baseCalls, 0)
		opts := []server.Options{server.WithConfig(cfg), server.WithTCPListener(memnet.Listen())}
		if m["base"] == "1" {
			opts = append(opts, server.WithHook(server.Hooks{OnMsgDropped: func(ctx context.Context, clientID string, msg *gmqtt.Message, err error) {
				atomic.AddInt64(&baseCalls, 1)
			}}))
		}
		srv := server.New(opts...)
		if err := srv.Init(); err != nil {
			return "init-failed"
		}
		go func() { _ = srv.Run() }()
		d.srv = srv
		return "ok"
	case "pub":
		if d.srv == nil || len(f) != 3 {
			return "bad-op"
		}
		n, q := drv.Atoi(f[1]), drv.Atoi(f[2])
		before := d.srv.StatsManager().GetGlobalStats().MessageStats
		for i := 0; i < n; i++ {
			d.srv.Publisher().Publish(&gmqtt.Message{Topic: "t/a", QoS: byte(q), Payload: []byte(fmt.Sprintf("m%d", i))})
		}
		after := d.srv.StatsManager().GetGlobalStats().MessageStats
		dropped := after.GetDroppedTotal() - before.GetDroppedTotal()
		var ws []string
		for i := 0; i < d.plugins; i++ {
			ws = append(ws, fmt.Sprint(atomic.SwapInt64(&wrapCalls[i], 0)))
		}
		return fmt.Sprintf("dropped=%d wrappers=%s base=%d", dropped, strings.Join(ws, ","), atomic.SwapInt64(&baseCalls, 0))
	}
	return "bad-op"
}
