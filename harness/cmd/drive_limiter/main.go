// drive_limiter runs the limiter line protocol (see lean/Driver/Limiter.lean) on the REAL
// server.packetIDLimiter through /repo/server/verif_export_limiter.go.
//
// Blocking: pollPacketIDs parks on a sync.Cond while used >= limit. Every poll runs in its own
// goroutine; the driver waits until the call has returned or the goroutine is parked in
// sync.Cond.Wait (seen in runtime.Stack(all)), in which case it prints `blocked` and keeps the
// call pending. Every later op that signals the Cond (release / brelease / marksig / close) is
// followed by the same wait, and if the pending call returned its result is appended as `woke:…`.
// A poll that neither returns nor parks within spinTimeout holds the limiter's mutex for ever
// (the inner search loop found no free id): the driver prints `spin` and answers `wedged` for
// every op until the next `new`, without touching the limiter (every method would block on the mutex).
// The spinning goroutine cannot be stopped, so right after reporting it the driver replaces its own
// process image (exec of itself, rest of stdin handed over in a temp file, `-wedged` carries the state).
package main

import (
	"bufio"
	"os"
	"runtime"
	"strconv"
	"strings"
	"syscall"
	"time"

	"verifharness/internal/drv"

	"github.com/DrmagicE/gmqtt/pkg/packets"
	"github.com/DrmagicE/gmqtt/server"
)

const spinTimeout = 2 * time.Second

func main() {
	d := &limDrv{}
	if len(os.Args) > 1 && os.Args[1] == "-wedged" {
		d.wedged = true
	}
	in := bufio.NewScanner(os.Stdin)
	in.Buffer(make([]byte, 1<<20), 1<<26)
	out := bufio.NewWriterSize(os.Stdout, 1<<16)
	defer out.Flush()
	for in.Scan() {
		out.WriteString(drv.SafeStep(d, in.Text()))
		out.WriteByte('\n')
		if d.spun {
			out.Flush()
			reexec(in)
			d.spun = false // exec failed: carry on with the spinner in the background
		}
	}
}

// reexec hands the unread input to a fresh image of this program; returns only on failure.
func reexec(in *bufio.Scanner) {
	f, err := os.CreateTemp("", "drive_limiter_rest_*")
	if err != nil {
		return
	}
	os.Remove(f.Name())
	w := bufio.NewWriter(f)
	for in.Scan() {
		w.WriteString(in.Text())
		w.WriteByte('\n')
	}
	if w.Flush() != nil {
		return
	}
	if _, err := f.Seek(0, 0); err != nil {
		return
	}
	if err := syscall.Dup2(int(f.Fd()), 0); err != nil {
		// the rest of the input is consumed; nothing sensible is left to do in this process
		os.Exit(3)
	}
	exe, err := os.Executable()
	if err != nil {
		os.Exit(3)
	}
	syscall.Exec(exe, []string{exe, "-wedged"}, os.Environ())
	os.Exit(3)
}

type limDrv struct {
	l       *server.VerifLimiter
	pending chan []packets.PacketID // result channel of the parked poll, nil if none
	wedged  bool
	spun    bool // a spin was detected during the current step
}

func parkedInCondWait() bool {
	buf := make([]byte, 1<<16)
	n := runtime.Stack(buf, true)
	return strings.Contains(string(buf[:n]), "[sync.Cond.Wait")
}

type waitRes int

const (
	returned waitRes = iota
	parked
	spinning
)

// await waits until the pending poll has returned, is parked in Cond.Wait, or is spinning.
func (d *limDrv) await() (waitRes, []packets.PacketID) {
	start := time.Now()
	for spins := 0; ; spins++ {
		select {
		case r := <-d.pending:
			d.pending = nil
			return returned, r
		default:
		}
		runtime.Gosched()
		if spins > 20 {
			if parkedInCondWait() {
				return parked, nil
			}
			if time.Since(start) > spinTimeout {
				return spinning, nil
			}
		}
	}
}

func showIDs(ids []packets.PacketID) string {
	if ids == nil {
		return "nil"
	}
	parts := make([]string, len(ids))
	for i, id := range ids {
		parts[i] = strconv.Itoa(int(id))
	}
	return "ids=" + strings.Join(parts, ",")
}

func (d *limDrv) state() string {
	u, _, f, _ := d.l.State()
	return " u=" + strconv.Itoa(int(u)) + " f=" + strconv.Itoa(int(f))
}

func pidList(s string) []packets.PacketID {
	if s == "-" {
		return nil
	}
	var r []packets.PacketID
	for _, p := range strings.Split(s, ",") {
		r = append(r, packets.PacketID(drv.Atoi(p)))
	}
	return r
}

// afterSignal reports what the parked poll (if any) did after an op that signalled the Cond.
func (d *limDrv) afterSignal() string {
	if d.pending == nil {
		return "ok" + d.state()
	}
	switch w, r := d.await(); w {
	case returned:
		return "ok woke:" + showIDs(r) + d.state()
	case parked:
		return "ok" + d.state()
	}
	d.wedged, d.spun = true, true
	return "ok woke:spin"
}

func showRanges(ids []packets.PacketID) string {
	var parts []string
	for i := 0; i < len(ids); {
		j := i
		for j+1 < len(ids) && ids[j+1] == ids[j]+1 {
			j++
		}
		if j == i {
			parts = append(parts, strconv.Itoa(int(ids[i])))
		} else {
			parts = append(parts, strconv.Itoa(int(ids[i]))+"-"+strconv.Itoa(int(ids[j])))
		}
		i = j + 1
	}
	return "marked=" + strings.Join(parts, ",")
}

func (d *limDrv) Step(line string) string {
	f := strings.Fields(line)
	if len(f) == 0 {
		return "bad-op"
	}
	if f[0] == "new" {
		if len(f) != 3 {
			return "bad-op"
		}
		// get rid of a parked poll of the previous case so that no stale Cond waiter is ever seen
		if d.l != nil && d.pending != nil && !d.wedged {
			d.l.Close()
			<-d.pending
		}
		d.pending, d.wedged = nil, false
		if f[2] == "1" {
			d.l = server.VerifNewClientLimiter(uint16(drv.Atoi(f[1])))
		} else {
			d.l = server.VerifNewLimiter(uint16(drv.Atoi(f[1])))
		}
		return "ok" + d.state()
	}
	if d.wedged {
		return "wedged"
	}
	if d.l == nil {
		return "bad-op"
	}
	switch f[0] {
	case "poll":
		if len(f) != 2 {
			return "bad-op"
		}
		if d.pending != nil {
			return "busy" + d.state()
		}
		ch := make(chan []packets.PacketID, 1)
		l, k := d.l, uint16(drv.Atoi(f[1]))
		go func() { ch <- l.Poll(k) }()
		d.pending = ch
		switch w, r := d.await(); w {
		case returned:
			return showIDs(r) + d.state()
		case parked:
			return "blocked" + d.state()
		}
		d.wedged, d.spun = true, true
		return "spin"
	case "release":
		if len(f) != 2 {
			return "bad-op"
		}
		d.l.Release(packets.PacketID(drv.Atoi(f[1])))
		return d.afterSignal()
	case "brelease":
		if len(f) != 2 {
			return "bad-op"
		}
		d.l.BatchRelease(pidList(f[1]))
		return d.afterSignal()
	case "mark":
		if len(f) != 2 {
			return "bad-op"
		}
		d.l.Mark(pidList(f[1]))
		return "ok" + d.state()
	case "marksig":
		if len(f) != 2 {
			return "bad-op"
		}
		d.l.MarkSignal(pidList(f[1]))
		return d.afterSignal()
	case "close":
		d.l.Close()
		return d.afterSignal()
	case "dump":
		return showRanges(d.l.Marked()) + d.state()
	}
	return "bad-op"
}
