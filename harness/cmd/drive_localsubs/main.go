// drive_localsubs: the real localSubStore driven through the real OnSubscribed/OnUnsubscribed/OnSessionTerminated
// hook wrappers of the federation plugin; emitted events are read back from the real per-peer eventQueues.
package main

import (
	"fmt"
	"sort"
	"strings"

	"verifharness/internal/drv"

	fed "github.com/DrmagicE/gmqtt/plugin/federation"
)

func main() { drv.Main(&ldrv{}) }

type ldrv struct {
	self string
	pre  [][3]string
	f    *fed.VerifFed
}

func opt(s string) string {
	if s == "-" {
		return ""
	}
	return s
}
func sopt(s string) string {
	if s == "" {
		return "-"
	}
	return s
}

func showEv(e *fed.Event) string {
	if s := e.GetSubscribe(); s != nil {
		return "sub:" + sopt(s.ShareName) + ":" + s.TopicFilter
	}
	if u := e.GetUnsubscribe(); u != nil {
		return "unsub:" + u.TopicName
	}
	if m := e.GetMessage(); m != nil {
		return "msg:" + m.TopicName
	}
	return "none"
}

func (d *ldrv) lens() map[string]int {
	r := map[string]int{}
	for _, p := range d.f.Peers() {
		r[p] = len(d.f.PeerQueue(p).Events())
	}
	return r
}

// after a hook: the events appended to every peer queue (must be the same for all peers)
func (d *ldrv) result(before map[string]int) string {
	var first []string
	have := false
	var qs []string
	for _, p := range d.f.Peers() {
		evs := d.f.PeerQueue(p).Events()
		ids := make([]string, len(evs))
		for i, e := range evs {
			ids[i] = fmt.Sprint(e.Id)
		}
		qs = append(qs, fmt.Sprintf("%s:%d:%s", p, len(evs), strings.Join(ids, "+")))
		var s []string
		for _, e := range evs[before[p]:] {
			s = append(s, showEv(e))
		}
		sort.Strings(s)
		if !have {
			first, have = s, true
		} else if strings.Join(s, ",") != strings.Join(first, ",") {
			return "peers-differ"
		}
	}
	return fmt.Sprintf("ev=[%s] q=[%s]", strings.Join(first, ","), strings.Join(qs, ","))
}

func (d *ldrv) dump() string {
	topics, counts, index := d.f.LocalSubsDump()
	var tp, ix []string
	for i, t := range topics {
		tp = append(tp, fmt.Sprintf("%s:%d", t[0], counts[i]))
	}
	for _, e := range index {
		ix = append(ix, e[0]+":"+e[1])
	}
	sort.Strings(tp)
	sort.Strings(ix)
	return fmt.Sprintf("topics=[%s] index=[%s]", strings.Join(tp, ";"), strings.Join(ix, ";"))
}

func (d *ldrv) Step(line string) string {
	f := strings.Fields(line)
	if len(f) == 0 {
		return "bad-op"
	}
	if f[0] == "new" && len(f) == 2 {
		d.self, d.pre = f[1], nil
		d.f = fed.VerifNewFed(f[1], nil)
		return "ok"
	}
	if d.f == nil {
		return "bad-op"
	}
	switch {
	case f[0] == "pre" && len(f) == 4:
		d.pre = append(d.pre, [3]string{f[1], opt(f[2]), f[3]})
		return "ok"
	case f[0] == "load" && len(f) == 1:
		d.f = fed.VerifNewFed(d.self, d.pre)
		return d.dump()
	case f[0] == "join" && len(f) == 2:
		d.f.NodeJoin(f[1])
		return "ok"
	case f[0] == "fail" && len(f) == 2:
		d.f.NodeFail(f[1])
		return "ok"
	case f[0] == "sub" && len(f) == 4:
		b := d.lens()
		d.f.HookSubscribed(f[1], opt(f[2]), f[3])
		return d.result(b)
	case f[0] == "unsub" && len(f) == 3:
		b := d.lens()
		d.f.HookUnsubscribed(f[1], f[2])
		return d.result(b)
	case f[0] == "term" && len(f) == 2:
		b := d.lens()
		d.f.HookSessionTerminated(f[1])
		return d.result(b)
	case f[0] == "dump" && len(f) == 1:
		return d.dump()
	}
	return "bad-op"
}
