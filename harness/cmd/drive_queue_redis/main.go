package main

import (
	"fmt"
	"runtime"
	"strconv"
	"strings"
	"time"

	"os"

	redigo "github.com/gomodule/redigo/redis"

	"verifharness/internal/drv"
	"verifharness/internal/respfake"

	"github.com/DrmagicE/gmqtt"
	"github.com/DrmagicE/gmqtt/persistence/queue"
	qredis "github.com/DrmagicE/gmqtt/persistence/queue/redis"
	"github.com/DrmagicE/gmqtt/pkg/packets"
)

// Same line protocol as cmd/drive_queue, but the queue under test is persistence/queue/redis over an in-process
// fake redis (internal/respfake). The model it is compared with is the SAME Lean model (oracle_queue).
func main() {
	fake, err := respfake.Start()
	if err != nil {
		fmt.Fprintln(os.Stderr, err)
		os.Exit(1)
	}
	addr := fake.Addr()
	pool := &redigo.Pool{MaxIdle: 8, Dial: func() (redigo.Conn, error) { return redigo.Dial("tcp", addr) }}
	drv.Main(&queueDrv{backend: "redis", fake: fake, pool: pool})
}

type recNotifier struct {
	evs    []string
	locked func() bool // the queue's lock is held right now (verif hook); nil until the queue exists
}

// atomic: a notifier callback must run while the queue's lock is held — the report is part of the step it reports
func (n *recNotifier) atomic() {
	if n.locked != nil && !n.locked() {
		n.evs = append(n.evs, "UNLOCKED")
	}
}

func (n *recNotifier) NotifyDropped(e *queue.Elem, err error) {
	n.atomic()
	n.evs = append(n.evs, "drop="+showElem(e)+":"+reasonOf(err))
}
func (n *recNotifier) NotifyInflightAdded(d int) {
	n.atomic()
	n.evs = append(n.evs, "i="+strconv.Itoa(d))
}
func (n *recNotifier) NotifyMsgQueueAdded(d int) {
	n.atomic()
	n.evs = append(n.evs, "q="+strconv.Itoa(d))
}
func (n *recNotifier) take() string {
	s := strings.Join(n.evs, " ")
	n.evs = n.evs[:0]
	return s
}

func reasonOf(err error) string {
	switch err {
	case queue.ErrDropQueueFull:
		return "full"
	case queue.ErrDropExpired:
		return "expired"
	case queue.ErrDropExpiredInflight:
		return "expiredinflight"
	case queue.ErrDropExceedsMaxPacketSize:
		return "oversize"
	}
	return "other"
}

func expClass(t time.Time) string {
	if t.IsZero() {
		return "none"
	}
	if time.Now().After(t) {
		return "past"
	}
	return "future"
}

func showElem(e *queue.Elem) string {
	switch m := e.MessageWithID.(type) {
	case *queue.Publish:
		return fmt.Sprintf("%s:%d:%d:%s", strings.TrimLeft(m.Topic, "0t"), m.PacketID, m.QoS, expClass(e.Expiry))
	case *queue.Pubrel:
		return fmt.Sprintf("rel:%d", m.PacketID)
	}
	return "?"
}

func showRet(es []*queue.Elem) string {
	parts := make([]string, len(es))
	for i, e := range es {
		parts[i] = showElem(e)
	}
	return "ret=[" + strings.Join(parts, ",") + "]"
}

type queueDrv struct {
	backend string
	q       queue.Store
	n       *recNotifier
	version packets.Version
	fake    *respfake.Server
	pool    *redigo.Pool
}

// tick makes sure the wall clock has advanced past any `now+1ns` expiry set by the previous op.
func tick() {
	t := time.Now()
	for time.Since(t) < 3*time.Nanosecond {
	}
}

func atoi(s string) int { return drv.Atoi(s) }

func pidList(s string) []packets.PacketID {
	if s == "-" {
		return nil
	}
	var r []packets.PacketID
	for _, p := range strings.Split(s, ",") {
		r = append(r, packets.PacketID(atoi(p)))
	}
	return r
}

// mkMsg builds a message whose v5 PUBLISH encoding is exactly `size` bytes and whose topic carries the tag.
func mkMsg(tag, qos, size int) (*gmqtt.Message, bool) {
	m := &gmqtt.Message{QoS: byte(qos), Topic: fmt.Sprintf("t%05d", tag)}
	base := int(m.TotalBytes(packets.Version5))
	if size < base {
		return m, false
	}
	m.Payload = make([]byte, size-base)
	return m, int(m.TotalBytes(packets.Version5)) == size
}

// parkedInCondWait reports whether some goroutine is parked in sync.Cond.Wait.
func parkedInCondWait() bool {
	buf := make([]byte, 1<<16)
	n := runtime.Stack(buf, true)
	return strings.Contains(string(buf[:n]), "[sync.Cond.Wait")
}

type readResult struct {
	rs  []*queue.Elem
	err error
	pan bool
}

func (d *queueDrv) Step(line string) string {
	if d.n != nil {
		d.n.evs = d.n.evs[:0] // events of an op that panicked are not carried over
	}
	f := strings.Fields(line)
	if len(f) == 0 {
		return "bad-op"
	}
	tick()
	switch f[0] {
	case "new":
		if len(f) != 3 {
			return "bad-op"
		}
		var ie time.Duration
		switch f[2] {
		case "tiny":
			ie = time.Nanosecond
		case "huge":
			ie = time.Hour
		}
		d.n = &recNotifier{}
		if d.q != nil {
			d.q.Close()
		}
		d.fake.Exec(0, [][]byte{[]byte("FLUSHALL")})
		d.fake.ResetJournal()
		q, err := qredis.New(qredis.Options{MaxQueuedMsg: atoi(f[1]), InflightExpiry: ie, ClientID: "c", Pool: d.pool, DefaultNotifier: d.n})
		if err != nil {
			return "err"
		}
		d.q = q
		d.n.locked = q.VerifLocked
		// every redis command of the queue belongs to the method (= the atomic step) that issues it: the queue's lock is held
		// while the command runs. A command issued outside the lock can interleave with another method's positional commands.
		n := d.n
		d.fake.OnExec = func(name string, args [][]byte) {
			switch name {
			case "LRANGE", "LREM", "LSET", "RPUSH", "LLEN", "DEL":
				if !q.VerifLocked() {
					n.evs = append(n.evs, "UNLOCKEDCMD")
				}
			}
		}
		return "ok"
	case "wait":
		time.Sleep(1100 * time.Millisecond)
		return "ok"
	case "init":
		err := d.q.Init(&queue.InitOptions{CleanStart: f[1] == "1", Version: packets.Version5,
			ReadBytesLimit: uint32(atoi(f[2])), Notifier: d.n})
		if err != nil {
			return "err"
		}
		return "ok"
	case "add":
		m, ok := mkMsg(atoi(f[1]), atoi(f[2]), atoi(f[4]))
		if !ok {
			return "badsize"
		}
		e := &queue.Elem{At: time.Now(), MessageWithID: &queue.Publish{Message: m}}
		switch f[3] {
		case "past":
			e.Expiry = time.Now().Add(-2 * time.Hour)
		case "future":
			e.Expiry = time.Now().Add(2 * time.Hour)
		}
		if err := d.q.Add(e); err != nil {
			return "err"
		}
		return strings.TrimSpace("ok " + d.n.take())
	case "read":
		pids := pidList(f[1])
		done := make(chan readResult, 1)
		go func() {
			defer func() {
				if r := recover(); r != nil {
					done <- readResult{pan: true}
				}
			}()
			rs, err := d.q.Read(pids)
			done <- readResult{rs: rs, err: err}
		}()
		blocked := false
		var r readResult
		for spins := 0; ; spins++ {
			select {
			case r = <-done:
				goto got
			default:
			}
			runtime.Gosched()
			if spins > 20 && parkedInCondWait() {
				blocked = true
				d.q.Close()
				r = <-done
				goto got
			}
		}
	got:
		if r.pan {
			return "panic"
		}
		if blocked {
			if r.err == queue.ErrClosed {
				return "blocked"
			}
			return "blocked?"
		}
		if r.err == queue.ErrClosed {
			return "closed"
		}
		if r.err != nil {
			return "err"
		}
		return strings.TrimSpace(showRet(r.rs) + " " + d.n.take())
	case "readinflight":
		rs, err := d.q.ReadInflight(uint(atoi(f[1])))
		if err != nil {
			return "err"
		}
		return showRet(rs)
	case "remove":
		if err := d.q.Remove(packets.PacketID(atoi(f[1]))); err != nil {
			return "err"
		}
		return strings.TrimSpace("ok " + d.n.take())
	case "replace":
		ok, err := d.q.Replace(&queue.Elem{At: time.Now(), MessageWithID: &queue.Pubrel{PacketID: packets.PacketID(atoi(f[1]))}})
		if err != nil {
			return "err"
		}
		if ok {
			return "replaced"
		}
		return "notfound"
	case "close":
		d.q.Close()
		return "ok"
	}
	return "bad-op"
}
