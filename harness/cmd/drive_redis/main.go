// Command drive_redis drives gmqtt's redis persistence backend (the four stores of persistence/*/redis plus the
// binary encodings) through its Go API over an in-process fake redis (internal/respfake).
// One output line per op line; the mirror is lean/Driver/Redis.lean.
//
//	drive_redis cmds     raw redis commands: respfake vs the Lean command semantics (Model/Redis.lean)
//	drive_redis stores   store operations; every op prints the commands it issued (J[…]) and its result;
//	                     `restart k|all` re-opens fresh stores on the dataset after the first k write commands
//
// Time never enters the output: At/ConnectedAt are printed as 0/T, expiry times as their class (none/past/future).
package main

import (
	"bytes"
	"encoding/binary"
	"fmt"
	"os"
	"runtime"
	"sort"
	"strconv"
	"strings"
	"time"

	redigo "github.com/gomodule/redigo/redis"

	"github.com/DrmagicE/gmqtt"
	"github.com/DrmagicE/gmqtt/persistence/encoding"
	"github.com/DrmagicE/gmqtt/persistence/queue"
	qredis "github.com/DrmagicE/gmqtt/persistence/queue/redis"
	"github.com/DrmagicE/gmqtt/persistence/session"
	sredis "github.com/DrmagicE/gmqtt/persistence/session/redis"
	"github.com/DrmagicE/gmqtt/persistence/subscription"
	subredis "github.com/DrmagicE/gmqtt/persistence/subscription/redis"
	"github.com/DrmagicE/gmqtt/persistence/unack"
	uredis "github.com/DrmagicE/gmqtt/persistence/unack/redis"
	"github.com/DrmagicE/gmqtt/pkg/packets"

	"verifharness/internal/drv"
	"verifharness/internal/respfake"
)

func main() {
	mode := "stores"
	if len(os.Args) > 1 {
		mode = os.Args[1]
	}
	switch mode {
	case "cmds":
		drv.Main(&cmdDrv{})
	default:
		drv.Main(&storeDrv{})
	}
}

// ---------------------------------------------------------------- tokens

// unesc is the inverse of respfake.Esc; `@N` stands for N bytes 'a'.
func unesc(s string) []byte {
	if s == "~" {
		return []byte{}
	}
	if strings.HasPrefix(s, "@") {
		return bytes.Repeat([]byte("a"), drv.Atoi(s[1:]))
	}
	var b []byte
	for i := 0; i < len(s); i++ {
		if s[i] == '%' && i+2 < len(s) {
			v, err := strconv.ParseUint(s[i+1:i+3], 16, 8)
			if err == nil {
				b = append(b, byte(v))
				i += 2
				continue
			}
		}
		b = append(b, s[i])
	}
	return b
}

func esc(b []byte) string { return respfake.Esc(b) }

// showBytes prints short values in full and long ones abbreviated (same rule in the Lean driver).
func showBytes(b []byte) string {
	if len(b) > 2048 {
		return fmt.Sprintf("big(%d,%s)", len(b), esc(b[:24]))
	}
	return esc(b)
}

// ---------------------------------------------------------------- mode cmds

type cmdDrv struct{ fake *respfake.Server }

func showReply(r respfake.Reply) string {
	switch r.Kind {
	case '+':
		return "+" + string(r.Str)
	case '-':
		return "-" + strings.SplitN(string(r.Str), " ", 2)[0]
	case ':':
		return ":" + strconv.FormatInt(r.Int, 10)
	case '$':
		if r.Nil {
			return "nil"
		}
		return "$" + esc(r.Str)
	case '*':
		parts := make([]string, len(r.Elems))
		for i, e := range r.Elems {
			parts[i] = showReply(e)
		}
		return "[" + strings.Join(parts, ",") + "]"
	}
	return "?"
}

func (d *cmdDrv) Step(line string) string {
	f := strings.Fields(line)
	if len(f) == 0 {
		return "bad-op"
	}
	if f[0] == "new" {
		d.fake = respfake.New()
		return "ok"
	}
	if d.fake == nil {
		return "bad-op"
	}
	if f[0] == "dump" {
		return "D[" + strings.Join(d.fake.Dump(), ";") + "]"
	}
	args := make([][]byte, len(f))
	for i, t := range f {
		if i == 0 {
			args[i] = []byte(t)
		} else {
			args[i] = unesc(t)
		}
	}
	return showReply(d.fake.Exec(0, args))
}

// ---------------------------------------------------------------- mode stores

type recNotifier struct{ evs []string }

func (n *recNotifier) NotifyDropped(e *queue.Elem, err error) {
	n.evs = append(n.evs, "drop="+showElem(e)+":"+reasonOf(err))
}
func (n *recNotifier) NotifyInflightAdded(d int) { n.evs = append(n.evs, "i="+strconv.Itoa(d)) }
func (n *recNotifier) NotifyMsgQueueAdded(d int) { n.evs = append(n.evs, "q="+strconv.Itoa(d)) }
func (n *recNotifier) take() string {
	s := strings.Join(n.evs, " ")
	n.evs = n.evs[:0]
	return s
}

func reasonOf(err error) string {
	switch err {
	case queue.ErrDropQueueFull:
		return "full"
	case queue.ErrDropExpired:
		return "expired"
	case queue.ErrDropExpiredInflight:
		return "expiredinflight"
	case queue.ErrDropExceedsMaxPacketSize:
		return "oversize"
	}
	return "other"
}

func expClass(t time.Time) string {
	if t.IsZero() {
		return "none"
	}
	if time.Now().After(t) {
		return "past"
	}
	return "future"
}

// showElem: <payload-tag>:<id>:<qos>:<expiry class> for a PUBLISH, rel:<id> for a PUBREL
func showElem(e *queue.Elem) string {
	switch m := e.MessageWithID.(type) {
	case *queue.Publish:
		return fmt.Sprintf("%s:%d:%d:%s", esc([]byte(m.Topic)), m.PacketID, m.QoS, expClass(e.Expiry))
	case *queue.Pubrel:
		return fmt.Sprintf("rel:%d", m.PacketID)
	}
	return "?"
}

func showRet(es []*queue.Elem) string {
	parts := make([]string, len(es))
	for i, e := range es {
		parts[i] = showElem(e)
	}
	return "ret=[" + strings.Join(parts, ",") + "]"
}

type stores struct {
	fake   *respfake.Server
	pool   *redigo.Pool
	sess   session.Store
	subs   subscription.Store
	queues map[string]queue.Store
	unacks map[string]unack.Store
	n      *recNotifier
}

type storeDrv struct {
	stores
	max    int
	ie     time.Duration
	base   int // journal length before the current op
	uaIDs  map[string]map[int]bool
	allIDs []string
}

func newPool(addr string) *redigo.Pool {
	return &redigo.Pool{MaxIdle: 16, Dial: func() (redigo.Conn, error) { return redigo.Dial("tcp", addr) }}
}

func openStores(fake *respfake.Server) stores {
	pool := newPool(fake.Addr())
	return stores{fake: fake, pool: pool, sess: sredis.New(pool), subs: subredis.New(pool),
		queues: map[string]queue.Store{}, unacks: map[string]unack.Store{}, n: &recNotifier{}}
}

func (s *stores) close() {
	if s.fake != nil {
		for _, q := range s.queues {
			q.Close()
		}
		s.pool.Close()
		s.fake.Close()
		s.fake = nil
	}
}

const zeroTimeU64 = 18446744011573954816 // uint64(time.Time{}.Unix())

// canonElem blanks the entry time and maps the expiry to its class, so that journals do not depend on the clock.
func canonElem(b []byte) []byte {
	if len(b) < 19 {
		return b
	}
	c := append([]byte(nil), b...)
	for i := 0; i < 8; i++ {
		c[i] = 0
	}
	exp := binary.BigEndian.Uint64(b[9:17])
	if exp != zeroTimeU64 {
		v := uint64(1) // past
		if time.Now().Unix() <= int64(exp) {
			v = 1 << 40 // future
		}
		binary.BigEndian.PutUint64(c[9:17], v)
	}
	return c
}

func showCmd(e respfake.Entry) string {
	args := e.Args
	name := strings.ToLower(string(args[0]))
	key := ""
	if len(args) > 1 {
		key = string(args[1])
	}
	parts := []string{name}
	for i, a := range args[1:] {
		switch {
		case strings.HasPrefix(key, "queue:") && i == 2 && (name == "lset" || name == "lrem"),
			strings.HasPrefix(key, "queue:") && i == 1 && name == "rpush":
			parts = append(parts, showBytes(canonElem(a)))
		case strings.HasPrefix(key, "session:") && name == "hset" && i >= 2 && i%2 == 0 && string(args[i]) == "connected_at":
			parts = append(parts, "T")
		default:
			parts = append(parts, showBytes(a))
		}
	}
	s := strings.Join(parts, ",")
	if e.Err {
		s += "!"
	}
	return s
}

// journalSince renders the commands issued since the op began (SCAN pages and the session look-ups of Iterate are
// shown sorted, because their order is the key order of the server).
func (d *storeDrv) journalSince() string {
	j := d.fake.Journal()[d.base:]
	parts := make([]string, len(j))
	for i, e := range j {
		parts[i] = showCmd(e)
	}
	return "J[" + strings.Join(parts, ";") + "]"
}

func tick() {
	t := time.Now()
	for time.Since(t) < 3*time.Nanosecond {
	}
}

func kvs(tokens []string) (pos []string, m map[string]string) {
	m = map[string]string{}
	for _, t := range tokens {
		if i := strings.IndexByte(t, '='); i > 0 {
			m[t[:i]] = t[i+1:]
		} else {
			pos = append(pos, t)
		}
	}
	return
}

func geti(m map[string]string, k string, def int) int {
	if v, ok := m[k]; ok {
		if n, err := strconv.Atoi(v); err == nil {
			return n
		}
	}
	return def
}

func parseMsg(f []string) *gmqtt.Message {
	// dup qos ret topic payload pid ct cd me pf rt sids ups
	m := &gmqtt.Message{Dup: f[0] == "1", QoS: byte(drv.Atoi(f[1])), Retained: f[2] == "1", Topic: string(unesc(f[3])), Payload: unesc(f[4]),
		PacketID: packets.PacketID(drv.Atoi(f[5])), ContentType: string(unesc(f[6])), CorrelationData: unesc(f[7]),
		MessageExpiry: uint32(drv.Atoi(f[8])), PayloadFormat: byte(drv.Atoi(f[9])), ResponseTopic: string(unesc(f[10]))}
	if f[11] != "-" {
		for _, s := range strings.Split(f[11], "+") {
			v, _ := strconv.ParseUint(s, 10, 32)
			m.SubscriptionIdentifier = append(m.SubscriptionIdentifier, uint32(v))
		}
	}
	if f[12] != "-" {
		for _, s := range strings.Split(f[12], ";") {
			kv := strings.SplitN(s, "|", 2)
			m.UserProperties = append(m.UserProperties, packets.UserProperty{K: unesc(kv[0]), V: unesc(kv[1])})
		}
	}
	return m
}

func b2s(b bool) string {
	if b {
		return "1"
	}
	return "0"
}

func showMsg(m *gmqtt.Message) string {
	if m == nil {
		return "nil"
	}
	sids := "-"
	if len(m.SubscriptionIdentifier) > 0 {
		ps := make([]string, len(m.SubscriptionIdentifier))
		for i, v := range m.SubscriptionIdentifier {
			ps[i] = strconv.FormatUint(uint64(v), 10)
		}
		sids = strings.Join(ps, "+")
	}
	ups := "-"
	if len(m.UserProperties) > 0 {
		ps := make([]string, len(m.UserProperties))
		for i, u := range m.UserProperties {
			ps[i] = showBytes(u.K) + "|" + showBytes(u.V)
		}
		ups = strings.Join(ps, ";")
	}
	return fmt.Sprintf("msg(%s,%d,%s,%s,%s,%d,%s,%s,%d,%d,%s,%s,%s)", b2s(m.Dup), m.QoS, b2s(m.Retained), showBytes([]byte(m.Topic)), showBytes(m.Payload),
		m.PacketID, showBytes([]byte(m.ContentType)), showBytes(m.CorrelationData), m.MessageExpiry, m.PayloadFormat, showBytes([]byte(m.ResponseTopic)), sids, ups)
}

func showSub(s *gmqtt.Subscription) string {
	return fmt.Sprintf("%s:%s:%d:%d:%s:%s:%d", esc([]byte(s.ShareName)), esc([]byte(s.TopicFilter)), s.ID, s.QoS, b2s(s.NoLocal), b2s(s.RetainAsPublished), s.RetainHandling)
}

func showSess(s *gmqtt.Session) string {
	if s == nil {
		return "none"
	}
	return fmt.Sprintf("sess(%s,%s,%d,%d)", esc([]byte(s.ClientID)), showMsg(s.Will), s.WillDelayInterval, s.ExpiryInterval)
}

func msgEq(a, b *gmqtt.Message) bool { return showMsg(a) == showMsg(b) }

func (d *storeDrv) queueOf(cid string) queue.Store {
	q := d.queues[cid]
	if q == nil {
		q, _ = qredis.New(qredis.Options{MaxQueuedMsg: d.max, InflightExpiry: d.ie, ClientID: cid, Pool: d.pool, DefaultNotifier: d.n})
		d.queues[cid] = q
	}
	return q
}

func (d *storeDrv) unackOf(cid string) unack.Store {
	u := d.unacks[cid]
	if u == nil {
		u = uredis.New(uredis.Options{ClientID: cid, Pool: d.pool})
		d.unacks[cid] = u
	}
	return u
}

func listSubs(st subscription.Store) string {
	var out []string
	st.Iterate(func(clientID string, sub *gmqtt.Subscription) bool {
		out = append(out, esc([]byte(clientID))+"/"+showSub(sub))
		return true
	}, subscription.IterationOptions{Type: subscription.TypeAll})
	sort.Strings(out)
	return "[" + strings.Join(out, ",") + "]"
}

func parkedInCondWait() bool {
	buf := make([]byte, 1<<16)
	n := runtime.Stack(buf, true)
	return strings.Contains(string(buf[:n]), "[sync.Cond.Wait")
}

type readResult struct {
	rs  []*queue.Elem
	err error
	pan bool
}

// readQueue calls Read and reports "blocked" (after closing the queue to get the goroutine back) when it waits.
func readQueue(q queue.Store, pids []packets.PacketID) (r readResult, blocked bool) {
	done := make(chan readResult, 1)
	go func() {
		defer func() {
			if x := recover(); x != nil {
				done <- readResult{pan: true}
			}
		}()
		rs, err := q.Read(pids)
		done <- readResult{rs: rs, err: err}
	}()
	for spins := 0; ; spins++ {
		select {
		case r = <-done:
			return r, blocked
		default:
		}
		runtime.Gosched()
		if spins > 20 && parkedInCondWait() {
			blocked = true
			q.Close()
			r = <-done
			return r, blocked
		}
	}
}

func pidList(s string) []packets.PacketID {
	if s == "-" {
		return nil
	}
	var r []packets.PacketID
	for _, p := range strings.Split(s, ",") {
		r = append(r, packets.PacketID(drv.Atoi(p)))
	}
	return r
}

func (d *storeDrv) Step(line string) string {
	f := strings.Fields(line)
	if len(f) == 0 {
		return "bad-op"
	}
	tick()
	if f[0] == "new" {
		_, m := kvs(f[1:])
		d.close()
		fake, err := respfake.Start()
		if err != nil {
			return "err-fake"
		}
		d.stores = openStores(fake)
		d.max = geti(m, "max", 1000)
		d.ie = time.Duration(geti(m, "ie", 0)) * time.Second
		d.uaIDs = map[string]map[int]bool{}
		d.allIDs = nil
		return "ok"
	}
	// pure encoding ops need no store
	switch f[0] {
	case "emsg":
		if len(f) != 14 {
			return "bad-op"
		}
		m := parseMsg(f[1:])
		b := &bytes.Buffer{}
		encoding.EncodeMessage(m, b)
		enc := append([]byte(nil), b.Bytes()...)
		back, err := encoding.DecodeMessage(bytes.NewBuffer(enc))
		rt := "ok"
		if err != nil {
			rt = "err"
		} else if !msgEq(m, back) {
			rt = "diff"
		}
		return showBytes(enc) + " rt=" + rt
	case "dmsg":
		m, err := encoding.DecodeMessage(bytes.NewBuffer(unesc(f[1])))
		if err != nil {
			return "err"
		}
		return showMsg(m)
	case "eelem": // eelem <at> <exp> p <13 msg fields> | eelem <at> <exp> r <pid>
		if len(f) < 5 {
			return "bad-op"
		}
		at, _ := strconv.ParseUint(f[1], 10, 64)
		ex, _ := strconv.ParseUint(f[2], 10, 64)
		e := &queue.Elem{At: time.Unix(int64(at), 0), Expiry: time.Unix(int64(ex), 0)}
		if f[3] == "p" {
			if len(f) != 17 {
				return "bad-op"
			}
			e.MessageWithID = &queue.Publish{Message: parseMsg(f[4:])}
		} else {
			e.MessageWithID = &queue.Pubrel{PacketID: packets.PacketID(drv.Atoi(f[4]))}
		}
		enc := e.Encode()
		back := &queue.Elem{}
		rt := "ok"
		if err := back.Decode(enc); err != nil {
			rt = "err"
		} else if showElemFull(back) != showElemFull(e) {
			rt = "diff"
		}
		return showBytes(enc) + " rt=" + rt
	case "delem":
		e := &queue.Elem{}
		if err := e.Decode(unesc(f[1])); err != nil {
			return "err"
		}
		return showElemFull(e)
	case "esub": // esub share filter id qos nl rap rh
		if len(f) != 8 {
			return "bad-op"
		}
		id, _ := strconv.ParseUint(f[3], 10, 32)
		s := &gmqtt.Subscription{ShareName: string(unesc(f[1])), TopicFilter: string(unesc(f[2])), ID: uint32(id), QoS: byte(drv.Atoi(f[4])),
			NoLocal: f[5] == "1", RetainAsPublished: f[6] == "1", RetainHandling: byte(drv.Atoi(f[7]))}
		enc := subredis.EncodeSubscription(s)
		back, err := subredis.DecodeSubscription(enc)
		rt := "ok"
		if err != nil {
			rt = "err"
		} else if showSub(back) != showSub(s) {
			rt = "diff"
		}
		return showBytes(enc) + " rt=" + rt
	case "dsub":
		s, err := subredis.DecodeSubscription(unesc(f[1]))
		if err != nil {
			return "err"
		}
		return showSub(s)
	}
	if d.fake == nil {
		return "bad-op"
	}
	d.base = d.fake.JournalLen()
	d.n.evs = d.n.evs[:0]
	pos, m := kvs(f[1:])
	res := d.storeOp(f[0], pos, m)
	if f[0] == "restart" || f[0] == "siter" || f[0] == "slist" || f[0] == "dump" {
		return res
	}
	return strings.TrimSpace(d.journalSince() + " " + res)
}

func showElemFull(e *queue.Elem) string {
	at := uint64(e.At.Unix())
	ex := uint64(e.Expiry.Unix())
	switch m := e.MessageWithID.(type) {
	case *queue.Publish:
		return fmt.Sprintf("elem(%d,%d,%s)", at, ex, showMsg(m.Message))
	case *queue.Pubrel:
		return fmt.Sprintf("elem(%d,%d,rel(%d))", at, ex, m.PacketID)
	}
	return "elem(?)"
}

func errTok(err error) string {
	if err != nil {
		return "err"
	}
	return "ok"
}

func (d *storeDrv) storeOp(op string, pos []string, m map[string]string) string {
	cid := ""
	if len(pos) > 0 {
		cid = string(unesc(pos[0]))
	}
	switch op {
	// ---- session store
	case "sset": // sset <cid> will=<topic>|- wd= exp=
		s := &gmqtt.Session{ClientID: cid, WillDelayInterval: uint32(geti(m, "wd", 0)), ConnectedAt: time.Now(), ExpiryInterval: uint32(geti(m, "exp", 0))}
		if w, ok := m["will"]; ok && w != "-" {
			s.Will = &gmqtt.Message{Topic: string(unesc(w)), QoS: byte(geti(m, "wq", 1)), Payload: []byte("w")}
		}
		return errTok(d.sess.Set(s))
	case "sget":
		s, err := d.sess.Get(cid)
		if err != nil {
			return "err"
		}
		return showSess(s)
	case "srem":
		return errTok(d.sess.Remove(cid))
	case "sexp":
		return errTok(d.sess.SetSessionExpiry(cid, uint32(drv.Atoi(pos[1]))))
	case "siter":
		var out []string
		err := d.sess.Iterate(func(s *gmqtt.Session) bool { out = append(out, showSess(s)); return true })
		if err != nil {
			return "err"
		}
		sort.Strings(out)
		return "[" + strings.Join(out, ",") + "]"
	// ---- subscription store
	case "ssub": // ssub <cid> <filter> share= id= q= nl= rap= rh=
		s := &gmqtt.Subscription{ShareName: m["share"], TopicFilter: string(unesc(pos[1])), ID: uint32(geti(m, "id", 0)), QoS: byte(geti(m, "q", 0)),
			NoLocal: geti(m, "nl", 0) == 1, RetainAsPublished: geti(m, "rap", 0) == 1, RetainHandling: byte(geti(m, "rh", 0))}
		rs, err := d.subs.Subscribe(cid, s)
		if err != nil {
			return "err"
		}
		return "existed=" + b2s(rs[0].AlreadyExisted)
	case "sunsub":
		return errTok(d.subs.Unsubscribe(cid, string(unesc(pos[1]))))
	case "sunall":
		return errTok(d.subs.UnsubscribeAll(cid))
	case "slist":
		return listSubs(d.subs)
	// ---- queue store
	case "qinit": // qinit <cid> <clean> <limit>
		err := d.queueOf(cid).Init(&queue.InitOptions{CleanStart: pos[1] == "1", Version: packets.Version5,
			ReadBytesLimit: uint32(drv.Atoi(pos[2])), Notifier: d.n})
		return errTok(err)
	case "qadd": // qadd <cid> <tag> <qos> <exp> <paylen>
		msg := &gmqtt.Message{QoS: byte(drv.Atoi(pos[2])), Topic: string(unesc(pos[1])), Payload: bytes.Repeat([]byte("a"), drv.Atoi(pos[4]))}
		e := &queue.Elem{At: time.Now(), MessageWithID: &queue.Publish{Message: msg}}
		switch pos[3] {
		case "past":
			e.Expiry = time.Now().Add(-2 * time.Hour)
		case "future":
			e.Expiry = time.Now().Add(2 * time.Hour)
		}
		if err := d.queueOf(cid).Add(e); err != nil {
			return "err"
		}
		return strings.TrimSpace("ok " + d.n.take())
	case "qread":
		r, blocked := readQueue(d.queueOf(cid), pidList(pos[1]))
		if r.pan {
			return "panic"
		}
		if blocked {
			return "blocked"
		}
		if r.err == queue.ErrClosed {
			return "closed"
		}
		if r.err != nil {
			return "err"
		}
		return strings.TrimSpace(showRet(r.rs) + " " + d.n.take())
	case "qri":
		rs, err := d.queueOf(cid).ReadInflight(uint(drv.Atoi(pos[1])))
		if err != nil {
			return "err"
		}
		return showRet(rs)
	case "qrm":
		if err := d.queueOf(cid).Remove(packets.PacketID(drv.Atoi(pos[1]))); err != nil {
			return "err"
		}
		return strings.TrimSpace("ok " + d.n.take())
	case "qrep":
		ok, err := d.queueOf(cid).Replace(&queue.Elem{At: time.Now(), MessageWithID: &queue.Pubrel{PacketID: packets.PacketID(drv.Atoi(pos[1]))}})
		if err != nil {
			return "err"
		}
		if ok {
			return "replaced"
		}
		return "notfound"
	case "qclean":
		return errTok(d.queueOf(cid).Clean())
	case "qclose":
		d.queueOf(cid).Close()
		return "ok"
	// ---- unack store
	case "uinit":
		return errTok(d.unackOf(cid).Init(pos[1] == "1"))
	case "uset":
		id := drv.Atoi(pos[1])
		if d.uaIDs[cid] == nil {
			d.uaIDs[cid] = map[int]bool{}
		}
		d.uaIDs[cid][id] = true
		ex, err := d.unackOf(cid).Set(packets.PacketID(id))
		if err != nil {
			return "err"
		}
		return "exist=" + b2s(ex)
	case "urm":
		return errTok(d.unackOf(cid).Remove(packets.PacketID(drv.Atoi(pos[1]))))
	// ---- inspection
	case "dump":
		return "D[" + strings.Join(d.fake.Dump(), ";") + "]"
	case "restart": // restart <k>|all : the broker died after the first k write commands; re-open everything the way server.init does
		w := respfake.Writes(d.fake.Journal())
		var ks []int
		if pos[0] == "all" {
			for k := 0; k <= len(w); k++ {
				ks = append(ks, k)
			}
		} else {
			k := drv.Atoi(pos[0])
			if k > len(w) {
				k = len(w)
			}
			ks = []int{k}
		}
		parts := []string{"W=" + strconv.Itoa(len(w))}
		for _, k := range ks {
			parts = append(parts, fmt.Sprintf("k%d{%s}", k, d.observe(w[:k])))
		}
		return strings.Join(parts, " ")
	}
	return "bad-op"
}

// observe mirrors server.init on a fresh process: iterate the stored sessions, create queue and unack stores for
// them, load their subscriptions; then looks at every queue the way a reconnecting client would (Init without
// clean start, ReadInflight until empty, Read) and asks the unack store about every id the history ever used.
func (d *storeDrv) observe(prefix []respfake.Entry) (res string) {
	defer func() {
		if r := recover(); r != nil {
			res = "fail:panic"
		}
	}()
	fake := respfake.FromJournal(prefix)
	if err := fake.Listen("127.0.0.1:0"); err != nil {
		return "err-fake"
	}
	st := openStores(fake)
	defer st.close()
	var sess []*gmqtt.Session
	if err := st.sess.Iterate(func(s *gmqtt.Session) bool { sess = append(sess, s); return true }); err != nil {
		return "fail:sessions"
	}
	sort.Slice(sess, func(i, j int) bool { return sess[i].ClientID < sess[j].ClientID })
	var cids []string
	for _, s := range sess {
		cids = append(cids, s.ClientID)
	}
	if err := st.subs.Init(cids); err != nil {
		return "fail:subs"
	}
	var sp, qp, up []string
	for _, s := range sess {
		sp = append(sp, showSess(s))
		q, _ := qredis.New(qredis.Options{MaxQueuedMsg: d.max, InflightExpiry: d.ie, ClientID: s.ClientID, Pool: st.pool, DefaultNotifier: st.n})
		st.queues[s.ClientID] = q
		if err := q.Init(&queue.InitOptions{CleanStart: false, Version: packets.Version5, ReadBytesLimit: 4294967295, Notifier: st.n}); err != nil {
			return "fail:qinit"
		}
		var infl, fresh []*queue.Elem
		for {
			rs, err := q.ReadInflight(100)
			if err != nil {
				return "fail:readinflight"
			}
			if len(rs) == 0 {
				break
			}
			infl = append(infl, rs...)
		}
		ids := make([]packets.PacketID, 200)
		for i := range ids {
			ids[i] = packets.PacketID(1000 + i)
		}
		r, blocked := readQueue(q, ids)
		if r.pan {
			return "fail:readpanic"
		}
		if !blocked {
			if r.err != nil {
				return "fail:read"
			}
			fresh = r.rs
		}
		var ps []string
		for _, e := range infl {
			ps = append(ps, showElem(e))
		}
		ps = append(ps, "|")
		for _, e := range fresh {
			if p, ok := e.MessageWithID.(*queue.Publish); ok && p.QoS > 0 {
				p.PacketID = 0 // fresh ids are the observer's own
			}
			ps = append(ps, showElem(e))
		}
		qp = append(qp, esc([]byte(s.ClientID))+"=["+strings.Join(ps, ",")+"]")
		u := uredis.New(uredis.Options{ClientID: s.ClientID, Pool: st.pool})
		if err := u.Init(false); err != nil {
			return "fail:uinit"
		}
		var have []string
		var ids2 []int
		for id := range d.uaIDs[s.ClientID] {
			ids2 = append(ids2, id)
		}
		sort.Ints(ids2)
		for _, id := range ids2 {
			ex, err := u.Set(packets.PacketID(id))
			if err != nil {
				return "fail:uset"
			}
			if ex {
				have = append(have, strconv.Itoa(id))
			}
		}
		up = append(up, esc([]byte(s.ClientID))+"=["+strings.Join(have, ",")+"]")
	}
	return "sess=[" + strings.Join(sp, ",") + "];subs=" + listSubs(st.subs) + ";q=[" + strings.Join(qp, ",") + "];ua=[" + strings.Join(up, ",") + "]"
}
