// drive_retained runs the op-line protocol of the `retained` component (C07, store level) on the REAL
// retained-message store `retained/trie` through its public API only.
//
//	new                 -> ok            fresh trie.NewStore()  (resets all state)
//	add :<topic> <tag>  -> ok            AddOrReplace(&gmqtt.Message{Topic: topic, Payload: tag})
//	rm :<topic>         -> ok            Remove(topic)
//	clear               -> ok            ClearAll()
//	get :<topic>        -> none | <topic>=<tag>          GetRetainedMessage
//	match :<filter>     -> [<topic>=<tag>,...]           GetMatchedMessages, sorted
//	iter                -> [<topic>=<tag>,...]           Iterate (callback always true), sorted
//	iterstop <n>        -> calls=<k>                     Iterate, callback returns false on its n-th call (n>=1)
//
// Topics/filters are written with a leading ':' so that the empty string is a token.
// Messages are identified by the ghost tag carried in the payload; the topic printed is the
// Topic field of the message the store handed back.
package main

import (
	"sort"
	"runtime"
	"strconv"
	"strings"
	"sync"
	"sync/atomic"

	"verifharness/internal/drv"

	"github.com/DrmagicE/gmqtt"
	"github.com/DrmagicE/gmqtt/retained"
	"github.com/DrmagicE/gmqtt/retained/trie"
)

func main() { drv.Main(&retainedDrv{st: trie.NewStore()}) }

type retainedDrv struct {
	st retained.Store
}

func showMsg(m *gmqtt.Message) string {
	if m == nil {
		return "nil"
	}
	return m.Topic + "=" + string(m.Payload)
}

func showList(ms []*gmqtt.Message) string {
	parts := make([]string, len(ms))
	for i, m := range ms {
		parts[i] = showMsg(m)
	}
	sort.Strings(parts)
	return "[" + strings.Join(parts, ",") + "]"
}

func arg(s string) (string, bool) {
	if len(s) == 0 || s[0] != ':' {
		return "", false
	}
	return s[1:], true
}

func (d *retainedDrv) Step(line string) string {
	f := strings.Split(line, " ")
	switch {
	case len(f) == 1 && f[0] == "new":
		d.st = trie.NewStore()
		return "ok"
	case len(f) == 3 && f[0] == "add":
		t, ok := arg(f[1])
		if !ok {
			return "bad-op"
		}
		d.st.AddOrReplace(&gmqtt.Message{Topic: t, Payload: []byte(f[2]), Retained: true, QoS: 1})
		return "ok"
	case len(f) == 2 && f[0] == "rm":
		t, ok := arg(f[1])
		if !ok {
			return "bad-op"
		}
		d.st.Remove(t)
		return "ok"
	case len(f) == 1 && f[0] == "clear":
		d.st.ClearAll()
		return "ok"
	case len(f) == 2 && f[0] == "get":
		t, ok := arg(f[1])
		if !ok {
			return "bad-op"
		}
		m := d.st.GetRetainedMessage(t)
		if m == nil {
			return "none"
		}
		return showMsg(m)
	case len(f) == 2 && f[0] == "match":
		t, ok := arg(f[1])
		if !ok {
			return "bad-op"
		}
		return showList(d.st.GetMatchedMessages(t))
	case len(f) >= 3 && f[0] == "cmatch":
		// `cmatch :<filter> :<filter> …`: the lookups run CONCURRENTLY (one goroutine per filter, 200 rounds each; readers share
		// the store's read lock) and every answer is compared with the answer of the same lookup made alone
		var fs []string
		for _, a := range f[1:] {
			t, ok := arg(a)
			if !ok {
				return "bad-op"
			}
			fs = append(fs, t)
		}
		alone := make([]string, len(fs))
		for i, t := range fs {
			alone[i] = showList(d.st.GetMatchedMessages(t))
		}
		var bad int32
		var wg sync.WaitGroup
		for i, t := range fs {
			wg.Add(1)
			go func(i int, t string) {
				defer wg.Done()
				defer func() {
					if recover() != nil {
						atomic.StoreInt32(&bad, 1)
					}
				}()
				for r := 0; r < 200; r++ {
					if showList(d.st.GetMatchedMessages(t)) != alone[i] {
						atomic.StoreInt32(&bad, 1)
						return
					}
					runtime.Gosched()
				}
			}(i, t)
		}
		wg.Wait()
		if bad != 0 {
			return "concurrent-lookups-differ"
		}
		return strings.Join(alone, " | ")
	case len(f) == 1 && f[0] == "iter":
		var ms []*gmqtt.Message
		d.st.Iterate(func(m *gmqtt.Message) bool {
			ms = append(ms, m)
			return true
		})
		return showList(ms)
	case len(f) == 2 && f[0] == "iterstop":
		n := drv.Atoi(f[1])
		calls := 0
		d.st.Iterate(func(m *gmqtt.Message) bool {
			calls++
			return calls < n
		})
		return "calls=" + strconv.Itoa(calls)
	}
	return "bad-op"
}
