// drive_substore drives the REAL in-memory subscription index (persistence/subscription/mem)
// through its public subscription.Store API, one op line in, one canonical line out.
// Same protocol as lean/Driver/SubStore.lean (oracle_substore).
//
//	new
//	sub <client> <share|-> <filter> <qos> <nl> <rap> <rh> <id>   -> ok new | ok existed
//	unsub <client> <fullname>                                     -> ok          (fullname: filter or $share/<g>/<filter>)
//	unsuball <client>                                             -> ok
//	match <type> <topic> [client]                                 -> n=<k> <entries>   Iterate{Type, MatchFilter, TopicName, ClientID}
//	get <type> <fullname> [client]                                -> n=<k> <entries>   Iterate{Type, MatchName, TopicName, ClientID}
//	client <client> <type>                                        -> n=<k> <entries>   Iterate{Type, ClientID}
//	all <type>                                                    -> n=<k> <entries>   Iterate{Type}
//	stats                                                         -> total=<n> current=<n>
//	cstats <client>                                               -> total=<n> current=<n> | noclient
//	split <fullname>                                              -> <share|-> <filter|->      subscription.SplitTopic
//
// <type> is the IterationType bit mask 1..7 (1 = SYS, 2 = Shared, 4 = NonShared).
// an entry is client,share|-,filter,qos,nl,rap,rh,id ; entries are sorted and joined by ';' (duplicates kept).
package main

import (
	"fmt"
	"sort"
	"strings"

	"os"
	"runtime"
	"sync"
	"sync/atomic"

	redigo "github.com/gomodule/redigo/redis"

	"verifharness/internal/drv"
	"verifharness/internal/respfake"

	subredis "github.com/DrmagicE/gmqtt/persistence/subscription/redis"

	"github.com/DrmagicE/gmqtt"
	"github.com/DrmagicE/gmqtt/persistence/subscription"
	"github.com/DrmagicE/gmqtt/persistence/subscription/mem"
)

// `drive_substore redis`: the same ops through persistence/subscription/redis (the wrapper that writes redis first and
// the in-memory index second) over an in-process respfake; `fault` makes the next redis command fail: the op that hits
// it must report an error and leave every lookup and counter as it was (`err`), and `reload` compares a store
// re-initialised from redis with the live one.
func main() {
	if len(os.Args) > 1 && os.Args[1] == "redis" {
		fake, err := respfake.Start()
		if err != nil {
			fmt.Println("CRASH respfake")
			return
		}
		addr := fake.Addr()
		pool := &redigo.Pool{MaxIdle: 4, Dial: func() (redigo.Conn, error) { return redigo.Dial("tcp", addr) }}
		drv.Main(&subDrv{st: subredis.New(pool), fake: fake, pool: pool})
		return
	}
	drv.Main(&subDrv{st: mem.NewStore()})
}

type subDrv struct {
	st   subscription.Store
	fake *respfake.Server
	pool *redigo.Pool
	cids map[string]bool
}

// disarm: an armed fault concerns the redis commands of ONE mutating operation (which may also issue none)
func (d *subDrv) disarm() {
	if d.fake != nil {
		d.fake.FailNext(0)
	}
}

func b2i(b bool) int {
	if b {
		return 1
	}
	return 0
}

func dash(s string) string {
	if s == "" {
		return "-"
	}
	return s
}

func undash(s string) string {
	if s == "-" {
		return ""
	}
	return s
}

func showEntry(c string, s *gmqtt.Subscription) string {
	if s == nil {
		return c + ",nil"
	}
	return fmt.Sprintf("%s,%s,%s,%d,%d,%d,%d,%d", c, dash(s.ShareName), s.TopicFilter, s.QoS, b2i(s.NoLocal), b2i(s.RetainAsPublished), s.RetainHandling, s.ID)
}

func (d *subDrv) iterate(o subscription.IterationOptions) string {
	var es []string
	d.st.Iterate(func(c string, s *gmqtt.Subscription) bool {
		es = append(es, showEntry(c, s))
		return true
	}, o)
	sort.Strings(es)
	return strings.TrimSpace(fmt.Sprintf("n=%d %s", len(es), strings.Join(es, ";")))
}

func (d *subDrv) Step(line string) string {
	f := strings.Split(line, " ")
	switch {
	case f[0] == "new" && len(f) == 1:
		d.cids = map[string]bool{}
		if d.fake != nil {
			d.fake.FailNext(0)
			d.fake.Exec(0, [][]byte{[]byte("FLUSHALL")})
			d.st = subredis.New(d.pool)
			return "ok"
		}
		d.st = mem.NewStore()
		return "ok"
	case f[0] == "fault" && len(f) == 1:
		if d.fake != nil {
			d.fake.FailNext(1)
		}
		return "ok"
	case f[0] == "reload" && len(f) == 1:
		if d.fake == nil {
			return "same"
		}
		d.fake.FailNext(0)
		fresh := subredis.New(d.pool)
		var ids []string
		for c := range d.cids {
			ids = append(ids, c)
		}
		sort.Strings(ids)
		if err := fresh.Init(ids); err != nil {
			return "reload-err"
		}
		live := d.iterate(subscription.IterationOptions{Type: subscription.TypeAll})
		d2 := &subDrv{st: fresh}
		re := d2.iterate(subscription.IterationOptions{Type: subscription.TypeAll})
		if live == re {
			return "same"
		}
		return "differ live=[" + live + "] reloaded=[" + re + "]"
	case f[0] == "sub" && len(f) == 9:
		s := &gmqtt.Subscription{
			ShareName: undash(f[2]), TopicFilter: f[3], QoS: byte(drv.Atoi(f[4])), NoLocal: f[5] == "1",
			RetainAsPublished: f[6] == "1", RetainHandling: byte(drv.Atoi(f[7])), ID: uint32(drv.Atoi(f[8])),
		}
		if d.cids != nil {
			d.cids[f[1]] = true
		}
		rs, err := d.st.Subscribe(f[1], s)
		d.disarm()
		if err != nil || len(rs) != 1 {
			return "err"
		}
		if rs[0].AlreadyExisted {
			return "ok existed"
		}
		return "ok new"
	case f[0] == "unsub" && len(f) == 3:
		err := d.st.Unsubscribe(f[1], f[2])
		d.disarm()
		if err != nil {
			return "err"
		}
		return "ok"
	case f[0] == "unsuball" && len(f) == 2:
		err := d.st.UnsubscribeAll(f[1])
		d.disarm()
		if err != nil {
			return "err"
		}
		return "ok"
	case (f[0] == "match" || f[0] == "get") && (len(f) == 3 || len(f) == 4):
		o := subscription.IterationOptions{Type: subscription.IterationType(drv.Atoi(f[1])), TopicName: f[2], MatchType: subscription.MatchFilter}
		if f[0] == "get" {
			o.MatchType = subscription.MatchName
		}
		if len(f) == 4 {
			o.ClientID = f[3]
		}
		return d.iterate(o)
	case f[0] == "cmatch" && len(f) == 3:
		// `cmatch <type> <topic>,<topic>,…`: the lookups run CONCURRENTLY (one goroutine per topic, 200 rounds each; readers
		// share the store's read lock) and every answer is compared with the answer of the same lookup made alone. Prints the
		// answers (joined by " | ") when all agree. A lookup must not depend on what other lookups are doing.
		topics := strings.Split(f[2], ",")
		ty := subscription.IterationType(drv.Atoi(f[1]))
		alone := make([]string, len(topics))
		for i, t := range topics {
			alone[i] = d.iterate(subscription.IterationOptions{Type: ty, TopicName: t, MatchType: subscription.MatchFilter})
		}
		var bad int32
		var wg sync.WaitGroup
		for i, t := range topics {
			wg.Add(1)
			go func(i int, t string) {
				defer wg.Done()
				defer func() {
					if recover() != nil {
						atomic.StoreInt32(&bad, 1)
					}
				}()
				for r := 0; r < 200; r++ {
					if d.iterate(subscription.IterationOptions{Type: ty, TopicName: t, MatchType: subscription.MatchFilter}) != alone[i] {
						atomic.StoreInt32(&bad, 1)
						return
					}
					runtime.Gosched()
				}
			}(i, t)
		}
		wg.Wait()
		if bad != 0 {
			return "concurrent-lookups-differ"
		}
		return strings.Join(alone, " | ")
	case f[0] == "client" && len(f) == 3:
		return d.iterate(subscription.IterationOptions{Type: subscription.IterationType(drv.Atoi(f[2])), ClientID: f[1]})
	case f[0] == "all" && len(f) == 2:
		return d.iterate(subscription.IterationOptions{Type: subscription.IterationType(drv.Atoi(f[1]))})
	case f[0] == "stats" && len(f) == 1:
		s := d.st.GetStats()
		return fmt.Sprintf("total=%d current=%d", s.SubscriptionsTotal, s.SubscriptionsCurrent)
	case f[0] == "cstats" && len(f) == 2:
		s, err := d.st.GetClientStats(f[1])
		if err != nil {
			return "noclient"
		}
		return fmt.Sprintf("total=%d current=%d", s.SubscriptionsTotal, s.SubscriptionsCurrent)
	case f[0] == "split" && len(f) == 2:
		g, t := subscription.SplitTopic(f[1])
		return dash(g) + " " + dash(t)
	}
	return "bad-op"
}
