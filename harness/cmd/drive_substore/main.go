// drive_substore drives the REAL in-memory subscription index (persistence/subscription/mem)
// through its public subscription.Store API, one op line in, one canonical line out.
// Same protocol as lean/Driver/SubStore.lean (oracle_substore).
//
//	new
//	sub <client> <share|-> <filter> <qos> <nl> <rap> <rh> <id>   -> ok new | ok existed
//	unsub <client> <fullname>                                     -> ok          (fullname: filter or $share/<g>/<filter>)
//	unsuball <client>                                             -> ok
//	match <type> <topic> [client]                                 -> n=<k> <entries>   Iterate{Type, MatchFilter, TopicName, ClientID}
//	get <type> <fullname> [client]                                -> n=<k> <entries>   Iterate{Type, MatchName, TopicName, ClientID}
//	client <client> <type>                                        -> n=<k> <entries>   Iterate{Type, ClientID}
//	all <type>                                                    -> n=<k> <entries>   Iterate{Type}
//	stats                                                         -> total=<n> current=<n>
//	cstats <client>                                               -> total=<n> current=<n> | noclient
//	split <fullname>                                              -> <share|-> <filter|->      subscription.SplitTopic
//
// <type> is the IterationType bit mask 1..7 (1 = SYS, 2 = Shared, 4 = NonShared).
// an entry is client,share|-,filter,qos,nl,rap,rh,id ; entries are sorted and joined by ';' (duplicates kept).
package main

import (
	"fmt"
	"sort"
	"strings"

	"verifharness/internal/drv"

	"github.com/DrmagicE/gmqtt"
	"github.com/DrmagicE/gmqtt/persistence/subscription"
	"github.com/DrmagicE/gmqtt/persistence/subscription/mem"
)

func main() { drv.Main(&subDrv{st: mem.NewStore()}) }

type subDrv struct {
	st subscription.Store
}

func b2i(b bool) int {
	if b {
		return 1
	}
	return 0
}

func dash(s string) string {
	if s == "" {
		return "-"
	}
	return s
}

func undash(s string) string {
	if s == "-" {
		return ""
	}
	return s
}

func showEntry(c string, s *gmqtt.Subscription) string {
	if s == nil {
		return c + ",nil"
	}
	return fmt.Sprintf("%s,%s,%s,%d,%d,%d,%d,%d", c, dash(s.ShareName), s.TopicFilter, s.QoS, b2i(s.NoLocal), b2i(s.RetainAsPublished), s.RetainHandling, s.ID)
}

func (d *subDrv) iterate(o subscription.IterationOptions) string {
	var es []string
	d.st.Iterate(func(c string, s *gmqtt.Subscription) bool {
		es = append(es, showEntry(c, s))
		return true
	}, o)
	sort.Strings(es)
	return strings.TrimSpace(fmt.Sprintf("n=%d %s", len(es), strings.Join(es, ";")))
}

func (d *subDrv) Step(line string) string {
	f := strings.Split(line, " ")
	switch {
	case f[0] == "new" && len(f) == 1:
		d.st = mem.NewStore()
		return "ok"
	case f[0] == "sub" && len(f) == 9:
		s := &gmqtt.Subscription{
			ShareName: undash(f[2]), TopicFilter: f[3], QoS: byte(drv.Atoi(f[4])), NoLocal: f[5] == "1",
			RetainAsPublished: f[6] == "1", RetainHandling: byte(drv.Atoi(f[7])), ID: uint32(drv.Atoi(f[8])),
		}
		rs, err := d.st.Subscribe(f[1], s)
		if err != nil || len(rs) != 1 {
			return "err"
		}
		if rs[0].AlreadyExisted {
			return "ok existed"
		}
		return "ok new"
	case f[0] == "unsub" && len(f) == 3:
		if d.st.Unsubscribe(f[1], f[2]) != nil {
			return "err"
		}
		return "ok"
	case f[0] == "unsuball" && len(f) == 2:
		if d.st.UnsubscribeAll(f[1]) != nil {
			return "err"
		}
		return "ok"
	case (f[0] == "match" || f[0] == "get") && (len(f) == 3 || len(f) == 4):
		o := subscription.IterationOptions{Type: subscription.IterationType(drv.Atoi(f[1])), TopicName: f[2], MatchType: subscription.MatchFilter}
		if f[0] == "get" {
			o.MatchType = subscription.MatchName
		}
		if len(f) == 4 {
			o.ClientID = f[3]
		}
		return d.iterate(o)
	case f[0] == "client" && len(f) == 3:
		return d.iterate(subscription.IterationOptions{Type: subscription.IterationType(drv.Atoi(f[2])), ClientID: f[1]})
	case f[0] == "all" && len(f) == 2:
		return d.iterate(subscription.IterationOptions{Type: subscription.IterationType(drv.Atoi(f[1]))})
	case f[0] == "stats" && len(f) == 1:
		s := d.st.GetStats()
		return fmt.Sprintf("total=%d current=%d", s.SubscriptionsTotal, s.SubscriptionsCurrent)
	case f[0] == "cstats" && len(f) == 2:
		s, err := d.st.GetClientStats(f[1])
		if err != nil {
			return "noclient"
		}
		return fmt.Sprintf("total=%d current=%d", s.SubscriptionsTotal, s.SubscriptionsCurrent)
	case f[0] == "split" && len(f) == 2:
		g, t := subscription.SplitTopic(f[1])
		return dash(g) + " " + dash(t)
	}
	return "bad-op"
}
