// drive_topicmatch runs the REAL exported byte scanner packets.TopicMatch (C02, stream `topicmatch`).
//
// line protocol (one output line per input line, stateless):
//
//	tm <hex-topic> <hex-filter>   ->  true | false | panic
//
// <hex-…> is the lower/upper-case hex encoding of the raw bytes; `-` stands for the empty byte string.
package main

import (
	"encoding/hex"
	"strings"

	"verifharness/internal/drv"

	"github.com/DrmagicE/gmqtt/pkg/packets"
)

func main() { drv.Main(tmDrv{}) }

type tmDrv struct{}

func unhex(s string) ([]byte, bool) {
	if s == "-" {
		return []byte{}, true
	}
	b, err := hex.DecodeString(s)
	if err != nil || len(b) == 0 {
		return nil, false
	}
	return b, true
}

func (tmDrv) Step(line string) string {
	f := strings.Fields(line)
	if len(f) != 3 || f[0] != "tm" {
		return "bad-op"
	}
	topic, ok1 := unhex(f[1])
	filter, ok2 := unhex(f[2])
	if !ok1 || !ok2 {
		return "bad-op"
	}
	if packets.TopicMatch(topic, filter) { // a panic is recovered by drv.SafeStep
		return "true"
	}
	return "false"
}
