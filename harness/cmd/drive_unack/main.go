// drive_unack runs the unack-store line protocol (see lean/Driver/Unack.lean) on the REAL
// persistence/unack/mem.Store through its public API.
//
//	new            -> ok              fresh store (mem.New), as registerClient does for a new session
//	init <0|1>     -> ok | err        Store.Init(cleanStart)
//	set <id>       -> new | exist | err    Store.Set(id): false/true = id was absent/present
//	remove <id>    -> ok | err        Store.Remove(id)
package main

import (
	"strings"

	"verifharness/internal/drv"

	"github.com/DrmagicE/gmqtt/persistence/unack"
	umem "github.com/DrmagicE/gmqtt/persistence/unack/mem"
	"github.com/DrmagicE/gmqtt/pkg/packets"
)

func main() { drv.Main(&unackDrv{}) }

type unackDrv struct{ s unack.Store }

func (d *unackDrv) Step(line string) string {
	f := strings.Fields(line)
	if len(f) == 0 {
		return "bad-op"
	}
	if f[0] == "new" && len(f) == 1 {
		d.s = umem.New(umem.Options{ClientID: "c"})
		return "ok"
	}
	if d.s == nil || len(f) != 2 {
		return "bad-op"
	}
	switch f[0] {
	case "init":
		if err := d.s.Init(f[1] == "1"); err != nil {
			return "err"
		}
		return "ok"
	case "set":
		exist, err := d.s.Set(packets.PacketID(drv.Atoi(f[1])))
		if err != nil {
			return "err"
		}
		if exist {
			return "exist"
		}
		return "new"
	case "remove":
		if err := d.s.Remove(packets.PacketID(drv.Atoi(f[1]))); err != nil {
			return "err"
		}
		return "ok"
	}
	return "bad-op"
}
