// drive_wsconn: line-protocol driver for the REAL server.wsConn (C18) over a real gorilla
// websocket connection on loopback TCP. Same protocol as lean/Driver/WsConn.lean:
//
//	new | msg b <hex|-> | msg t <hex|-> | close | read <n> | write <hex|->
//	read -> <hex|-> | err | eof | blocked (Read waits for a message the peer has not sent) | err-timeout (harness)
//
// `msg`/`close` are performed by the client side of the connection, `read`/`write` call
// wsConn.Read / wsConn.Write on the server side.
package main

import (
	"encoding/hex"
	"errors"
	"fmt"
	"net"
	"net/http"
	"net/http/httptest"
	"strings"
	"time"

	"verifharness/internal/drv"
	"verifharness/internal/gstate"

	"github.com/DrmagicE/gmqtt/server"
	"github.com/gorilla/websocket"
	"golang.org/x/sys/unix"
)

const wait = 5 * time.Second // generous: the machine may be heavily loaded; a timeout is reported as err-… and retried

type wsDrv struct {
	ts     *httptest.Server
	up     chan *websocket.Conn
	client *websocket.Conn
	sconn  *websocket.Conn
	ws     net.Conn // the wsConn under test
	buf    []byte
}

func newDrv() *wsDrv {
	d := &wsDrv{up: make(chan *websocket.Conn, 1), buf: make([]byte, 1<<16)}
	d.ts = httptest.NewServer(http.HandlerFunc(func(w http.ResponseWriter, r *http.Request) {
		c, err := server.VerifWsUpgrader().Upgrade(w, r, nil)
		if err != nil {
			d.up <- nil
			return
		}
		d.up <- c
	}))
	return d
}

func unhex(s string) ([]byte, bool) {
	if s == "-" {
		return []byte{}, true
	}
	b, err := hex.DecodeString(s)
	return b, err == nil
}

func showHex(b []byte) string {
	if len(b) == 0 {
		return "-"
	}
	return hex.EncodeToString(b)
}

// unreadKernelBytes is the number of bytes the kernel holds for the server side of the connection (FIONREAD); -1 if unknown.
func (d *wsDrv) unreadKernelBytes() int {
	tc, ok := d.sconn.UnderlyingConn().(*net.TCPConn)
	if !ok {
		return -1
	}
	rc, err := tc.SyscallConn()
	if err != nil {
		return -1
	}
	n := -1
	_ = rc.Control(func(fd uintptr) {
		if v, err := unix.IoctlGetInt(int(fd), unix.TIOCINQ); err == nil {
			n = v
		}
	})
	return n
}

func (d *wsDrv) reset() {
	if d.client != nil {
		d.client.Close()
		d.client = nil
	}
	if d.sconn != nil {
		d.sconn.Close()
		d.sconn = nil
	}
	d.ws = nil
}

func (d *wsDrv) Step(line string) string {
	f := strings.Fields(line)
	if len(f) == 0 {
		return "bad-op"
	}
	if f[0] != "new" && d.ws == nil {
		return "bad-op"
	}
	switch {
	case f[0] == "new" && len(f) == 1:
		d.reset()
		dialer := websocket.Dialer{Subprotocols: []string{"mqtt"}, HandshakeTimeout: wait}
		c, _, err := dialer.Dial("ws"+strings.TrimPrefix(d.ts.URL, "http")+"/", nil)
		if err != nil {
			return "err-dial"
		}
		select {
		case sc := <-d.up:
			if sc == nil {
				c.Close()
				return "err-upgrade"
			}
			d.client, d.sconn = c, sc
			d.ws = server.VerifNewWsConn(sc)
		case <-time.After(wait):
			c.Close()
			return "err-upgrade"
		}
		return "ok"
	case f[0] == "msg" && len(f) == 3:
		b, ok := unhex(f[2])
		if !ok {
			return "bad-op"
		}
		mt := websocket.BinaryMessage
		if f[1] == "t" {
			mt = websocket.TextMessage
		} else if f[1] != "b" {
			return "bad-op"
		}
		_ = d.client.SetWriteDeadline(time.Now().Add(wait))
		if err := d.client.WriteMessage(mt, b); err != nil {
			return "err-send"
		}
		return "ok"
	case f[0] == "close" && len(f) == 1:
		_ = d.client.WriteControl(websocket.CloseMessage,
			websocket.FormatCloseMessage(websocket.CloseNormalClosure, ""), time.Now().Add(wait))
		d.client.Close()
		return "ok"
	case f[0] == "read" && len(f) == 2:
		n := drv.Atoi(f[1])
		if n < 0 || n > len(d.buf) {
			return "bad-op"
		}
		// Never block forever, and decide "blocked" from facts rather than from elapsed time: Read is blocked when its
		// goroutine is parked in the network poller inside ReadMessage while the kernel holds no unread byte for the
		// server side of the connection (every client write has returned before this op started), steadily for 60 ms.
		// It is then released through wsConn's embedded net.Conn deadline, as the broker's keep-alive would do.
		type rres struct {
			n   int
			err error
		}
		done := make(chan rres, 1)
		_ = d.ws.SetReadDeadline(time.Time{})
		go func() {
			got, err := d.ws.Read(d.buf[:n])
			done <- rres{got, err}
		}()
		var r rres
		var since time.Time
		blocked, hard, tick := false, time.Now().Add(wait), 100*time.Microsecond
	poll:
		for {
			select {
			case r = <-done:
				break poll
			case <-time.After(tick):
			}
			if tick < 4*time.Millisecond {
				tick *= 2
			}
			switch {
			case gstate.InState("(*wsConn).Read", "IO wait") && d.unreadKernelBytes() == 0:
				if since.IsZero() {
					since = time.Now()
				} else if time.Since(since) > 60*time.Millisecond {
					blocked = true
					_ = d.ws.SetReadDeadline(time.Now())
					r = <-done
					break poll
				}
			default:
				since = time.Time{}
			}
			if time.Now().After(hard) {
				_ = d.ws.SetReadDeadline(time.Now())
				<-done
				return "err-timeout"
			}
		}
		got, err := r.n, r.err
		if err != nil {
			var ne net.Error
			switch {
			case errors.Is(err, server.ErrInvalWsMsgType):
				return "err"
			case blocked && errors.As(err, &ne) && ne.Timeout():
				return "blocked"
			}
			if got != 0 {
				return fmt.Sprintf("eof+%d", got)
			}
			return "eof"
		}
		return showHex(d.buf[:got])
	case f[0] == "write" && len(f) == 2:
		b, ok := unhex(f[1])
		if !ok {
			return "bad-op"
		}
		_ = d.ws.SetWriteDeadline(time.Now().Add(wait))
		n, err := d.ws.Write(b)
		if err != nil {
			return "err-write"
		}
		_ = d.client.SetReadDeadline(time.Now().Add(wait))
		mt, data, err := d.client.ReadMessage()
		if err != nil {
			return fmt.Sprintf("lost n=%d", n)
		}
		t := "b"
		if mt != websocket.BinaryMessage {
			t = "t"
		}
		return fmt.Sprintf("%s:%s n=%d", t, showHex(data), n)
	}
	return "bad-op"
}

func main() {
	d := newDrv()
	defer d.ts.Close()
	drv.Main(d)
}
