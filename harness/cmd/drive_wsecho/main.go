// drive_wsecho: end-to-end driver for MQTT over WebSocket (C18): a REAL broker whose wsHandler (the handler WsServer
// listeners get) is mounted on a loopback HTTP server; a gorilla client sends the bytes of an MQTT 3.1.1 session cut into
// WebSocket messages as the case says and collects the bytes the broker sends back. Same protocol as lean/Driver/WsEcho.lean:
//
//	new [<mp>]      -> ok                  fresh WebSocket connection to the broker configured with max_packet_size <mp>
//	                                       (default config if absent); one broker per configuration per process
//	msg b <hex|->   -> ok                  client sends one binary message
//	msg t <hex|->   -> ok                  client sends one text message
//	recv <n>        -> <hex of n bytes>    next n bytes of the concatenated binary messages from the broker,
//	                   | timeout:<hex|-> | closed:<hex|->   if fewer arrive (what did arrive is shown); `timeout` = broker and
//	                     connection provably idle (goroutine states), `err-timeout:` = hard cap hit (harness-level)
//	quiet           -> quiet | <hex> | closed:<hex|->        nothing more arrives within a short while
package main

import (
	"context"
	"encoding/hex"
	"net"
	"net/http/httptest"
	"strings"
	"time"

	"verifharness/internal/drv"
	"verifharness/internal/gstate"
	"verifharness/internal/memnet"

	"github.com/DrmagicE/gmqtt/config"
	_ "github.com/DrmagicE/gmqtt/persistence"
	"github.com/DrmagicE/gmqtt/server"
	_ "github.com/DrmagicE/gmqtt/topicalias/fifo"
	"github.com/gorilla/websocket"
	"go.uber.org/zap"
	"golang.org/x/sys/unix"
)

const wait = 20 * time.Second         // hard cap; reaching it is a harness-level failure (err-…, retried by core)
const steady = 300 * time.Millisecond // how long the whole system must be idle before "nothing more will come"

type broker interface {
	server.Server
	Init(opts ...server.Options) error
	Run() error
}

type frame struct {
	data []byte
	text bool
	err  error
}

type inst struct {
	srv broker
	ts  *httptest.Server
}

type echoDrv struct {
	insts  map[int]*inst
	client *websocket.Conn
	in     chan frame
	left   []byte
	dead   bool
}

// get returns the broker configured with max_packet_size mp (0 = default configuration), starting it on first use.
func (d *echoDrv) get(mp int) (*inst, error) {
	if in, ok := d.insts[mp]; ok {
		return in, nil
	}
	cfg := config.DefaultConfig()
	cfg.Listeners = nil
	cfg.API = config.API{}
	cfg.Log.Level = "error"
	if mp > 0 {
		cfg.MQTT.MaxPacketSize = uint32(mp)
	}
	if err := cfg.MQTT.Validate(); err != nil {
		return nil, err
	}
	in := &inst{}
	in.srv = broker(server.New(server.WithConfig(cfg), server.WithTCPListener(memnet.Listen()), server.WithLogger(zap.NewNop())))
	if err := in.srv.Init(); err != nil {
		return nil, err
	}
	go in.srv.Run()
	in.ts = httptest.NewServer(server.VerifWsHandler(in.srv))
	d.insts[mp] = in
	return in, nil
}

func unhex(s string) ([]byte, bool) {
	if s == "-" {
		return []byte{}, true
	}
	b, err := hex.DecodeString(s)
	return b, err == nil
}

func showHex(b []byte) string {
	if len(b) == 0 {
		return "-"
	}
	return hex.EncodeToString(b)
}

func (d *echoDrv) readFrames(c *websocket.Conn, in chan frame) {
	for {
		mt, data, err := c.ReadMessage()
		in <- frame{data: data, text: err == nil && mt != websocket.BinaryMessage, err: err}
		if err != nil {
			return
		}
	}
}

// idle reports that nothing more can arrive without new input: every broker goroutine is parked waiting for external
// input, the client's reader is parked in the network poller, nothing is queued for us and the kernel holds no unread
// byte for the client socket. (Decided from states, not from elapsed time: the machine may be heavily loaded.)
func (d *echoDrv) idle() bool {
	if len(d.in) != 0 || !gstate.InState("(*echoDrv).readFrames", "IO wait") {
		return false
	}
	if tc, ok := d.client.UnderlyingConn().(*net.TCPConn); ok {
		if rc, err := tc.SyscallConn(); err == nil {
			n := -1
			_ = rc.Control(func(fd uintptr) {
				if v, err := unix.IoctlGetInt(int(fd), unix.TIOCINQ); err == nil {
					n = v
				}
			})
			if n != 0 {
				return false
			}
		}
	}
	return gstate.AllWaiting("github.com/DrmagicE/gmqtt/", 1)
}

// collect appends arriving binary payloads to d.left until `enough` says so, the connection is closed, or the system
// has been idle for `steady`. Returns "" | "text-frame" | "idle" | "err-timeout" (hard cap, harness-level).
func (d *echoDrv) collect(enough func() bool) string {
	hard := time.Now().Add(wait)
	var since time.Time
	for !enough() && !d.dead {
		select {
		case fr := <-d.in:
			since = time.Time{}
			if fr.err != nil {
				d.dead = true
			} else if fr.text {
				return "text-frame"
			} else {
				d.left = append(d.left, fr.data...)
			}
			continue
		case <-time.After(3 * time.Millisecond):
		}
		if d.idle() {
			if since.IsZero() {
				since = time.Now()
			} else if time.Since(since) > steady {
				return "idle"
			}
		} else {
			since = time.Time{}
		}
		if time.Now().After(hard) {
			return "err-timeout"
		}
	}
	return ""
}

func (d *echoDrv) Step(line string) string {
	f := strings.Fields(line)
	if len(f) == 0 {
		return "bad-op"
	}
	switch {
	case f[0] == "new" && len(f) <= 2:
		if d.client != nil {
			d.client.Close()
		}
		mp := 0
		if len(f) == 2 {
			mp = drv.Atoi(f[1])
		}
		br, err := d.get(mp)
		if err != nil {
			d.client = nil
			return "err-broker"
		}
		dialer := websocket.Dialer{Subprotocols: []string{"mqtt"}, HandshakeTimeout: wait}
		c, _, err := dialer.Dial("ws"+strings.TrimPrefix(br.ts.URL, "http")+"/", nil)
		if err != nil {
			d.client = nil
			return "err-dial"
		}
		d.client, d.left, d.dead = c, nil, false
		in := make(chan frame, 4096)
		d.in = in
		go d.readFrames(c, in)
		return "ok"
	case d.client == nil:
		return "bad-op"
	case f[0] == "msg" && len(f) == 3:
		b, ok := unhex(f[2])
		if !ok {
			return "bad-op"
		}
		mt := websocket.BinaryMessage
		if f[1] == "t" {
			mt = websocket.TextMessage
		}
		_ = d.client.SetWriteDeadline(time.Now().Add(wait))
		if err := d.client.WriteMessage(mt, b); err != nil {
			return "ok" // the broker may already have closed; what matters is what recv observes
		}
		return "ok"
	case f[0] == "recv" && len(f) == 2:
		n := drv.Atoi(f[1])
		switch d.collect(func() bool { return len(d.left) >= n }) {
		case "text-frame":
			return "text-frame"
		case "idle":
			out := "timeout:" + showHex(d.left)
			d.left = nil
			return out
		case "err-timeout":
			out := "err-timeout:" + showHex(d.left)
			d.left = nil
			return out
		}
		if len(d.left) < n {
			out := "closed:" + showHex(d.left)
			d.left = nil
			return out
		}
		out := showHex(d.left[:n])
		d.left = d.left[n:]
		return out
	case f[0] == "quiet" && len(f) == 1:
		switch d.collect(func() bool { return false }) {
		case "text-frame":
			return "text-frame"
		case "err-timeout":
			return "err-timeout:" + showHex(d.left)
		}
		out := "quiet"
		if d.dead {
			out = "closed:" + showHex(d.left)
		} else if len(d.left) > 0 {
			out = showHex(d.left)
		}
		d.left = nil
		return out
	}
	return "bad-op"
}

func main() {
	d := &echoDrv{insts: map[int]*inst{}}
	defer func() {
		for _, in := range d.insts {
			ctx, cancel := context.WithTimeout(context.Background(), time.Second)
			_ = in.srv.Stop(ctx)
			cancel()
			in.ts.Close()
		}
	}()
	drv.Main(d)
}
