// drive_wsecho: end-to-end driver for MQTT over WebSocket (C18): a REAL broker whose wsHandler (the handler WsServer
// listeners get) is mounted on a loopback HTTP server; a gorilla client sends the bytes of an MQTT 3.1.1 session cut into
// WebSocket messages as the case says and collects the bytes the broker sends back. Same protocol as lean/Driver/WsEcho.lean:
//
//	new             -> ok                  fresh WebSocket connection (the broker instance lives as long as the process)
//	msg b <hex|->   -> ok                  client sends one binary message
//	msg t <hex|->   -> ok                  client sends one text message
//	recv <n>        -> <hex of n bytes>    next n bytes of the concatenated binary messages from the broker,
//	                   | <hex|->+timeout | <hex|->+closed   if fewer arrive
package main

import (
	"context"
	"encoding/hex"
	"fmt"
	"net/http/httptest"
	"strings"
	"time"

	"verifharness/internal/drv"
	"verifharness/internal/memnet"

	"github.com/DrmagicE/gmqtt/config"
	_ "github.com/DrmagicE/gmqtt/persistence"
	"github.com/DrmagicE/gmqtt/server"
	_ "github.com/DrmagicE/gmqtt/topicalias/fifo"
	"github.com/gorilla/websocket"
	"go.uber.org/zap"
)

const wait = 1500 * time.Millisecond

type broker interface {
	server.Server
	Init(opts ...server.Options) error
	Run() error
}

type frame struct {
	data []byte
	text bool
	err  error
}

type echoDrv struct {
	srv    broker
	ts     *httptest.Server
	client *websocket.Conn
	in     chan frame
	left   []byte
	dead   bool
}

func (d *echoDrv) start() error {
	cfg := config.DefaultConfig()
	cfg.Listeners = nil
	cfg.API = config.API{}
	cfg.Log.Level = "error"
	d.srv = broker(server.New(server.WithConfig(cfg), server.WithTCPListener(memnet.Listen()), server.WithLogger(zap.NewNop())))
	if err := d.srv.Init(); err != nil {
		return err
	}
	go d.srv.Run()
	d.ts = httptest.NewServer(server.VerifWsHandler(d.srv))
	return nil
}

func unhex(s string) ([]byte, bool) {
	if s == "-" {
		return []byte{}, true
	}
	b, err := hex.DecodeString(s)
	return b, err == nil
}

func showHex(b []byte) string {
	if len(b) == 0 {
		return "-"
	}
	return hex.EncodeToString(b)
}

func (d *echoDrv) Step(line string) string {
	f := strings.Fields(line)
	if len(f) == 0 {
		return "bad-op"
	}
	switch {
	case f[0] == "new" && len(f) == 1:
		if d.client != nil {
			d.client.Close()
		}
		dialer := websocket.Dialer{Subprotocols: []string{"mqtt"}, HandshakeTimeout: 3 * time.Second}
		c, _, err := dialer.Dial("ws"+strings.TrimPrefix(d.ts.URL, "http")+"/", nil)
		if err != nil {
			d.client = nil
			return "err-dial"
		}
		d.client, d.left, d.dead = c, nil, false
		in := make(chan frame, 4096)
		d.in = in
		go func() {
			for {
				mt, data, err := c.ReadMessage()
				in <- frame{data: data, text: err == nil && mt != websocket.BinaryMessage, err: err}
				if err != nil {
					return
				}
			}
		}()
		return "ok"
	case d.client == nil:
		return "bad-op"
	case f[0] == "msg" && len(f) == 3:
		b, ok := unhex(f[2])
		if !ok {
			return "bad-op"
		}
		mt := websocket.BinaryMessage
		if f[1] == "t" {
			mt = websocket.TextMessage
		}
		_ = d.client.SetWriteDeadline(time.Now().Add(wait))
		if err := d.client.WriteMessage(mt, b); err != nil {
			return "ok" // the broker may already have closed; what matters is what recv observes
		}
		return "ok"
	case f[0] == "recv" && len(f) == 2:
		n := drv.Atoi(f[1])
		deadline := time.After(wait)
		for len(d.left) < n && !d.dead {
			select {
			case fr := <-d.in:
				if fr.err != nil {
					d.dead = true
				} else if fr.text {
					return "text-frame"
				} else {
					d.left = append(d.left, fr.data...)
				}
			case <-deadline:
				out := showHex(d.left) + "+timeout"
				d.left = nil
				return out
			}
		}
		if len(d.left) < n {
			out := showHex(d.left) + "+closed"
			d.left = nil
			return out
		}
		out := showHex(d.left[:n])
		d.left = d.left[n:]
		return out
	}
	return "bad-op"
}

func main() {
	d := &echoDrv{}
	if err := d.start(); err != nil {
		fmt.Println("CRASH", err)
		return
	}
	defer func() {
		ctx, cancel := context.WithTimeout(context.Background(), time.Second)
		defer cancel()
		_ = d.srv.Stop(ctx)
		d.ts.Close()
	}()
	drv.Main(d)
}
