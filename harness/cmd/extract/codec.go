package main

// Codec table facts (property C06, Model/Codec/PropTable.lean + Props.lean): what pkg/packets/properties.go and
// pkg/packets/packets.go say NOW about
//
//   - the packet-type and property-identifier constants,
//   - `ValidProperties` (property id -> packet types the server accepts it in),
//   - the `switch propType` of (*Properties).Unpack and (*Properties).UnpackWillProperties: for every case the reader
//     helper called, the field assigned, the field passed as the "already present" argument and the validator literal,
//     the two inline cases (Subscription Identifier, User Property) as normalised source text, the ValidateID guard in
//     front of the switch and the statements after the loop,
//   - the order of the property writes in (*Properties).Pack and (*Properties).PackWillProperties,
//   - the bodies of the propertyRead*/propertyWrite* helpers as normalised source text.
//
// Any statement of a shape not listed above is an error: the extractor refuses to guess.

import (
	"bytes"
	"fmt"
	"go/ast"
	"go/parser"
	"go/token"
	"path/filepath"
	"sort"
	"strconv"
	"strings"
)

func init() {
	register("Codec", "codec tables (pkg/packets/properties.go, pkg/packets/packets.go)", codecFacts)
}

type codecX struct {
	fset   *token.FileSet
	consts map[string]int
}

func (x *codecX) errf(n ast.Node, format string, a ...interface{}) error {
	return fmt.Errorf("%s: %s", x.fset.Position(n.Pos()), fmt.Sprintf(format, a...))
}

// constBlocks evaluates `const ( A T = 0x01 … )` and `const ( A = iota; B; … )` blocks of integer literals.
func (x *codecX) constBlocks(f *ast.File) map[string][]string {
	groups := map[string][]string{} // first name of the block -> names in order
	for _, d := range f.Decls {
		gd, ok := d.(*ast.GenDecl)
		if !ok || gd.Tok != token.CONST {
			continue
		}
		var names []string
		iotaMode := false
		for i, s := range gd.Specs {
			vs := s.(*ast.ValueSpec)
			for j, n := range vs.Names {
				switch {
				case len(vs.Values) > j:
					switch v := vs.Values[j].(type) {
					case *ast.BasicLit:
						if v.Kind == token.INT {
							k, err := strconv.ParseInt(v.Value, 0, 64)
							if err == nil {
								x.consts[n.Name] = int(k)
								names = append(names, n.Name)
							}
						}
						iotaMode = false
					case *ast.Ident:
						if v.Name == "iota" {
							x.consts[n.Name] = i
							names = append(names, n.Name)
							iotaMode = true
						}
					}
				case iotaMode && len(vs.Values) == 0:
					x.consts[n.Name] = i
					names = append(names, n.Name)
				}
			}
		}
		if len(names) > 0 {
			groups[names[0]] = names
		}
	}
	return groups
}

func (x *codecX) constVal(e ast.Expr) (int, error) {
	switch v := e.(type) {
	case *ast.Ident:
		if k, ok := x.consts[v.Name]; ok {
			return k, nil
		}
	case *ast.BasicLit:
		if v.Kind == token.INT {
			k, err := strconv.ParseInt(v.Value, 0, 64)
			return int(k), err
		}
	}
	return 0, x.errf(e, "not a known integer constant: %s", src(x.fset, e))
}

type unpackCase struct {
	id                       int
	reader, field, dup, vsrc string
	inline                   string
}

// readSwitch reads the `switch propType { … }` of an Unpack function.
func (x *codecX) readSwitch(sw *ast.SwitchStmt) ([]unpackCase, string, error) {
	var cases []unpackCase
	def := ""
	for _, c := range sw.Body.List {
		cc := c.(*ast.CaseClause)
		if cc.List == nil {
			def = stmtsSrc(x.fset, cc.Body)
			continue
		}
		if len(cc.List) != 1 {
			return nil, "", x.errf(cc, "case with %d expressions", len(cc.List))
		}
		id, err := x.constVal(cc.List[0])
		if err != nil {
			return nil, "", err
		}
		uc := unpackCase{id: id}
		// simple shape: p.F, err = propertyReadX(p.G, newBufr, propType[, validate])
		if len(cc.Body) == 1 {
			if as, ok := cc.Body[0].(*ast.AssignStmt); ok && as.Tok == token.ASSIGN && len(as.Lhs) == 2 && len(as.Rhs) == 1 && isIdent(as.Lhs[1], "err") {
				if call, ok := as.Rhs[0].(*ast.CallExpr); ok {
					fn := identName(call.Fun)
					lhs := selPath(as.Lhs[0])
					if strings.HasPrefix(fn, "propertyRead") && strings.HasPrefix(lhs, "p.") && len(call.Args) >= 3 &&
						isIdent(call.Args[1], "newBufr") && isIdent(call.Args[2], "propType") {
						uc.reader, uc.field, uc.dup = fn, strings.TrimPrefix(lhs, "p."), strings.TrimPrefix(selPath(call.Args[0]), "p.")
						switch {
						case len(call.Args) == 3:
							uc.vsrc = "none"
						case len(call.Args) == 4 && isIdent(call.Args[3], "nil"):
							uc.vsrc = "none"
						case len(call.Args) == 4:
							fl, ok := call.Args[3].(*ast.FuncLit)
							if !ok {
								return nil, "", x.errf(call.Args[3], "validator is not a function literal")
							}
							uc.vsrc = stmtsSrc(x.fset, fl.Body.List)
						default:
							return nil, "", x.errf(call, "unexpected argument count")
						}
						cases = append(cases, uc)
						continue
					}
				}
			}
		}
		uc.inline = stmtsSrc(x.fset, cc.Body)
		cases = append(cases, uc)
	}
	sort.SliceStable(cases, func(i, j int) bool { return cases[i].id < cases[j].id })
	for i := 1; i < len(cases); i++ {
		if cases[i].id == cases[i-1].id {
			return nil, "", x.errf(sw, "property 0x%02X has two cases", cases[i].id)
		}
	}
	return cases, def, nil
}

func stmtsSrc(fset *token.FileSet, l []ast.Stmt) string {
	var parts []string
	for _, s := range l {
		parts = append(parts, src(fset, s))
	}
	return strings.Join(parts, " ; ")
}

type packCall struct {
	id            int
	writer, field string
	inline        string
}

// readPack reads the property writes of a Pack function (everything after the `if p == nil { return }` guard).
func (x *codecX) readPack(fd *ast.FuncDecl) (prologue string, calls []packCall, err error) {
	seenGuard := false
	var pro []string
	for _, st := range fd.Body.List {
		if !seenGuard {
			s := src(x.fset, st)
			pro = append(pro, s)
			if s == "if p == nil { return }" {
				seenGuard = true
			}
			continue
		}
		switch v := st.(type) {
		case *ast.ExprStmt:
			call, ok := v.X.(*ast.CallExpr)
			if !ok || !strings.HasPrefix(identName(call.Fun), "propertyWrite") || len(call.Args) != 3 || !isIdent(call.Args[2], "newBufw") {
				return "", nil, x.errf(st, "unknown statement in %s: %s", fd.Name.Name, src(x.fset, st))
			}
			id, e := x.constVal(call.Args[0])
			if e != nil {
				return "", nil, e
			}
			calls = append(calls, packCall{id: id, writer: identName(call.Fun), field: strings.TrimPrefix(selPath(call.Args[1]), "p.")})
		case *ast.IfStmt:
			// if len(p.F) != 0 { for _, v := range p.F { newBufw.WriteByte(PropX) … } }
			s := src(x.fset, st)
			var id = -1
			ast.Inspect(v, func(n ast.Node) bool {
				if c, ok := n.(*ast.CallExpr); ok && selPath(c.Fun) == "newBufw.WriteByte" && len(c.Args) == 1 {
					if k, e := x.constVal(c.Args[0]); e == nil {
						id = k
					}
				}
				return true
			})
			if id < 0 {
				return "", nil, x.errf(st, "inline property write without newBufw.WriteByte(PropX): %s", s)
			}
			calls = append(calls, packCall{id: id, writer: "inline", inline: s})
		default:
			return "", nil, x.errf(st, "unknown statement in %s: %s", fd.Name.Name, src(x.fset, st))
		}
	}
	if !seenGuard {
		return "", nil, x.errf(fd, "%s: `if p == nil { return }` guard not found", fd.Name.Name)
	}
	return strings.Join(pro, " ; "), calls, nil
}

// readUnpack splits an Unpack function into prologue (before the loop), guard statements between ReadByte and the
// switch, the switch, and the statements after the loop.
func (x *codecX) readUnpack(fd *ast.FuncDecl) (pro, loopHead string, cases []unpackCase, def, tail string, err error) {
	var loop *ast.ForStmt
	var before, after []ast.Stmt
	for _, st := range fd.Body.List {
		if f, ok := st.(*ast.ForStmt); ok && loop == nil {
			loop = f
			continue
		}
		if loop == nil {
			before = append(before, st)
		} else {
			after = append(after, st)
		}
	}
	if loop == nil || loop.Init != nil || loop.Cond != nil || loop.Post != nil {
		return "", "", nil, "", "", x.errf(fd, "%s: `for { … }` loop not found", fd.Name.Name)
	}
	var head []ast.Stmt
	var sw *ast.SwitchStmt
	for i, st := range loop.Body.List {
		if s, ok := st.(*ast.SwitchStmt); ok {
			if i != len(loop.Body.List)-1 {
				return "", "", nil, "", "", x.errf(st, "statements after the switch inside the loop")
			}
			sw = s
			break
		}
		head = append(head, st)
	}
	if sw == nil || !isIdent(sw.Tag, "propType") || sw.Init != nil {
		return "", "", nil, "", "", x.errf(fd, "%s: `switch propType` not found as the last statement of the loop", fd.Name.Name)
	}
	cases, def, err = x.readSwitch(sw)
	return stmtsSrc(x.fset, before), stmtsSrc(x.fset, head), cases, def, stmtsSrc(x.fset, after), err
}

// fnv64 is the FNV-1a 64-bit fingerprint of a normalised source text (kernel-cheap stand-in for the text itself;
// the text is emitted next to it and compared as text by the oracle_codecfacts executable).
func fnv64(s string) uint64 {
	h := uint64(14695981039346656037)
	for i := 0; i < len(s); i++ {
		h ^= uint64(s[i])
		h *= 1099511628211
	}
	return h
}

var readerCode = map[string]int{"propertyReadBool": 1, "propertyReadUint16": 2, "propertyReadUint32": 3, "propertyReadUTF8String": 4, "propertyReadBinary": 5}
var writerCode = map[string]int{"inline": 0, "propertyWriteByte": 1, "propertyWriteUint16": 2, "propertyWriteUint32": 3, "propertyWriteString": 4}

func leanPairsNat(xs [][2]string) string { // [("A", 1), …]
	p := make([]string, len(xs))
	for i, e := range xs {
		p[i] = "(" + strconv.Quote(e[0]) + ", " + e[1] + ")"
	}
	return "[" + strings.Join(p, ", ") + "]"
}

func codecFacts(repo string, w *bytes.Buffer) error {
	x := &codecX{fset: token.NewFileSet(), consts: map[string]int{}}
	dir := filepath.Join(repo, "pkg", "packets")
	fp, err := parser.ParseFile(x.fset, filepath.Join(dir, "packets.go"), nil, 0)
	if err != nil {
		return err
	}
	fq, err := parser.ParseFile(x.fset, filepath.Join(dir, "properties.go"), nil, 0)
	if err != nil {
		return err
	}
	g1 := x.constBlocks(fp)
	g2 := x.constBlocks(fq)
	types, ok := g1["RESERVED"]
	if !ok || len(types) != 16 {
		return fmt.Errorf("packet-type const block (RESERVED = iota … AUTH) not found in packets.go")
	}
	props, ok := g2["PropPayloadFormat"]
	if !ok {
		return fmt.Errorf("property-id const block not found in properties.go")
	}
	var tp, pp [][2]string
	for _, n := range types {
		tp = append(tp, [2]string{n, strconv.Itoa(x.consts[n])})
	}
	for _, n := range props {
		pp = append(pp, [2]string{n, strconv.Itoa(x.consts[n])})
	}
	fmt.Fprintf(w, "/-- packet-type constants of pkg/packets/packets.go (name, value), declaration order -/\ndef codecPacketTypes : List (String × Nat) :=\n  %s\n\n", leanPairsNat(tp))
	fmt.Fprintf(w, "/-- property-identifier constants of pkg/packets/properties.go (name, value), declaration order -/\ndef codecPropIds : List (String × Nat) :=\n  %s\n\n", leanPairsNat(pp))
	for _, n := range []string{"Version31", "Version311", "Version5", "FlagReserved", "FlagSubscribe", "FlagUnsubscribe", "FlagPubrel", "MaxPacketID", "MinPacketID", "SubscribeFailure"} {
		if _, ok := x.consts[n]; !ok {
			return fmt.Errorf("constant %s not found in packets.go", n)
		}
	}
	var misc [][2]string
	for _, n := range []string{"Version31", "Version311", "Version5", "FlagReserved", "FlagSubscribe", "FlagUnsubscribe", "FlagPubrel", "MaxPacketID", "MinPacketID", "SubscribeFailure"} {
		misc = append(misc, [2]string{n, strconv.Itoa(x.consts[n])})
	}
	fmt.Fprintf(w, "/-- further constants of pkg/packets/packets.go the model uses -/\ndef codecMiscConsts : List (String × Nat) :=\n  %s\n\n", leanPairsNat(misc))

	// ValidProperties
	var vp *ast.CompositeLit
	funcs := map[string]*ast.FuncDecl{}
	for _, d := range fq.Decls {
		switch d := d.(type) {
		case *ast.GenDecl:
			for _, s := range d.Specs {
				if vs, ok := s.(*ast.ValueSpec); ok && len(vs.Names) == 1 && vs.Names[0].Name == "ValidProperties" && len(vs.Values) == 1 {
					vp, _ = vs.Values[0].(*ast.CompositeLit)
				}
			}
		case *ast.FuncDecl:
			name := d.Name.Name
			if d.Recv != nil {
				name = "Properties." + name
			}
			funcs[name] = d
		}
	}
	if vp == nil {
		return fmt.Errorf("var ValidProperties = map… literal not found")
	}
	var propFields []string
	for _, d := range fq.Decls {
		if gd, ok := d.(*ast.GenDecl); ok && gd.Tok == token.TYPE {
			for _, sp := range gd.Specs {
				if ts, ok := sp.(*ast.TypeSpec); ok && ts.Name.Name == "Properties" {
					if st, ok := ts.Type.(*ast.StructType); ok {
						propFields = structFields(st)
					}
				}
			}
		}
	}
	if len(propFields) == 0 {
		return fmt.Errorf("type Properties struct not found")
	}
	fieldIdx := func(name string) (int, error) {
		for i, f := range propFields {
			if f == name {
				return i, nil
			}
		}
		return 0, fmt.Errorf("%q is not a field of Properties", name)
	}
	defStrings(w, "fields of `type Properties struct`, declaration order (indices below refer to this list)", "codecPropFields", propFields)
	type row struct {
		id    int
		types []int
	}
	var rows []row
	for _, el := range vp.Elts {
		kv, ok := el.(*ast.KeyValueExpr)
		if !ok {
			return x.errf(el, "ValidProperties element is not key: value")
		}
		id, err := x.constVal(kv.Key)
		if err != nil {
			return err
		}
		inner, ok := kv.Value.(*ast.CompositeLit)
		if !ok {
			return x.errf(kv.Value, "ValidProperties value is not a literal")
		}
		r := row{id: id}
		for _, e2 := range inner.Elts {
			kv2, ok := e2.(*ast.KeyValueExpr)
			if !ok {
				return x.errf(e2, "ValidProperties inner element is not key: value")
			}
			t, err := x.constVal(kv2.Key)
			if err != nil {
				return err
			}
			r.types = append(r.types, t)
		}
		sort.Ints(r.types)
		rows = append(rows, r)
	}
	sort.SliceStable(rows, func(i, j int) bool { return rows[i].id < rows[j].id })
	for i := 1; i < len(rows); i++ {
		if rows[i].id == rows[i-1].id {
			return fmt.Errorf("ValidProperties: key 0x%02X twice", rows[i].id)
		}
	}
	var rs []string
	for _, r := range rows {
		ts := make([]string, len(r.types))
		for i, t := range r.types {
			ts[i] = strconv.Itoa(t)
		}
		rs = append(rs, fmt.Sprintf("(%d, [%s])", r.id, strings.Join(ts, ", ")))
	}
	fmt.Fprintf(w, "/-- `ValidProperties`: (property id, packet types sorted ascending), sorted by id -/\ndef codecValidProps : List (Nat × List Nat) :=\n  [%s]\n\n", strings.Join(rs, ",\n   "))
	for _, n := range []string{"ValidateID", "ValidateCode"} {
		fd := funcs[n]
		if fd == nil {
			return fmt.Errorf("func %s not found", n)
		}
		fmt.Fprintf(w, "/-- body of `%s` -/\ndef codec%sSrc : String :=\n  %s\n\n", n, n, strconv.Quote(stmtsSrc(x.fset, fd.Body.List)))
	}

	emitUnpack := func(goName, leanName string) error {
		fd := funcs[goName]
		if fd == nil {
			return fmt.Errorf("func (p *Properties) %s not found", goName)
		}
		pro, head, cases, def, tail, err := x.readUnpack(fd)
		if err != nil {
			return err
		}
		var simple, inl []string
		for _, c := range cases {
			if c.inline != "" {
				inl = append(inl, fmt.Sprintf("(%d, %s)", c.id, strconv.Quote(c.inline)))
			} else {
				simple = append(simple, fmt.Sprintf("(%d, %s, %s, %s, %s)", c.id, strconv.Quote(c.reader), strconv.Quote(c.field), strconv.Quote(c.dup), strconv.Quote(c.vsrc)))
			}
		}
		var kinds, flds, vals, inlh []string
		for _, c := range cases {
			if c.inline != "" {
				kinds = append(kinds, fmt.Sprintf("(%d, 0)", c.id))
				inlh = append(inlh, fmt.Sprintf("(%d, %d)", c.id, fnv64(c.inline)))
				continue
			}
			rc, ok := readerCode[c.reader]
			if !ok {
				return fmt.Errorf("%s: unknown reader %s for property %d", goName, c.reader, c.id)
			}
			fi, err := fieldIdx(c.field)
			if err != nil {
				return err
			}
			di, err := fieldIdx(c.dup)
			if err != nil {
				return err
			}
			kinds = append(kinds, fmt.Sprintf("(%d, %d)", c.id, rc))
			flds = append(flds, fmt.Sprintf("(%d, %d, %d)", c.id, fi, di))
			if c.vsrc != "none" {
				vals = append(vals, fmt.Sprintf("(%d, %d)", c.id, fnv64(c.vsrc)))
			}
		}
		fmt.Fprintf(w, "/-- `%s`: (id, reader code) sorted by id; 1 propertyReadBool, 2 …Uint16, 3 …Uint32, 4 …UTF8String, 5 …Binary, 0 = a case of another shape (see %sInlineH) -/\ndef %sKinds : List (Nat × Nat) :=\n  [%s]\n\n", goName, leanName, leanName, strings.Join(kinds, ", "))
		fmt.Fprintf(w, "/-- `%s`: simple cases: (id, index of the field assigned, index of the field tested for a duplicate) -/\ndef %sFields : List (Nat × Nat × Nat) :=\n  [%s]\n\n", goName, leanName, strings.Join(flds, ", "))
		fmt.Fprintf(w, "/-- `%s`: (id, FNV-1a-64 of the validator closure body) for the cases that pass one -/\ndef %sValidatorsH : List (Nat × Nat) :=\n  [%s]\n\n", goName, leanName, strings.Join(vals, ", "))
		fmt.Fprintf(w, "/-- `%s`: (id, FNV-1a-64 of the normalised case body) for the cases of another shape -/\ndef %sInlineH : List (Nat × Nat) :=\n  [%s]\n\n", goName, leanName, strings.Join(inlh, ", "))
		fmt.Fprintf(w, "/-- `%s`: FNV-1a-64 of prologue, loop head, default case, tail -/\ndef %sShapeH : List Nat :=\n  [%d, %d, %d, %d]\n\n", goName, leanName, fnv64(pro), fnv64(head), fnv64(def), fnv64(tail))
		fmt.Fprintf(w, "/-- `%s`: statements before the loop -/\ndef %sPrologue : String :=\n  %s\n\n", goName, leanName, strconv.Quote(pro))
		fmt.Fprintf(w, "/-- `%s`: statements of the loop body in front of `switch propType` -/\ndef %sLoopHead : String :=\n  %s\n\n", goName, leanName, strconv.Quote(head))
		fmt.Fprintf(w, "/-- `%s`: cases of the shape `p.F, err = propertyReadX(p.G, newBufr, propType[, validator])`:\n    (id, reader, F, G, validator body or \"none\"), sorted by id -/\ndef %sCases : List (Nat × String × String × String × String) :=\n  [%s]\n\n", goName, leanName, strings.Join(simple, ",\n   "))
		fmt.Fprintf(w, "/-- `%s`: cases of any other shape, as normalised source text -/\ndef %sInline : List (Nat × String) :=\n  [%s]\n\n", goName, leanName, strings.Join(inl, ",\n   "))
		fmt.Fprintf(w, "/-- `%s`: the `default:` case -/\ndef %sDefault : String :=\n  %s\n\n", goName, leanName, strconv.Quote(def))
		fmt.Fprintf(w, "/-- `%s`: statements after the loop -/\ndef %sTail : String :=\n  %s\n\n", goName, leanName, strconv.Quote(tail))
		return nil
	}
	if err := emitUnpack("Properties.Unpack", "codecUnpack"); err != nil {
		return err
	}
	if err := emitUnpack("Properties.UnpackWillProperties", "codecWillUnpack"); err != nil {
		return err
	}
	emitPack := func(goName, leanName string) error {
		fd := funcs[goName]
		if fd == nil {
			return fmt.Errorf("func (p *Properties) %s not found", goName)
		}
		pro, calls, err := x.readPack(fd)
		if err != nil {
			return err
		}
		var cs, inl []string
		for _, c := range calls {
			cs = append(cs, fmt.Sprintf("(%d, %s, %s)", c.id, strconv.Quote(c.writer), strconv.Quote(c.field)))
			if c.inline != "" {
				inl = append(inl, fmt.Sprintf("(%d, %s)", c.id, strconv.Quote(c.inline)))
			}
		}
		var cn, ih []string
		for _, c := range calls {
			fi := 0
			if c.inline == "" {
				var err error
				if fi, err = fieldIdx(c.field); err != nil {
					return err
				}
			} else {
				ih = append(ih, fmt.Sprintf("(%d, %d)", c.id, fnv64(c.inline)))
			}
			cn = append(cn, fmt.Sprintf("(%d, %d, %d)", c.id, writerCode[c.writer], fi))
		}
		fmt.Fprintf(w, "/-- `%s`: the property writes in source order: (id, writer code, field index); writer 1 propertyWriteByte, 2 …Uint16, 3 …Uint32, 4 …String, 0 inline loop (field index 0, see %sInlineH) -/\ndef %sCallsN : List (Nat × Nat × Nat) :=\n  [%s]\n\n", goName, leanName, leanName, strings.Join(cn, ", "))
		fmt.Fprintf(w, "/-- `%s`: (id, FNV-1a-64 of the normalised inline write) -/\ndef %sInlineH : List (Nat × Nat) :=\n  [%s]\n\n", goName, leanName, strings.Join(ih, ", "))
		fmt.Fprintf(w, "/-- `%s`: FNV-1a-64 of the statements up to and including the nil guard -/\ndef %sPrologueH : Nat := %d\n\n", goName, leanName, fnv64(pro))
		fmt.Fprintf(w, "/-- `%s`: statements up to and including the nil guard -/\ndef %sPrologue : String :=\n  %s\n\n", goName, leanName, strconv.Quote(pro))
		fmt.Fprintf(w, "/-- `%s`: the property writes in source order: (id, writer or \"inline\", field) -/\ndef %sCalls : List (Nat × String × String) :=\n  [%s]\n\n", goName, leanName, strings.Join(cs, ",\n   "))
		fmt.Fprintf(w, "/-- `%s`: the inline writes as normalised source text -/\ndef %sInline : List (Nat × String) :=\n  [%s]\n\n", goName, leanName, strings.Join(inl, ",\n   "))
		return nil
	}
	if err := emitPack("Properties.Pack", "codecPack"); err != nil {
		return err
	}
	if err := emitPack("Properties.PackWillProperties", "codecWillPack"); err != nil {
		return err
	}
	var hs []string
	for _, n := range []string{"propertyReadBool", "propertyReadUint32", "propertyReadUint16", "propertyReadUTF8String", "propertyReadBinary",
		"propertyWriteByte", "propertyWriteUint16", "propertyWriteUint32", "propertyWriteString"} {
		fd := funcs[n]
		if fd == nil {
			return fmt.Errorf("helper %s not found", n)
		}
		hs = append(hs, fmt.Sprintf("(%s, %s)", strconv.Quote(n), strconv.Quote(stmtsSrc(x.fset, fd.Body.List))))
	}
	var hh []string
	for _, n := range []string{"propertyReadBool", "propertyReadUint32", "propertyReadUint16", "propertyReadUTF8String", "propertyReadBinary",
		"propertyWriteByte", "propertyWriteUint16", "propertyWriteUint32", "propertyWriteString", "ValidateID"} {
		hh = append(hh, strconv.FormatUint(fnv64(stmtsSrc(x.fset, funcs[n].Body.List)), 10))
	}
	fmt.Fprintf(w, "/-- FNV-1a-64 of the helper bodies (order of codecHelpers), then of `ValidateID` -/\ndef codecHelpersH : List Nat :=\n  [%s]\n\n", strings.Join(hh, ", "))
	fmt.Fprintf(w, "/-- bodies of the property read/write helpers as normalised source text -/\ndef codecHelpers : List (String × String) :=\n  [%s]\n\n", strings.Join(hs, ",\n   "))
	return nil
}
