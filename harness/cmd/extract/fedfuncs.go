package main

// Fingerprints of the functions of plugin/federation that the federation models transcribe statement by statement
// (properties C16 / C17): `Model/Fed/EventQueue.lean` (eventQueue), `Model/Fed/PeerSession.lean` (sessionMgr.add, lruCache.set,
// Hello's resume decision, eventStreamHandler), `Model/Fed/LocalSubs.lean` (localSubStore + the subscription hooks),
// `Model/Fed/Route.lean` (sendMessage, sendSharedMsg, OnMsgArrivedWrapper, OnWillPublishWrapper).
//
// Unlike the other sections this one does not abstract: it says "the body of F is still the text the model was written
// from" (FNV-1a-64 of the normalised body). The protocol's safety rests on orderings inside these few functions that
// no sequential run can observe — e.g. that an event id is recorded as seen in the same step that tests it, BEFORE the
// event is applied — so a change to any of them is reported as a broken tie and the model has to be re-read against it.

import (
	"bytes"
	"fmt"
	"go/ast"
	"go/parser"
	"go/token"
	"path/filepath"
	"strings"
)

func init() {
	register("FedFuncs", "bodies of the federation functions the Fed models transcribe (plugin/federation)", fedFuncFacts)
}

var fedFuncList = []struct{ file, name string }{
	{"peer.go", "eventQueue.clear"}, {"peer.go", "eventQueue.setReadPosition"}, {"peer.go", "eventQueue.add"},
	{"peer.go", "eventQueue.fetchEvents"}, {"peer.go", "eventQueue.ack"},
	{"federation.go", "sessionMgr.add"}, {"federation.go", "lruCache.set"}, {"federation.go", "Federation.Hello"},
	{"federation.go", "Federation.eventStreamHandler"},
	{"federation.go", "localSubStore.subscribeLocked"}, {"federation.go", "localSubStore.decTopicCounterLocked"},
	{"federation.go", "localSubStore.unsubscribe"}, {"federation.go", "localSubStore.unsubscribeAll"},
	{"hooks.go", "Federation.OnSubscribedWrapper"}, {"hooks.go", "Federation.OnUnsubscribedWrapper"},
	{"hooks.go", "Federation.OnSessionTerminatedWrapper"}, {"hooks.go", "sendSharedMsg"}, {"hooks.go", "Federation.sendMessage"},
	{"hooks.go", "Federation.OnMsgArrivedWrapper"}, {"hooks.go", "Federation.OnWillPublishWrapper"},
}

func fedFuncFacts(repo string, w *bytes.Buffer) error {
	fset := token.NewFileSet()
	files := map[string]*ast.File{}
	var names, hs []string
	for _, e := range fedFuncList {
		f := files[e.file]
		if f == nil {
			var err error
			f, err = parser.ParseFile(fset, filepath.Join(repo, "plugin", "federation", e.file), nil, 0)
			if err != nil {
				return err
			}
			files[e.file] = f
		}
		var found *ast.FuncDecl
		for _, d := range f.Decls {
			fd, ok := d.(*ast.FuncDecl)
			if !ok || fd.Body == nil {
				continue
			}
			n := fd.Name.Name
			if fd.Recv != nil && len(fd.Recv.List) == 1 {
				t := fd.Recv.List[0].Type
				if st, ok := t.(*ast.StarExpr); ok {
					t = st.X
				}
				n = identName(t) + "." + n
			}
			if n == e.name {
				found = fd
			}
		}
		if found == nil {
			return fmt.Errorf("plugin/federation/%s: function %s not found", e.file, e.name)
		}
		names = append(names, e.name)
		hs = append(hs, fmt.Sprint(fnv64(stmtsSrc(fset, found.Body.List))))
	}
	defStrings(w, "the transcribed functions, in the order of `fedFuncsH`", "fedFuncNames", names)
	fmt.Fprintf(w, "/-- FNV-1a-64 of the normalised body of each function -/\ndef fedFuncsH : List Nat :=\n  [%s]\n\n", strings.Join(hs, ", "))
	return nil
}
