package main

// Fingerprints of the functions of plugin/federation that the federation models transcribe statement by statement
// (properties C16 / C17): `Model/Fed/EventQueue.lean` (eventQueue), `Model/Fed/PeerSession.lean` (sessionMgr.add, lruCache.set,
// Hello's resume decision, eventStreamHandler), `Model/Fed/LocalSubs.lean` (localSubStore + the subscription hooks),
// `Model/Fed/Route.lean` (sendMessage, sendSharedMsg, OnMsgArrivedWrapper, OnWillPublishWrapper).
//
// Unlike the other sections this one does not abstract: it says "the body of F is still the text the model was written
// from" (FNV-1a-64 of the normalised body). The protocol's safety rests on orderings inside these few functions that
// no sequential run can observe — e.g. that an event id is recorded as seen in the same step that tests it, BEFORE the
// event is applied — so a change to any of them is reported as a broken tie and the model has to be re-read against it.

import (
	"bytes"
	"fmt"
	"go/ast"
	"go/parser"
	"go/token"
	"path/filepath"
	"strings"
)

func init() {
	register("FedFuncs", "bodies of the federation functions the Fed models transcribe (plugin/federation)", fedFuncFacts)
}

var fedFuncList = []struct{ file, name string }{
	{"peer.go", "eventQueue.clear"}, {"peer.go", "eventQueue.setReadPosition"}, {"peer.go", "eventQueue.add"},
	{"peer.go", "eventQueue.fetchEvents"}, {"peer.go", "eventQueue.ack"},
	{"federation.go", "sessionMgr.add"}, {"federation.go", "lruCache.set"}, {"federation.go", "Federation.Hello"},
	{"federation.go", "Federation.eventStreamHandler"},
	{"federation.go", "localSubStore.subscribeLocked"}, {"federation.go", "localSubStore.decTopicCounterLocked"},
	{"federation.go", "localSubStore.unsubscribe"}, {"federation.go", "localSubStore.unsubscribeAll"},
	{"hooks.go", "Federation.OnSubscribedWrapper"}, {"hooks.go", "Federation.OnUnsubscribedWrapper"},
	{"hooks.go", "Federation.OnSessionTerminatedWrapper"}, {"hooks.go", "sendSharedMsg"}, {"hooks.go", "Federation.sendMessage"},
	{"hooks.go", "Federation.OnMsgArrivedWrapper"}, {"hooks.go", "Federation.OnWillPublishWrapper"},
	{"peer.go", "peer.initStream"},
}

func fedFuncFacts(repo string, w *bytes.Buffer) error {
	names, hs, err := funcHashes(repo, filepath.Join("plugin", "federation"), fedFuncList)
	if err != nil {
		return err
	}
	defStrings(w, "the transcribed functions, in the order of `fedFuncsH`", "fedFuncNames", names)
	fmt.Fprintf(w, "/-- FNV-1a-64 of the normalised body of each function -/\ndef fedFuncsH : List Nat :=\n  [%s]\n\n", strings.Join(hs, ", "))
	return nil
}

// funcHashes fingerprints the bodies of the listed functions ("Recv.name" or "name"; "type T" = the declaration of type T).
func funcHashes(repo, dir string, list []struct{ file, name string }) (names, hs []string, err error) {
	fset := token.NewFileSet()
	files := map[string]*ast.File{}
	for _, e := range list {
		f := files[e.file]
		if f == nil {
			f, err = parser.ParseFile(fset, filepath.Join(repo, dir, e.file), nil, 0)
			if err != nil {
				return nil, nil, err
			}
			files[e.file] = f
		}
		text, ok := "", false
		for _, d := range f.Decls {
			switch d := d.(type) {
			case *ast.FuncDecl:
				if d.Body == nil {
					continue
				}
				n := d.Name.Name
				if d.Recv != nil && len(d.Recv.List) == 1 {
					t := d.Recv.List[0].Type
					if st, isStar := t.(*ast.StarExpr); isStar {
						t = st.X
					}
					n = identName(t) + "." + n
				}
				if n == e.name {
					text, ok = stmtsSrc(fset, d.Body.List), true
				}
			case *ast.GenDecl:
				if d.Tok == token.TYPE {
					for _, sp := range d.Specs {
						if ts := sp.(*ast.TypeSpec); "type "+ts.Name.Name == e.name {
							text, ok = src(fset, ts.Type), true
						}
					}
				}
			}
		}
		if !ok {
			return nil, nil, fmt.Errorf("%s/%s: %s not found", dir, e.file, e.name)
		}
		names = append(names, e.name)
		hs = append(hs, fmt.Sprint(fnv64(text)))
	}
	return names, hs, nil
}

// WebSocket adapter (property C18, Model/WsConn.lean): the type and its three methods, and the handler that builds one
// value per upgraded connection. The model is per connection: no state is shared between connections.
var wsFuncList = []struct{ file, name string }{
	{"server.go", "type wsConn"}, {"server.go", "wsConn.Close"}, {"server.go", "wsConn.Read"}, {"server.go", "wsConn.Write"},
	{"server.go", "server.wsHandler"},
}

func init() {
	register("WsFuncs", "bodies of the WebSocket adapter functions Model/WsConn.lean transcribes (server/server.go)", func(repo string, w *bytes.Buffer) error {
		names, hs, err := funcHashes(repo, "server", wsFuncList)
		if err != nil {
			return err
		}
		defStrings(w, "the transcribed declarations, in the order of `wsFuncsH`", "wsFuncNames", names)
		fmt.Fprintf(w, "/-- FNV-1a-64 of the normalised text of each -/\ndef wsFuncsH : List Nat :=\n  [%s]\n\n", strings.Join(hs, ", "))
		return nil
	})
}
