package main

// Order of the clean-start resynchronisation in (*peer).initStream (plugin/federation/peer.go; properties C16 / C17,
// Model/ResyncRace.lean): the statements of the `if cleanStart { … }` blocks, in source order, as codes
//
//	1  p.queue.clear()
//	2  ….localSubStore.Lock()
//	3  for … := range ….localSubStore.topics { … p.queue.add(…) … }     (a Subscribe is queued for every local topic)
//	4  ….localSubStore.Unlock()
//	5  ….retainedStore.Iterate(…)
//	6  p.queue.setReadPosition(…)
//	9  any other statement that contains a call (atomic.Store… excepted) — not understood
//
// Plain assignments without a call (p.synced = true) are skipped.

import (
	"bytes"
	"fmt"
	"go/ast"
	"go/parser"
	"go/token"
	"path/filepath"
	"strings"
)

func init() {
	register("FedResync", "order of the clean-start resynchronisation in (*peer).initStream (plugin/federation)", fedResyncFacts)
}

func fedResyncFacts(repo string, w *bytes.Buffer) error {
	fset := token.NewFileSet()
	f, err := parser.ParseFile(fset, filepath.Join(repo, "plugin", "federation", "peer.go"), nil, 0)
	if err != nil {
		return err
	}
	var fn *ast.FuncDecl
	for _, d := range f.Decls {
		if fd, ok := d.(*ast.FuncDecl); ok && fd.Name.Name == "initStream" && fd.Body != nil {
			fn = fd
		}
	}
	if fn == nil {
		return fmt.Errorf("(*peer).initStream not found")
	}
	hasCall := func(n ast.Node, suffix string) bool {
		found := false
		ast.Inspect(n, func(x ast.Node) bool {
			if c, ok := x.(*ast.CallExpr); ok {
				p := selPath(c.Fun)
				if suffix == "" {
					if !strings.HasPrefix(p, "atomic.") {
						found = true
					}
				} else if strings.HasSuffix(p, suffix) {
					found = true
				}
			}
			return true
		})
		return found
	}
	var codes, descr []string
	add := func(c int, s ast.Stmt) {
		codes = append(codes, fmt.Sprint(c))
		descr = append(descr, fmt.Sprintf("%d @ line %d", c, fset.Position(s.Pos()).Line))
	}
	classify := func(s ast.Stmt) {
		switch v := s.(type) {
		case *ast.ExprStmt:
			if c, ok := v.X.(*ast.CallExpr); ok {
				p := selPath(c.Fun)
				switch {
				case p == "p.queue.clear":
					add(1, s)
				case strings.HasSuffix(p, ".localSubStore.Lock"):
					add(2, s)
				case strings.HasSuffix(p, ".localSubStore.Unlock"):
					add(4, s)
				case strings.HasSuffix(p, ".retainedStore.Iterate"):
					add(5, s)
				case p == "p.queue.setReadPosition":
					add(6, s)
				case strings.HasPrefix(p, "atomic."):
				default:
					add(9, s)
				}
				return
			}
		case *ast.RangeStmt:
			if strings.HasSuffix(selPath(v.X), ".localSubStore.topics") && hasCall(v.Body, "p.queue.add") {
				add(3, s)
				return
			}
		}
		if hasCall(s, "") {
			add(9, s)
		}
	}
	n := 0
	ast.Inspect(fn.Body, func(x ast.Node) bool {
		if is, ok := x.(*ast.IfStmt); ok && isIdent(is.Cond, "cleanStart") {
			n++
			for _, s := range is.Body.List {
				classify(s)
			}
			return false
		}
		return true
	})
	if n == 0 {
		return fmt.Errorf("initStream: no `if cleanStart { … }` block found")
	}
	defStrings(w, "statements of the `if cleanStart` blocks of initStream: code @ source line", "resyncOrder", descr)
	fmt.Fprintf(w, "/-- the codes alone: 1 queue.clear, 2 localSubStore.Lock, 3 queue a Subscribe per local topic, 4 localSubStore.Unlock, 5 retainedStore.Iterate, 6 setReadPosition, 9 not understood -/\ndef resyncOrderN : List Nat :=\n  [%s]\n\n", strings.Join(codes, ", "))
	return nil
}
