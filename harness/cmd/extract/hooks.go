package main

// Hook facts (property C14): the fields of server.HookWrapper and server.Hooks, and what
// (*server).initPluginHooks does with every wrapper kind — which kinds it COLLECTS from the plugins
//
//	if hooks.XWrapper != nil { xWrappers = append(xWrappers, hooks.XWrapper) }
//
// and which kinds it APPLIES (folds over the base hook and installs into srv.hooks)
//
//	if xWrappers != nil {
//		h := srv.hooks.X
//		if h == nil { h = func(...) {...} }
//		for i := len(xWrappers); i > 0; i-- { h = xWrappers[i-1](h) }
//		srv.hooks.X = h
//	}
//
// Any statement of another shape in these two places is an error: the extractor refuses to guess.

import (
	"bytes"
	"fmt"
	"go/ast"
	"go/parser"
	"go/token"
	"os"
	"path/filepath"
	"strings"
)

func init() {
	register("Hooks", "hooks (server/plugin.go, server/hook.go, server/server.go initPluginHooks)", hookFacts)
}

type hookExtractor struct {
	fset *token.FileSet
}

func (x *hookExtractor) errf(n ast.Node, format string, a ...interface{}) error {
	return fmt.Errorf("%s: %s", x.fset.Position(n.Pos()), fmt.Sprintf(format, a...))
}

func isIdent(e ast.Expr, name string) bool {
	id, ok := e.(*ast.Ident)
	return ok && id.Name == name
}

func identName(e ast.Expr) string {
	if id, ok := e.(*ast.Ident); ok {
		return id.Name
	}
	return ""
}

// selPath renders a.b.c selector chains ("" if the expression is anything else).
func selPath(e ast.Expr) string {
	switch v := e.(type) {
	case *ast.Ident:
		return v.Name
	case *ast.SelectorExpr:
		p := selPath(v.X)
		if p == "" {
			return ""
		}
		return p + "." + v.Sel.Name
	}
	return ""
}

// `a != nil` -> a
func neNil(e ast.Expr) ast.Expr {
	b, ok := e.(*ast.BinaryExpr)
	if !ok || b.Op != token.NEQ || !isIdent(b.Y, "nil") {
		return nil
	}
	return b.X
}

func structFields(st *ast.StructType) []string {
	var names []string
	for _, f := range st.Fields.List {
		if len(f.Names) == 0 { // embedded
			switch t := f.Type.(type) {
			case *ast.Ident:
				names = append(names, t.Name)
			case *ast.StarExpr:
				names = append(names, identName(t.X))
			case *ast.SelectorExpr:
				names = append(names, t.Sel.Name)
			}
			continue
		}
		for _, n := range f.Names {
			names = append(names, n.Name)
		}
	}
	return names
}

func hookFacts(repo string, w *bytes.Buffer) error {
	x := &hookExtractor{fset: token.NewFileSet()}
	dir := filepath.Join(repo, "server")
	pkgs, err := parser.ParseDir(x.fset, dir, func(fi os.FileInfo) bool {
		return !strings.HasSuffix(fi.Name(), "_test.go") && !strings.HasSuffix(fi.Name(), "_mock.go")
	}, parser.SkipObjectResolution)
	if err != nil {
		return err
	}
	pkg := pkgs["server"]
	if pkg == nil {
		return fmt.Errorf("package server not found in %s", dir)
	}
	var wrapperFields, hooksFields []string
	var fn *ast.FuncDecl
	seen := map[string]int{}
	for _, f := range pkg.Files {
		for _, d := range f.Decls {
			switch d := d.(type) {
			case *ast.GenDecl:
				for _, s := range d.Specs {
					ts, ok := s.(*ast.TypeSpec)
					if !ok {
						continue
					}
					st, ok := ts.Type.(*ast.StructType)
					if !ok {
						continue
					}
					switch ts.Name.Name {
					case "HookWrapper":
						wrapperFields = structFields(st)
						seen["HookWrapper"]++
					case "Hooks":
						hooksFields = structFields(st)
						seen["Hooks"]++
					}
				}
			case *ast.FuncDecl:
				if d.Name.Name == "initPluginHooks" && d.Recv != nil {
					fn = d
					seen["initPluginHooks"]++
				}
			}
		}
	}
	for _, n := range []string{"HookWrapper", "Hooks", "initPluginHooks"} {
		if seen[n] != 1 {
			return fmt.Errorf("expected exactly one declaration of %s in package server, found %d", n, seen[n])
		}
	}
	if len(wrapperFields) == 0 || len(hooksFields) == 0 {
		return fmt.Errorf("HookWrapper or Hooks has no fields")
	}
	recv := ""
	if len(fn.Recv.List) == 1 && len(fn.Recv.List[0].Names) == 1 {
		recv = fn.Recv.List[0].Names[0].Name
	}
	if recv == "" {
		return x.errf(fn, "initPluginHooks: unnamed receiver")
	}

	var (
		collected    []string              // wrapper kinds, in source order
		varOf        = map[string]string{} // slice variable -> kind
		applied      []string              // wrapper kinds whose slice is folded and installed
		appliedReads []string              // K in `h := srv.hooks.K`
		appliedSets  []string              // K in `srv.hooks.K = h`
		outerFirst   []string              // applied kinds whose fold runs from the last wrapper to the first
		orderFacts   []string
		collectLoops int
	)

	for _, st := range fn.Body.List {
		switch s := st.(type) {
		case *ast.RangeStmt:
			switch selPath(s.X) {
			case recv + ".config.PluginOrder":
				// for _, v := range srv.config.PluginOrder { plg, err := plugins[v](srv.config); …; srv.plugins = append(srv.plugins, plg) }
				ok := false
				for _, b := range s.Body.List {
					if as, isAs := b.(*ast.AssignStmt); isAs && len(as.Lhs) == 1 && len(as.Rhs) == 1 && selPath(as.Lhs[0]) == recv+".plugins" {
						if c, isCall := as.Rhs[0].(*ast.CallExpr); isCall && isIdent(c.Fun, "append") && len(c.Args) == 2 && selPath(c.Args[0]) == recv+".plugins" {
							ok = true
						}
					}
				}
				if !ok {
					return x.errf(s, "loop over PluginOrder does not append to %s.plugins", recv)
				}
				orderFacts = append(orderFacts, "plugins-appended-in-plugin_order")
			case recv + ".plugins":
				collectLoops++
				if s.Tok != token.DEFINE || s.Value == nil {
					return x.errf(s, "collect loop: expected `for _, p := range %s.plugins`", recv)
				}
				pv := identName(s.Value)
				hooksVar := ""
				for i, b := range s.Body.List {
					if i == 0 {
						as, ok := b.(*ast.AssignStmt)
						if !ok || len(as.Lhs) != 1 || len(as.Rhs) != 1 {
							return x.errf(b, "collect loop: expected `hooks := %s.HookWrapper()` first", pv)
						}
						c, ok := as.Rhs[0].(*ast.CallExpr)
						if !ok || selPath(c.Fun) != pv+".HookWrapper" {
							return x.errf(b, "collect loop: expected `hooks := %s.HookWrapper()` first", pv)
						}
						hooksVar = identName(as.Lhs[0])
						continue
					}
					is, ok := b.(*ast.IfStmt)
					if !ok || is.Init != nil || is.Else != nil || len(is.Body.List) != 1 {
						return x.errf(b, "collect loop: statement is not `if %s.X != nil { v = append(v, %s.X) }`", hooksVar, hooksVar)
					}
					sel, ok := neNil(is.Cond).(*ast.SelectorExpr)
					if !ok || !isIdent(sel.X, hooksVar) {
						return x.errf(is, "collect loop: condition is not `%s.X != nil`", hooksVar)
					}
					kind := sel.Sel.Name
					as, ok := is.Body.List[0].(*ast.AssignStmt)
					if !ok || as.Tok != token.ASSIGN || len(as.Lhs) != 1 || len(as.Rhs) != 1 {
						return x.errf(is, "collect %s: body is not `v = append(v, %s.%s)`", kind, hooksVar, kind)
					}
					v := identName(as.Lhs[0])
					c, ok := as.Rhs[0].(*ast.CallExpr)
					if v == "" || !ok || !isIdent(c.Fun, "append") || len(c.Args) != 2 || !isIdent(c.Args[0], v) || selPath(c.Args[1]) != hooksVar+"."+kind {
						return x.errf(is, "collect %s: body is not `v = append(v, %s.%s)`", kind, hooksVar, kind)
					}
					if prev, dup := varOf[v]; dup {
						return x.errf(is, "collect %s: slice %s already collects %s", kind, v, prev)
					}
					varOf[v] = kind
					collected = append(collected, kind)
				}
				orderFacts = append(orderFacts, "wrappers-collected-by-forward-range-over-plugins")
			default:
				return x.errf(s, "initPluginHooks: unexpected range loop over %q", selPath(s.X))
			}
		case *ast.IfStmt:
			v := identName(neNil(s.Cond))
			if v == "" || s.Init != nil || s.Else != nil {
				return x.errf(s, "initPluginHooks: top-level `if` is not `if xWrappers != nil { … }`")
			}
			kind, ok := varOf[v]
			if !ok {
				return x.errf(s, "apply block tests %s, which is not a slice filled by the collect loop", v)
			}
			body := s.Body.List
			if len(body) < 3 {
				return x.errf(s, "apply %s: block too short", kind)
			}
			// h := srv.hooks.K
			first, ok := body[0].(*ast.AssignStmt)
			if !ok || first.Tok != token.DEFINE || len(first.Lhs) != 1 || len(first.Rhs) != 1 {
				return x.errf(body[0], "apply %s: expected `h := %s.hooks.K`", kind, recv)
			}
			h := identName(first.Lhs[0])
			rd := selPath(first.Rhs[0])
			if h == "" || !strings.HasPrefix(rd, recv+".hooks.") {
				return x.errf(body[0], "apply %s: expected `h := %s.hooks.K`", kind, recv)
			}
			// srv.hooks.K = h
			last, ok := body[len(body)-1].(*ast.AssignStmt)
			if !ok || last.Tok != token.ASSIGN || len(last.Lhs) != 1 || len(last.Rhs) != 1 || !isIdent(last.Rhs[0], h) ||
				!strings.HasPrefix(selPath(last.Lhs[0]), recv+".hooks.") {
				return x.errf(body[len(body)-1], "apply %s: expected `%s.hooks.K = %s` last", kind, recv, h)
			}
			// in between: optional default `if h == nil { h = func… }`, then exactly one fold loop
			folds, reverse := 0, false
			for _, b := range body[1 : len(body)-1] {
				switch m := b.(type) {
				case *ast.IfStmt:
					be, ok := m.Cond.(*ast.BinaryExpr)
					if !ok || be.Op != token.EQL || !isIdent(be.X, h) || !isIdent(be.Y, "nil") || m.Else != nil || len(m.Body.List) != 1 {
						return x.errf(m, "apply %s: expected `if %s == nil { %s = func… }`", kind, h, h)
					}
					as, ok := m.Body.List[0].(*ast.AssignStmt)
					if !ok || len(as.Lhs) != 1 || !isIdent(as.Lhs[0], h) {
						return x.errf(m, "apply %s: default branch does not assign %s", kind, h)
					}
					if _, isFn := as.Rhs[0].(*ast.FuncLit); !isFn {
						return x.errf(m, "apply %s: default is not a function literal", kind)
					}
				case *ast.ForStmt:
					folds++
					rev, err := x.foldDirection(m, v, h, kind)
					if err != nil {
						return err
					}
					reverse = rev
				default:
					return x.errf(b, "apply %s: unexpected statement in the block", kind)
				}
			}
			if folds != 1 {
				return x.errf(s, "apply %s: expected exactly one fold loop, found %d", kind, folds)
			}
			applied = append(applied, kind)
			appliedReads = append(appliedReads, strings.TrimPrefix(rd, recv+".hooks."))
			appliedSets = append(appliedSets, strings.TrimPrefix(selPath(last.Lhs[0]), recv+".hooks."))
			if reverse {
				outerFirst = append(outerFirst, kind)
			}
		case *ast.ExprStmt, *ast.DeclStmt, *ast.ReturnStmt:
			// logging, the `var (...)` block of slices, `return nil`
		default:
			return x.errf(st, "initPluginHooks: unexpected top-level statement")
		}
	}
	if collectLoops != 1 {
		return fmt.Errorf("initPluginHooks: expected exactly one loop over %s.plugins, found %d", recv, collectLoops)
	}
	if len(orderFacts) != 2 || orderFacts[0] != "plugins-appended-in-plugin_order" {
		return fmt.Errorf("initPluginHooks: expected the PluginOrder loop before the collect loop, got %v", orderFacts)
	}

	defStrings(w, "field names of `server.HookWrapper`, in declaration order", "hookWrapperFields", wrapperFields)
	defStrings(w, "(embedded) field names of `server.Hooks`, in declaration order", "hooksFields", hooksFields)
	defStrings(w, "wrapper kinds `initPluginHooks` collects: `if hooks.K != nil { ks = append(ks, hooks.K) }`", "collectedKinds", collected)
	defStrings(w, "wrapper kinds whose collected slice `initPluginHooks` folds over the base hook and installs into `srv.hooks`", "appliedKinds", applied)
	defStrings(w, "for each applied kind (same order): the `srv.hooks` field the fold starts from", "appliedBaseFields", appliedReads)
	defStrings(w, "for each applied kind (same order): the `srv.hooks` field the folded hook is assigned to", "appliedHookFields", appliedSets)
	defStrings(w, "applied kinds whose fold is `for i := len(ks); i > 0; i-- { h = ks[i-1](h) }` (first plugin ends up outermost)", "appliedOutermostFirst", outerFirst)
	defStrings(w, "how plugins reach the fold: appended to `srv.plugins` in `plugin_order`, wrappers collected by a forward range over it", "pluginOrderFacts", orderFacts)
	return x.installOrderFacts(pkg, w)
}

// installOrderFacts: WHEN the folded hooks are installed relative to every place that takes a hook VALUE (a copy of
// `srv.hooks.X` that is stored or passed on, as opposed to a call `srv.hooks.X(...)` or a nil test, which read the field
// at call time). A copy taken before `initPluginHooks` has run is a hook without the plugins' wrappers for ever.
//
//	initHookOrder  : events of (*server).init in source order — "install" (the initPluginHooks call), "capture:X",
//	                 "call:X", "load" (loadPlugins)
//	initHookOrderN : the same as numbers (0 install, 1 capture, 2 call, 3 load)
//	hookCapturesElsewhere : "func:X" for captures in other functions of package server
//	hookCapturesInitPhaseN : how many of those are in functions that run before init has returned
func (x *hookExtractor) installOrderFacts(pkg *ast.Package, w *bytes.Buffer) error {
	initPhase := map[string]bool{"New": true, "initAPIRegistrar": true, "loadPlugins": true, "defaultServer": true}
	type ev struct {
		pos  token.Pos
		s    string
		code int
	}
	var inInit []ev
	var elsewhere []string
	initPhaseN := 0
	foundInit := 0
	names := make([]string, 0, len(pkg.Files))
	for n := range pkg.Files {
		names = append(names, n)
	}
	sortStrings(names)
	for _, fname := range names {
		for _, d := range pkg.Files[fname].Decls {
			fd, ok := d.(*ast.FuncDecl)
			if !ok || fd.Body == nil {
				continue
			}
			if fd.Name.Name == "initPluginHooks" {
				continue
			}
			isInit := fd.Name.Name == "init" && fd.Recv != nil
			if isInit {
				foundInit++
			}
			callee := map[ast.Expr]bool{}
			niltest := map[ast.Expr]bool{}
			ast.Inspect(fd.Body, func(n ast.Node) bool {
				switch v := n.(type) {
				case *ast.CallExpr:
					callee[v.Fun] = true
					if isInit {
						switch p := selPath(v.Fun); {
						case strings.HasSuffix(p, ".initPluginHooks"):
							inInit = append(inInit, ev{v.Pos(), "install", 0})
						case strings.HasSuffix(p, ".loadPlugins"):
							inInit = append(inInit, ev{v.Pos(), "load", 3})
						}
					}
				case *ast.BinaryExpr:
					if (v.Op == token.NEQ || v.Op == token.EQL) && isIdent(v.Y, "nil") {
						niltest[v.X] = true
					}
				}
				return true
			})
			ast.Inspect(fd.Body, func(n ast.Node) bool {
				sel, ok := n.(*ast.SelectorExpr)
				if !ok {
					return true
				}
				p := selPath(sel)
				i := strings.Index(p, ".hooks.")
				if i < 0 || strings.Count(p[i+7:], ".") != 0 {
					return true
				}
				field := p[i+7:]
				switch {
				case niltest[sel]:
				case callee[sel]:
					if isInit {
						inInit = append(inInit, ev{sel.Pos(), "call:" + field, 2})
					}
				default:
					// assignments TO the field (srv.hooks.X = …) are not captures
					if isInit {
						inInit = append(inInit, ev{sel.Pos(), "capture:" + field, 1})
					} else {
						elsewhere = append(elsewhere, fd.Name.Name+":"+field)
						if initPhase[fd.Name.Name] {
							initPhaseN++
						}
					}
				}
				return false
			})
		}
	}
	if foundInit != 1 {
		return fmt.Errorf("expected exactly one method init in package server, found %d", foundInit)
	}
	for i := 1; i < len(inInit); i++ {
		for j := i; j > 0 && inInit[j].pos < inInit[j-1].pos; j-- {
			inInit[j], inInit[j-1] = inInit[j-1], inInit[j]
		}
	}
	var ss, ns []string
	for _, e := range inInit {
		ss = append(ss, e.s)
		ns = append(ns, fmt.Sprint(e.code))
	}
	sortStrings(elsewhere)
	defStrings(w, "(*server).init in source order: \"install\" = the initPluginHooks call, \"capture:X\" = a copy of srv.hooks.X is taken, \"call:X\", \"load\" = loadPlugins", "initHookOrder", ss)
	fmt.Fprintf(w, "/-- the same as numbers: 0 install, 1 capture, 2 call, 3 load -/\ndef initHookOrderN : List Nat :=\n  [%s]\n\n", strings.Join(ns, ", "))
	defStrings(w, "copies of srv.hooks.X taken in other functions of package server (\"func:X\"); they run after init has returned", "hookCapturesElsewhere", elsewhere)
	fmt.Fprintf(w, "/-- how many of those are in functions that run before init has returned (New, initAPIRegistrar, loadPlugins) -/\ndef hookCapturesInitPhaseN : Nat := %d\n\n", initPhaseN)
	return nil
}

func sortStrings(xs []string) {
	for i := 1; i < len(xs); i++ {
		for j := i; j > 0 && xs[j] < xs[j-1]; j-- {
			xs[j], xs[j-1] = xs[j-1], xs[j]
		}
	}
}

// foldDirection recognises the two possible fold loops over slice v accumulating into h.
//
//	for i := len(v); i > 0; i-- { h = v[i-1](h) }   -> reverse (true): v[0] is applied last, i.e. outermost
//	for i := 0; i < len(v); i++ { h = v[i](h) }     -> forward (false)
func (x *hookExtractor) foldDirection(f *ast.ForStmt, v, h, kind string) (bool, error) {
	bad := func() (bool, error) {
		return false, x.errf(f, "apply %s: fold loop is neither `for i := len(%s); i > 0; i-- { %s = %s[i-1](%s) }` nor the forward form", kind, v, h, v, h)
	}
	init, ok := f.Init.(*ast.AssignStmt)
	if !ok || init.Tok != token.DEFINE || len(init.Lhs) != 1 || len(init.Rhs) != 1 {
		return bad()
	}
	i := identName(init.Lhs[0])
	cond, ok := f.Cond.(*ast.BinaryExpr)
	post, ok2 := f.Post.(*ast.IncDecStmt)
	if i == "" || !ok || !ok2 || !isIdent(post.X, i) || len(f.Body.List) != 1 {
		return bad()
	}
	as, ok := f.Body.List[0].(*ast.AssignStmt)
	if !ok || as.Tok != token.ASSIGN || len(as.Lhs) != 1 || len(as.Rhs) != 1 || !isIdent(as.Lhs[0], h) {
		return bad()
	}
	call, ok := as.Rhs[0].(*ast.CallExpr)
	if !ok || len(call.Args) != 1 || !isIdent(call.Args[0], h) {
		return bad()
	}
	idx, ok := call.Fun.(*ast.IndexExpr)
	if !ok || !isIdent(idx.X, v) {
		return bad()
	}
	isLenV := func(e ast.Expr) bool {
		c, ok := e.(*ast.CallExpr)
		return ok && isIdent(c.Fun, "len") && len(c.Args) == 1 && isIdent(c.Args[0], v)
	}
	isLit := func(e ast.Expr, s string) bool {
		l, ok := e.(*ast.BasicLit)
		return ok && l.Kind == token.INT && l.Value == s
	}
	// reverse
	if isLenV(init.Rhs[0]) && cond.Op == token.GTR && isIdent(cond.X, i) && isLit(cond.Y, "0") && post.Tok == token.DEC {
		if be, ok := idx.Index.(*ast.BinaryExpr); ok && be.Op == token.SUB && isIdent(be.X, i) && isLit(be.Y, "1") {
			return true, nil
		}
		return bad()
	}
	// forward
	if isLit(init.Rhs[0], "0") && cond.Op == token.LSS && isIdent(cond.X, i) && isLenV(cond.Y) && post.Tok == token.INC && isIdent(idx.Index, i) {
		return false, nil
	}
	return bad()
}
