package main

// Lock-order facts (property C15): which mutex is acquired while which other mutex is held.
//
// Pure go/ast (nothing is type-checked by the compiler), so the result is an APPROXIMATION, built to err on the
// side of MORE edges (a superset of the real "acquired-while-holding" relation keeps `lock_order_acyclic` sound):
//
//   - lock sites: statements `X.Lock()`, `X.RLock()`, `X.Unlock()`, `X.RUnlock()` and their `defer` forms. The mutex
//     is named after the struct that owns it, `<pkg dir>.<Type>.<field>` (`server.server.mu`,
//     `persistence/queue/mem.Queue.cond.L`, an embedded `sync.RWMutex` is `<Type>.RWMutex`). The owner type is found
//     from the receiver / parameters / `:=` definitions of the enclosing function through a table of all struct
//     declarations. A lock site whose owner cannot be resolved is an ERROR (no guessing). Read and write locks of
//     one RWMutex are one lock.
//   - regions: each function body is walked in statement order with the set of locks that MAY be held
//     (union at the joins of if / switch / select / for; `return`, `break`, `continue` are followed). A deferred
//     Unlock keeps the lock to the end of the function. A function that can return holding a lock
//     (`lockDuplicatedID`) hands it to its caller.
//   - calls made inside a region: the callee is resolved by the static type of the receiver expression where the
//     struct table allows (interface-typed fields resolve to every type in the tree that has the interface's
//     methods), otherwise by METHOD NAME alone (every function of that name in the scanned packages). Function
//     values are followed for: fields set in composite literals (`register: srv.registerClient`), hook calls
//     `….hooks.OnX(…)` (the closures returned by every `OnXWrapper` method), function literals passed as arguments
//     (they run under the caller's locks and under every lock the callee may take). `go f()` starts with no lock.
//     The locks a callee may take are closed transitively over this call graph.
//   - convention from the source: functions of package server whose name ends in `Locked` run with
//     `server.server.mu` held.
//
// Not seen: locks taken through reflection or by code outside the tree (zap, grpc, serf, redigo), sync.Once,
// channel operations, sync.Cond.Wait (which releases its own lock only).

import (
	"bytes"
	"fmt"
	"go/ast"
	"go/parser"
	"go/token"
	"os"
	"path/filepath"
	"sort"
	"strings"
)

func init() {
	register("Locks", "lock order (every package: Lock/RLock regions, calls made inside them)", func(repo string, w *bytes.Buffer) error {
		src, err := extractLocks(repo)
		if err != nil {
			return err
		}
		w.WriteString(src)
		return nil
	})
}

const lkModule = "github.com/DrmagicE/gmqtt"

type lkField struct {
	name     string
	typ      ast.Expr
	embedded bool
}

type lkPkg struct {
	dir     string            // relative to the repo root, "" for the root package
	imports map[string]string // local import name -> package dir (in-tree imports only)
	outside map[string]bool   // local names of out-of-tree imports
	structs map[string][]lkField
	ifaces  map[string][]string
	named   map[string]ast.Expr           // other named types: name -> underlying type expression
	methods map[string]map[string]*lkFunc // type name -> method name -> func
	funcs   map[string]*lkFunc
}

// a type expression in the context of the package whose source it was read from
type lkType struct {
	pkg     *lkPkg
	e       ast.Expr
	foreign bool // a value of a type declared outside the tree (time.Time, net.Conn, …): its methods are not ours
}

type lkCall struct {
	held    []string
	callees []*lkFunc
	lits    []*lkFunc // function literals / function values passed as arguments
	pos     token.Pos
}

type lkFunc struct {
	key      string
	pkg      *lkPkg
	recv     string
	name     string
	typ      *ast.FuncType
	body     *ast.BlockStmt
	recvName string
	env0     map[string]lkType // environment inherited by a function literal
	initHeld []string

	direct   map[string]token.Pos // locks taken directly
	calls    []lkCall
	edges    map[[2]string]token.Pos
	returns  map[string]bool      // locks that may be held when the function returns
	releases map[string]bool      // locks the function unlocks without having taken them (helpers like `unlock()`)
	funcVals map[string][]*lkFunc // local variables holding function literals (shared with the literals of this function)
	acq      map[string]bool      // transitive
	lits     []*lkFunc
}

type lkWorld struct {
	fset     *token.FileSet
	pkgs     map[string]*lkPkg
	all      []*lkFunc
	byName   map[string][]*lkFunc
	aliases  map[string][]*lkFunc // struct field name -> functions stored into it by composite literals
	hooks    map[string][]*lkFunc // hook name "OnX" -> closures returned by OnXWrapper methods
	fallback int
	errs     []string
	litByPos map[token.Pos]*lkFunc
	inAll    map[*lkFunc]bool
}

func lkAppendUnique(fs []*lkFunc, f *lkFunc) []*lkFunc {
	for _, g := range fs {
		if g == f {
			return fs
		}
	}
	return append(fs, f)
}

func (w *lkWorld) errorf(pos token.Pos, format string, a ...interface{}) {
	w.errs = append(w.errs, fmt.Sprintf("%s: %s", w.fset.Position(pos), fmt.Sprintf(format, a...)))
}

func lkSkipFile(name string) bool {
	return !strings.HasSuffix(name, ".go") || strings.HasSuffix(name, "_test.go") || strings.HasSuffix(name, "_mock.go") ||
		strings.HasSuffix(name, ".pb.go") || strings.HasSuffix(name, ".pb.gw.go") || strings.HasPrefix(name, "verif_export")
}

func (w *lkWorld) load(repo string) error {
	return filepath.Walk(repo, func(path string, info os.FileInfo, err error) error {
		if err != nil {
			return err
		}
		if info.IsDir() {
			base := info.Name()
			if path != repo && (strings.HasPrefix(base, ".") || base == "cmd" || base == "vendor" || base == "testdata" || base == "examples") {
				return filepath.SkipDir
			}
			return nil
		}
		if lkSkipFile(info.Name()) {
			return nil
		}
		f, err := parser.ParseFile(w.fset, path, nil, 0)
		if err != nil {
			return err
		}
		if strings.HasSuffix(f.Name.Name, "_test") || f.Name.Name == "main" {
			return nil
		}
		rel, _ := filepath.Rel(repo, filepath.Dir(path))
		if rel == "." {
			rel = ""
		}
		rel = filepath.ToSlash(rel)
		p := w.pkgs[rel]
		if p == nil {
			p = &lkPkg{dir: rel, imports: map[string]string{}, outside: map[string]bool{}, structs: map[string][]lkField{}, ifaces: map[string][]string{},
				named: map[string]ast.Expr{}, methods: map[string]map[string]*lkFunc{}, funcs: map[string]*lkFunc{}}
			w.pkgs[rel] = p
		}
		for _, im := range f.Imports {
			ip := strings.Trim(im.Path.Value, `"`)
			if ip != lkModule && !strings.HasPrefix(ip, lkModule+"/") {
				name := filepath.Base(ip)
				if im.Name != nil {
					name = im.Name.Name
				}
				p.outside[name] = true
				continue
			}
			dir := strings.TrimPrefix(strings.TrimPrefix(ip, lkModule), "/")
			name := filepath.Base(ip)
			if im.Name != nil {
				name = im.Name.Name
			}
			p.imports[name] = dir
		}
		for _, d := range f.Decls {
			switch d := d.(type) {
			case *ast.GenDecl:
				for _, s := range d.Specs {
					ts, ok := s.(*ast.TypeSpec)
					if !ok {
						continue
					}
					switch t := ts.Type.(type) {
					case *ast.StructType:
						var fs []lkField
						for _, fl := range t.Fields.List {
							if len(fl.Names) == 0 {
								fs = append(fs, lkField{name: lkTypeBase(fl.Type), typ: fl.Type, embedded: true})
							}
							for _, n := range fl.Names {
								fs = append(fs, lkField{name: n.Name, typ: fl.Type})
							}
						}
						p.structs[ts.Name.Name] = fs
					case *ast.InterfaceType:
						var ms []string
						for _, m := range t.Methods.List {
							for _, n := range m.Names {
								ms = append(ms, n.Name)
							}
						}
						p.ifaces[ts.Name.Name] = ms
					default:
						p.named[ts.Name.Name] = ts.Type
					}
				}
			case *ast.FuncDecl:
				if d.Body == nil {
					continue
				}
				fn := &lkFunc{pkg: p, name: d.Name.Name, typ: d.Type, body: d.Body}
				if d.Recv != nil && len(d.Recv.List) == 1 {
					fn.recv = lkTypeBase(d.Recv.List[0].Type)
					if len(d.Recv.List[0].Names) == 1 {
						fn.recvName = d.Recv.List[0].Names[0].Name
					}
					if p.methods[fn.recv] == nil {
						p.methods[fn.recv] = map[string]*lkFunc{}
					}
					p.methods[fn.recv][fn.name] = fn
					fn.key = rel + "." + fn.recv + "." + fn.name
				} else {
					p.funcs[fn.name] = fn
					fn.key = rel + "." + fn.name
				}
				w.all = append(w.all, fn)
				w.byName[fn.name] = append(w.byName[fn.name], fn)
			}
		}
		return nil
	})
}

// lkTypeBase: the identifier naming a (possibly pointer / qualified) type: *pkg.T -> T
func lkTypeBase(e ast.Expr) string {
	switch v := e.(type) {
	case *ast.StarExpr:
		return lkTypeBase(v.X)
	case *ast.SelectorExpr:
		return v.Sel.Name
	case *ast.Ident:
		return v.Name
	case *ast.ParenExpr:
		return lkTypeBase(v.X)
	case *ast.IndexExpr:
		return lkTypeBase(v.X)
	}
	return ""
}

// named resolves a type expression to (package, type name) when it names a type declared in the tree.
func (w *lkWorld) named(t lkType) (*lkPkg, string, bool) {
	if t.pkg == nil || t.e == nil {
		return nil, "", false
	}
	switch v := t.e.(type) {
	case *ast.StarExpr:
		return w.named(lkType{pkg: t.pkg, e: v.X})
	case *ast.ParenExpr:
		return w.named(lkType{pkg: t.pkg, e: v.X})
	case *ast.Ident:
		if _, ok := t.pkg.structs[v.Name]; ok {
			return t.pkg, v.Name, true
		}
		if _, ok := t.pkg.ifaces[v.Name]; ok {
			return t.pkg, v.Name, true
		}
		if _, ok := t.pkg.named[v.Name]; ok {
			return t.pkg, v.Name, true
		}
	case *ast.SelectorExpr:
		if id, ok := v.X.(*ast.Ident); ok {
			if dir, ok := t.pkg.imports[id.Name]; ok {
				if q := w.pkgs[dir]; q != nil {
					return w.named(lkType{pkg: q, e: v.Sel})
				}
			}
		}
	}
	return nil, "", false
}

// isSync reports sync.Mutex / sync.RWMutex / sync.Locker (the type of a lockable field) and returns its short name.
func isSync(e ast.Expr) (string, bool) {
	if s, ok := e.(*ast.StarExpr); ok {
		e = s.X
	}
	if s, ok := e.(*ast.SelectorExpr); ok {
		if id, ok := s.X.(*ast.Ident); ok && id.Name == "sync" {
			return s.Sel.Name, true
		}
	}
	return "", false
}

func (w *lkWorld) field(t lkType, name string, depth int) (lkType, bool) {
	p, n, ok := w.named(t)
	if !ok || depth > 4 {
		return lkType{}, false
	}
	fs, ok := p.structs[n]
	if !ok {
		if u, ok := p.named[n]; ok {
			return w.field(lkType{pkg: p, e: u}, name, depth+1)
		}
		return lkType{}, false
	}
	for _, f := range fs {
		if f.name == name {
			return lkType{pkg: p, e: f.typ}, true
		}
	}
	for _, f := range fs {
		if f.embedded {
			if r, ok := w.field(lkType{pkg: p, e: f.typ}, name, depth+1); ok {
				return r, true
			}
		}
	}
	return lkType{}, false
}

func (w *lkWorld) elem(t lkType) lkType {
	if t.e == nil {
		return lkType{}
	}
	switch v := t.e.(type) {
	case *ast.MapType:
		return lkType{pkg: t.pkg, e: v.Value}
	case *ast.ArrayType:
		return lkType{pkg: t.pkg, e: v.Elt}
	case *ast.StarExpr:
		return w.elem(lkType{pkg: t.pkg, e: v.X})
	case *ast.ChanType:
		return lkType{pkg: t.pkg, e: v.Value}
	case *ast.Ident, *ast.SelectorExpr:
		if p, n, ok := w.named(t); ok {
			if u, ok := p.named[n]; ok {
				return w.elem(lkType{pkg: p, e: u})
			}
		}
	}
	return lkType{}
}

// methodsOf: the functions a call `x.m()` may reach when x has static type t
func (w *lkWorld) methodsOf(t lkType, m string, depth int) []*lkFunc {
	p, n, ok := w.named(t)
	if !ok || depth > 4 {
		return nil
	}
	if ms, ok := p.ifaces[n]; ok {
		var res []*lkFunc
		for _, q := range w.sortedPkgs() {
			for _, tn := range sortedKeys(q.methods) {
				have := q.methods[tn]
				all := true
				for _, need := range ms {
					if have[need] == nil {
						all = false
						break
					}
				}
				if all && have[m] != nil && len(ms) > 0 {
					res = append(res, have[m])
				}
			}
		}
		return res
	}
	if f := p.methods[n][m]; f != nil {
		return []*lkFunc{f}
	}
	for _, f := range p.structs[n] {
		if f.embedded {
			if r := w.methodsOf(lkType{pkg: p, e: f.typ}, m, depth+1); r != nil {
				return r
			}
		}
	}
	return nil
}

func (w *lkWorld) sortedPkgs() []*lkPkg {
	var ks []string
	for k := range w.pkgs {
		ks = append(ks, k)
	}
	sort.Strings(ks)
	res := make([]*lkPkg, len(ks))
	for i, k := range ks {
		res[i] = w.pkgs[k]
	}
	return res
}

func sortedKeys(m map[string]map[string]*lkFunc) []string {
	var ks []string
	for k := range m {
		ks = append(ks, k)
	}
	sort.Strings(ks)
	return ks
}

// ---------------------------------------------------------------- per-function analysis

type lkEnv map[string]lkType

func (e lkEnv) clone() lkEnv {
	n := lkEnv{}
	for k, v := range e {
		n[k] = v
	}
	return n
}

type lkWalker struct {
	w   *lkWorld
	fn  *lkFunc
	env lkEnv
	// exits
	retHeld  map[string]bool
	deferred map[string]bool // locks released by a deferred Unlock
	breakSt  [][]string
	contSt   [][]string
}

func (x *lkWalker) foreignType(t lkType) lkType {
	// a resolved type expression that names nothing in the tree and is not a composite we can look into
	if t.e == nil || t.foreign {
		return t
	}
	switch v := t.e.(type) {
	case *ast.StarExpr:
		if x.foreignType(lkType{pkg: t.pkg, e: v.X}).foreign {
			return lkType{foreign: true}
		}
	case *ast.SelectorExpr:
		if id, ok := v.X.(*ast.Ident); ok && t.pkg != nil && t.pkg.outside[id.Name] {
			return lkType{foreign: true}
		}
	case *ast.Ident:
		switch v.Name {
		case "string", "int", "int8", "int16", "int32", "int64", "uint", "uint8", "uint16", "uint32", "uint64", "byte", "bool",
			"error", "float64", "float32", "rune", "uintptr":
			return lkType{foreign: true}
		}
	}
	return t
}

func (x *lkWalker) exprType(e ast.Expr) lkType {
	return x.foreignType(x.exprType0(e))
}

func (x *lkWalker) exprType0(e ast.Expr) lkType {
	switch v := e.(type) {
	case *ast.BasicLit:
		return lkType{foreign: true}
	case *ast.BinaryExpr:
		return lkType{foreign: true}
	case *ast.Ident:
		if t, ok := x.env[v.Name]; ok {
			return t
		}
		if x.fn.pkg.outside[v.Name] {
			return lkType{foreign: true}
		}
	case *ast.ParenExpr:
		return x.exprType(v.X)
	case *ast.StarExpr:
		t := x.exprType(v.X)
		if s, ok := t.e.(*ast.StarExpr); ok {
			return lkType{pkg: t.pkg, e: s.X}
		}
		return t
	case *ast.UnaryExpr:
		if v.Op == token.AND {
			return x.exprType(v.X)
		}
	case *ast.CompositeLit:
		if v.Type != nil {
			return lkType{pkg: x.fn.pkg, e: v.Type}
		}
	case *ast.TypeAssertExpr:
		if v.Type != nil {
			return lkType{pkg: x.fn.pkg, e: v.Type}
		}
	case *ast.IndexExpr:
		return x.w.elem(x.exprType(v.X))
	case *ast.SelectorExpr:
		if id, ok := v.X.(*ast.Ident); ok {
			if _, isLocal := x.env[id.Name]; !isLocal {
				if _, ok := x.fn.pkg.imports[id.Name]; ok {
					return lkType{}
				}
				if x.fn.pkg.outside[id.Name] {
					return lkType{foreign: true}
				}
			}
		}
		ot := x.exprType(v.X)
		if ot.foreign {
			return ot
		}
		if t, ok := x.w.field(ot, v.Sel.Name, 0); ok {
			return t
		}
	case *ast.CallExpr:
		if s, ok := v.Fun.(*ast.SelectorExpr); ok {
			if x.exprType(s.X).foreign {
				return lkType{foreign: true}
			}
		}
		cs, _ := x.callees(v)
		if len(cs) >= 1 && cs[0].typ.Results != nil && len(cs[0].typ.Results.List) >= 1 {
			return lkType{pkg: cs[0].pkg, e: cs[0].typ.Results.List[0].Type}
		}
		// conversion T(x)
		if len(v.Args) == 1 {
			if _, _, ok := x.w.named(lkType{pkg: x.fn.pkg, e: v.Fun}); ok {
				return lkType{pkg: x.fn.pkg, e: v.Fun}
			}
		}
	}
	return lkType{}
}

// callees resolves a call; precise reports whether the static type decided it
func (x *lkWalker) callees(c *ast.CallExpr) (res []*lkFunc, precise bool) {
	switch f := c.Fun.(type) {
	case *ast.Ident:
		if fv := x.fn.funcVals[f.Name]; fv != nil {
			return fv, true
		}
		if _, isLocal := x.env[f.Name]; isLocal {
			return nil, true // a function value held in a parameter: handled at the call sites of this function
		}
		if fn := x.fn.pkg.funcs[f.Name]; fn != nil {
			return []*lkFunc{fn}, true
		}
		return nil, true // builtin / conversion
	case *ast.SelectorExpr:
		if id, ok := f.X.(*ast.Ident); ok {
			if _, isLocal := x.env[id.Name]; !isLocal {
				if dir, ok := x.fn.pkg.imports[id.Name]; ok {
					if q := x.w.pkgs[dir]; q != nil {
						if fn := q.funcs[f.Sel.Name]; fn != nil {
							return []*lkFunc{fn}, true
						}
					}
					return nil, true
				}
				if !ast.IsExported(id.Name) && x.fn.pkg.funcs[id.Name] == nil {
					// an identifier that is neither a local nor an in-tree import: an out-of-tree package (time, atomic, zap…)
					if _, ok := x.fn.pkg.structs[id.Name]; !ok {
						return nil, true
					}
				}
			}
		}
		// hook calls: <…>.hooks.OnX(…)
		if inner, ok := f.X.(*ast.SelectorExpr); ok && inner.Sel.Name == "hooks" && strings.HasPrefix(f.Sel.Name, "On") {
			return x.w.hooks[f.Sel.Name], true
		}
		t := x.exprType(f.X)
		if t.foreign {
			return nil, true
		}
		if t.e != nil {
			if ms := x.w.methodsOf(t, f.Sel.Name, 0); ms != nil {
				return ms, true
			}
			if ft, ok := x.w.field(t, f.Sel.Name, 0); ok {
				// a struct field of function type
				_ = ft
				return x.w.aliases[f.Sel.Name], true
			}
			if _, ok := isSync(t.e); ok {
				return nil, true
			}
			if _, _, ok := x.w.named(t); ok {
				return nil, true // a tree type without such a method (embedded out-of-tree type): not ours
			}
			return nil, true // a resolved out-of-tree type
		}
		// unresolved receiver: by method name
		x.w.fallback++
		if os.Getenv("VERIF_LOCKS_DEBUG") != "" {
			fmt.Fprintf(os.Stderr, "fallback %s: %s.%s in %s\n", x.w.fset.Position(c.Pos()), exprString(f.X), f.Sel.Name, x.fn.key)
		}
		var out []*lkFunc
		for _, fn := range x.w.byName[f.Sel.Name] {
			if fn.recv != "" {
				out = append(out, fn)
			}
		}
		out = append(out, x.w.aliases[f.Sel.Name]...)
		return out, false
	}
	return nil, true
}

func (x *lkWalker) lockName(e ast.Expr) (string, bool) {
	switch v := e.(type) {
	case *ast.SelectorExpr:
		owner := x.exprType(v.X)
		if p, n, ok := x.w.named(owner); ok {
			if _, ok := x.w.field(lkType{pkg: p, e: &ast.Ident{Name: n}}, v.Sel.Name, 0); ok {
				return p.dir + "." + n + "." + v.Sel.Name, true
			}
		}
		// q.cond.L : the owner of `L` is an out-of-tree type (sync.Cond); name it after the field that holds it
		if base, ok := x.lockName(v.X); ok {
			return base + "." + v.Sel.Name, true
		}
	case *ast.Ident:
		t := x.exprType(v)
		if p, n, ok := x.w.named(t); ok {
			for _, f := range p.structs[n] {
				if f.embedded {
					if s, ok := isSync(f.typ); ok {
						return p.dir + "." + n + "." + s, true
					}
				}
			}
		}
	}
	return "", false
}

func lkHas(h []string, s string) bool {
	for _, x := range h {
		if x == s {
			return true
		}
	}
	return false
}

func lkUnion(a, b []string) []string {
	res := append([]string{}, a...)
	for _, s := range b {
		if !lkHas(res, s) {
			res = append(res, s)
		}
	}
	return res
}

func lkRemove(h []string, s string) []string {
	var res []string
	for _, x := range h {
		if x != s {
			res = append(res, x)
		}
	}
	return res
}

// lockOp recognises X.Lock() etc.
func lockOp(c *ast.CallExpr) (x ast.Expr, op string, ok bool) {
	s, isSel := c.Fun.(*ast.SelectorExpr)
	if !isSel || len(c.Args) != 0 {
		return nil, "", false
	}
	switch s.Sel.Name {
	case "Lock", "RLock", "Unlock", "RUnlock":
		return s.X, s.Sel.Name, true
	}
	return nil, "", false
}

func (x *lkWalker) define(name string, t lkType) {
	if name != "_" && (t.e != nil || t.foreign) {
		x.env[name] = t
	}
}

func (x *lkWalker) newLit(l *ast.FuncLit, initHeld []string) *lkFunc {
	fn := x.w.litByPos[l.Pos()]
	if fn == nil {
		p := x.w.fset.Position(l.Pos())
		fn = &lkFunc{pkg: x.fn.pkg, name: "func", typ: l.Type, body: l.Body, initHeld: initHeld,
			key: fmt.Sprintf("%s$L%d", x.fn.key, p.Line), returns: map[string]bool{}}
		x.w.litByPos[l.Pos()] = fn
	}
	fn.env0 = x.env.clone()
	fn.funcVals = x.fn.funcVals
	x.fn.lits = lkAppendUnique(x.fn.lits, fn)
	if !x.w.inAll[fn] {
		x.w.inAll[fn] = true
		x.w.all = append(x.w.all, fn)
	}
	return fn
}

// scanExpr records the calls inside an expression (not descending into function literals, which become functions).
func (x *lkWalker) scanExpr(e ast.Node, held []string) {
	if e == nil {
		return
	}
	ast.Inspect(e, func(n ast.Node) bool {
		switch v := n.(type) {
		case *ast.FuncLit:
			// a literal that is not a call argument (assigned, returned): runs elsewhere
			x.newLit(v, nil)
			return false
		case *ast.CompositeLit:
			for _, el := range v.Elts {
				if kv, ok := el.(*ast.KeyValueExpr); ok {
					if k, ok := kv.Key.(*ast.Ident); ok {
						switch val := kv.Value.(type) {
						case *ast.FuncLit:
							fn := x.newLit(val, nil)
							x.w.aliases[k.Name] = lkAppendUnique(x.w.aliases[k.Name], fn)
							continue
						case *ast.SelectorExpr:
							if ms := x.w.methodsOf(x.exprType(val.X), val.Sel.Name, 0); ms != nil {
								for _, m := range ms {
									x.w.aliases[k.Name] = lkAppendUnique(x.w.aliases[k.Name], m)
								}
							}
						}
					}
					x.scanExpr(kv.Value, held)
				} else {
					x.scanExpr(el, held)
				}
			}
			return false
		case *ast.CallExpr:
			if _, _, ok := lockOp(v); ok {
				return false
			}
			cs, _ := x.callees(v)
			call := lkCall{held: append([]string{}, held...), callees: cs, pos: v.Pos()}
			for _, a := range v.Args {
				switch av := a.(type) {
				case *ast.FuncLit:
					call.lits = append(call.lits, x.newLit(av, nil))
				case *ast.SelectorExpr:
					if ms := x.w.methodsOf(x.exprType(av.X), av.Sel.Name, 0); ms != nil {
						call.lits = append(call.lits, ms...)
					} else if _, ok := x.w.field(x.exprType(av.X), av.Sel.Name, 0); ok {
						call.lits = append(call.lits, x.w.aliases[av.Sel.Name]...)
					}
					x.scanExpr(a, held)
				case *ast.Ident:
					call.lits = append(call.lits, x.fn.funcVals[av.Name]...)
				default:
					x.scanExpr(a, held)
				}
			}
			x.fn.calls = append(x.fn.calls, call)
			x.scanExpr(v.Fun, held)
			return false
		}
		return true
	})
}

func (x *lkWalker) scanExprList(es []ast.Expr, held []string) {
	for _, e := range es {
		x.scanExpr(e, held)
	}
}

// walk returns the locks that may be held at the fall-through of the statement list (nil, false if it cannot fall through)
func (x *lkWalker) walk(stmts []ast.Stmt, held []string) ([]string, bool) {
	saved := x.env
	x.env = x.env.clone()
	defer func() { x.env = saved }()
	for _, s := range stmts {
		var ok bool
		held, ok = x.stmt(s, held)
		if !ok {
			return nil, false
		}
	}
	return held, true
}

func (x *lkWalker) doLock(c *ast.CallExpr, held []string, deferred bool) ([]string, bool) {
	lx, op, ok := lockOp(c)
	if !ok {
		return held, false
	}
	name, ok := x.lockName(lx)
	if !ok {
		// is it at all a lock of ours? calls like reader.Lock() on unknown types must not be ignored silently
		x.w.errorf(c.Pos(), "cannot name the mutex of `%s.%s()` in %s", exprString(lx), op, x.fn.key)
		return held, true
	}
	switch op {
	case "Lock", "RLock":
		if deferred {
			return held, true
		}
		for _, h := range held {
			k := [2]string{h, name}
			if _, ok := x.fn.edges[k]; !ok {
				x.fn.edges[k] = c.Pos()
			}
		}
		if _, ok := x.fn.direct[name]; !ok {
			x.fn.direct[name] = c.Pos()
		}
		if !lkHas(held, name) {
			held = append(append([]string{}, held...), name)
		}
	default:
		if deferred {
			x.deferred[name] = true
			if !lkHas(held, name) && !lkHas(x.fn.initHeld, name) {
				x.fn.releases[name] = true
			}
			return held, true
		}
		if !lkHas(held, name) && !lkHas(x.fn.initHeld, name) {
			x.fn.releases[name] = true
		}
		held = lkRemove(held, name)
	}
	return held, true
}

// handover applies the lock effects of the callees of a call: locks handed to the caller, locks released for it
func (x *lkWalker) handover(c *ast.CallExpr, held []string, deferred bool) []string {
	cs, _ := x.callees(c)
	var add, rel []string
	for _, g := range cs {
		for l := range g.returns {
			add = append(add, l)
		}
		for l := range g.releases {
			rel = append(rel, l)
		}
	}
	sort.Strings(add)
	sort.Strings(rel)
	if deferred {
		for _, l := range rel {
			x.deferred[l] = true
		}
		return held
	}
	for _, l := range rel {
		if !lkHas(held, l) && !lkHas(x.fn.initHeld, l) {
			x.fn.releases[l] = true
		}
		held = lkRemove(held, l)
	}
	for _, l := range add {
		if !lkHas(held, l) {
			held = append(append([]string{}, held...), l)
		}
	}
	return held
}

func exprString(e ast.Expr) string {
	switch v := e.(type) {
	case *ast.Ident:
		return v.Name
	case *ast.SelectorExpr:
		return exprString(v.X) + "." + v.Sel.Name
	}
	return "?"
}

func (x *lkWalker) stmt(s ast.Stmt, held []string) ([]string, bool) {
	switch s.(type) {
	case *ast.IfStmt, *ast.ForStmt, *ast.RangeStmt, *ast.SwitchStmt, *ast.TypeSwitchStmt, *ast.SelectStmt:
		// the variables of the init statement / range clause are scoped to the statement
		saved := x.env
		x.env = x.env.clone()
		defer func() { x.env = saved }()
	}
	switch v := s.(type) {
	case *ast.ExprStmt:
		if c, ok := v.X.(*ast.CallExpr); ok {
			if h, isLock := x.doLock(c, held, false); isLock {
				return h, true
			}
			if id, ok := c.Fun.(*ast.Ident); ok && id.Name == "panic" {
				x.scanExpr(c, held)
				return nil, false
			}
			x.scanExpr(c, held)
			return x.handover(c, held, false), true
		}
		x.scanExpr(v.X, held)
		return held, true
	case *ast.DeferStmt:
		if h, isLock := x.doLock(v.Call, held, true); isLock {
			return h, true
		}
		if lit, ok := v.Call.Fun.(*ast.FuncLit); ok {
			// deferred closure: Unlocks inside it release at function end; the rest runs under whatever is held then
			ast.Inspect(lit.Body, func(n ast.Node) bool {
				if c, ok := n.(*ast.CallExpr); ok {
					if lx, op, ok := lockOp(c); ok && (op == "Unlock" || op == "RUnlock") {
						if name, ok := x.lockName(lx); ok {
							x.deferred[name] = true
						} else {
							x.w.errorf(c.Pos(), "cannot name the mutex of deferred `%s.%s()` in %s", exprString(lx), op, x.fn.key)
						}
					}
				}
				return true
			})
			fn := x.newLit(lit, nil)
			x.fn.calls = append(x.fn.calls, lkCall{held: append([]string{}, held...), callees: []*lkFunc{fn}, pos: v.Pos()})
			return held, true
		}
		x.scanExpr(v.Call, held)
		return x.handover(v.Call, held, true), true
	case *ast.GoStmt:
		if lit, ok := v.Call.Fun.(*ast.FuncLit); ok {
			x.newLit(lit, nil)
			x.scanExprList(v.Call.Args, held)
			return held, true
		}
		// go f(args): f starts with nothing held; only the arguments are evaluated here
		x.scanExprList(v.Call.Args, held)
		return held, true
	case *ast.AssignStmt:
		x.scanExprList(v.Rhs, held)
		x.scanExprList(v.Lhs, held)
		after := held
		for _, r := range v.Rhs {
			if c, ok := r.(*ast.CallExpr); ok {
				after = x.handover(c, after, false)
			}
		}
		// function literals stored in locals / fields
		if len(v.Lhs) == len(v.Rhs) {
			for i, r := range v.Rhs {
				if lit, ok := r.(*ast.FuncLit); ok {
					fn := x.newLit(lit, nil)
					switch l := v.Lhs[i].(type) {
					case *ast.Ident:
						x.fn.funcVals[l.Name] = lkAppendUnique(x.fn.funcVals[l.Name], fn)
					case *ast.SelectorExpr:
						x.w.aliases[l.Sel.Name] = lkAppendUnique(x.w.aliases[l.Sel.Name], fn)
					}
				}
			}
		}
		if v.Tok == token.DEFINE || v.Tok == token.ASSIGN {
			var types []lkType
			for _, r := range v.Rhs {
				types = append(types, x.exprType(r))
			}
			if len(v.Lhs) == len(v.Rhs) {
				for i, l := range v.Lhs {
					if id, ok := l.(*ast.Ident); ok && (v.Tok == token.DEFINE || x.env[id.Name].e == nil) {
						x.define(id.Name, types[i])
					}
				}
			} else if len(v.Rhs) == 1 && len(v.Lhs) >= 1 {
				if id, ok := v.Lhs[0].(*ast.Ident); ok && (v.Tok == token.DEFINE || x.env[id.Name].e == nil) {
					x.define(id.Name, types[0])
				}
			}
		}
		return after, true
	case *ast.DeclStmt:
		if gd, ok := v.Decl.(*ast.GenDecl); ok {
			for _, sp := range gd.Specs {
				if vs, ok := sp.(*ast.ValueSpec); ok {
					for i, n := range vs.Names {
						if vs.Type != nil {
							x.define(n.Name, lkType{pkg: x.fn.pkg, e: vs.Type})
						} else if i < len(vs.Values) {
							x.define(n.Name, x.exprType(vs.Values[i]))
						}
					}
					x.scanExprList(vs.Values, held)
				}
			}
		}
		return held, true
	case *ast.ReturnStmt:
		x.scanExprList(v.Results, held)
		for _, h := range held {
			x.retHeld[h] = true
		}
		return nil, false
	case *ast.BranchStmt:
		switch v.Tok {
		case token.BREAK:
			x.breakSt = append(x.breakSt, held)
		case token.CONTINUE:
			x.contSt = append(x.contSt, held)
		}
		return nil, false
	case *ast.BlockStmt:
		return x.walk(v.List, held)
	case *ast.LabeledStmt:
		return x.stmt(v.Stmt, held)
	case *ast.IfStmt:
		if v.Init != nil {
			held, _ = x.stmt(v.Init, held)
		}
		x.scanExpr(v.Cond, held)
		h1, ok1 := x.walk(v.Body.List, held)
		h2, ok2 := held, true
		if v.Else != nil {
			h2, ok2 = x.stmt(v.Else, held)
		}
		switch {
		case ok1 && ok2:
			return lkUnion(h1, h2), true
		case ok1:
			return h1, true
		case ok2:
			return h2, true
		}
		return nil, false
	case *ast.ForStmt, *ast.RangeStmt:
		var body *ast.BlockStmt
		infinite := false
		if f, ok := v.(*ast.ForStmt); ok {
			if f.Init != nil {
				held, _ = x.stmt(f.Init, held)
			}
			x.scanExpr(f.Cond, held)
			body = f.Body
			infinite = f.Cond == nil
		} else {
			r := v.(*ast.RangeStmt)
			x.scanExpr(r.X, held)
			t := x.exprType(r.X)
			if r.Tok == token.DEFINE {
				if id, ok := r.Value.(*ast.Ident); ok && r.Value != nil {
					x.define(id.Name, x.w.elem(t))
				}
				if id, ok := r.Key.(*ast.Ident); ok && r.Key != nil {
					if _, isChan := t.e.(*ast.ChanType); isChan {
						x.define(id.Name, x.w.elem(t))
					}
				}
			}
			body = r.Body
		}
		saveB, saveC := x.breakSt, x.contSt
		x.breakSt, x.contSt = nil, nil
		entry := held
		var out []string
		// two passes so that locks held at `continue` / body end reach the next iteration
		for pass := 0; pass < 2; pass++ {
			x.breakSt, x.contSt = nil, nil
			h, ok := x.walk(body.List, entry)
			next := append([]string{}, entry...)
			if ok {
				next = lkUnion(next, h)
			}
			for _, c := range x.contSt {
				next = lkUnion(next, c)
			}
			entry = next
			out = entry
		}
		var after []string
		reach := false
		if !infinite {
			after, reach = out, true
		}
		for _, b := range x.breakSt {
			after = lkUnion(after, b)
			reach = true
		}
		x.breakSt, x.contSt = saveB, saveC
		if f, ok := v.(*ast.ForStmt); ok && f.Post != nil {
			x.stmt(f.Post, out)
		}
		if !reach {
			return nil, false
		}
		return after, true
	case *ast.SwitchStmt, *ast.TypeSwitchStmt, *ast.SelectStmt:
		var clauses []ast.Stmt
		hasDefault := false
		switch sw := v.(type) {
		case *ast.SwitchStmt:
			if sw.Init != nil {
				held, _ = x.stmt(sw.Init, held)
			}
			x.scanExpr(sw.Tag, held)
			clauses = sw.Body.List
		case *ast.TypeSwitchStmt:
			if sw.Init != nil {
				held, _ = x.stmt(sw.Init, held)
			}
			if as, ok := sw.Assign.(*ast.AssignStmt); ok {
				x.scanExprList(as.Rhs, held)
			} else if es, ok := sw.Assign.(*ast.ExprStmt); ok {
				x.scanExpr(es.X, held)
			}
			clauses = sw.Body.List
		case *ast.SelectStmt:
			clauses = sw.Body.List
			hasDefault = true // a select always takes one of its clauses
		}
		saveB := x.breakSt
		x.breakSt = nil
		var after []string
		reach := false
		for _, cl := range clauses {
			var body []ast.Stmt
			h := held
			switch c := cl.(type) {
			case *ast.CaseClause:
				if c.List == nil {
					hasDefault = true
				}
				x.scanExprList(c.List, held)
				if ts, ok := v.(*ast.TypeSwitchStmt); ok && len(c.List) == 1 {
					if as, ok := ts.Assign.(*ast.AssignStmt); ok && len(as.Lhs) == 1 {
						if id, ok := as.Lhs[0].(*ast.Ident); ok {
							x.define(id.Name, lkType{pkg: x.fn.pkg, e: c.List[0]})
						}
					}
				}
				body = c.Body
			case *ast.CommClause:
				if c.Comm != nil {
					h, _ = x.stmt(c.Comm, held)
				}
				body = c.Body
			}
			if o, ok := x.walk(body, h); ok {
				after = lkUnion(after, o)
				reach = true
			}
		}
		for _, b := range x.breakSt {
			after = lkUnion(after, b)
			reach = true
		}
		x.breakSt = saveB
		if !hasDefault {
			after = lkUnion(after, held)
			reach = true
		}
		if !reach {
			return nil, false
		}
		return after, true
	case *ast.SendStmt:
		x.scanExpr(v.Chan, held)
		x.scanExpr(v.Value, held)
		return held, true
	case *ast.IncDecStmt:
		x.scanExpr(v.X, held)
		return held, true
	case *ast.EmptyStmt:
		return held, true
	}
	return held, true
}

func (w *lkWorld) analyse(fn *lkFunc) {
	fn.direct = map[string]token.Pos{}
	fn.edges = map[[2]string]token.Pos{}
	fn.calls = nil
	fn.releases = map[string]bool{}
	if fn.funcVals == nil {
		fn.funcVals = map[string][]*lkFunc{}
	}
	// literals are re-created on every pass: drop the old ones
	x := &lkWalker{w: w, fn: fn, env: lkEnv{}, retHeld: map[string]bool{}, deferred: map[string]bool{}}
	for k, v := range fn.env0 {
		x.env[k] = v
	}
	if fn.recvName != "" {
		x.env[fn.recvName] = lkType{pkg: fn.pkg, e: &ast.Ident{Name: fn.recv}}
	}
	addParams := func(fl *ast.FieldList) {
		if fl == nil {
			return
		}
		for _, f := range fl.List {
			for _, n := range f.Names {
				x.define(n.Name, lkType{pkg: fn.pkg, e: f.Type})
			}
		}
	}
	addParams(fn.typ.Params)
	addParams(fn.typ.Results)
	held := append([]string{}, fn.initHeld...)
	h, ok := x.walk(fn.body.List, held)
	if ok {
		for _, l := range h {
			x.retHeld[l] = true
		}
	}
	fn.returns = map[string]bool{}
	for l := range x.retHeld {
		if !x.deferred[l] && !lkHas(fn.initHeld, l) {
			fn.returns[l] = true
		}
	}
}

// extractLocks returns the Lean definitions `lockNames`, `lockEdges` (and a comment listing one site per edge).
func extractLocks(repo string) (string, error) {
	w := &lkWorld{fset: token.NewFileSet(), pkgs: map[string]*lkPkg{}, byName: map[string][]*lkFunc{},
		aliases: map[string][]*lkFunc{}, hooks: map[string][]*lkFunc{}, litByPos: map[token.Pos]*lkFunc{}}
	if err := w.load(repo); err != nil {
		return "", err
	}
	if w.pkgs["server"] == nil || w.pkgs["server"].structs["server"] == nil {
		return "", fmt.Errorf("package server / type server not found under %s", repo)
	}
	sort.Slice(w.all, func(i, j int) bool { return w.all[i].key < w.all[j].key })
	decls := append([]*lkFunc{}, w.all...)
	for _, fn := range decls {
		if fn.pkg.dir == "server" && strings.HasSuffix(fn.name, "Locked") {
			fn.initHeld = []string{"server.server.mu"}
		}
	}
	// passes: (1) learn which functions return holding a lock, the aliases and the literals; (2) with that knowledge
	var funcs []*lkFunc
	for pass := 0; pass < 3; pass++ {
		w.all = append([]*lkFunc{}, decls...)
		w.inAll = map[*lkFunc]bool{}
		for _, fn := range decls {
			w.inAll[fn] = true
			fn.lits = nil
		}
		w.errs = nil
		w.fallback = 0
		for i := 0; i < len(w.all); i++ { // w.all grows while literals are discovered
			w.all[i].lits = nil
			w.analyse(w.all[i])
		}
		// hook closures: literals inside methods named OnXWrapper
		for _, fn := range decls {
			if strings.HasPrefix(fn.name, "On") && strings.HasSuffix(fn.name, "Wrapper") {
				k := strings.TrimSuffix(fn.name, "Wrapper")
				var collect func(f *lkFunc)
				collect = func(f *lkFunc) {
					for _, l := range f.lits {
						w.hooks[k] = lkAppendUnique(w.hooks[k], l)
						collect(l)
					}
				}
				collect(fn)
			}
		}
		funcs = w.all
	}
	if len(w.errs) > 0 {
		sort.Strings(w.errs)
		return "", fmt.Errorf("%d lock site(s) cannot be read:\n  %s", len(w.errs), strings.Join(w.errs, "\n  "))
	}
	// transitive closure of "may acquire"
	for _, fn := range funcs {
		fn.acq = map[string]bool{}
		for l := range fn.direct {
			fn.acq[l] = true
		}
	}
	for changed := true; changed; {
		changed = false
		for _, fn := range funcs {
			for _, c := range fn.calls {
				for _, g := range append(append([]*lkFunc{}, c.callees...), c.lits...) {
					for l := range g.acq {
						if !fn.acq[l] {
							fn.acq[l] = true
							changed = true
						}
					}
				}
			}
		}
	}
	type site struct {
		pos  token.Pos
		what string
	}
	edges := map[[2]string]site{}
	add := func(a, b string, pos token.Pos, what string) {
		k := [2]string{a, b}
		if old, ok := edges[k]; !ok || w.fset.Position(pos).String() < w.fset.Position(old.pos).String() {
			edges[k] = site{pos, what}
		}
	}
	locks := map[string]bool{}
	for _, fn := range funcs {
		for l := range fn.direct {
			locks[l] = true
		}
		for k, pos := range fn.edges {
			add(k[0], k[1], pos, "Lock in "+fn.key)
		}
		for _, c := range fn.calls {
			for _, g := range c.callees {
				for _, h := range c.held {
					for l := range g.acq {
						add(h, l, c.pos, "call of "+g.key+" in "+fn.key)
					}
				}
			}
			for _, lit := range c.lits {
				for l := range lit.acq {
					for _, h := range c.held {
						add(h, l, c.pos, "callback "+lit.key+" passed in "+fn.key)
					}
					// the callee may hold any of its own locks while it runs the callback
					for _, g := range c.callees {
						for h := range g.acq {
							if h != l || g.direct[h] != 0 {
								add(h, l, c.pos, "callback "+lit.key+" run by "+g.key)
							}
						}
					}
				}
			}
		}
	}
	var names []string
	for l := range locks {
		names = append(names, l)
	}
	sort.Strings(names)
	idx := map[string]int{}
	for i, n := range names {
		idx[n] = i
	}
	var keys [][2]string
	for k := range edges {
		keys = append(keys, k)
	}
	sort.Slice(keys, func(i, j int) bool {
		if keys[i][0] != keys[j][0] {
			return keys[i][0] < keys[j][0]
		}
		return keys[i][1] < keys[j][1]
	})
	must := []string{"server.server.mu", "server.server.configMu", "server.packetIDLimiter.cond.L", "server.statsManager.clientMu",
		"persistence/queue/mem.Queue.cond.L", "persistence/subscription/mem.TrieDB.RWMutex", "retained/trie.trieDB.RWMutex",
		"persistence/session/mem.Store.mu"}
	for _, m := range must {
		if !locks[m] {
			return "", fmt.Errorf("mutex %s not found any more (have: %s)", m, strings.Join(names, ", "))
		}
	}
	var b bytes.Buffer
	fmt.Fprintf(&b, "/-- every mutex that is locked somewhere in the tree (`<package dir>.<owner type>.<field>`) -/\ndef lockNames : List String :=\n  %s\n\n", leanStrings(names))
	b.WriteString("/-- (a, b): mutex `lockNames[b]` is acquired — directly, through calls, hooks or callbacks — at a point where\n    `lockNames[a]` may be held. One site per edge:\n")
	for _, k := range keys {
		s := edges[k]
		p := w.fset.Position(s.pos)
		rel, _ := filepath.Rel(repo, p.Filename)
		fmt.Fprintf(&b, "      %s -> %s   (%s:%d, %s)\n", k[0], k[1], filepath.ToSlash(rel), p.Line, s.what)
	}
	fmt.Fprintf(&b, "    calls resolved by method name only (receiver type unknown to the struct table): %d -/\n", w.fallback)
	b.WriteString("def lockEdges : List (Nat × Nat) :=\n  [")
	for i, k := range keys {
		if i > 0 {
			b.WriteString(", ")
		}
		fmt.Fprintf(&b, "(%d, %d)", idx[k[0]], idx[k[1]])
	}
	b.WriteString("]\n\n")
	// witness for acyclicity: a depth-first search marks the edges that close a cycle (`lockFeedback`, empty iff the
	// relation is acyclic); every other edge goes from a lower to a higher `lockRank`. Lean re-checks the witness.
	n := len(names)
	adj := make([][]int, n)
	for _, k := range keys {
		adj[idx[k[0]]] = append(adj[idx[k[0]]], idx[k[1]])
	}
	state := make([]int, n) // 0 new, 1 on the stack, 2 done
	feedback := map[[2]int]bool{}
	var order []int
	var dfs func(v int)
	dfs = func(v int) {
		state[v] = 1
		for _, u := range adj[v] {
			switch state[u] {
			case 0:
				dfs(u)
			case 1:
				feedback[[2]int{v, u}] = true
			}
		}
		state[v] = 2
		order = append(order, v) // reverse topological order of the graph without the feedback edges
	}
	for v := 0; v < n; v++ {
		if state[v] == 0 {
			dfs(v)
		}
	}
	rank := make([]int, n)
	for i := len(order) - 1; i >= 0; i-- {
		v := order[i]
		for _, u := range adj[v] {
			if !feedback[[2]int{v, u}] && rank[u] < rank[v]+1 {
				rank[u] = rank[v] + 1
			}
		}
	}
	b.WriteString("/-- witness: a rank per mutex (index as in `lockNames`) -/\ndef lockRank : List Nat :=\n  [")
	for i, r := range rank {
		if i > 0 {
			b.WriteString(", ")
		}
		fmt.Fprintf(&b, "%d", r)
	}
	b.WriteString("]\n\n")
	b.WriteString("/-- edges that close a cycle (found by depth-first search); empty iff the lock order is acyclic:\n")
	var fb [][2]int
	for k := range feedback {
		fb = append(fb, k)
	}
	sort.Slice(fb, func(i, j int) bool {
		if fb[i][0] != fb[j][0] {
			return fb[i][0] < fb[j][0]
		}
		return fb[i][1] < fb[j][1]
	})
	for _, k := range fb {
		fmt.Fprintf(&b, "      %s -> %s\n", names[k[0]], names[k[1]])
	}
	b.WriteString("-/\ndef lockFeedback : List (Nat × Nat) :=\n  [")
	for i, k := range fb {
		if i > 0 {
			b.WriteString(", ")
		}
		fmt.Fprintf(&b, "(%d, %d)", k[0], k[1])
	}
	b.WriteString("]\n\n")
	return b.String(), nil
}
