package main

// "Called with server.mu held" facts (properties C01 / C05 / C08: every deliverMessage is one atomic step of the broker
// model because it runs under srv.mu; the `…Locked` helpers of package server rely on the same convention).
//
// For every call, in package server, of `deliverMessage` (the method, not the `client.deliverMessage` field) or of a
// function / method whose name ends in `Locked`, the call site is classified by reading the enclosing function (or
// function literal) in source order up to the call:
//
//	2  the enclosing function's own name ends in `Locked` (the convention hands the obligation to ITS callers, which
//	   are classified in turn)
//	1  the last `<x>.mu.Lock()` / `<x>.mu.Unlock()` statement (defers excluded) in front of the call, anywhere in the
//	   enclosing function, is a Lock
//	3  like 1, the "Lock" being a call of `lockDuplicatedID`, which returns with srv.mu held (hand-over to registerClient)
//	4  the call is in `(*deliverHandler).flush` or in a function literal of `newDeliverHandler`, and those two are
//	   used by `deliverMessage` only (they run inside it, under its caller's lock)
//	0  neither: the call runs without the lock as far as this reading can tell
//
// Only methods declared on `*server` count as `…Locked` helpers (the limiter has helpers of the same naming that refer
// to its own lock).
//
// This is a syntactic reading (it does not follow branches: a Lock in one arm of an `if` counts for what follows);
// it is meant to notice a call site that lost its lock, not to prove mutual exclusion.

import (
	"bytes"
	"fmt"
	"go/ast"
	"go/parser"
	"go/token"
	"os"
	"path/filepath"
	"sort"
	"strings"
)

func init() {
	register("MuHeld", "server.mu held at the call sites of deliverMessage and of the …Locked helpers (package server)", muHeldFacts)
}

func muHeldFacts(repo string, w *bytes.Buffer) error {
	fset := token.NewFileSet()
	dir := filepath.Join(repo, "server")
	pkgs, err := parser.ParseDir(fset, dir, func(fi os.FileInfo) bool {
		n := fi.Name()
		return !strings.HasSuffix(n, "_test.go") && !strings.HasSuffix(n, "_mock.go") && !strings.HasPrefix(n, "verif_")
	}, parser.SkipObjectResolution)
	if err != nil {
		return err
	}
	pkg := pkgs["server"]
	if pkg == nil {
		return fmt.Errorf("package server not found in %s", dir)
	}
	type site struct {
		callee, caller string
		code           int
		pos            string
		stats          bool
	}
	var sites []site
	srvMethods := map[string]bool{}
	usedBy := map[string]map[string]bool{} // "flush" / "newDeliverHandler" -> declared functions that mention them
	for _, f := range pkg.Files {
		for _, d := range f.Decls {
			fd, ok := d.(*ast.FuncDecl)
			if !ok || fd.Body == nil {
				continue
			}
			if fd.Recv != nil && len(fd.Recv.List) == 1 {
				if st, ok := fd.Recv.List[0].Type.(*ast.StarExpr); ok && isIdent(st.X, "server") {
					srvMethods[fd.Name.Name] = true
				}
			}
			ast.Inspect(fd.Body, func(n ast.Node) bool {
				if c, ok := n.(*ast.CallExpr); ok {
					nm := ""
					switch f := c.Fun.(type) {
					case *ast.Ident:
						nm = f.Name
					case *ast.SelectorExpr:
						nm = f.Sel.Name
					}
					if nm == "flush" || nm == "newDeliverHandler" {
						if usedBy[nm] == nil {
							usedBy[nm] = map[string]bool{}
						}
						usedBy[nm][fd.Name.Name] = true
					}
				}
				return true
			})
		}
	}
	onlyDeliver := func(nm string) bool { return len(usedBy[nm]) == 1 && usedBy[nm]["deliverMessage"] }
	interesting := func(name string) bool {
		return name == "deliverMessage" || (strings.HasSuffix(name, "Locked") && srvMethods[name])
	}
	// session-scoped statistics events (property C20): they are booked under the client id, and a new session of the same id
	// can be registered as soon as srv.mu is free — so they have to happen inside the critical section that ends / starts the
	// session, or the figures of the next session are wiped by the end of the previous one
	statsSession := func(p string) bool {
		return strings.HasSuffix(p, ".statsManager.sessionTerminated") || strings.HasSuffix(p, ".statsManager.sessionActive") ||
			strings.HasSuffix(p, ".statsManager.clientConnected")
	}
	// scan one function body: `name` is the enclosing declared function, `body` the body of it or of a literal inside it
	var scan func(name string, body *ast.BlockStmt, initial int)
	scan = func(name string, body *ast.BlockStmt, initial int) {
		var deferred []*ast.FuncLit
		type ev struct {
			pos  token.Pos
			lock bool
			hand bool
		}
		var evs []ev
		var calls []*ast.CallExpr
		ast.Inspect(body, func(n ast.Node) bool {
			switch v := n.(type) {
			case *ast.FuncLit:
				scan(name+"·func", v.Body, 0) // a literal runs on its own: classified separately
				return false
			case *ast.DeferStmt:
				// a deferred Unlock keeps the lock to the end; a deferred call of a Locked helper is a call at the end:
				// treat it as a call at the position of the defer (the lock state there is what it will see at best)
				if c := v.Call; c != nil {
					if sel, ok := c.Fun.(*ast.SelectorExpr); ok && interesting(sel.Sel.Name) {
						calls = append(calls, c)
					}
					// a deferred literal runs when the enclosing function returns: it starts in the lock state the function ends in
					if lit, ok := c.Fun.(*ast.FuncLit); ok {
						deferred = append(deferred, lit)
					}
				}
				return false
			case *ast.CallExpr:
				if sel, ok := v.Fun.(*ast.SelectorExpr); ok {
					p := selPath(sel)
					switch {
					case strings.HasSuffix(p, ".mu.Lock"):
						evs = append(evs, ev{v.Pos(), true, false})
					case strings.HasSuffix(p, ".mu.Unlock"):
						evs = append(evs, ev{v.Pos(), false, false})
					case strings.HasSuffix(p, ".lockDuplicatedID"):
						evs = append(evs, ev{v.Pos(), true, true})
					case interesting(sel.Sel.Name) && !strings.HasPrefix(p, "client."):
						calls = append(calls, v)
					case statsSession(p):
						calls = append(calls, v)
					}
				}
			}
			return true
		})
		sort.Slice(evs, func(i, j int) bool { return evs[i].pos < evs[j].pos })
		for _, c := range calls {
			callee := c.Fun.(*ast.SelectorExpr).Sel.Name
			code := initial
			if strings.HasSuffix(name, "Locked") {
				code = 2
			} else if (name == "flush" && onlyDeliver("flush")) || (name == "newDeliverHandler·func" && onlyDeliver("newDeliverHandler")) {
				code = 4
			} else {
				for _, e := range evs {
					if e.pos < c.Pos() {
						if e.lock && e.hand {
							code = 3
						} else if e.lock {
							code = 1
						} else {
							code = 0
						}
					}
				}
			}
			p := fset.Position(c.Pos())
			sites = append(sites, site{callee, name, code, fmt.Sprintf("%s:%d", filepath.Base(p.Filename), p.Line), statsSession(selPath(c.Fun))})
		}
		end := initial
		if strings.HasSuffix(name, "Locked") {
			end = 2
		}
		for _, e := range evs {
			if e.lock && e.hand {
				end = 3
			} else if e.lock {
				end = 1
			} else {
				end = 0
			}
		}
		for _, lit := range deferred {
			scan(name+"·defer", lit.Body, end)
		}
	}
	names := make([]string, 0, len(pkg.Files))
	for n := range pkg.Files {
		names = append(names, n)
	}
	sort.Strings(names)
	for _, fname := range names {
		for _, d := range pkg.Files[fname].Decls {
			if fd, ok := d.(*ast.FuncDecl); ok && fd.Body != nil {
				scan(fd.Name.Name, fd.Body, 0)
			}
		}
	}
	if len(sites) == 0 {
		return fmt.Errorf("no call of deliverMessage / …Locked found in package server")
	}
	nDeliver := 0
	var ss, cs, sts, stc []string
	for _, s := range sites {
		if s.stats {
			sts = append(sts, fmt.Sprintf("%s <- %s (%s)", s.callee, s.caller, s.pos))
			stc = append(stc, fmt.Sprint(s.code))
			continue
		}
		if s.callee == "deliverMessage" {
			nDeliver++
		}
		ss = append(ss, fmt.Sprintf("%s <- %s (%s)", s.callee, s.caller, s.pos))
		cs = append(cs, fmt.Sprint(s.code))
	}
	if nDeliver == 0 {
		return fmt.Errorf("no call of (*server).deliverMessage found")
	}
	// the take-over check of lockDuplicatedID (property C05, Model/Takeover.lean: "is there a session / an online client with this
	// id?" and the registration that follows are ONE critical section): the reads `sessionStore.Get(…)` and `srv.clients[…]`
	// must come after `mu.Lock()` with no `mu.Unlock()` in between (1), not before it (0)
	var tk []string
	for _, fname := range names {
		for _, d := range pkg.Files[fname].Decls {
			fd, ok := d.(*ast.FuncDecl)
			if !ok || fd.Body == nil || fd.Name.Name != "lockDuplicatedID" {
				continue
			}
			tk = mustHeldAtReads(fd.Body)
		}
	}
	if len(tk) == 0 {
		return fmt.Errorf("lockDuplicatedID: no read of sessionStore / srv.clients found")
	}
	fmt.Fprintf(w, "/-- `lockDuplicatedID`: for every read of `sessionStore.Get(…)` / `srv.clients[…]`, in source order: 1 = after `mu.Lock()` with no `mu.Unlock()` in between, 0 = outside the lock -/\ndef takeoverCheckCodes : List Nat :=\n  [%s]\n\n", strings.Join(tk, ", "))
	defStrings(w, "call sites `callee <- enclosing function (file:line)` of deliverMessage and of the …Locked helpers in package server, source order", "muCallSites", ss)
	fmt.Fprintf(w, "/-- for every call site (same order): 2 = inside a …Locked function, 1 = after `mu.Lock()` with no `mu.Unlock()` in between, 3 = after lockDuplicatedID (returns holding mu), 4 = inside deliverMessage's handler, 0 = no lock seen -/\ndef muCallSiteCodes : List Nat :=\n  [%s]\n\n", strings.Join(cs, ", "))
	fmt.Fprintf(w, "/-- number of those sites that call `deliverMessage` -/\ndef muDeliverSites : Nat := %d\n\n", nDeliver)
	defStrings(w, "call sites of the session-scoped statistics events statsManager.sessionTerminated / sessionActive / clientConnected", "statsSessionSites", sts)
	fmt.Fprintf(w, "/-- for every such site, classified like `muCallSiteCodes` -/\ndef statsSessionSiteCodes : List Nat :=\n  [%s]\n\n", strings.Join(stc, ", "))
	return nil
}


// mustHeldAtReads walks a function body keeping "is <x>.mu held on EVERY path that reaches this point" (branches that end in
// return / continue / break do not flow on; after a loop the state is what every `break` carried) and reports it, in source
// order, for every read of `….sessionStore.Get(…)` and `….clients[…]`: "1" held, "0" not (or not on every path).
func mustHeldAtReads(body *ast.BlockStmt) []string {
	type read struct {
		pos  token.Pos
		held bool
	}
	var reads []read
	scanExpr := func(n ast.Node, held bool) {
		if n == nil {
			return
		}
		ast.Inspect(n, func(x ast.Node) bool {
			switch v := x.(type) {
			case *ast.FuncLit:
				return false
			case *ast.CallExpr:
				if strings.HasSuffix(selPath(v.Fun), ".sessionStore.Get") {
					reads = append(reads, read{v.Pos(), held})
				}
			case *ast.IndexExpr:
				if strings.HasSuffix(selPath(v.X), ".clients") {
					reads = append(reads, read{v.Pos(), held})
				}
			}
			return true
		})
	}
	var walk func(stmts []ast.Stmt, held bool, breaks *[]bool) (bool, bool) // (held after, falls through)
	walk = func(stmts []ast.Stmt, held bool, breaks *[]bool) (bool, bool) {
		for _, st := range stmts {
			switch v := st.(type) {
			case *ast.ExprStmt:
				if c, ok := v.X.(*ast.CallExpr); ok {
					switch p := selPath(c.Fun); {
					case strings.HasSuffix(p, ".mu.Lock"):
						held = true
						continue
					case strings.HasSuffix(p, ".mu.Unlock"):
						held = false
						continue
					}
				}
				scanExpr(v, held)
			case *ast.ReturnStmt:
				scanExpr(v, held)
				return held, false
			case *ast.BranchStmt:
				if v.Tok == token.BREAK && breaks != nil {
					*breaks = append(*breaks, held)
				}
				return held, false
			case *ast.BlockStmt:
				h, ft := walk(v.List, held, breaks)
				if !ft {
					return h, false
				}
				held = h
			case *ast.IfStmt:
				scanExpr(v.Init, held)
				scanExpr(v.Cond, held)
				h1, f1 := walk(v.Body.List, held, breaks)
				h2, f2 := held, true
				if v.Else != nil {
					h2, f2 = walk([]ast.Stmt{v.Else}, held, breaks)
				}
				switch {
				case f1 && f2:
					held = h1 && h2
				case f1:
					held = h1
				case f2:
					held = h2
				default:
					return held, false
				}
			case *ast.ForStmt:
				scanExpr(v.Init, held)
				scanExpr(v.Cond, held)
				var bs []bool
				walk(v.Body.List, held, &bs)
				if v.Cond == nil { // `for { … }`: left through `break` only
					if len(bs) == 0 {
						return held, false
					}
					held = true
					for _, b := range bs {
						held = held && b
					}
				}
			default:
				scanExpr(st, held)
			}
		}
		return held, true
	}
	walk(body.List, false, nil)
	sort.Slice(reads, func(i, j int) bool { return reads[i].pos < reads[j].pos })
	var res []string
	for _, r := range reads {
		if r.held {
			res = append(res, "1")
		} else {
			res = append(res, "0")
		}
	}
	return res
}
