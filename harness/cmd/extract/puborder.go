package main

// Order-of-effects facts for an accepted PUBLISH and for a will (properties C07 / C14):
// in (*client).publishHandler and (*server).sendWillLocked, in source order, the positions of
//
//	0  the hook call        srv.hooks.OnMsgArrived(…) / srv.hooks.OnWillPublish(…)
//	1  a retained-store update  srv.retainedDB.Remove(…) / srv.retainedDB.AddOrReplace(…)
//	2  the delivery         client.deliverMessage(…) / srv.deliverMessage(…)
//
// The broker model updates the retained store from what the hook let through and only then delivers; a SUBSCRIBE that is
// handled after the delivery has iterated the subscriptions must find the message in the retained store (otherwise a
// subscriber that arrives in between gets it neither live nor retained). The reading is positional (syntactic).

import (
	"bytes"
	"fmt"
	"go/ast"
	"go/parser"
	"go/token"
	"path/filepath"
	"sort"
	"strings"
)

func init() {
	register("PubOrder", "order of hook / retained update / delivery in publishHandler and sendWillLocked (package server)", pubOrderFacts)
}

func pubOrderFacts(repo string, w *bytes.Buffer) error {
	fset := token.NewFileSet()
	find := func(file, fn string) (*ast.FuncDecl, error) {
		f, err := parser.ParseFile(fset, filepath.Join(repo, "server", file), nil, 0)
		if err != nil {
			return nil, err
		}
		for _, d := range f.Decls {
			if fd, ok := d.(*ast.FuncDecl); ok && fd.Recv != nil && fd.Name.Name == fn {
				return fd, nil
			}
		}
		return nil, fmt.Errorf("method %s not found in server/%s", fn, file)
	}
	emit := func(file, fn, hook, lean string) error {
		fd, err := find(file, fn)
		if err != nil {
			return err
		}
		type ev struct {
			pos  token.Pos
			code int
			s    string
		}
		var evs []ev
		ast.Inspect(fd.Body, func(n ast.Node) bool {
			c, ok := n.(*ast.CallExpr)
			if !ok {
				return true
			}
			p := selPath(c.Fun)
			switch {
			case strings.HasSuffix(p, ".hooks."+hook):
				evs = append(evs, ev{c.Pos(), 0, "hook:" + hook})
			case strings.HasSuffix(p, ".retainedDB.Remove"), strings.HasSuffix(p, ".retainedDB.AddOrReplace"), strings.HasSuffix(p, ".retainedDB.ClearAll"):
				evs = append(evs, ev{c.Pos(), 1, "retained:" + p[strings.LastIndex(p, ".")+1:]})
			case strings.HasSuffix(p, ".deliverMessage"):
				evs = append(evs, ev{c.Pos(), 2, "deliver"})
			}
			return true
		})
		sort.Slice(evs, func(i, j int) bool { return evs[i].pos < evs[j].pos })
		var ss, ns []string
		for _, e := range evs {
			ss = append(ss, e.s)
			ns = append(ns, fmt.Sprint(e.code))
		}
		if len(evs) == 0 {
			return fmt.Errorf("%s: no hook / retained / deliver call found", fn)
		}
		defStrings(w, "`"+fn+"` in source order: the hook call, retained-store updates, the delivery", lean, ss)
		fmt.Fprintf(w, "/-- the same as numbers: 0 hook, 1 retained-store update, 2 delivery -/\ndef %sN : List Nat :=\n  [%s]\n\n", lean, strings.Join(ns, ", "))
		return nil
	}
	if err := emit("client.go", "publishHandler", "OnMsgArrived", "publishOrder"); err != nil {
		return err
	}
	if err := emit("server.go", "sendWillLocked", "OnWillPublish", "willOrder"); err != nil {
		return err
	}
	// the other side of the race: subscribeHandler installs the subscription (3) and then reads the retained store (4)
	fd, err := find("client.go", "subscribeHandler")
	if err != nil {
		return err
	}
	type sev struct {
		pos  token.Pos
		code int
	}
	var sevs []sev
	ast.Inspect(fd.Body, func(n ast.Node) bool {
		if c, ok := n.(*ast.CallExpr); ok {
			switch p := selPath(c.Fun); {
			case strings.HasSuffix(p, ".subscriptionsDB.Subscribe"):
				sevs = append(sevs, sev{c.Pos(), 3})
			case strings.HasSuffix(p, ".retainedDB.GetMatchedMessages"):
				sevs = append(sevs, sev{c.Pos(), 4})
			}
		}
		return true
	})
	sort.Slice(sevs, func(i, j int) bool { return sevs[i].pos < sevs[j].pos })
	var ns []string
	for _, e := range sevs {
		ns = append(ns, fmt.Sprint(e.code))
	}
	fmt.Fprintf(w, "/-- `subscribeHandler` in source order: 3 = the subscription is installed (subscriptionsDB.Subscribe), 4 = the retained store is read for the replay (retainedDB.GetMatchedMessages) -/\ndef subscribeOrderN : List Nat :=\n  [%s]\n\n", strings.Join(ns, ", "))
	return nil
}
