package main

// Join facts of (*client).serve (property C15): which goroutines serve() starts, through which sync.WaitGroup each of
// them is joined, the Add() amounts and the Wait() calls of serve() itself. `internalClose` is deferred first thing in
// serve(), so every Wait() in the body happens before it. Shapes read (anything else is an error):
//
//	defer client.internalClose()                    (must be the first statement)
//	WG.Add(<int literal>)
//	go func() { client.F(); WG.Done() }()           -> (F, WG)
//	go client.F()                                   -> (F, "")    started but never joined
//	WG.Wait()
//
// (also inside the `if ok := client.connectWithTimeOut(); ok { … }` block).

import (
	"bytes"
	"fmt"
	"go/ast"
	"go/parser"
	"go/token"
	"path/filepath"
	"strconv"
)

func init() {
	register("Serve", "serve goroutines (server/client.go serve)", serveFacts)
}

func serveFacts(repo string, w *bytes.Buffer) error {
	fset := token.NewFileSet()
	f, err := parser.ParseFile(fset, filepath.Join(repo, "server", "client.go"), nil, 0)
	if err != nil {
		return err
	}
	var serve *ast.FuncDecl
	for _, d := range f.Decls {
		if fd, ok := d.(*ast.FuncDecl); ok && fd.Name.Name == "serve" && fd.Recv != nil && lkTypeBase(fd.Recv.List[0].Type) == "client" {
			serve = fd
		}
	}
	if serve == nil || serve.Body == nil || len(serve.Body.List) == 0 {
		return fmt.Errorf("(*client).serve not found")
	}
	errf := func(n ast.Node, format string, a ...interface{}) error {
		return fmt.Errorf("%s: %s", fset.Position(n.Pos()), fmt.Sprintf(format, a...))
	}
	first, ok := serve.Body.List[0].(*ast.DeferStmt)
	if !ok || selPath(first.Call.Fun) != "client.internalClose" {
		return errf(serve.Body.List[0], "serve() does not start with `defer client.internalClose()`")
	}
	type gor struct{ fn, wg string }
	var gors []gor
	var waits []string
	type add struct {
		wg string
		n  int
	}
	var adds []add
	var walk func(stmts []ast.Stmt) error
	walk = func(stmts []ast.Stmt) error {
		for _, s := range stmts {
			switch v := s.(type) {
			case *ast.GoStmt:
				switch fn := v.Call.Fun.(type) {
				case *ast.FuncLit:
					g := gor{}
					for _, bs := range fn.Body.List {
						es, ok := bs.(*ast.ExprStmt)
						if !ok {
							return errf(bs, "unexpected statement in a goroutine literal of serve()")
						}
						c, ok := es.X.(*ast.CallExpr)
						if !ok {
							return errf(bs, "unexpected expression in a goroutine literal of serve()")
						}
						p := selPath(c.Fun)
						switch {
						case len(p) > 5 && p[len(p)-5:] == ".Done":
							g.wg = p[:len(p)-5]
						case len(p) > 7 && p[:7] == "client.":
							if g.fn != "" {
								return errf(bs, "two calls in one goroutine literal of serve()")
							}
							g.fn = p[7:]
						default:
							return errf(bs, "unexpected call %s in a goroutine literal of serve()", p)
						}
					}
					if g.fn == "" {
						return errf(v, "goroutine literal of serve() calls no client method")
					}
					gors = append(gors, g)
				default:
					p := selPath(v.Call.Fun)
					if len(p) <= 7 || p[:7] != "client." {
						return errf(v, "unexpected go statement in serve()")
					}
					gors = append(gors, gor{fn: p[7:]})
				}
			case *ast.ExprStmt:
				if c, ok := v.X.(*ast.CallExpr); ok {
					p := selPath(c.Fun)
					switch {
					case len(p) > 4 && p[len(p)-4:] == ".Add" && len(c.Args) == 1:
						lit, ok := c.Args[0].(*ast.BasicLit)
						if !ok {
							return errf(c, "WaitGroup.Add with a non-literal argument in serve()")
						}
						n, _ := strconv.Atoi(lit.Value)
						adds = append(adds, add{p[:len(p)-4], n})
					case len(p) > 5 && p[len(p)-5:] == ".Wait":
						waits = append(waits, p[:len(p)-5])
					}
				}
			case *ast.IfStmt:
				if err := walk(v.Body.List); err != nil {
					return err
				}
				if v.Else != nil {
					return errf(v, "unexpected else in serve()")
				}
			case *ast.BlockStmt:
				if err := walk(v.List); err != nil {
					return err
				}
			}
		}
		return nil
	}
	if err := walk(serve.Body.List[1:]); err != nil {
		return err
	}
	if len(gors) == 0 {
		return fmt.Errorf("serve() starts no goroutine")
	}
	w.WriteString("/-- the goroutines `serve()` starts: (method of client, the WaitGroup whose `Done()` follows it in the same goroutine;\n    \"\" = started with a bare `go`, not joined) -/\ndef serveGoroutines : List (String × String) :=\n  [")
	for i, g := range gors {
		if i > 0 {
			w.WriteString(", ")
		}
		fmt.Fprintf(w, "(%q, %q)", g.fn, g.wg)
	}
	w.WriteString("]\n\n/-- `WG.Add(n)` statements of `serve()` -/\ndef serveAdds : List (String × Nat) :=\n  [")
	for i, a := range adds {
		if i > 0 {
			w.WriteString(", ")
		}
		fmt.Fprintf(w, "(%q, %d)", a.wg, a.n)
	}
	w.WriteString("]\n\n")
	defStrings(w, "`WG.Wait()` calls in the body of `serve()` (all before the deferred `internalClose`)", "serveWaits", waits)
	return connsFacts(repo, w)
}

// connsFacts: `srv.conns` is the set Stop() takes its snapshot of; Stop waits for the `closed` channel of every connection in
// the snapshot. A connection that leaves the set before its `closed` channel is closed can be missed by a Stop that starts in
// between. Fact: every statement `delete(X.conns, …)` of package server, with the function it is in and 1 when it is a top-level
// statement of that function that comes after a top-level `close(Y.closed)`, else 0.
func connsFacts(repo string, w *bytes.Buffer) error {
	files, err := filepath.Glob(filepath.Join(repo, "server", "*.go"))
	if err != nil {
		return err
	}
	fset := token.NewFileSet()
	type del struct {
		fn   string
		code int
	}
	var dels []del
	isCall := func(s ast.Stmt, name, suffix string) bool {
		es, ok := s.(*ast.ExprStmt)
		if !ok {
			return false
		}
		c, ok := es.X.(*ast.CallExpr)
		if !ok || len(c.Args) == 0 {
			return false
		}
		id, ok := c.Fun.(*ast.Ident)
		if !ok || id.Name != name {
			return false
		}
		p := selPath(c.Args[0])
		return len(p) > len(suffix) && p[len(p)-len(suffix):] == suffix
	}
	for _, fn := range files {
		if len(fn) > 8 && fn[len(fn)-8:] == "_test.go" {
			continue
		}
		f, err := parser.ParseFile(fset, fn, nil, 0)
		if err != nil {
			return err
		}
		for _, d := range f.Decls {
			fd, ok := d.(*ast.FuncDecl)
			if !ok || fd.Body == nil {
				continue
			}
			top := map[ast.Stmt]bool{}
			closedSeen := false
			for _, st := range fd.Body.List {
				if isCall(st, "close", ".closed") {
					closedSeen = true
				}
				if isCall(st, "delete", ".conns") && closedSeen {
					top[st] = true
				}
			}
			ast.Inspect(fd.Body, func(n ast.Node) bool {
				st, ok := n.(ast.Stmt)
				if ok && isCall(st, "delete", ".conns") {
					code := 0
					if top[st] {
						code = 1
					}
					dels = append(dels, del{fd.Name.Name, code})
				}
				return true
			})
		}
	}
	// close sites of the per-connection channels: (channel, function, 1 = inside a literal passed to a `.Do(` (sync.Once),
	// 2 = inside a deferred literal at the top of the function, 0 = plain statement)
	type cs struct {
		ch, fn string
		code   int
	}
	var closes []cs
	for _, fn := range files {
		if len(fn) > 8 && fn[len(fn)-8:] == "_test.go" {
			continue
		}
		f, err := parser.ParseFile(fset, fn, nil, 0)
		if err != nil {
			return err
		}
		for _, d := range f.Decls {
			fd, ok := d.(*ast.FuncDecl)
			if !ok || fd.Body == nil {
				continue
			}
			var visit func(n ast.Node, code int)
			visit = func(n ast.Node, code int) {
				ast.Inspect(n, func(x ast.Node) bool {
					switch v := x.(type) {
					case *ast.DeferStmt:
						if lit, ok := v.Call.Fun.(*ast.FuncLit); ok {
							visit(lit.Body, 2)
							return false
						}
					case *ast.CallExpr:
						if p := selPath(v.Fun); len(p) > 3 && p[len(p)-3:] == ".Do" && len(v.Args) == 1 {
							if lit, ok := v.Args[0].(*ast.FuncLit); ok {
								visit(lit.Body, 1)
								return false
							}
						}
						if id, ok := v.Fun.(*ast.Ident); ok && id.Name == "close" && len(v.Args) == 1 {
							if p := selPath(v.Args[0]); len(p) > 7 && p[:7] == "client." {
								closes = append(closes, cs{p, fd.Name.Name, code})
							}
						}
					}
					return true
				})
			}
			visit(fd.Body, 0)
		}
	}
	w.WriteString("/-- every `close(client.<ch>)` of package server: (channel, function, 1 = inside a sync.Once literal, 2 = inside a deferred literal, 0 = plain) -/\ndef closeSites : List (String × String × Nat) :=\n  [")
	for i, c := range closes {
		if i > 0 {
			w.WriteString(", ")
		}
		fmt.Fprintf(w, "(%q, %q, %d)", c.ch, c.fn, c.code)
	}
	w.WriteString("]\n\n")
	w.WriteString("/-- every `delete(X.conns, …)` of package server: (function, 1 = top-level statement after a top-level `close(Y.closed)`) -/\ndef connsDeletes : List (String × Nat) :=\n  [")
	for i, d := range dels {
		if i > 0 {
			w.WriteString(", ")
		}
		fmt.Fprintf(w, "(%q, %d)", d.fn, d.code)
	}
	w.WriteString("]\n\n")
	return nil
}
