package main

// A small Go → Lean translator for loop-free integer code (section BitmapT: pkg/bitmap/bitmap.go, property C03).
//
// Unlike the other sections, which extract facts, this one re-generates an executable Lean definition of every function of
// the file on every run; `Properties/C03Translated.lean` proves the generated definitions equal to the hand-written model
// (`Model/Bitmap.lean`) the limiter theorems are about. A change of the source changes the generated text; if the proofs
// still go through the model still describes the code, if not the tie is broken and the check searches for an input on
// which the translated definition and the model differ.
//
// Fragment understood (anything else is an error, reported as a failed extraction):
//   - functions / methods on a pointer receiver whose struct has fields of unsigned integer or []byte type
//   - statements: `x := e`, `x, y := e1, e2`, `x = e`, `x op= e`, `recv.f[i] op= e`, `recv.f[i] = e`, `if [init;] c {…} [else …]`,
//     `return e`
//   - expressions over unsigned integers: + - % << >> & | &^ (wrapping at the operand type's width, from go/types), comparisons,
//     && || !, constants, conversions T(e), `recv.f`, `recv.f[i]`, `make([]byte, n)`, `&T{f: e, …}`
//
// Semantics of the output: unsigned integers are `Nat` kept below 2^w by explicit `% 2^w` where an operation can exceed it;
// a method returns `(updated receiver, result)`; an `if` that assigns variables becomes a `let` of the tuple of those variables.

import (
	"bytes"
	"fmt"
	"go/ast"
	"go/constant"
	"go/importer"
	"go/parser"
	"go/token"
	"go/types"
	"path/filepath"
	"sort"
	"strings"
)

func init() {
	register("BitmapT", "Lean translation of pkg/bitmap/bitmap.go (every function, regenerated)", bitmapTFacts)
}

type xl struct {
	fset *token.FileSet
	info *types.Info
	recv string // receiver variable name ("" for a plain function)
	err  error
}

func (x *xl) fail(n ast.Node, format string, a ...interface{}) string {
	if x.err == nil {
		x.err = fmt.Errorf("%s: %s", x.fset.Position(n.Pos()), fmt.Sprintf(format, a...))
	}
	return "sorryNotTranslated"
}

func width(t types.Type) int {
	if b, ok := t.Underlying().(*types.Basic); ok {
		switch b.Kind() {
		case types.Uint8:
			return 8
		case types.Uint16:
			return 16
		case types.Uint32:
			return 32
		case types.Uint64, types.Uint, types.Uintptr:
			return 64
		}
	}
	return 0
}

func pow2(w int) string { return fmt.Sprintf("%d", uint64(1)<<uint(w%64)) } // w ≤ 32 in this fragment

func (x *xl) expr(e ast.Expr) string {
	if tv, ok := x.info.Types[e]; ok && tv.Value != nil {
		if tv.Value.Kind() == constant.Int {
			return tv.Value.ExactString()
		}
		if tv.Value.Kind() == constant.Bool {
			return tv.Value.String()
		}
	}
	switch v := e.(type) {
	case *ast.ParenExpr:
		return "(" + x.expr(v.X) + ")"
	case *ast.Ident:
		if v.Name == "true" || v.Name == "false" {
			return v.Name
		}
		return v.Name
	case *ast.SelectorExpr:
		if id, ok := v.X.(*ast.Ident); ok && id.Name == x.recv {
			return x.recv + "." + v.Sel.Name
		}
		return x.fail(e, "selector %s not understood", selPath(e))
	case *ast.IndexExpr:
		return "(" + x.expr(v.X) + ").getD (" + x.expr(v.Index) + ") 0"
	case *ast.UnaryExpr:
		switch v.Op {
		case token.NOT:
			return "¬ (" + x.expr(v.X) + ")"
		case token.AND:
			if cl, ok := v.X.(*ast.CompositeLit); ok {
				return x.composite(cl)
			}
		}
		return x.fail(e, "unary operator %s not understood", v.Op)
	case *ast.CallExpr:
		if id, ok := v.Fun.(*ast.Ident); ok {
			if id.Name == "make" && len(v.Args) == 2 {
				return "Array.replicate (" + x.expr(v.Args[1]) + ") 0"
			}
			if tv, ok := x.info.Types[v.Fun]; ok && tv.IsType() && len(v.Args) == 1 { // conversion
				if w := width(tv.Type); w > 0 && w <= 32 {
					return "((" + x.expr(v.Args[0]) + ") % " + pow2(w) + ")"
				}
			}
		}
		return x.fail(e, "call not understood")
	case *ast.BinaryExpr:
		a, b := x.expr(v.X), x.expr(v.Y)
		w := 0
		if tv, ok := x.info.Types[e]; ok {
			w = width(tv.Type)
		}
		wrap := func(s string) string {
			if w == 0 || w > 32 {
				return x.fail(e, "arithmetic on a type of unknown width")
			}
			return "((" + s + ") % " + pow2(w) + ")"
		}
		switch v.Op {
		case token.ADD:
			return wrap(a + " + " + b)
		case token.SUB:
			return wrap(a + " + " + pow2(w) + " - " + b)
		case token.REM:
			return "(" + a + " % " + b + ")"
		case token.SHL:
			return wrap(a + " <<< " + b)
		case token.SHR:
			return "(" + a + " >>> " + b + ")"
		case token.AND:
			return "(" + a + " &&& " + b + ")"
		case token.OR:
			return "(" + a + " ||| " + b + ")"
		case token.AND_NOT:
			return "(" + a + " ^^^ (" + a + " &&& " + b + "))"
		case token.EQL:
			return "(" + a + " = " + b + ")"
		case token.NEQ:
			return "(" + a + " ≠ " + b + ")"
		case token.LSS:
			return "(" + a + " < " + b + ")"
		case token.LEQ:
			return "(" + a + " ≤ " + b + ")"
		case token.GTR:
			return "(" + a + " > " + b + ")"
		case token.GEQ:
			return "(" + a + " ≥ " + b + ")"
		case token.LOR:
			return "(" + a + " ∨ " + b + ")"
		case token.LAND:
			return "(" + a + " ∧ " + b + ")"
		}
		return x.fail(e, "operator %s not understood", v.Op)
	}
	return x.fail(e, "expression not understood")
}

func (x *xl) composite(cl *ast.CompositeLit) string {
	var fs []string
	for _, el := range cl.Elts {
		kv, ok := el.(*ast.KeyValueExpr)
		if !ok {
			return x.fail(cl, "composite literal without field names")
		}
		fs = append(fs, identName(kv.Key)+" := "+x.expr(kv.Value))
	}
	sort.Strings(fs)
	return "{ " + strings.Join(fs, ", ") + " }"
}

// assigned: variables a statement list may assign (plain identifiers; the receiver when one of its fields / elements is)
func (x *xl) assigned(stmts []ast.Stmt, out map[string]bool) {
	for _, s := range stmts {
		switch v := s.(type) {
		case *ast.AssignStmt:
			if v.Tok == token.DEFINE {
				continue // a new variable of the inner scope
			}
			for _, l := range v.Lhs {
				switch t := l.(type) {
				case *ast.Ident:
					out[t.Name] = true
				default:
					out[x.recv] = true
				}
			}
		case *ast.IncDecStmt:
			if id, ok := v.X.(*ast.Ident); ok {
				out[id.Name] = true
			} else {
				out[x.recv] = true
			}
		case *ast.IfStmt:
			x.assigned(v.Body.List, out)
			if v.Else != nil {
				switch e := v.Else.(type) {
				case *ast.BlockStmt:
					x.assigned(e.List, out)
				case *ast.IfStmt:
					x.assigned([]ast.Stmt{e}, out)
				}
			}
		case *ast.BlockStmt:
			x.assigned(v.List, out)
		}
	}
}

func terminates(stmts []ast.Stmt) bool {
	if len(stmts) == 0 {
		return false
	}
	switch v := stmts[len(stmts)-1].(type) {
	case *ast.ReturnStmt:
		return true
	case *ast.IfStmt:
		if v.Else == nil {
			return false
		}
		switch e := v.Else.(type) {
		case *ast.BlockStmt:
			return terminates(v.Body.List) && terminates(e.List)
		case *ast.IfStmt:
			return terminates(v.Body.List) && terminates([]ast.Stmt{e})
		}
	}
	return false
}

// assignTo: `let <target> := <value>` for an assignment to lhs of the (already combined) value expression
func (x *xl) assignTo(lhs ast.Expr, val string) string {
	switch t := lhs.(type) {
	case *ast.Ident:
		return "let " + t.Name + " := " + val
	case *ast.SelectorExpr:
		if id, ok := t.X.(*ast.Ident); ok && id.Name == x.recv {
			return fmt.Sprintf("let %s := { %s with %s := %s }", x.recv, x.recv, t.Sel.Name, val)
		}
	case *ast.IndexExpr:
		if sel, ok := t.X.(*ast.SelectorExpr); ok {
			if id, ok := sel.X.(*ast.Ident); ok && id.Name == x.recv {
				return fmt.Sprintf("let %s := { %s with %s := %s.%s.setIfInBounds (%s) (%s) }", x.recv, x.recv, sel.Sel.Name, x.recv, sel.Sel.Name,
					x.expr(t.Index), val)
			}
		}
	}
	return x.fail(lhs, "assignment target not understood")
}

var opOfAssign = map[token.Token]token.Token{token.ADD_ASSIGN: token.ADD, token.SUB_ASSIGN: token.SUB, token.OR_ASSIGN: token.OR,
	token.AND_ASSIGN: token.AND, token.AND_NOT_ASSIGN: token.AND_NOT, token.SHL_ASSIGN: token.SHL, token.SHR_ASSIGN: token.SHR, token.REM_ASSIGN: token.REM}

// block translates stmts followed by `rest` (the Lean term for what comes after; "" = nothing follows, the block must terminate)
func (x *xl) block(stmts []ast.Stmt, rest string, ind string) string {
	if len(stmts) == 0 {
		if rest == "" {
			return "default"
		}
		return rest
	}
	s, tail := stmts[0], stmts[1:]
	next := func() string { return x.block(tail, rest, ind) }
	switch v := s.(type) {
	case *ast.ReturnStmt:
		if len(v.Results) != 1 {
			return x.fail(s, "return with %d results", len(v.Results))
		}
		r := x.expr(v.Results[0])
		if tv, ok := x.info.Types[v.Results[0]]; ok {
			if b, ok := tv.Type.Underlying().(*types.Basic); ok && b.Kind() == types.Bool && tv.Value == nil {
				r = "decide " + r
			}
		}
		if x.recv != "" {
			return "(" + x.recv + ", " + r + ")"
		}
		return r
	case *ast.AssignStmt:
		var lets []string
		if v.Tok == token.DEFINE || v.Tok == token.ASSIGN {
			if len(v.Lhs) != len(v.Rhs) {
				return x.fail(s, "assignment arity")
			}
			if len(v.Lhs) > 1 { // parallel: evaluate all right-hand sides first
				var tmp []string
				for i := range v.Rhs {
					tmp = append(tmp, fmt.Sprintf("let tmp%d := %s", i, x.expr(v.Rhs[i])))
				}
				lets = append(lets, tmp...)
				for i := range v.Lhs {
					lets = append(lets, x.assignTo(v.Lhs[i], fmt.Sprintf("tmp%d", i)))
				}
			} else {
				lets = append(lets, x.assignTo(v.Lhs[0], x.expr(v.Rhs[0])))
			}
		} else if op, ok := opOfAssign[v.Tok]; ok && len(v.Lhs) == 1 {
			be := &ast.BinaryExpr{X: v.Lhs[0], Op: op, Y: v.Rhs[0]}
			// the type of `a op= b` is the type of a
			if tv, ok := x.info.Types[v.Lhs[0]]; ok {
				x.info.Types[be] = types.TypeAndValue{Type: tv.Type}
			}
			lets = append(lets, x.assignTo(v.Lhs[0], x.expr(be)))
		} else {
			return x.fail(s, "assignment %s not understood", v.Tok)
		}
		return strings.Join(lets, "\n"+ind) + "\n" + ind + next()
	case *ast.IfStmt:
		pre := ""
		if v.Init != nil {
			pre = x.block([]ast.Stmt{v.Init}, "§", ind)
			pre = strings.TrimSuffix(pre, "§")
		}
		cond := x.expr(v.Cond)
		var elseStmts []ast.Stmt
		switch e := v.Else.(type) {
		case *ast.BlockStmt:
			elseStmts = e.List
		case *ast.IfStmt:
			elseStmts = []ast.Stmt{e}
		}
		if terminates(v.Body.List) {
			// `if c { …; return } [else …]; rest`  =  if c then … else (else-part; rest)
			return pre + "if " + cond + " then\n" + ind + "  " + x.block(v.Body.List, "", ind+"  ") + "\n" + ind + "else\n" + ind + "  " +
				x.block(append(append([]ast.Stmt{}, elseStmts...), tail...), rest, ind+"  ")
		}
		as := map[string]bool{}
		x.assigned(v.Body.List, as)
		x.assigned(elseStmts, as)
		var vars []string
		for k := range as {
			vars = append(vars, k)
		}
		sort.Strings(vars)
		if len(vars) == 0 {
			return next()
		}
		tuple := vars[0]
		if len(vars) > 1 {
			tuple = "(" + strings.Join(vars, ", ") + ")"
		}
		if terminates(elseStmts) {
			return x.fail(s, "an else branch that returns while the then branch falls through")
		}
		return pre + "let " + tuple + " :=\n" + ind + "  if " + cond + " then\n" + ind + "    " + x.block(v.Body.List, tuple, ind+"    ") + "\n" + ind +
			"  else\n" + ind + "    " + x.block(elseStmts, tuple, ind+"    ") + "\n" + ind + next()
	case *ast.BlockStmt:
		return x.block(append(append([]ast.Stmt{}, v.List...), tail...), rest, ind)
	}
	return x.fail(s, "statement not understood")
}

func leanType(t types.Type) (string, bool) {
	switch u := t.Underlying().(type) {
	case *types.Basic:
		if width(t) > 0 {
			return "Nat", true
		}
		if u.Kind() == types.Bool {
			return "Bool", true
		}
	case *types.Slice:
		if width(u.Elem()) > 0 {
			return "Array Nat", true
		}
	}
	return "", false
}

func bitmapTFacts(repo string, w *bytes.Buffer) error {
	return translateFile(filepath.Join(repo, "pkg", "bitmap", "bitmap.go"), "BitmapT", w)
}

func translateFile(path, ns string, w *bytes.Buffer) error {
	fset := token.NewFileSet()
	f, err := parser.ParseFile(fset, path, nil, 0)
	if err != nil {
		return err
	}
	info := &types.Info{Types: map[ast.Expr]types.TypeAndValue{}, Defs: map[*ast.Ident]types.Object{}, Uses: map[*ast.Ident]types.Object{}}
	conf := types.Config{Importer: importer.Default()}
	pkg, err := conf.Check(f.Name.Name, fset, []*ast.File{f}, info)
	if err != nil {
		return err
	}
	fmt.Fprintf(w, "namespace %s\n\n", ns)
	// constants and struct types, in source order
	for _, d := range f.Decls {
		gd, ok := d.(*ast.GenDecl)
		if !ok {
			continue
		}
		for _, sp := range gd.Specs {
			switch s := sp.(type) {
			case *ast.ValueSpec:
				for _, n := range s.Names {
					if c, ok := pkg.Scope().Lookup(n.Name).(*types.Const); ok && c.Val().Kind() == constant.Int {
						fmt.Fprintf(w, "def %s : Nat := %s\n\n", n.Name, c.Val().ExactString())
					}
				}
			case *ast.TypeSpec:
				st, ok := s.Type.(*ast.StructType)
				if !ok {
					continue
				}
				fmt.Fprintf(w, "structure %s where\n", s.Name.Name)
				for _, fl := range st.Fields.List {
					lt, ok := leanType(info.Types[fl.Type].Type)
					if !ok {
						return fmt.Errorf("%s: field type of %s not understood", fset.Position(fl.Pos()), s.Name.Name)
					}
					for _, n := range fl.Names {
						fmt.Fprintf(w, "  %s : %s\n", n.Name, lt)
					}
				}
				fmt.Fprintf(w, "  deriving Repr, Inhabited\n\n")
			}
		}
	}
	for _, d := range f.Decls {
		fd, ok := d.(*ast.FuncDecl)
		if !ok || fd.Body == nil {
			continue
		}
		x := &xl{fset: fset, info: info}
		var params []string
		if fd.Recv != nil && len(fd.Recv.List) == 1 && len(fd.Recv.List[0].Names) == 1 {
			x.recv = fd.Recv.List[0].Names[0].Name
			params = append(params, fmt.Sprintf("(%s : %s)", x.recv, lkTypeBase(fd.Recv.List[0].Type)))
		}
		for _, p := range fd.Type.Params.List {
			lt, ok := leanType(info.Types[p.Type].Type)
			if !ok {
				return fmt.Errorf("%s: parameter type not understood", fset.Position(p.Pos()))
			}
			for _, n := range p.Names {
				params = append(params, fmt.Sprintf("(%s : %s)", n.Name, lt))
			}
		}
		if fd.Type.Results == nil || len(fd.Type.Results.List) != 1 {
			return fmt.Errorf("%s: %s must have exactly one result", fset.Position(fd.Pos()), fd.Name.Name)
		}
		rt := ""
		if st, ok := fd.Type.Results.List[0].Type.(*ast.StarExpr); ok {
			rt = identName(st.X)
		} else if lt, ok := leanType(info.Types[fd.Type.Results.List[0].Type].Type); ok {
			rt = lt
		} else {
			return fmt.Errorf("%s: result type not understood", fset.Position(fd.Pos()))
		}
		if x.recv != "" {
			rt = lkTypeBase(fd.Recv.List[0].Type) + " × " + rt
		}
		body := x.block(fd.Body.List, "", "  ")
		if x.err != nil {
			return x.err
		}
		fmt.Fprintf(w, "/-- %s (%s:%d) -/\ndef %s %s : %s :=\n  %s\n\n", fd.Name.Name, filepath.Base(path), fset.Position(fd.Pos()).Line, fd.Name.Name,
			strings.Join(params, " "), rt, body)
	}
	fmt.Fprintf(w, "end %s\n\n", ns)
	return nil
}
