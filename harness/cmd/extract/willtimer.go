package main

// Delayed-will goroutine facts (property C08, Model/WillTimer.lean): the statements of the goroutine that
// (*server).unregisterClient starts for a delayed will, in order, and the shape of (*willMsg).signal.
//
//	go func(clientID string) {
//		var send bool
//		select { case send = <-wm.send: t.Stop()  case <-t.C: send = true }
//		srv.mu.Lock(); defer srv.mu.Unlock()
//		if srv.willMessage[clientID] == wm { delete(srv.willMessage, clientID) }     // or an unconditional delete
//		if !send { return }
//		srv.sendWillLocked(msg, clientID)
//	}(client.opts.ClientID)
//
// Every statement is rendered as one token; a statement of an unknown shape is an error.

import (
	"bytes"
	"fmt"
	"go/ast"
	"go/parser"
	"go/printer"
	"go/token"
	"path/filepath"
	"strings"
)

func init() {
	register("WillTimer", "will timer (server/server.go unregisterClient delayed-will goroutine, willMsg.signal)", willTimerFacts)
}

func src(fset *token.FileSet, n ast.Node) string {
	var b bytes.Buffer
	_ = printer.Fprint(&b, fset, n)
	return strings.Join(strings.Fields(b.String()), " ")
}

func willTimerFacts(repo string, w *bytes.Buffer) error {
	fset := token.NewFileSet()
	f, err := parser.ParseFile(fset, filepath.Join(repo, "server", "server.go"), nil, 0)
	if err != nil {
		return err
	}
	var unreg, signal *ast.FuncDecl
	for _, d := range f.Decls {
		if fd, ok := d.(*ast.FuncDecl); ok && fd.Recv != nil {
			switch fd.Name.Name {
			case "unregisterClient":
				unreg = fd
			case "signal":
				signal = fd
			}
		}
	}
	if unreg == nil || signal == nil {
		return fmt.Errorf("unregisterClient or willMsg.signal not found in server/server.go")
	}
	// the goroutine: the only `go func(clientID string) {...}` whose body mentions willMessage
	var lit *ast.FuncLit
	n := 0
	ast.Inspect(unreg.Body, func(x ast.Node) bool {
		if g, ok := x.(*ast.GoStmt); ok {
			if fl, ok := g.Call.Fun.(*ast.FuncLit); ok && strings.Contains(src(fset, fl.Body), "willMessage") {
				lit = fl
				n++
			}
		}
		return true
	})
	if n != 1 {
		return fmt.Errorf("expected exactly one delayed-will goroutine in unregisterClient, found %d", n)
	}
	var steps []string
	for _, st := range lit.Body.List {
		s := src(fset, st)
		switch v := st.(type) {
		case *ast.DeclStmt:
			if s != "var send bool" {
				return fmt.Errorf("%s: unknown declaration %q", fset.Position(st.Pos()), s)
			}
		case *ast.SelectStmt:
			var cl []string
			for _, c := range v.Body.List {
				cc := c.(*ast.CommClause)
				if cc.Comm == nil {
					cl = append(cl, "default")
				} else {
					cl = append(cl, src(fset, cc.Comm)+"{"+func() string {
						var bs []string
						for _, b := range cc.Body {
							bs = append(bs, src(fset, b))
						}
						return strings.Join(bs, ";")
					}()+"}")
				}
			}
			steps = append(steps, "select:"+strings.Join(cl, "|"))
		case *ast.ExprStmt:
			switch s {
			case "srv.mu.Lock()":
				steps = append(steps, "lock")
			case "delete(srv.willMessage, clientID)":
				steps = append(steps, "delete-unconditional")
			case "srv.sendWillLocked(msg, clientID)":
				steps = append(steps, "send")
			default:
				return fmt.Errorf("%s: unknown statement %q", fset.Position(st.Pos()), s)
			}
		case *ast.DeferStmt:
			if s != "defer srv.mu.Unlock()" {
				return fmt.Errorf("%s: unknown defer %q", fset.Position(st.Pos()), s)
			}
			steps = append(steps, "defer-unlock")
		case *ast.IfStmt:
			cond := src(fset, v.Cond)
			body := ""
			if len(v.Body.List) == 1 {
				body = src(fset, v.Body.List[0])
			}
			switch {
			case v.Init == nil && v.Else == nil && cond == "srv.willMessage[clientID] == wm" && body == "delete(srv.willMessage, clientID)":
				steps = append(steps, "delete-if-own")
			case v.Init == nil && v.Else == nil && cond == "!send" && body == "return":
				steps = append(steps, "return-unless-send")
			default:
				return fmt.Errorf("%s: unknown if statement %q", fset.Position(st.Pos()), s)
			}
		default:
			return fmt.Errorf("%s: unknown statement %q", fset.Position(st.Pos()), s)
		}
	}
	defStrings(w, "statements of the delayed-will goroutine started by `unregisterClient`, in order", "willGoroutineSteps", steps)
	// signal: `select { case w.send <- send: default: }`
	sig := "blocking"
	if len(signal.Body.List) == 1 {
		if sel, ok := signal.Body.List[0].(*ast.SelectStmt); ok && len(sel.Body.List) == 2 {
			a, b := sel.Body.List[0].(*ast.CommClause), sel.Body.List[1].(*ast.CommClause)
			if a.Comm != nil && src(fset, a.Comm) == "w.send <- send" && len(a.Body) == 0 && b.Comm == nil && len(b.Body) == 0 {
				sig = "non-blocking-send"
			}
		}
	}
	defStrings(w, "shape of `(*willMsg).signal`", "willSignalShape", []string{sig})
	// the channel: `send: make(chan bool, 1)`
	buf := ""
	ast.Inspect(unreg.Body, func(x ast.Node) bool {
		if kv, ok := x.(*ast.KeyValueExpr); ok && identName(kv.Key) == "send" {
			buf = src(fset, kv.Value)
		}
		return true
	})
	defStrings(w, "how `unregisterClient` makes the will's signal channel", "willSignalChannel", []string{buf})

	// every OTHER place of server/server.go that touches the table of pending wills (`srv.willMessage`) or signals a
	// will: "function: innermost statement", in source order. Model/WillTimer.lean transcribes exactly these
	// (terminate = signal(true), resume = signal(false), a discarded session on take-over = signal(true), the entry
	// made by unregisterClient); a new site — or one that starts to delete entries or publish by itself — is a change
	// of the protocol between the goroutine and the rest of the broker that the model has to follow.
	var sites, hs []string
	for _, d := range f.Decls {
		fd, ok := d.(*ast.FuncDecl)
		if !ok || fd.Body == nil {
			continue
		}
		var visit func(stmts []ast.Stmt)
		mentions := func(n ast.Node) bool {
			t := src(fset, n)
			return strings.Contains(t, "willMessage") || strings.Contains(t, ".signal(")
		}
		var walk func(st ast.Stmt)
		walk = func(st ast.Stmt) {
			if st == nil || !mentions(st) {
				return
			}
			if g, ok := st.(*ast.GoStmt); ok {
				if fl, ok := g.Call.Fun.(*ast.FuncLit); ok && fl == lit {
					return // the goroutine itself: read above, statement by statement
				}
			}
			// descend into compound statements whose body (not header) carries the mention
			switch v := st.(type) {
			case *ast.BlockStmt:
				visit(v.List)
				return
			case *ast.IfStmt:
				hdr := (v.Init != nil && mentions(v.Init)) || mentions(v.Cond)
				if !hdr {
					visit(v.Body.List)
					if v.Else != nil {
						walk(v.Else)
					}
					return
				}
			case *ast.ForStmt:
				visit(v.Body.List)
				return
			case *ast.RangeStmt:
				visit(v.Body.List)
				return
			case *ast.DeferStmt:
				if fl, ok := v.Call.Fun.(*ast.FuncLit); ok {
					visit(fl.Body.List)
					return
				}
			case *ast.SwitchStmt:
				for _, c := range v.Body.List {
					visit(c.(*ast.CaseClause).Body)
				}
				return
			case *ast.SelectStmt:
				for _, c := range v.Body.List {
					visit(c.(*ast.CommClause).Body)
				}
				return
			}
			// a statement that contains the goroutine (wm := …; go func…) is split by its children where possible
			if ifs, ok := st.(*ast.IfStmt); ok && strings.Contains(src(fset, ifs.Body), "go func") {
				visit(ifs.Body.List)
				return
			}
			t := src(fset, st)
			if strings.Contains(t, "willMessage: make(") {
				return // the table's creation in the constructor
			}
			sites = append(sites, fd.Name.Name+": "+t)
			hs = append(hs, fmt.Sprint(fnv64(fd.Name.Name+": "+t)))
		}
		visit = func(stmts []ast.Stmt) {
			for _, st := range stmts {
				walk(st)
			}
		}
		visit(fd.Body.List)
	}
	defStrings(w, "every other statement of server/server.go that touches `srv.willMessage` or signals a will (\"function: statement\"), source order", "willSites", sites)
	fmt.Fprintf(w, "/-- FNV-1a-64 fingerprints of `willSites`, same order -/\ndef willSitesH : List Nat :=\n  [%s]\n\n", strings.Join(hs, ", "))
	return nil
}
