// probe_fedrace: stress reproduction of the hook-order race (findings/c16-hook-order-race.md).
// OnUnsubscribedWrapper / OnSubscribedWrapper update localSubStore under its own mutex, release it, and only then take
// memberMu to append the event to the peer queues. Two clients acting on the same topic concurrently can therefore get
// their events queued in the opposite order of their localSubStore updates.
package main

import (
	"fmt"
	"os"
	"runtime"
	"strconv"
	"sync"

	fed "github.com/DrmagicE/gmqtt/plugin/federation"
)

func main() {
	n := 300000
	if len(os.Args) > 1 {
		n, _ = strconv.Atoi(os.Args[1])
	}
	runtime.GOMAXPROCS(runtime.NumCPU())
	bad := 0
	first := -1
	for it := 0; it < n; it++ {
		f := fed.VerifNewFed("A", nil)
		f.NodeJoin("B")
		f.HookSubscribed("c1", "", "t") // c1 is the only subscriber of t; event 0 = Subscribe t
		var wg sync.WaitGroup
		start := make(chan struct{})
		// background contention on memberMu, as membership queries / other publishes cause in production
		stopBg := make(chan struct{})
		var bg sync.WaitGroup
		for k := 0; k < 2; k++ {
			bg.Add(1)
			go func() {
				defer bg.Done()
				for {
					select {
					case <-stopBg:
						return
					default:
						_ = f.Peers()
					}
				}
			}()
		}
		wg.Add(2)
		go func() { defer wg.Done(); <-start; f.HookUnsubscribed("c1", "t") }()
		go func() { defer wg.Done(); <-start; f.HookSubscribed("c2", "", "t") }()
		close(start)
		wg.Wait()
		close(stopBg)
		bg.Wait()
		// replay the queued events the way the peer applies them
		view := false
		var trace []string
		for _, e := range f.PeerQueue("B").Events() {
			if s := e.GetSubscribe(); s != nil {
				view = true
				trace = append(trace, "Subscribe")
			} else if e.GetUnsubscribe() != nil {
				view = false
				trace = append(trace, "Unsubscribe")
			}
		}
		topics, _, _ := f.LocalSubsDump()
		local := len(topics) == 1
		if view != local {
			bad++
			if first < 0 {
				first = it
				fmt.Printf("iteration %d: local subscribers of t: %v (c2 holds it), events queued for the peer: %v => peer's view has t: %v\n",
					it, local, trace, view)
			}
		}
	}
	fmt.Printf("%d of %d iterations end with the peer's view of topic t differing from the local subscription set\n", bad, n)
	if bad > 0 {
		os.Exit(1)
	}
}
