// Command probe_lockorder (property C15, support for `lock_order_acyclic`): a real in-process broker in delivery mode
// "overlap" under three concurrent workloads — PUBLISH to 20 subscribers, a SUBSCRIBE storm, and short-lived new
// connections — for -seconds. Prints `ok ops=<n>` or, when no operation completes for 11 s, `DEADLOCK` (exit 3) with a
// goroutine dump on stderr. On the tree as it was this hits the lock-order cycle
// TrieDB.RWMutex(R) -> Queue.cond.L -> statsManager.clientMu -> TrieDB.RWMutex(R) within a second or two (findings/c15-f50-*).
package main

import (
	"flag"
	"fmt"
	"os"
	"runtime"
	"sync/atomic"
	"time"

	"github.com/DrmagicE/gmqtt/config"
	"github.com/DrmagicE/gmqtt/pkg/packets"

	"verifharness/internal/wire"
)

func main() {
	seconds := flag.Int("seconds", 10, "how long to run")
	flag.Parse()
	cfg := config.DefaultConfig()
	cfg.Listeners = nil
	cfg.API = config.API{}
	cfg.Log.Level = "error"
	cfg.MQTT.DeliveryMode = "overlap"
	b, err := wire.NewBroker(cfg)
	if err != nil {
		panic(err)
	}
	var progress int64
	dial := func(cid string) (*packets.Writer, func()) {
		nc, err := b.Ln.Dial()
		if err != nil {
			panic(err)
		}
		go func() { // drain
			buf := make([]byte, 4096)
			for {
				if _, err := nc.Read(buf); err != nil {
					return
				}
			}
		}()
		w := packets.NewWriter(nc)
		w.WriteAndFlush(&packets.Connect{Version: 4, ProtocolLevel: 4, ProtocolName: []byte("MQTT"), CleanStart: true, ClientID: []byte(cid)})
		return w, func() { nc.Close() }
	}
	// subscribers
	for i := 0; i < 20; i++ {
		w, _ := dial(fmt.Sprintf("sub%d", i))
		w.WriteAndFlush(&packets.Subscribe{Version: 4, PacketID: 1, Topics: []packets.Topic{{Name: "t/#"}}})
	}
	time.Sleep(200 * time.Millisecond)
	// publishers
	for i := 0; i < 4; i++ {
		w, _ := dial(fmt.Sprintf("pub%d", i))
		go func() {
			for {
				if err := w.WriteAndFlush(&packets.Publish{Version: 4, TopicName: []byte("t/x"), Payload: []byte("x")}); err != nil {
					return
				}
				atomic.AddInt64(&progress, 1)
			}
		}()
	}
	// subscribe storm (writers)
	for i := 0; i < 4; i++ {
		w, _ := dial(fmt.Sprintf("storm%d", i))
		go func(i int) {
			for k := 0; ; k++ {
				if err := w.WriteAndFlush(&packets.Subscribe{Version: 4, PacketID: 2, Topics: []packets.Topic{{Name: fmt.Sprintf("s/%d/%d", i, k%50)}}}); err != nil {
					return
				}
				atomic.AddInt64(&progress, 1)
			}
		}(i)
	}
	// new connections (fresh stats entries): connect, subscribe to t/#, go away
	for i := 0; i < 4; i++ {
		go func(i int) {
			for k := 0; ; k++ {
				w, cl := dial(fmt.Sprintf("new%d_%d", i, k))
				w.WriteAndFlush(&packets.Subscribe{Version: 4, PacketID: 1, Topics: []packets.Topic{{Name: "t/#"}}})
				time.Sleep(time.Millisecond)
				cl()
				atomic.AddInt64(&progress, 1)
			}
		}(i)
	}
	last := int64(-1)
	for s := 0; s < *seconds; s++ {
		time.Sleep(time.Second)
		p := atomic.LoadInt64(&progress)
		if p == last {
			// nothing completed in the last second: give a loaded machine ten more before calling it a deadlock
			stalled := true
			for k := 0; k < 10 && stalled; k++ {
				time.Sleep(time.Second)
				stalled = atomic.LoadInt64(&progress) == p
			}
			if stalled {
				fmt.Printf("DEADLOCK after %d s: no operation completed for 11 s\n", s)
				buf := make([]byte, 1<<22)
				n := runtime.Stack(buf, true)
				os.Stderr.Write(buf[:n])
				os.Exit(3)
			}
		}
		last = p
	}
	fmt.Printf("ok ops=%d\n", last)
}
