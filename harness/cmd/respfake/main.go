// Command respfake runs the fake redis on a fixed address (default 127.0.0.1:6379) so that /repo's own
// redis tests (persistence.TestRedis) can be run against it when candidate patches are tried.
// TestRedis starts redis with `docker run …` before every test; `respfake -docker-shim DIR` writes a `docker`
// script into DIR that instead empties the running fake (put DIR first in PATH):
//
//	bin/respfake &  bin/respfake -docker-shim /tmp/shim;  PATH=/tmp/shim:$PATH go test ./persistence/
package main

import (
	"flag"
	"fmt"
	"net"
	"os"
	"os/signal"

	"verifharness/internal/respfake"
)

func main() {
	addr := flag.String("addr", "127.0.0.1:6379", "listen address")
	flush := flag.Bool("flush", false, "client mode: send FLUSHALL to the server at -addr and exit")
	shim := flag.String("docker-shim", "", "write a fake `docker` script into this directory and exit")
	flag.Parse()
	if *shim != "" {
		exe, _ := os.Executable()
		os.MkdirAll(*shim, 0o755)
		script := "#!/bin/sh\ncase \"$1\" in run) " + exe + " -flush -addr " + *addr + " && echo respfake;; esac\nexit 0\n"
		if err := os.WriteFile(*shim+"/docker", []byte(script), 0o755); err != nil {
			fmt.Fprintln(os.Stderr, err)
			os.Exit(1)
		}
		return
	}
	if *flush {
		c, err := net.Dial("tcp", *addr)
		if err != nil {
			fmt.Fprintln(os.Stderr, err)
			os.Exit(1)
		}
		fmt.Fprintf(c, "*1\r\n$8\r\nFLUSHALL\r\n")
		buf := make([]byte, 16)
		c.Read(buf)
		c.Close()
		return
	}
	s := respfake.New()
	if err := s.Listen(*addr); err != nil {
		fmt.Fprintln(os.Stderr, err)
		os.Exit(1)
	}
	fmt.Println("respfake listening on", s.Addr())
	ch := make(chan os.Signal, 1)
	signal.Notify(ch, os.Interrupt)
	<-ch
	s.Close()
}
