// Package drv is the line-protocol loop shared by all component drivers:
// one output line per input line, same protocol as the Lean oracle (lean/Driver).
package drv

import (
	"bufio"
	"fmt"
	"os"
	"strconv"
)

// Component consumes one op line and returns one canonical output line.
type Component interface {
	Step(line string) string
}

// Main runs the loop on stdin/stdout.
func Main(c Component) {
	in := bufio.NewScanner(os.Stdin)
	in.Buffer(make([]byte, 1<<20), 1<<26)
	out := bufio.NewWriterSize(os.Stdout, 1<<16)
	defer out.Flush()
	for in.Scan() {
		out.WriteString(SafeStep(c, in.Text()))
		out.WriteByte('\n')
	}
}

// SafeStep recovers panics of the code under test and reports them as output.
func SafeStep(c Component, line string) (res string) {
	defer func() {
		if r := recover(); r != nil {
			res = "panic"
			if os.Getenv("VERIF_PANIC_DETAIL") != "" {
				res = fmt.Sprintf("panic %v", r)
			}
		}
	}()
	return c.Step(line)
}

// Atoi parses a decimal, 0 on error.
func Atoi(s string) int { n, _ := strconv.Atoi(s); return n }
