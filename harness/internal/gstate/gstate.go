// Package gstate decides "this goroutine / this in-process broker is waiting for external input" from goroutine
// states instead of from elapsed time, so that drivers can report a blocked call quickly and without false alarms
// on a loaded machine.
package gstate

import (
	"bytes"
	"runtime"
	"strings"
)

var waiting = map[string]bool{
	"select": true, "chan receive": true, "sync.Cond.Wait": true, "IO wait": true, "sync.WaitGroup.Wait": true,
	"select (no cases)": true, "chan receive (nil chan)": true, "sleep": true, "sync.Mutex.Lock": false,
}

func dump() [][]byte {
	buf := make([]byte, 1<<18)
	for {
		n := runtime.Stack(buf, true)
		if n < len(buf) {
			return bytes.Split(buf[:n], []byte("\n\n"))
		}
		buf = make([]byte, 2*len(buf))
	}
}

func state(g []byte) string {
	nl := bytes.IndexByte(g, '\n')
	if nl < 0 {
		nl = len(g)
	}
	head := string(g[:nl])
	lb, rb := strings.IndexByte(head, '['), strings.LastIndexByte(head, ']')
	if lb < 0 || rb < lb {
		return "?"
	}
	st := head[lb+1 : rb]
	if i := strings.IndexByte(st, ','); i >= 0 { // "IO wait, 2 minutes"
		st = st[:i]
	}
	return st
}

// AllWaiting reports whether at least `min` goroutines have `substr` in their stack and every one of them is parked
// in a wait that only external input (a packet, a timer, a call) ends. The calling goroutine is ignored.
func AllWaiting(substr string, min int) bool {
	gs := dump()
	n := 0
	for i, g := range gs {
		if i == 0 || !bytes.Contains(g, []byte(substr)) {
			continue
		}
		n++
		if !waiting[state(g)] {
			return false
		}
	}
	return n >= min
}

// InState reports whether some goroutine with `substr` in its stack is in exactly the given state (e.g. "IO wait").
func InState(substr, st string) bool {
	for i, g := range dump() {
		if i != 0 && bytes.Contains(g, []byte(substr)) && state(g) == st {
			return true
		}
	}
	return false
}
