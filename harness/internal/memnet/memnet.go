// Package memnet is an in-memory net.Listener built on net.Pipe, so that real
// broker connections run through serve()/readLoop/writeLoop without OS networking.
package memnet

import (
	"errors"
	"io"
	"net"
	"sync"
	"sync/atomic"
	"time"
)

// writeReturnDelay (ns): the server side's Write hands the bytes to the peer at once and returns this much later — a
// socket whose write call comes back after the peer has already seen (and may have answered) the data.
var writeReturnDelay int64

// SetWriteReturnDelay sets the delay for all server-side connections (0 = off).
func SetWriteReturnDelay(d time.Duration) { atomic.StoreInt64(&writeReturnDelay, int64(d)) }

type addr string

func (a addr) Network() string { return "mem" }
func (a addr) String() string  { return string(a) }

// Listener hands the server side of a net.Pipe to Accept for every Dial.
type Listener struct {
	ch     chan net.Conn
	closed chan struct{}
	once   sync.Once
}

func Listen() *Listener {
	return &Listener{ch: make(chan net.Conn), closed: make(chan struct{})}
}

func (l *Listener) Accept() (net.Conn, error) {
	select {
	case c := <-l.ch:
		return c, nil
	case <-l.closed:
		return nil, errors.New("memnet: listener closed")
	}
}

func (l *Listener) Close() error {
	l.once.Do(func() { close(l.closed) })
	return nil
}

func (l *Listener) Addr() net.Addr { return addr("mem") }

// srvConn is the server side of a connection. Besides the synchronous pipe it can be handed bytes "already received":
// Read serves them, then reports EOF — what a TCP receiver sees when the peer wrote and closed in one go (data and FIN
// both queued before the reader looks), which a net.Pipe alone cannot express because its writes are synchronous.
type srvConn struct {
	net.Conn
	mu     sync.Mutex
	inject []byte
	eof    bool
}

func (s *srvConn) Read(p []byte) (int, error) {
	if n, err, ok := s.fromInject(p); ok {
		return n, err
	}
	n, err := s.Conn.Read(p)
	if err != nil && n == 0 {
		if n2, err2, ok := s.fromInject(p); ok {
			return n2, err2
		}
	}
	return n, err
}

func (s *srvConn) Write(p []byte) (int, error) {
	n, err := s.Conn.Write(p)
	if d := atomic.LoadInt64(&writeReturnDelay); d > 0 && err == nil {
		time.Sleep(time.Duration(d))
	}
	return n, err
}

func (s *srvConn) fromInject(p []byte) (int, error, bool) {
	s.mu.Lock()
	defer s.mu.Unlock()
	if len(s.inject) > 0 {
		n := copy(p, s.inject)
		s.inject = s.inject[n:]
		return n, nil, true
	}
	if s.eof {
		return 0, io.EOF, true
	}
	return 0, nil, false
}

// Client is the client side of a connection.
type Client struct {
	net.Conn
	peer *srvConn
}

// WriteThenEOF makes b and the end of the stream available to the server side at once and closes the client side:
// the server reads b (in as many Reads as it likes) and then EOF, with no scheduling gap in between.
func (c *Client) WriteThenEOF(b []byte) error {
	c.peer.mu.Lock()
	c.peer.inject = append(c.peer.inject, b...)
	c.peer.eof = true
	c.peer.mu.Unlock()
	return c.Conn.Close()
}

// Dial returns the client side of a fresh connection (nil error unless the listener is closed).
func (l *Listener) Dial() (net.Conn, error) {
	c0, s0 := net.Pipe()
	s := &srvConn{Conn: s0}
	c := &Client{Conn: c0, peer: s}
	select {
	case l.ch <- s:
		return c, nil
	case <-l.closed:
		c.Close()
		s.Close()
		return nil, errors.New("memnet: listener closed")
	}
}
