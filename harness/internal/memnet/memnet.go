// Package memnet is an in-memory net.Listener built on net.Pipe, so that real
// broker connections run through serve()/readLoop/writeLoop without OS networking.
package memnet

import (
	"errors"
	"net"
	"sync"
)

type addr string

func (a addr) Network() string { return "mem" }
func (a addr) String() string  { return string(a) }

// Listener hands the server side of a net.Pipe to Accept for every Dial.
type Listener struct {
	ch     chan net.Conn
	closed chan struct{}
	once   sync.Once
}

func Listen() *Listener {
	return &Listener{ch: make(chan net.Conn), closed: make(chan struct{})}
}

func (l *Listener) Accept() (net.Conn, error) {
	select {
	case c := <-l.ch:
		return c, nil
	case <-l.closed:
		return nil, errors.New("memnet: listener closed")
	}
}

func (l *Listener) Close() error {
	l.once.Do(func() { close(l.closed) })
	return nil
}

func (l *Listener) Addr() net.Addr { return addr("mem") }

// Dial returns the client side of a fresh connection (nil error unless the listener is closed).
func (l *Listener) Dial() (net.Conn, error) {
	c, s := net.Pipe()
	select {
	case l.ch <- s:
		return c, nil
	case <-l.closed:
		c.Close()
		s.Close()
		return nil, errors.New("memnet: listener closed")
	}
}
