// Package mqttcli is a small, independently written decoder for the packets an MQTT 3.1.1 / 5 SERVER sends
// to a client. The scripted clients of the wire harness use it instead of gmqtt's own (server-side) decoder,
// which e.g. rejects Subscription Identifiers in PUBLISH.
package mqttcli

import (
	"bufio"
	"errors"
	"fmt"
	"io"
)

const (
	CONNACK    = 2
	PUBLISH    = 3
	PUBACK     = 4
	PUBREC     = 5
	PUBREL     = 6
	PUBCOMP    = 7
	SUBACK     = 9
	UNSUBACK   = 11
	PINGRESP   = 13
	DISCONNECT = 14
	AUTH       = 15
)

// Prop is one decoded property.
type Prop struct {
	ID  byte
	Num uint32 // byte / u16 / u32 / varint kinds
	Bin []byte // string / binary kinds (for user properties: key)
	Val []byte // user property value
}

// Packet is a decoded server-to-client packet.
type Packet struct {
	Type           byte
	Flags          byte
	Raw            int // total encoded length
	SessionPresent bool
	Code           byte
	HasCode        bool
	PacketID       uint16
	Topic          []byte
	Payload        []byte
	Qos            byte
	Retain         bool
	Dup            bool
	Codes          []byte
	Props          []Prop
	HasProps       bool
}

// Get returns the first property with the id.
func (p *Packet) Get(id byte) (Prop, bool) {
	for _, x := range p.Props {
		if x.ID == id {
			return x, true
		}
	}
	return Prop{}, false
}

// All returns the numeric values of every property with the id.
func (p *Packet) All(id byte) []uint32 {
	var r []uint32
	for _, x := range p.Props {
		if x.ID == id {
			r = append(r, x.Num)
		}
	}
	return r
}

var ErrMalformed = errors.New("mqttcli: malformed packet from server")

type rd struct {
	b []byte
	i int
}

func (r *rd) left() int { return len(r.b) - r.i }
func (r *rd) u8() (byte, error) {
	if r.left() < 1 {
		return 0, ErrMalformed
	}
	r.i++
	return r.b[r.i-1], nil
}
func (r *rd) u16() (uint16, error) {
	if r.left() < 2 {
		return 0, ErrMalformed
	}
	r.i += 2
	return uint16(r.b[r.i-2])<<8 | uint16(r.b[r.i-1]), nil
}
func (r *rd) u32() (uint32, error) {
	if r.left() < 4 {
		return 0, ErrMalformed
	}
	r.i += 4
	return uint32(r.b[r.i-4])<<24 | uint32(r.b[r.i-3])<<16 | uint32(r.b[r.i-2])<<8 | uint32(r.b[r.i-1]), nil
}
func (r *rd) bin() ([]byte, error) {
	n, err := r.u16()
	if err != nil || r.left() < int(n) {
		return nil, ErrMalformed
	}
	r.i += int(n)
	return r.b[r.i-int(n) : r.i], nil
}
func (r *rd) varint() (uint32, error) {
	var v uint32
	for k := 0; k < 4; k++ {
		b, err := r.u8()
		if err != nil {
			return 0, err
		}
		v |= uint32(b&0x7f) << (7 * uint(k))
		if b&0x80 == 0 {
			return v, nil
		}
	}
	return 0, ErrMalformed
}

// property kinds
var kind = map[byte]byte{ // 1 byte, 2 u16, 4 u32, 'v' varint, 's' string/binary, 'p' pair
	0x01: 1, 0x02: 4, 0x03: 's', 0x08: 's', 0x09: 's', 0x0B: 'v', 0x11: 4, 0x12: 's', 0x13: 2, 0x15: 's', 0x16: 's',
	0x17: 1, 0x18: 4, 0x19: 1, 0x1A: 's', 0x1C: 's', 0x1F: 's', 0x21: 2, 0x22: 2, 0x23: 2, 0x24: 1, 0x25: 1, 0x26: 'p',
	0x27: 4, 0x28: 1, 0x29: 1, 0x2A: 1,
}

func (r *rd) props() ([]Prop, error) {
	n, err := r.varint()
	if err != nil || r.left() < int(n) {
		return nil, ErrMalformed
	}
	sub := &rd{b: r.b[r.i : r.i+int(n)]}
	r.i += int(n)
	var ps []Prop
	for sub.left() > 0 {
		id, _ := sub.u8()
		p := Prop{ID: id}
		switch kind[id] {
		case 1:
			v, e := sub.u8()
			p.Num, err = uint32(v), e
		case 2:
			v, e := sub.u16()
			p.Num, err = uint32(v), e
		case 4:
			p.Num, err = sub.u32()
		case 'v':
			p.Num, err = sub.varint()
		case 's':
			p.Bin, err = sub.bin()
		case 'p':
			p.Bin, err = sub.bin()
			if err == nil {
				p.Val, err = sub.bin()
			}
		default:
			return nil, fmt.Errorf("mqttcli: unknown property 0x%02x", id)
		}
		if err != nil {
			return nil, ErrMalformed
		}
		ps = append(ps, p)
	}
	return ps, nil
}

// Read reads one packet from the stream. v5 selects MQTT 5 decoding.
func Read(br *bufio.Reader, v5 bool) (*Packet, error) {
	h, err := br.ReadByte()
	if err != nil {
		return nil, err
	}
	var rl, hdr = 0, 1
	for k := 0; ; k++ {
		b, err := br.ReadByte()
		if err != nil {
			return nil, err
		}
		hdr++
		rl |= int(b&0x7f) << (7 * uint(k))
		if b&0x80 == 0 {
			break
		}
		if k == 3 {
			return nil, ErrMalformed
		}
	}
	body := make([]byte, rl)
	if _, err := io.ReadFull(br, body); err != nil {
		return nil, err
	}
	p := &Packet{Type: h >> 4, Flags: h & 0x0f, Raw: hdr + rl}
	r := &rd{b: body}
	switch p.Type {
	case CONNACK:
		f, e1 := r.u8()
		c, e2 := r.u8()
		if e1 != nil || e2 != nil {
			return nil, ErrMalformed
		}
		p.SessionPresent, p.Code, p.HasCode = f&1 == 1, c, true
		if v5 {
			if p.Props, err = r.props(); err != nil {
				return nil, err
			}
			p.HasProps = true
		}
	case PUBLISH:
		p.Dup, p.Qos, p.Retain = p.Flags&8 != 0, (p.Flags>>1)&3, p.Flags&1 != 0
		if p.Topic, err = r.bin(); err != nil {
			return nil, err
		}
		if p.Qos > 0 {
			if p.PacketID, err = r.u16(); err != nil {
				return nil, ErrMalformed
			}
		}
		if v5 {
			if p.Props, err = r.props(); err != nil {
				return nil, err
			}
			p.HasProps = true
		}
		p.Payload = body[r.i:]
		r.i = len(body)
	case PUBACK, PUBREC, PUBREL, PUBCOMP:
		if p.PacketID, err = r.u16(); err != nil {
			return nil, ErrMalformed
		}
		if v5 && r.left() > 0 {
			p.Code, _ = r.u8()
			p.HasCode = true
			if r.left() > 0 {
				if p.Props, err = r.props(); err != nil {
					return nil, err
				}
				p.HasProps = true
			}
		}
	case SUBACK, UNSUBACK:
		if p.PacketID, err = r.u16(); err != nil {
			return nil, ErrMalformed
		}
		if v5 {
			if p.Props, err = r.props(); err != nil {
				return nil, err
			}
			p.HasProps = true
		}
		p.Codes = body[r.i:]
		r.i = len(body)
	case PINGRESP:
	case DISCONNECT, AUTH:
		if v5 && r.left() > 0 {
			p.Code, _ = r.u8()
			p.HasCode = true
			if r.left() > 0 {
				if p.Props, err = r.props(); err != nil {
					return nil, err
				}
				p.HasProps = true
			}
		}
	default:
		return nil, fmt.Errorf("mqttcli: unexpected packet type %d from server", p.Type)
	}
	if r.left() != 0 {
		return nil, ErrMalformed
	}
	return p, nil
}
