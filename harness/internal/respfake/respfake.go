// Package respfake is an in-process RESP2 server that stands in for redis in the verification harness.
//
// It implements exactly the commands gmqtt's redis persistence backend issues
// (AUTH SELECT PING SCAN DEL EXISTS TYPE KEYS HSET HDEL HGET HMGET HGETALL HLEN LLEN LRANGE LREM LSET RPUSH LPUSH LINDEX
// EXPIRE FLUSHDB FLUSHALL) with real redis semantics (reply shapes, negative list indices, keys vanish when they
// become empty, WRONGTYPE errors, cursor based SCAN that may return empty pages),
// keeps a JOURNAL of every command in execution order, and can be re-created from a journal PREFIX:
// "the broker died after write command k" = New() + Load(first k write entries).
//
// All commands are executed under one mutex, so the journal order is the execution order (redis is single threaded).
package respfake

import (
	"bufio"
	"bytes"
	"errors"
	"fmt"
	"io"
	"net"
	"sort"
	"strconv"
	"strings"
	"sync"
)

// Entry is one executed command.
type Entry struct {
	DB    int
	Args  [][]byte // Args[0] is the command name as sent
	Write bool     // the command may change the dataset
	Err   bool     // the reply was an error (the dataset did not change)
}

// Name returns the upper-cased command name.
func (e Entry) Name() string { return strings.ToUpper(string(e.Args[0])) }

type kind int

const (
	kHash kind = iota + 1
	kList
)

type value struct {
	k      kind
	fields [][]byte // hash: field names in insertion order
	hvals  map[string][]byte
	list   [][]byte
}

type db map[string]*value

// Server is one fake redis instance.
type Server struct {
	mu       sync.Mutex
	ln       net.Listener
	dbs      map[int]db
	journal  []Entry
	password string
	conns    map[net.Conn]struct{}
	closed   bool
	wg       sync.WaitGroup
	// ScanCount is the default number of keys examined by one SCAN call. Redis examines about 10 buckets per call and applies
	// MATCH afterwards, so a call may return no key and a non-zero cursor at any point of a scan; with 2 keys per call that
	// happens in almost every scan of a store with a few clients (sorted key order: queue:* before session:* before sub:*).
	ScanCount int
	// failNext > 0: the next dataset command is answered with an error and NOT executed (fault injection: a READONLY
	// replica, an OOM reply, …); decremented per command.
	failNext int
	// OnExec, when set, is called (with the server's lock held) for every dataset command before it runs.
	OnExec func(name string, args [][]byte)
}

// FailNext makes the next n dataset commands fail with an error reply without executing them.
func (s *Server) FailNext(n int) {
	s.mu.Lock()
	s.failNext = n
	s.mu.Unlock()
}

// New creates a server without a listener (dataset + journal only).
func New() *Server {
	return &Server{dbs: map[int]db{}, conns: map[net.Conn]struct{}{}, ScanCount: 2}
}

// Start creates a server listening on 127.0.0.1:<free port>.
func Start() (*Server, error) {
	s := New()
	if err := s.Listen("127.0.0.1:0"); err != nil {
		return nil, err
	}
	return s, nil
}

// SetPassword makes AUTH mandatory.
func (s *Server) SetPassword(p string) { s.password = p }

// Listen starts accepting connections on addr.
func (s *Server) Listen(addr string) error {
	ln, err := net.Listen("tcp", addr)
	if err != nil {
		return err
	}
	s.ln = ln
	s.wg.Add(1)
	go s.acceptLoop()
	return nil
}

// Addr returns host:port of the listener.
func (s *Server) Addr() string { return s.ln.Addr().String() }

// Close stops the listener and all connections.
func (s *Server) Close() {
	s.mu.Lock()
	s.closed = true
	if s.ln != nil {
		s.ln.Close()
	}
	for c := range s.conns {
		c.Close()
	}
	s.mu.Unlock()
	s.wg.Wait()
}

func (s *Server) acceptLoop() {
	defer s.wg.Done()
	for {
		c, err := s.ln.Accept()
		if err != nil {
			return
		}
		s.mu.Lock()
		if s.closed {
			s.mu.Unlock()
			c.Close()
			return
		}
		s.conns[c] = struct{}{}
		s.mu.Unlock()
		s.wg.Add(1)
		go s.serve(c)
	}
}

// ---------------------------------------------------------------- journal

// Journal returns a copy of all entries.
func (s *Server) Journal() []Entry {
	s.mu.Lock()
	defer s.mu.Unlock()
	return append([]Entry(nil), s.journal...)
}

// JournalLen returns the number of entries so far.
func (s *Server) JournalLen() int {
	s.mu.Lock()
	defer s.mu.Unlock()
	return len(s.journal)
}

// Writes returns the successful write commands of a journal, in order: the crash points lie between them.
func Writes(j []Entry) []Entry {
	var w []Entry
	for _, e := range j {
		if e.Write && !e.Err {
			w = append(w, e)
		}
	}
	return w
}

// Load executes the given entries on the dataset (without any connection). Entries are appended to the journal.
func (s *Server) Load(es []Entry) {
	for _, e := range es {
		s.Exec(e.DB, e.Args)
	}
}

// FromJournal returns a fresh server (not listening) whose dataset is the result of the given entries.
func FromJournal(es []Entry) *Server {
	s := New()
	s.Load(es)
	s.mu.Lock()
	s.journal = nil
	s.mu.Unlock()
	return s
}

// ResetJournal forgets the journal, keeps the dataset.
func (s *Server) ResetJournal() {
	s.mu.Lock()
	s.journal = nil
	s.mu.Unlock()
}

// Dump renders the dataset of db 0 canonically (sorted keys), one line per key.
func (s *Server) Dump() []string {
	s.mu.Lock()
	defer s.mu.Unlock()
	d := s.dbs[0]
	keys := make([]string, 0, len(d))
	for k := range d {
		keys = append(keys, k)
	}
	sort.Strings(keys)
	var out []string
	for _, k := range keys {
		v := d[k]
		var parts []string
		if v.k == kHash {
			for _, f := range v.fields {
				parts = append(parts, Esc(f)+"="+Esc(v.hvals[string(f)]))
			}
			out = append(out, "hash:"+Esc([]byte(k))+"{"+strings.Join(parts, ",")+"}")
		} else {
			for _, e := range v.list {
				parts = append(parts, Esc(e))
			}
			out = append(out, "list:"+Esc([]byte(k))+"["+strings.Join(parts, ",")+"]")
		}
	}
	return out
}

// Esc renders bytes as one token without spaces, commas, brackets or '=': safe bytes as they are, the rest %XX. Empty = "~".
func Esc(b []byte) string {
	if len(b) == 0 {
		return "~"
	}
	var sb strings.Builder
	for _, c := range b {
		if c >= 'a' && c <= 'z' || c >= 'A' && c <= 'Z' || c >= '0' && c <= '9' || c == ':' || c == '_' || c == '.' || c == '/' ||
			c == '+' || c == '#' || c == '$' || c == '*' || c == '-' {
			sb.WriteByte(c)
		} else {
			fmt.Fprintf(&sb, "%%%02X", c)
		}
	}
	return sb.String()
}

// Show renders a command as `name,arg,arg…` with the name lower-cased.
func Show(args [][]byte) string {
	parts := make([]string, len(args))
	for i, a := range args {
		if i == 0 {
			parts[i] = strings.ToLower(string(a))
		} else {
			parts[i] = Esc(a)
		}
	}
	return strings.Join(parts, ",")
}

// ---------------------------------------------------------------- protocol

func (s *Server) serve(c net.Conn) {
	defer s.wg.Done()
	defer func() {
		c.Close()
		s.mu.Lock()
		delete(s.conns, c)
		s.mu.Unlock()
	}()
	r := bufio.NewReader(c)
	w := bufio.NewWriter(c)
	st := &connState{authed: s.password == ""}
	for {
		args, err := readCommand(r)
		if err != nil {
			return
		}
		if len(args) == 0 {
			continue
		}
		rep := s.execConn(st, args)
		rep.write(w)
		// flush only when no further pipelined command is already buffered
		if r.Buffered() == 0 {
			if err := w.Flush(); err != nil {
				return
			}
		}
	}
}

type connState struct {
	db     int
	authed bool
}

var errProto = errors.New("protocol error")

func readLine(r *bufio.Reader) ([]byte, error) {
	l, err := r.ReadBytes('\n')
	if err != nil {
		return nil, err
	}
	if len(l) < 2 || l[len(l)-2] != '\r' {
		return nil, errProto
	}
	return l[:len(l)-2], nil
}

func readCommand(r *bufio.Reader) ([][]byte, error) {
	l, err := readLine(r)
	if err != nil {
		return nil, err
	}
	if len(l) == 0 {
		return nil, nil
	}
	if l[0] != '*' { // inline command
		var args [][]byte
		for _, f := range bytes.Fields(l) {
			args = append(args, f)
		}
		return args, nil
	}
	n, err := strconv.Atoi(string(l[1:]))
	if err != nil || n < 0 || n > 1<<20 {
		return nil, errProto
	}
	args := make([][]byte, 0, n)
	for i := 0; i < n; i++ {
		h, err := readLine(r)
		if err != nil {
			return nil, err
		}
		if len(h) == 0 || h[0] != '$' {
			return nil, errProto
		}
		ln, err := strconv.Atoi(string(h[1:]))
		if err != nil || ln < 0 || ln > 512<<20 {
			return nil, errProto
		}
		b := make([]byte, ln+2)
		if _, err := io.ReadFull(r, b); err != nil {
			return nil, err
		}
		args = append(args, b[:ln])
	}
	return args, nil
}

// Reply is a RESP2 value.
type Reply struct {
	Kind  byte // '+' '-' ':' '$' '*'
	Str   []byte
	Int   int64
	Nil   bool
	Elems []Reply
}

func (r Reply) write(w *bufio.Writer) {
	switch r.Kind {
	case '+', '-':
		w.WriteByte(r.Kind)
		w.Write(r.Str)
		w.WriteString("\r\n")
	case ':':
		fmt.Fprintf(w, ":%d\r\n", r.Int)
	case '$':
		if r.Nil {
			w.WriteString("$-1\r\n")
			return
		}
		fmt.Fprintf(w, "$%d\r\n", len(r.Str))
		w.Write(r.Str)
		w.WriteString("\r\n")
	case '*':
		if r.Nil {
			w.WriteString("*-1\r\n")
			return
		}
		fmt.Fprintf(w, "*%d\r\n", len(r.Elems))
		for _, e := range r.Elems {
			e.write(w)
		}
	}
}

func okR() Reply           { return Reply{Kind: '+', Str: []byte("OK")} }
func errR(s string) Reply  { return Reply{Kind: '-', Str: []byte(s)} }
func intR(n int) Reply     { return Reply{Kind: ':', Int: int64(n)} }
func bulk(b []byte) Reply  { return Reply{Kind: '$', Str: b} }
func nilBulk() Reply       { return Reply{Kind: '$', Nil: true} }
func arr(es []Reply) Reply { return Reply{Kind: '*', Elems: es} }
func bulks(bs [][]byte) Reply {
	es := make([]Reply, len(bs))
	for i, b := range bs {
		es[i] = bulk(b)
	}
	return arr(es)
}
func wrongType() Reply {
	return errR("WRONGTYPE Operation against a key holding the wrong kind of value")
}
func wrongArgs(c string) Reply {
	return errR("ERR wrong number of arguments for '" + strings.ToLower(c) + "' command")
}

func (s *Server) execConn(st *connState, args [][]byte) Reply {
	name := strings.ToUpper(string(args[0]))
	switch name {
	case "AUTH":
		if len(args) != 2 {
			return wrongArgs(name)
		}
		if s.password == "" {
			return errR("ERR Client sent AUTH, but no password is set")
		}
		if string(args[1]) != s.password {
			return errR("ERR invalid password")
		}
		st.authed = true
		return okR()
	}
	if !st.authed {
		return errR("NOAUTH Authentication required.")
	}
	switch name {
	case "SELECT":
		if len(args) != 2 {
			return wrongArgs(name)
		}
		n, err := strconv.Atoi(string(args[1]))
		if err != nil {
			return errR("ERR invalid DB index")
		}
		if n < 0 || n > 15 {
			return errR("ERR DB index is out of range")
		}
		st.db = n
		return okR()
	case "PING":
		if len(args) == 2 {
			return bulk(args[1])
		}
		return Reply{Kind: '+', Str: []byte("PONG")}
	case "ECHO":
		if len(args) != 2 {
			return wrongArgs(name)
		}
		return bulk(args[1])
	case "QUIT":
		return okR()
	}
	return s.Exec(st.db, args)
}

var writeCmds = map[string]bool{"DEL": true, "HSET": true, "HMSET": true, "HDEL": true, "LREM": true, "LSET": true, "RPUSH": true, "LPUSH": true,
	"EXPIRE": true, "FLUSHDB": true, "FLUSHALL": true}

// Exec runs one dataset command on database dbi and journals it.
func (s *Server) Exec(dbi int, args [][]byte) Reply {
	s.mu.Lock()
	defer s.mu.Unlock()
	cp := make([][]byte, len(args))
	for i, a := range args {
		cp[i] = append([]byte(nil), a...)
	}
	name := strings.ToUpper(string(args[0]))
	if s.OnExec != nil {
		s.OnExec(name, cp)
	}
	var rep Reply
	if s.failNext > 0 {
		s.failNext--
		rep = errR("ERR injected fault")
	} else {
		rep = s.exec(dbi, name, cp)
	}
	s.journal = append(s.journal, Entry{DB: dbi, Args: cp, Write: writeCmds[name], Err: rep.Kind == '-'})
	return rep
}

func (s *Server) getDB(i int) db {
	d := s.dbs[i]
	if d == nil {
		d = db{}
		s.dbs[i] = d
	}
	return d
}

func parseInt(b []byte) (int, bool) {
	n, err := strconv.ParseInt(string(b), 10, 64)
	return int(n), err == nil
}

const errNotInt = "ERR value is not an integer or out of range"

func (s *Server) exec(dbi int, name string, a [][]byte) Reply {
	d := s.getDB(dbi)
	switch name {
	case "DEL":
		if len(a) < 2 {
			return wrongArgs(name)
		}
		n := 0
		for _, k := range a[1:] {
			if _, ok := d[string(k)]; ok {
				delete(d, string(k))
				n++
			}
		}
		return intR(n)
	case "EXISTS":
		if len(a) < 2 {
			return wrongArgs(name)
		}
		n := 0
		for _, k := range a[1:] {
			if _, ok := d[string(k)]; ok {
				n++
			}
		}
		return intR(n)
	case "TYPE":
		if len(a) != 2 {
			return wrongArgs(name)
		}
		v := d[string(a[1])]
		t := "none"
		if v != nil {
			if v.k == kHash {
				t = "hash"
			} else {
				t = "list"
			}
		}
		return Reply{Kind: '+', Str: []byte(t)}
	case "EXPIRE": // accepted; time never passes in the harness
		if len(a) != 3 {
			return wrongArgs(name)
		}
		if _, ok := parseInt(a[2]); !ok {
			return errR(errNotInt)
		}
		if _, ok := d[string(a[1])]; ok {
			return intR(1)
		}
		return intR(0)
	case "FLUSHDB":
		s.dbs[dbi] = db{}
		return okR()
	case "FLUSHALL":
		s.dbs = map[int]db{}
		return okR()
	case "KEYS":
		if len(a) != 2 {
			return wrongArgs(name)
		}
		var ks [][]byte
		for _, k := range sortedKeys(d) {
			if globMatch(a[1], []byte(k)) {
				ks = append(ks, []byte(k))
			}
		}
		return bulks(ks)
	case "SCAN":
		return s.scan(d, a)
	case "HSET", "HMSET":
		if len(a) < 4 || len(a)%2 != 0 {
			return wrongArgs(name)
		}
		v := d[string(a[1])]
		if v != nil && v.k != kHash {
			return wrongType()
		}
		if v == nil {
			v = &value{k: kHash, hvals: map[string][]byte{}}
			d[string(a[1])] = v
		}
		n := 0
		for i := 2; i < len(a); i += 2 {
			if _, ok := v.hvals[string(a[i])]; !ok {
				v.fields = append(v.fields, a[i])
				n++
			}
			v.hvals[string(a[i])] = a[i+1]
		}
		if name == "HMSET" {
			return okR()
		}
		return intR(n)
	case "HDEL":
		if len(a) < 3 {
			return wrongArgs(name)
		}
		v := d[string(a[1])]
		if v == nil {
			return intR(0)
		}
		if v.k != kHash {
			return wrongType()
		}
		n := 0
		for _, f := range a[2:] {
			if _, ok := v.hvals[string(f)]; ok {
				delete(v.hvals, string(f))
				for i, x := range v.fields {
					if bytes.Equal(x, f) {
						v.fields = append(v.fields[:i:i], v.fields[i+1:]...)
						break
					}
				}
				n++
			}
		}
		if len(v.fields) == 0 {
			delete(d, string(a[1]))
		}
		return intR(n)
	case "HGET":
		if len(a) != 3 {
			return wrongArgs(name)
		}
		v := d[string(a[1])]
		if v == nil {
			return nilBulk()
		}
		if v.k != kHash {
			return wrongType()
		}
		if x, ok := v.hvals[string(a[2])]; ok {
			return bulk(x)
		}
		return nilBulk()
	case "HMGET":
		if len(a) < 3 {
			return wrongArgs(name)
		}
		v := d[string(a[1])]
		if v != nil && v.k != kHash {
			return wrongType()
		}
		es := make([]Reply, 0, len(a)-2)
		for _, f := range a[2:] {
			if v != nil {
				if x, ok := v.hvals[string(f)]; ok {
					es = append(es, bulk(x))
					continue
				}
			}
			es = append(es, nilBulk())
		}
		return arr(es)
	case "HGETALL":
		if len(a) != 2 {
			return wrongArgs(name)
		}
		v := d[string(a[1])]
		if v == nil {
			return arr(nil)
		}
		if v.k != kHash {
			return wrongType()
		}
		var es [][]byte
		for _, f := range v.fields {
			es = append(es, f, v.hvals[string(f)])
		}
		return bulks(es)
	case "HLEN":
		if len(a) != 2 {
			return wrongArgs(name)
		}
		v := d[string(a[1])]
		if v == nil {
			return intR(0)
		}
		if v.k != kHash {
			return wrongType()
		}
		return intR(len(v.fields))
	case "LLEN":
		if len(a) != 2 {
			return wrongArgs(name)
		}
		v := d[string(a[1])]
		if v == nil {
			return intR(0)
		}
		if v.k != kList {
			return wrongType()
		}
		return intR(len(v.list))
	case "RPUSH", "LPUSH":
		if len(a) < 3 {
			return wrongArgs(name)
		}
		v := d[string(a[1])]
		if v != nil && v.k != kList {
			return wrongType()
		}
		if v == nil {
			v = &value{k: kList}
			d[string(a[1])] = v
		}
		for _, x := range a[2:] {
			if name == "RPUSH" {
				v.list = append(v.list, x)
			} else {
				v.list = append([][]byte{x}, v.list...)
			}
		}
		return intR(len(v.list))
	case "LRANGE":
		if len(a) != 4 {
			return wrongArgs(name)
		}
		start, ok1 := parseInt(a[2])
		stop, ok2 := parseInt(a[3])
		if !ok1 || !ok2 {
			return errR(errNotInt)
		}
		v := d[string(a[1])]
		if v == nil {
			return arr(nil)
		}
		if v.k != kList {
			return wrongType()
		}
		n := len(v.list)
		if start < 0 {
			start += n
		}
		if stop < 0 {
			stop += n
		}
		if start < 0 {
			start = 0
		}
		if start > stop || start >= n {
			return arr(nil)
		}
		if stop >= n {
			stop = n - 1
		}
		return bulks(v.list[start : stop+1])
	case "LINDEX":
		if len(a) != 3 {
			return wrongArgs(name)
		}
		i, ok := parseInt(a[2])
		if !ok {
			return errR(errNotInt)
		}
		v := d[string(a[1])]
		if v == nil {
			return nilBulk()
		}
		if v.k != kList {
			return wrongType()
		}
		if i < 0 {
			i += len(v.list)
		}
		if i < 0 || i >= len(v.list) {
			return nilBulk()
		}
		return bulk(v.list[i])
	case "LSET":
		if len(a) != 4 {
			return wrongArgs(name)
		}
		i, ok := parseInt(a[2])
		if !ok {
			return errR(errNotInt)
		}
		v := d[string(a[1])]
		if v == nil {
			return errR("ERR no such key")
		}
		if v.k != kList {
			return wrongType()
		}
		if i < 0 {
			i += len(v.list)
		}
		if i < 0 || i >= len(v.list) {
			return errR("ERR index out of range")
		}
		v.list[i] = a[3]
		return okR()
	case "LREM":
		if len(a) != 4 {
			return wrongArgs(name)
		}
		cnt, ok := parseInt(a[2])
		if !ok {
			return errR(errNotInt)
		}
		v := d[string(a[1])]
		if v == nil {
			return intR(0)
		}
		if v.k != kList {
			return wrongType()
		}
		removed := 0
		var out [][]byte
		if cnt >= 0 {
			for _, x := range v.list {
				if bytes.Equal(x, a[3]) && (cnt == 0 || removed < cnt) {
					removed++
					continue
				}
				out = append(out, x)
			}
		} else {
			for i := len(v.list) - 1; i >= 0; i-- {
				x := v.list[i]
				if bytes.Equal(x, a[3]) && removed < -cnt {
					removed++
					continue
				}
				out = append([][]byte{x}, out...)
			}
		}
		v.list = out
		if len(v.list) == 0 {
			delete(d, string(a[1]))
		}
		return intR(removed)
	}
	return errR("ERR unknown command '" + string(a[0]) + "'")
}

func sortedKeys(d db) []string {
	ks := make([]string, 0, len(d))
	for k := range d {
		ks = append(ks, k)
	}
	sort.Strings(ks)
	return ks
}

// scan: the cursor is an index into the sorted key space; every call examines COUNT keys and returns those that match.
// Like redis it may return an empty page with a non-zero cursor. (No guarantee problems arise: the dataset does not change during a scan
// in the harness; if it does, keys may be missed or repeated exactly as redis permits for keys added/removed during the scan.)
func (s *Server) scan(d db, a [][]byte) Reply {
	if len(a) < 2 || len(a)%2 != 0 {
		return wrongArgs("scan")
	}
	cur, ok := parseInt(a[1])
	if !ok || cur < 0 {
		return errR("ERR invalid cursor")
	}
	count := s.ScanCount
	var pat []byte
	for i := 2; i < len(a); i += 2 {
		switch strings.ToUpper(string(a[i])) {
		case "MATCH":
			pat = a[i+1]
		case "COUNT":
			n, ok := parseInt(a[i+1])
			if !ok || n < 1 {
				return errR("ERR syntax error")
			}
			count = n
		case "TYPE":
		default:
			return errR("ERR syntax error")
		}
	}
	ks := sortedKeys(d)
	var page [][]byte
	end := cur + count
	if end > len(ks) {
		end = len(ks)
	}
	for i := cur; i < end; i++ {
		if pat == nil || globMatch(pat, []byte(ks[i])) {
			page = append(page, []byte(ks[i]))
		}
	}
	next := end
	if end >= len(ks) {
		next = 0
	}
	return arr([]Reply{bulk([]byte(strconv.Itoa(next))), bulks(page)})
}

// globMatch implements redis' stringmatchlen (case sensitive): * ? [abc] [^abc] [a-z] \x
func globMatch(p, s []byte) bool {
	for len(p) > 0 {
		switch p[0] {
		case '*':
			for len(p) > 1 && p[1] == '*' {
				p = p[1:]
			}
			if len(p) == 1 {
				return true
			}
			for i := 0; i <= len(s); i++ {
				if globMatch(p[1:], s[i:]) {
					return true
				}
			}
			return false
		case '?':
			if len(s) == 0 {
				return false
			}
			s = s[1:]
			p = p[1:]
		case '[':
			if len(s) == 0 {
				return false
			}
			p = p[1:]
			not := len(p) > 0 && p[0] == '^'
			if not {
				p = p[1:]
			}
			match := false
			for {
				if len(p) == 0 {
					break
				}
				if p[0] == '\\' && len(p) >= 2 {
					p = p[1:]
					if p[0] == s[0] {
						match = true
					}
				} else if p[0] == ']' {
					break
				} else if len(p) >= 3 && p[1] == '-' {
					lo, hi := p[0], p[2]
					if lo > hi {
						lo, hi = hi, lo
					}
					p = p[2:]
					if s[0] >= lo && s[0] <= hi {
						match = true
					}
				} else if p[0] == s[0] {
					match = true
				}
				p = p[1:]
			}
			if not {
				match = !match
			}
			if !match {
				return false
			}
			s = s[1:]
			if len(p) > 0 {
				p = p[1:]
			}
		case '\\':
			if len(p) >= 2 {
				p = p[1:]
			}
			fallthrough
		default:
			if len(s) == 0 || p[0] != s[0] {
				return false
			}
			s = s[1:]
			p = p[1:]
		}
	}
	return len(s) == 0
}
