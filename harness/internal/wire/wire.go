// Package wire runs a real gmqtt broker in-process behind an in-memory listener and drives it with
// scripted MQTT clients that speak through /repo's own codec. Every received packet is recorded.
// Causality is established by exact quiescence detection (goroutine states), never by sleeping.
package wire

import (
	"bufio"
	"bytes"
	"context"
	"errors"
	"fmt"
	"io"
	"net"
	"runtime"
	"sort"
	"strings"
	"sync"
	"time"

	"github.com/DrmagicE/gmqtt/config"
	_ "github.com/DrmagicE/gmqtt/persistence"
	"github.com/DrmagicE/gmqtt/pkg/packets"
	"github.com/DrmagicE/gmqtt/server"
	_ "github.com/DrmagicE/gmqtt/topicalias/fifo"

	"verifharness/internal/memnet"
	"verifharness/internal/mqttcli"
)

// Srv is what server.New returns (its concrete type is unexported).
type Srv interface {
	server.Server
	Run() error
	VerifSessionExpireCheck()
	VerifBackdate(clientID string, d time.Duration) bool
	VerifCounts() (online, offline, wills, queues, unacks int)
}

// Broker is one broker instance plus its scripted connections.
type Broker struct {
	Srv     Srv
	Ln      *memnet.Listener
	Conns   map[string]*Conn
	runDone chan error
	Hang    bool
}

// Conn is one scripted client connection.
type Conn struct {
	Name     string
	ClientID string
	Version  packets.Version
	c        net.Conn
	w        *packets.Writer
	mu       sync.Mutex
	recv     []*mqttcli.Packet
	eof      bool
	readErr  error
	taken    int
	eofTaken bool
	paused   bool
	gate     *sync.Cond
	cw       *countWriter
	sent     []SentRec
}

// SentRec is one packet the scripted client has written completely (ground truth for the broker's statistics).
type SentRec struct {
	Type  byte // MQTT control packet type
	Bytes int  // encoded size
	Qos   byte // PUBLISH only
}

type countWriter struct {
	w net.Conn
	n int
}

func (c *countWriter) Write(b []byte) (int, error) {
	n, err := c.w.Write(b)
	c.n += n
	return n, err
}

// NewBroker starts a broker with the given config and options (plugins, hooks…).
func NewBroker(cfg config.Config, opts ...server.Options) (*Broker, error) {
	ln := memnet.Listen()
	all := append([]server.Options{server.WithConfig(cfg), server.WithTCPListener(ln)}, opts...)
	srv := server.New(all...)
	b := &Broker{Srv: Srv(srv), Ln: ln, Conns: map[string]*Conn{}, runDone: make(chan error, 1)}
	if err := srv.Init(); err != nil {
		return nil, err
	}
	go func() { b.runDone <- srv.Run() }()
	return b, nil
}

// Stop stops the broker; returns false if Stop did not return within the timeout.
func (b *Broker) Stop(timeout time.Duration) bool {
	ctx, cancel := context.WithTimeout(context.Background(), timeout)
	defer cancel()
	done := make(chan struct{})
	go func() { b.Srv.Stop(ctx); close(done) }()
	ok := true
	select {
	case <-done:
		if ctx.Err() != nil {
			ok = false
		}
	case <-time.After(timeout + time.Second):
		ok = false
	}
	for _, c := range b.Conns {
		c.c.Close()
	}
	return ok
}

// Dial opens a new scripted connection.
func (b *Broker) Dial(name string) (*Conn, error) {
	nc, err := b.Ln.Dial()
	if err != nil {
		return nil, err
	}
	cw := &countWriter{w: nc}
	c := &Conn{Name: name, c: nc, w: packets.NewWriter(cw), cw: cw, Version: packets.Version311}
	b.Conns[name] = c
	return c, nil
}

// Pause stops the scripted client from reading: the broker's writeLoop then blocks on its next write to this
// connection (net.Pipe is synchronous) and further packets pile up in the client's `out` channel. Call only when the
// broker is quiescent (the reader is then waiting for the first byte of the next packet).
func (c *Conn) Pause() {
	c.mu.Lock()
	c.paused = true
	c.mu.Unlock()
	_ = c.c.SetReadDeadline(time.Unix(1, 0)) // wake the blocked read
}

// Resume lets the reader continue.
func (c *Conn) Resume() {
	c.mu.Lock()
	c.paused = false
	if c.gate != nil {
		c.gate.Broadcast()
	}
	c.mu.Unlock()
}

// StartReader begins recording packets from the broker; call after the protocol version is known.
func (c *Conn) StartReader() {
	go c.readLoop()
}

func (c *Conn) readLoop() {
	br := bufio.NewReader(c.c)
	c.mu.Lock()
	c.gate = sync.NewCond(&c.mu)
	c.mu.Unlock()
	for {
		c.mu.Lock()
		for c.paused {
			c.gate.Wait()
		}
		c.mu.Unlock()
		_ = c.c.SetReadDeadline(time.Time{})
		p, err := mqttcli.Read(br, c.Version == packets.Version5)
		c.mu.Lock()
		if err != nil && c.paused {
			if ne, ok := err.(net.Error); ok && ne.Timeout() {
				c.mu.Unlock()
				continue // interrupted by Pause while waiting for the next packet
			}
		}
		if err != nil {
			c.eof = true
			c.readErr = err
			c.mu.Unlock()
			return
		}
		c.recv = append(c.recv, p)
		c.mu.Unlock()
	}
}

// Send writes one packet (blocks until the broker's read loop has consumed it).
func (c *Conn) Send(p packets.Packet) error {
	c.c.SetWriteDeadline(time.Now().Add(3 * time.Second))
	before := c.cw.n
	err := c.w.WriteAndFlush(p)
	if err == nil {
		r := SentRec{Type: PacketType(p), Bytes: c.cw.n - before}
		if pub, ok := p.(*packets.Publish); ok {
			r.Qos = pub.Qos
		}
		c.mu.Lock()
		c.sent = append(c.sent, r)
		c.mu.Unlock()
	}
	return err
}

// PacketType returns the MQTT control packet type of p (0 if unknown).
func PacketType(p packets.Packet) byte {
	switch p.(type) {
	case *packets.Connect:
		return packets.CONNECT
	case *packets.Connack:
		return packets.CONNACK
	case *packets.Publish:
		return packets.PUBLISH
	case *packets.Puback:
		return packets.PUBACK
	case *packets.Pubrec:
		return packets.PUBREC
	case *packets.Pubrel:
		return packets.PUBREL
	case *packets.Pubcomp:
		return packets.PUBCOMP
	case *packets.Subscribe:
		return packets.SUBSCRIBE
	case *packets.Suback:
		return packets.SUBACK
	case *packets.Unsubscribe:
		return packets.UNSUBSCRIBE
	case *packets.Unsuback:
		return packets.UNSUBACK
	case *packets.Pingreq:
		return packets.PINGREQ
	case *packets.Pingresp:
		return packets.PINGRESP
	case *packets.Disconnect:
		return packets.DISCONNECT
	case *packets.Auth:
		return packets.AUTH
	}
	return 0
}

// Sent returns every packet written completely so far.
func (c *Conn) Sent() []SentRec {
	c.mu.Lock()
	defer c.mu.Unlock()
	return append([]SentRec(nil), c.sent...)
}

// Received returns every packet decoded so far (independent of Take).
func (c *Conn) Received() []*mqttcli.Packet {
	c.mu.Lock()
	defer c.mu.Unlock()
	return append([]*mqttcli.Packet(nil), c.recv...)
}

// SendRaw writes raw bytes.
func (c *Conn) SendRaw(b []byte) error {
	c.c.SetWriteDeadline(time.Now().Add(3 * time.Second))
	_, err := c.c.Write(b)
	if err == nil && len(b) > 0 {
		c.mu.Lock()
		c.sent = append(c.sent, SentRec{Type: b[0] >> 4, Bytes: len(b), Qos: (b[0] >> 1) & 3})
		c.mu.Unlock()
	}
	return err
}

// WriteRaw writes raw bytes without recording them (the caller records the packets with NoteSent).
func (c *Conn) WriteRaw(b []byte) error {
	// the pipe hands bytes over one reader buffer at a time: a large packet needs many rendez-vous with the broker's reader,
	// which can take long on a loaded machine — the allowance grows with the size (a 64 KiB CONNECT gets 11 s)
	c.c.SetWriteDeadline(time.Now().Add(3*time.Second + time.Duration(len(b)/8192)*time.Second))
	_, err := c.c.Write(b)
	return err
}

// Close closes the socket abruptly.
func (c *Conn) Close() { c.c.Close() }

// NoteSent records a packet that leaves inside a raw write (ground truth for the statistics checks).
func (c *Conn) NoteSent(typ byte, n int, qos byte) {
	c.mu.Lock()
	c.sent = append(c.sent, SentRec{Type: typ, Bytes: n, Qos: qos})
	c.mu.Unlock()
}

// SendRawThenClose hands b and the end of the stream to the broker at once (see memnet.Client.WriteThenEOF).
func (c *Conn) SendRawThenClose(b []byte) error {
	if w, ok := c.c.(interface{ WriteThenEOF([]byte) error }); ok {
		return w.WriteThenEOF(b)
	}
	c.c.SetWriteDeadline(time.Now().Add(3 * time.Second))
	_, err := c.c.Write(b)
	c.Close()
	return err
}

// Take returns the packets received since the previous Take, and whether EOF was newly observed.
func (c *Conn) Take() (ps []*mqttcli.Packet, eof bool) {
	c.mu.Lock()
	defer c.mu.Unlock()
	ps = append(ps, c.recv[c.taken:]...)
	c.taken = len(c.recv)
	if c.eof && !c.eofTaken {
		c.eofTaken = true
		eof = true
	}
	return
}

// ReadErr returns the error that ended the reader.
func (c *Conn) ReadErr() error {
	c.mu.Lock()
	defer c.mu.Unlock()
	return c.readErr
}

// EOF reports whether the broker side has closed the connection.
func (c *Conn) EOF() bool {
	c.mu.Lock()
	defer c.mu.Unlock()
	return c.eof
}

var okStates = map[string]bool{
	"select": true, "chan receive": true, "sync.Cond.Wait": true, "IO wait": true,
	"sync.WaitGroup.Wait": true, "select (no cases)": true, "chan receive (nil chan)": true,
}

// ExtraBusy, when set, is asked about every broker goroutine that is parked in a state which normally counts as
// "waiting for external input": returning true keeps it busy. (cmd/drive_broker/redis.go: a goroutine in `IO wait`
// inside the redigo client is waiting for the reply of the in-process fake redis, not for external input.)
var ExtraBusy func(state, stack string) bool

// busyGoroutines returns descriptions of broker / harness goroutines that are not parked in a wait
// that only external input (a packet, a timer, a call) can end.
func busyGoroutines() []string {
	buf := make([]byte, 1<<20)
	for {
		n := runtime.Stack(buf, true)
		if n < len(buf) {
			buf = buf[:n]
			break
		}
		buf = make([]byte, 2*len(buf))
	}
	var busy []string
	first := true
	for _, g := range bytes.Split(buf, []byte("\n\n")) {
		if first { // the calling goroutine
			first = false
			continue
		}
		s := string(g)
		if !strings.Contains(s, "github.com/DrmagicE/gmqtt/") && !strings.Contains(s, "verifharness/internal/wire.(*Conn).readLoop") {
			continue
		}
		nl := strings.IndexByte(s, '\n')
		if nl < 0 {
			continue
		}
		head := s[:nl]
		lb, rb := strings.IndexByte(head, '['), strings.LastIndexByte(head, ']')
		if lb < 0 || rb < lb {
			continue
		}
		state := head[lb+1 : rb]
		if i := strings.IndexByte(state, ','); i >= 0 { // "select, 2 minutes"
			state = state[:i]
		}
		if okStates[state] && !(ExtraBusy != nil && ExtraBusy(state, s)) {
			continue
		}
		fn := ""
		for _, l := range strings.Split(s[nl+1:], "\n") {
			if strings.Contains(l, "gmqtt/") && !strings.HasPrefix(l, "\t") {
				fn = l
				break
			}
		}
		busy = append(busy, state+" @ "+fn)
	}
	return busy
}

// Quiesce waits until every broker goroutine is parked waiting for external input and every harness reader
// has recorded what was sent. Returns false (and the offending goroutines) on timeout.
func Quiesce(timeout time.Duration) (bool, []string) {
	deadline := time.Now().Add(timeout)
	var busy []string
	for i := 0; ; i++ {
		runtime.Gosched()
		busy = busyGoroutines()
		if len(busy) == 0 {
			// confirm: a goroutine that was about to be woken must show up as runnable in a second snapshot
			runtime.Gosched()
			if busy = busyGoroutines(); len(busy) == 0 {
				return true, nil
			}
		}
		if time.Now().After(deadline) {
			sort.Strings(busy)
			return false, busy
		}
		if i > 50 {
			time.Sleep(50 * time.Microsecond)
		}
	}
}

// ErrHang is reported when the broker does not become quiescent.
var ErrHang = errors.New("broker did not become quiescent")

var _ = io.EOF
var _ = fmt.Sprint
