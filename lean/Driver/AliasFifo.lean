import GmqttVerif.Model.AliasFifo
import Driver.Common
/- line protocol for the outbound topic alias manager (C13): new <max> | check <topic> | pub <topic> -/
namespace Driver.AliasFifo
open GmqttVerif.Alias Driver

structure S where
  max : Nat := 0
  q   : Fifo String := Fifo.new 0
  ok  : Bool := false

def showPkt (p : Pkt String) : String :=
  let t := match p.topic with | some t => (if t.isEmpty then "-" else t) | none => "-"
  let a := match p.alias with | some a => toString a | none => "-"
  t ++ " " ++ a

def step (s : S) (line : String) : S × String :=
  match words line with
  | ["new", m] =>
    if (natOf m) > 65535 then (s, "bad-op") else ({ max := natOf m, q := Fifo.new (natOf m), ok := true }, "ok")
  | ["check", t] =>
    if !s.ok then (s, "bad-op") else
    match s.q.check t with
    | .ok q' a e => ({ s with q := q' }, s!"{a} {if e then 1 else 0}")
    | .panic => (s, "panic")
  | ["pub", t] =>
    if !s.ok then (s, "bad-op") else
    match emit s.max s.q t with
    | .ok q' p => ({ s with q := q' }, showPkt p)
    | .panic => (s, "panic")
  | _ => (s, "bad-op")

end Driver.AliasFifo

def main : IO Unit := do
  Driver.loop (← IO.getStdin) (← IO.getStdout) ({} : Driver.AliasFifo.S) Driver.AliasFifo.step
