import GmqttVerif.Model.AliasInbound
import GmqttVerif.Model.AliasFifo
import Driver.Common
/- line protocol for the inbound topic alias handling of one v5 connection (C13), observed on the wire:
     connect <serverAliasMax> <receiveMax> [<subscriberAliasMax>]   -> ok ta=<advertised alias max> rm=<advertised receive max>
     pub <alias|-> <topic|->  -> ok <topic|->                     (2-argument connect: the topic a subscriber without aliases receives)
                               | ok <wire-topic|-> <wire-alias|-> (3-argument connect: what a subscriber that declared that Topic
                                                                   Alias Maximum receives: inbound resolution, then writeLoop)
                               | disc:<hex reason> | hung         (connection ended / zombie; every later pub prints `closed`)
   `oracle_aliasin`      : the tree with the F02 patch       `oracle_aliasin asis` : the tree as it is -/
namespace Driver.AliasInbound
open GmqttVerif.Alias Driver

structure S where
  fixed  : Bool := true
  st     : InSt String := connect true 0 1
  up     : Bool := false
  wire   : Bool := false          -- 3-argument connect
  subMax : Nat := 0
  q      : Fifo String := Fifo.new 0

def optNat (s : String) : Option Nat := if s == "-" then none else s.toNat?
def optTopic (s : String) : Option String := if s == "-" then none else some s
def dash (o : Option String) : String := match o with | some t => (if t.isEmpty then "-" else t) | none => "-"

def hex2 (n : Nat) : String :=
  let d := "0123456789abcdef".toList
  String.ofList [d.getD (n / 16 % 16) '?', d.getD (n % 16) '?']

def doConnect (s : S) (ta rm : Nat) (sub : Option Nat) : S × String :=
  ({ s with st := connect s.fixed ta rm, up := true, wire := sub.isSome, subMax := sub.getD 0, q := Fifo.new (sub.getD 0) },
   s!"ok ta={ta} rm={rm}")

def step (s : S) (line : String) : S × String :=
  match words line with
  | ["connect", ta, rm] => doConnect s (natOf ta) (natOf rm) none
  | ["connect", ta, rm, sub] => doConnect s (natOf ta) (natOf rm) (some (natOf sub))
  | ["pub", a, t] =>
    if !s.up then (s, "closed") else
    match publish s.fixed s.st (optNat a) (optTopic t) with
    | (st', .ok r) =>
      if s.wire then
        match emit s.subMax s.q (r.getD "") with
        | .ok q' p =>
          ({ s with st := st', q := q' },
           s!"ok {dash p.topic} {match p.alias with | some a => toString a | none => "-"}")
        | .panic => ({ s with st := st' }, "lost")
      else ({ s with st := st' }, s!"ok {dash r}")
    | (_, .disc c) => ({ s with up := false }, s!"disc:{hex2 c}")
    | (_, .panic) => ({ s with up := false }, "hung")   -- handler goroutine died: no DISCONNECT, connection left open
  | _ => (s, "bad-op")

end Driver.AliasInbound

def main (args : List String) : IO Unit := do
  let fixed := !args.contains "asis"
  Driver.loop (← IO.getStdin) (← IO.getStdout) ({ fixed := fixed } : Driver.AliasInbound.S) Driver.AliasInbound.step
