import GmqttVerif.Model.Auth
import Driver.Broker
/-
  C19 oracle: the auth plugin model (accounts, password file, connect-phase FSM) in front of the broker model.
  Mirrors harness/cmd/drive_broker/auth.go (ops `new … auth=`, `api acct …`, `api restartauth`, `api state`, `dial`,
  `raw … k=<kind>`); every other op on an accepted connection is `Driver.Broker.step`.

  Crypto is instantiated SYMBOLICALLY: the stored hash of password token p is the string `H(p)` (injective, i.e. no
  collisions); bcrypt refuses passwords longer than 72 bytes (golang.org/x/crypto v0.49). The Go side renders real
  hashes back into this notation using the passwords the script has used.
  Argument `asis`: the code before the fixes 40eae5a (F39: file saved ./<password_file>, loaded <ConfigDir>/<password_file>),
  f169349 (bcrypt compares 72 bytes only) and b5c09eb (enhanced authentication dead-lock).
  A refused connection is closed by the server (fix 53130f4): `feed` ends every refusal with `hangup`.
-/
namespace Driver.AuthBroker
open GmqttVerif GmqttVerif.Auth Driver Driver.Broker

/-- byte length of a token (`~` empty, `hex:<hex>` raw bytes, otherwise the text itself) -/
def tokLen (t : String) : Nat :=
  if t == "~" then 0 else if t.startsWith "hex:" then (t.length - 4) / 2 else t.utf8ByteSize

def val (t : String) : String := if t == "~" then "" else t
def showTok (s : String) : String := if s.isEmpty then "~" else s

def sym (p : String) : String := "H(" ++ showTok p ++ ")"

/-- the first 72 bytes of a token (plain tokens are ASCII here) -/
def trunc72 (t : String) : String :=
  if tokLen t ≤ 72 then t else if t.startsWith "hex:" then (t.take (4 + 144)).toString else (t.take 72).toString

/-- `asis`: `bcrypt.CompareHashAndPassword` looks at the first 72 bytes only (and `validate` does not check the length) -/
def crypto (asis : Bool) : Crypto :=
  { md5hex := sym, sha256hex := sym,
    bcryptGen := fun p => if tokLen p > 72 then none else some (sym p),
    bcryptCompare := fun h p => if asis then h == sym (trunc72 p) else tokLen p ≤ 72 && h == sym p }

def algOf (s : String) : Option Alg :=
  if s == "plain" then some .plain else if s == "md5" then some .md5 else if s == "sha256" then some .sha256
  else if s == "bcrypt" then some .bcrypt else none

/-- the test enhanced-auth hook of the harness (`new … enh=1`) -/
def testHook : EnhHook :=
  { onConnect := fun m d => if m != "M" then .fail 0x8C else if d == "go" then .success else if d == "c" then .cont "ch" else .fail 0x87,
    onAuth := fun d => if d == "ok" then .success else if d == "more" then .cont "ch2" else .fail 0x87 }

structure NC where          -- a connection that is not (yet) accepted
  name : String
  c : Conn := {}
  dead : Bool := false      -- socket closed by either side
  line : String := ""       -- the `conn` line to hand to the broker model on acceptance
  deriving Inhabited

structure ASt where
  bs : Broker.St := {}
  auth : Bool := false
  alg : Alg := .plain
  store : Store := {}
  saveExists : Bool := false     -- the ./ file exists (when it is not the load file)
  failSave : Bool := false
  enh : Bool := false
  zl : Bool := true
  asis : Bool := false
  pathsEq : Bool := true         -- <ConfigDir>/<password_file> and ./<password_file> are one file
  ncs : List NC := []

def ASt.nc? (st : ASt) (n : String) : Option NC := st.ncs.find? (·.name == n)
def ASt.setNc (st : ASt) (x : NC) : ASt := { st with ncs := x :: st.ncs.filter (·.name != x.name) }
def ASt.dropNc (st : ASt) (n : String) : ASt := { st with ncs := st.ncs.filter (·.name != n) }

def ASt.cfg (st : ASt) : Cfg :=
  { allowZeroLenCid := st.zl,
    basic := if st.auth then some (fun u p => validate (crypto st.asis) st.alg st.store.idx u p) else none,
    enh := if st.enh then some testHook else none,
    authReadFix := !st.asis }

/-- seed / file spec `H(p)` under `plain` is the password itself -/
def specHash (alg : Alg) (s : String) : String :=
  if alg == .plain && s.startsWith "H(" && s.endsWith ")" then val ((s.drop 2).dropEnd 1).toString else s

def parseAccounts (alg : Alg) (s : String) : Accounts :=
  if s == "~" || s.isEmpty then [] else
  (s.splitOn ",").filterMap (fun e =>
    match e.splitOn ":" with
    | u :: h :: rest => some (val u, specHash alg (val (String.intercalate ":" (h :: rest))))
    | _ => none)

def showAccounts (a : Accounts) : String :=
  "[" ++ String.intercalate "," (a.map (fun p => showTok p.1 ++ ":" ++ showTok p.2)) ++ "]"

def showRes : Res → String
  | .ok => "ok" | .invalid => "err:invalid" | .genErr => "err:toolong" | .saveErr => "err:save"

def showLoad : LoadRes → String
  | .ok => "ok" | .emptyUser => "load-err:emptyuser" | .dup => "load-err:dup"

/-- hand a line to the broker model -/
def broker (st : ASt) (line : String) : ASt × String :=
  let (bs, o) := Broker.step st.bs line
  ({ st with bs := bs }, o)

/-- flush broker output (normally nothing) behind a result token -/
def withCollect (st : ASt) (pre : String) : ASt × String :=
  let (bs, o) := Broker.finish st.bs st.bs.b pre
  ({ st with bs := bs }, o)

def showConnack (fmt code : Nat) : String :=
  if fmt == 5 then s!"connack(sp=0,code={code},se=-,rm=-,ta=-,mp=-,ka=-)" else s!"connack(sp=0,code={code})"

/-- wire rendering of the effects of one step on connection `n` (none = nothing visible) -/
def showEffs (effs : List Eff) : List String :=
  effs.filterMap (fun e =>
    match e with
    | .connack f c => some (showConnack f c)
    | .authPkt _ => some "auth(24)"
    | .closeSocket => some "closed"
    | _ => none)

def mkConnect (m : List (String × String)) (cid : String) (v : Nat) (uf pf : Bool) : ConnectPkt :=
  { v := v, cidEmpty := val cid == "", userFlag := uf, passFlag := pf,
    user := if uf then val ((getS m "user").getD "") else "", pass := if pf then val ((getS m "pass").getD "") else "",
    authMethod := if v == 5 then getS m "am" else none, authData := (getS m "ad").getD "" }

def pktOfKind (k : String) : Pkt :=
  if k == "p0" then .publish 0 else if k == "p1" then .publish 1 else if k == "p2" then .publish 2
  else if k == "g" then .garbage else .other

/-- feed one write of the scripted client into a not-accepted connection: the first packet `p`, then the packets
    pipelined behind it in the same write (`more=`); a refused connection is then closed by the server (`hangup`).
    On acceptance the stored `conn` line goes to the broker model. -/
def feed (st : ASt) (x : NC) (p : Pkt) (lost : Bool := false) (more : List String := []) : ASt × String :=
  if x.dead then (st, if x.c.phase == .awaitAuth then "send-failed -" else "no-conn") else
  -- before fix b5c09eb: during an enhanced authentication the broker does not read; the harness's write times out
  if x.c.phase == .awaitAuth && !st.cfg.authReadFix then (st.setNc { x with dead := true }, "send-failed -") else
  let (c1, e1) := Auth.step st.cfg x.c p
  if c1.phase == .accepted && x.c.phase != .accepted then
    -- `register` + CONNACK are the broker model's
    let st := st.dropNc x.name
    broker st x.line
  else
    let (c2, e2) := Auth.run st.cfg c1 (more.map pktOfKind)
    let (c3, e3) := if c2.phase == .rejected then Auth.step st.cfg c2 .hangup else (c2, [])
    let effs := e1 ++ e2 ++ e3
    let x := { x with c := c3, dead := c3.phase == .closed }
    let st := st.setNc x
    let vis := if lost then (showEffs effs).filter (fun v => !v.startsWith "connack(") else showEffs effs
    if vis.isEmpty then (st, "-") else (st, x.name ++ "|H:" ++ String.intercalate "," vis ++ "|P:")

def stateLine (b : GmqttVerif.Broker.B) : String :=
  let srt (l : List String) := String.intercalate "," (l.mergeSort (· ≤ ·))
  let sess := b.sessions.map (fun s => showTok s.cid)
  let online := b.clis.map (fun c => showTok c.cid)
  let subs := b.subs.map (fun (cs : String × Deliver.Sub) => s!"{showTok cs.1}/{showTok cs.2.fullName}/{cs.2.qos}")
  let ret := b.retained.map (fun (tm : String × Deliver.Msg) => s!"{showTok tm.1}/{showTok tm.2.tag}/{tm.2.qos}")
  s!"sessions=[{srt sess}] online=[{srt online}] subs=[{srt subs}] retained=[{srt ret}]"

/-- `parconn name,cid,v,user,pass …`: the CONNECTs of several fresh connections arrive at the same moment. The verdict on each
    depends on its own credentials and on the account store only (Properties/C19: `connect_authenticated_iff`), the client ids
    are pairwise different, so the model takes them one after the other, in the order given (= name order). -/
def parLines (specs : List String) : Option (List String) :=
  specs.mapM (fun sp => match sp.splitOn "," with
    | [n, cid, v, u, p] => some s!"conn {n} {cid} v={v} cs=1 user={u} pass={p}"
    | _ => none)

def step1 (asis : Bool) (st : ASt) (line : String) : ASt × String :=
  match words line with
  | "new" :: rest =>
    let (_, m) := kvSplit rest
    let (bs, o) := Broker.step {} line
    match getS m "auth" with
    | none => ({ bs := bs, zl := getN m "zl" 1 == 1, asis := asis }, o)
    | some a =>
      match algOf a with
      | none => ({ bs := bs, asis := asis }, o)
      | some alg =>
        let pathsEq := (getS m "pf").getD "rel" == "abs" || (getS m "cwd").getD "same" != "other"
        let same := !asis || pathsEq
        let seed := parseAccounts alg ((getS m "seed").getD "~")
        let s0 : Store := { loadFile := seed, saveFile := if same then seed else [], same := same }
        let (s1, _) := s0.restart
        ({ bs := bs, auth := true, alg := alg, store := s1, enh := getN m "enh" 0 == 1, zl := getN m "zl" 1 == 1, asis := asis, pathsEq := pathsEq }, o)
  | op :: rest =>
    if !st.bs.have_ then (st, "no-broker") else
    let (pos, m) := kvSplit rest
    match op, pos with
    | "api", "acct" :: "set" :: u :: p :: _ =>
      if !st.auth then (st, "bad-op") else
      let (s, r) := st.store.update (crypto st.asis) st.alg (val u) (val p) (!st.failSave)
      withCollect { st with store := s, saveExists := st.saveExists || (r == .ok) } (showRes r)
    | "api", "acct" :: "del" :: u :: _ =>
      if !st.auth then (st, "bad-op") else
      let saved := (lookup st.store.idx (val u)).isSome && !st.failSave && val u != ""
      let (s, r) := st.store.delete (val u) (!st.failSave)
      withCollect { st with store := s, saveExists := st.saveExists || saved } (showRes r)
    | "api", "acct" :: "get" :: u :: _ =>
      if !st.auth then (st, "bad-op") else
      if val u == "" then withCollect st "err:invalid" else
      match lookup st.store.idx (val u) with
      | some h => withCollect st (showTok (val u) ++ ":" ++ showTok h)
      | none => withCollect st "err:notfound"
    | "api", "acct" :: "list" :: _ =>
      if !st.auth then (st, "bad-op") else
      withCollect st s!"n={st.store.idx.length} {showAccounts st.store.idx}"
    | "api", "acct" :: "file" :: _ =>
      if !st.auth then (st, "bad-op") else
      -- `cwd=`: the file of the same name in the working directory, when that is another file
      let save := if st.pathsEq then "same" else if !st.store.same && st.saveExists then showAccounts st.store.saveFile else "absent"
      withCollect st s!"load={showAccounts st.store.loadFile} cwd={save}"
    | "api", "acct" :: "failsave" :: b :: _ =>
      if !st.auth then (st, "bad-op") else withCollect { st with failSave := b == "1" } "ok"
    | "api", "acct" :: "seedfile" :: spec :: _ =>
      if !st.auth then (st, "bad-op") else
      let f := parseAccounts st.alg spec
      withCollect { st with store := { st.store with loadFile := f, saveFile := if st.store.same then f else st.store.saveFile } } "ok"
    | "api", "restartauth" :: _ =>
      if !st.auth then (st, "bad-op") else
      let (s, r) := st.store.restart
      withCollect { st with store := s } (showLoad r)
    | "api", "state" :: _ => (st, stateLine st.bs.b)
    | "dial", cn :: _ =>
      let st := { st with bs := { st.bs with b := st.bs.b.dropCli cn } }
      (st.setNc { name := cn }, "-")
    | "conn", cn :: cid :: _ =>
      let v := getN m "v" 4
      let p := mkConnect m cid v (getS m "user").isSome (getS m "pass").isSome
      -- a fresh socket under this name
      feed (st.dropNc cn) { name := cn, line := line } (.connect p) (getN m "lost" 0 == 1)
    | "raw", cn :: _ =>
      match st.nc? cn with
      | none => (st, "bad-op")
      | some x =>
        let k := (getS m "k").getD "garbage"
        let more := match getS m "more" with | some l => l.splitOn "," | none => []
        if k == "connect" then
          let v := getN m "v" 4
          let cid := (getS m "cid").getD "~"
          let p := mkConnect m cid v (getN m "uf" 0 == 1) (getN m "pf" 0 == 1)
          feed st { x with line := s!"conn {cn} {cid} v={v} cs={getN m "cs" 1}" } (.connect p) (getN m "lost" 0 == 1) more
        else if k == "auth" then feed st x (.auth (getN m "code" 24) ((getS m "ad").getD "")) false more
        else if k == "publish" then feed st x (.publish (getN m "q" 0)) false more
        else if k == "other" then feed st x .other false more
        else feed st x .garbage false more
    | _, cn :: _ =>
      match st.nc? cn with
      | none => broker st line
      | some x =>
        -- an ordinary op on a connection that was never accepted: the packet the harness would send
        if op == "ack" then (st, if x.dead then "no-conn" else "none -")
        else if op == "close" then
          if x.dead then (st, "no-conn") else (st.setNc { x with dead := true }, cn ++ "|H:closed|P:")
        else if op == "disc" then
          if x.dead then (st, "no-conn") else
          let (st1, o1) := feed st x .other
          match st1.nc? cn with
          | some x1 => if x1.dead then (st1, o1 ++ " -") else (st1.setNc { x1 with dead := true }, o1 ++ " " ++ cn ++ "|H:closed|P:")
          | none => (st1, o1)
        else if op == "pub" then feed st x (.publish (getN m "q" 0))
        else if op == "sub" || op == "unsub" || op == "rel" || op == "ping" then feed st x .other
        else broker st line
    | _, _ => broker st line
  | [] => (st, "bad-op")

def step (asis : Bool) (st : ASt) (line : String) : ASt × String :=
  match words line with
  | "parconn" :: specs =>
    if !st.bs.have_ then (st, "no-broker") else
    match parLines specs with
    | none => (st, "bad-op")
    | some ls =>
      let (st', outs) := ls.foldl (fun (acc : ASt × List String) l =>
        let (s1, o) := step1 asis acc.1 l
        (s1, acc.2 ++ (if o == "-" then [] else [o]))) (st, [])
      (st', if outs.isEmpty then "-" else String.intercalate " " outs)
  | _ => step1 asis st line

end Driver.AuthBroker

def main (args : List String) : IO Unit := do
  let asis := args.contains "asis"
  Driver.loop (← IO.getStdin) (← IO.getStdout) ({} : Driver.AuthBroker.ASt) (Driver.AuthBroker.step asis)
