import GmqttVerif.Model.Broker
import GmqttVerif.Model.BrokerCfg
import Driver.Common
/- line protocol for wire-level broker scenarios; mirrors harness/cmd/drive_broker -/
namespace Driver.Broker
open GmqttVerif GmqttVerif.Broker GmqttVerif.Deliver Driver

def kvSplit (tokens : List String) : List String × List (String × String) :=
  tokens.foldl (fun (acc : List String × List (String × String)) t =>
    match t.splitOn "=" with
    | k :: v :: rest => if k.isEmpty then (acc.1 ++ [t], acc.2) else (acc.1, acc.2 ++ [(k, String.intercalate "=" (v :: rest))])
    | _ => (acc.1 ++ [t], acc.2)) ([], [])

def getS (m : List (String × String)) (k : String) : Option String := (m.find? (·.1 == k)).map (·.2)
def getN (m : List (String × String)) (k : String) (d : Nat) : Nat :=
  match getS m k with | some v => v.toNat?.getD d | none => d
def getO (m : List (String × String)) (k : String) : Option Nat :=
  match getS m k with | some v => v.toNat? | none => none
def unesc (s : String) : String := if s == "~" then "" else s
def tok (s : String) : String := if s.isEmpty then "~" else s
def b2 (b : Bool) : String := if b then "1" else "0"

def showSids (l : List Nat) : String :=
  if l.isEmpty then "-" else String.intercalate "+" ((l.mergeSort (· ≤ ·)).map toString)
def showOpt : Option Nat → String | some n => toString n | none => "-"
def showCodes (l : List Nat) : String := String.intercalate "+" (l.map toString)

def showPkt : Pkt → String
  | .connack sp code props =>
    "connack(sp=" ++ b2 sp ++ s!",code={code}" ++
      (match props with
       | some (se, rm, ta, mp, ka) => s!",se={se},rm={rm},ta={ta},mp={mp},ka={ka}"
       | none => "") ++ ")"
  | .publish t q r d id tag n sids exp al sz =>
    s!"publish(t={tok t},q={q},r={b2 r},d={b2 d},id={id},p={tok tag},n={n},sid={showSids sids},exp={showOpt exp},al={showOpt al},sz={sz})"
  | .suback pid cs => s!"suback({pid},{showCodes cs})"
  | .unsuback pid cs => s!"unsuback({pid},{showCodes cs})"
  | .puback id c => s!"puback({id},{c})"
  | .pubrec id c => s!"pubrec({id},{c})"
  | .pubrel id => s!"pubrel({id})"
  | .pubcomp id => s!"pubcomp({id})"
  | .pingresp => "pingresp"
  | .disconnect c => s!"disconnect({c})"
  | .closed => "closed"

/-- render and clear the outputs collected since the last call -/
def flush (b : B) : B × String :=
  let conns := ((b.out.map (·.conn)).eraseDups).mergeSort (· ≤ ·)
  let parts := conns.map (fun cn =>
    let mine := b.out.filter (·.conn == cn)
    let h := (mine.filter (!·.poll)).map (fun o => showPkt o.pkt)
    let p := (mine.filter (·.poll)).map (fun o => showPkt o.pkt)
    cn ++ "|H:" ++ String.intercalate "," h ++ "|P:" ++ String.intercalate "," p)
  ({ b with out := [] }, if parts.isEmpty then "-" else String.intercalate " " parts)

/-- received QoS>0 publish awaiting acks by the scripted client (same bookkeeping as the Go harness) -/
structure Rx where
  key : String := ""     -- the rendered packet with the id masked: canonical tie-break
  op : Nat
  tag : String
  sids : String
  qos : Nat
  id : Nat
  acked : Bool := false
  comp : Bool := false
  deriving Inhabited

structure St where
  b : B := {}
  have_ : Bool := false
  opIndex : Nat := 0
  connCid : List (String × String) := []      -- conn ↦ client id
  rx : List (String × List Rx) := []          -- client id ↦ entries
  connVer : List (String × Nat) := []
  paused : List String := []                  -- connections whose scripted client has stopped reading
  held : List Out := []                       -- what the broker wrote to them meanwhile, in order
  -- keep-alive: conn ↦ (interval in ms = (ka/2 + ka) s, the read deadline readLoop sets after every packet; model time at
  -- which it runs out). An environment step of the driver, not of `Model/Broker.lean`: when the deadline passes during a
  -- `sleep` the connection ends abnormally (`closeIn`) at that instant.
  ka : List (String × Nat × Nat) := []

def St.rxOf (st : St) (cid : String) : List Rx := ((st.rx.find? (·.1 == cid)).map (·.2)).getD []
def St.setRx (st : St) (cid : String) (l : List Rx) : St := { st with rx := (cid, l) :: st.rx.filter (·.1 != cid) }

/-- record what the scripted clients received (for later `ack` ops) -/
def track (st : St) : St :=
  st.b.out.foldl (fun st o =>
    match (st.connCid.find? (·.1 == o.conn)).map (·.2) with
    | none => st
    | some cid =>
      match o.pkt with
      | .publish t q r d id tag n sids exp al sz =>
        if q > 0 then
          let l := st.rxOf cid
          let known := l.any (fun e => e.id == id && !(e.acked && (e.qos == 1 || e.comp)))
          if known then st else st.setRx cid (l ++ [{ key := showPkt (.publish t q r d 0 tag n sids exp al sz), op := st.opIndex, tag := tok tag, sids := showSids sids, qos := q, id := id }])
        else st
      | .connack sp code _ => if !sp && code == 0 then st.setRx cid [] else st
      | _ => st) st

def outstanding (l : List Rx) (kind : String) : List Rx :=
  let es := l.filter (fun e =>
    if kind == "puback" then e.qos == 1 && !e.acked
    else if kind == "pubrec" then e.qos == 2 && !e.acked
    else e.qos == 2 && e.acked && !e.comp)
  es.mergeSort (fun a b => a.op < b.op || (a.op == b.op && (a.tag < b.tag || (a.tag == b.tag && (a.sids < b.sids || (a.sids == b.sids && a.key ≤ b.key))))))

def parseCfg (m : List (String × String)) : Cfg :=
  { onlyOnce := (getS m "mode").getD "onlyonce" != "overlap",
    queueQos0 := getN m "q0" 1 == 1, maxQueued := getN m "maxq" 1000, maxInflight := getN m "mi" 100,
    recvMax := getN m "rm" 100, aliasMax := getN m "ta" 10, maxPacket := getN m "mp" 268435456,
    sessExpiry := getN m "se" 7200, msgExpiry := getN m "me" 7200, inflightExpiry := getN m "ie" 30,
    maxKeepAlive := getN m "ka" 300, retainAvail := getN m "ret" 1 == 1, wildAvail := getN m "wild" 1 == 1,
    subIdAvail := getN m "subid" 1 == 1, sharedAvail := getN m "shared" 1 == 1 }

def parseWill (w : String) (v : Nat) : Option (Msg × Nat) :=
  match w.splitOn "," with
  | topic :: qos :: retain :: delay :: tag :: rest =>
    let exp := match rest with | e :: _ => e.toNat?.getD 0 | [] => 0
    some ({ topic := unesc topic, tag := tag, plen := tag.utf8ByteSize, qos := natOf qos, retained := retain == "1",
            expiry := if v == 5 then exp else 0 }, natOf delay)
  | _ => none

def parseSubTopic (t : String) : SubTopic :=
  match t.splitOn "|" with
  | name :: rest =>
    let qos := match rest with | q :: _ => natOf q | [] => 0
    let opts := rest.drop 1
    { name := unesc name, qos := qos, nl := opts.contains "nl", rap := opts.contains "rap",
      rh := match opts.find? (·.startsWith "rh") with | some o => natOf (o.drop 2).toString | none => 0 }
  | [] => { name := "", qos := 0 }

/-- finish an op: pump, set aside what goes to paused connections, track deliveries for ack bookkeeping, render -/
def finish (st : St) (b : B) (pre : String := "") : St × String :=
  let b := b.pumpAll
  let heldNow := b.out.filter (fun o => st.paused.contains o.conn)
  let b := { b with out := b.out.filter (fun o => !st.paused.contains o.conn) }
  let st := track { st with b := b, held := st.held ++ heldNow }
  let (b', s) := flush st.b
  ({ st with b := b' }, if pre.isEmpty then s else pre ++ " " ++ s)

def step (st : St) (line : String) : St × String :=
  match words line with
  | "new" :: rest =>
    let (_, m) := kvSplit rest
    let cfg := parseCfg m
    -- `config.MQTT.Validate`: the clauses over modelled fields (`Cfg.validB`) + the two over fields the model does not carry
    let modeOk := match getS m "mode" with | some v => v == "overlap" || v == "onlyonce" | none => true
    let valid := cfg.validB && modeOk && getN m "qos" 2 ≤ 2
    if !valid && getN m "novalidate" 0 == 0 then ({ have_ := false }, "invalid-config")
    else ({ b := { cfg := cfg }, have_ := true }, "ok")
  | op :: rest =>
    if !st.have_ then (st, "no-broker") else
    -- real time moves a little between two ops (whole-second comparisons at a boundary see "later")
    let st := { st with opIndex := st.opIndex + 1, b := { st.b with now := st.b.now + 1 } }
    let (pos, m) := kvSplit rest
    -- a packet from a connection pushes its read deadline out
    let st := match pos.head? with
      | some cn => { st with ka := st.ka.map (fun (e : String × Nat × Nat) => if e.1 == cn then (e.1, e.2.1, st.b.now + e.2.1) else e) }
      | none => st
    let b := st.b
    match op, pos with
    | "conn", cn :: cid :: _ =>
      let v := getN m "v" 4
      let kaReq := getN m "ka" 0
      let kaEff := if v == 5 then min kaReq b.cfg.maxKeepAlive else kaReq
      let st := { st with ka := (st.ka.filter (fun (e : String × Nat × Nat) => e.1 != cn)) ++ (if kaEff == 0 then [] else [(cn, (kaEff / 2 + kaEff) * 1000, b.now + (kaEff / 2 + kaEff) * 1000)]) }
      let r : ConnectReq := { conn := cn, cid := unesc cid, v := v, clean := getN m "cs" 1 == 1, se := getO m "se", rm := getO m "rm",
                              mp := getO m "mp", ta := getO m "ta", ka := getN m "ka" 0,
                              will := match getS m "will" with | some w => parseWill w v | none => none }
      let st := { st with connCid := (cn, unesc cid) :: st.connCid.filter (·.1 != cn),
                          connVer := (cn, v) :: st.connVer.filter (·.1 != cn) }
      finish st (b.connect r)
    | "sub", cn :: pid :: topics =>
      if (b.cli? cn).isNone then (st, "no-conn") else
      finish st (b.subscribe cn (natOf pid) (topics.map parseSubTopic) (getN m "id" 0))
    | "unsub", cn :: pid :: topics =>
      if (b.cli? cn).isNone then (st, "no-conn") else
      finish st (b.unsubscribe cn (natOf pid) (topics.map unesc))
    | "pub", cn :: topic :: _ =>
      match b.cli? cn with
      | none => (st, "no-conn")
      | some c =>
        let tag := unesc ((getS m "tag").getD "")
        let n := getN m "n" 0
        let plen := if n > tag.utf8ByteSize then n else tag.utf8ByteSize
        let msg : Msg := { topic := unesc topic, tag := tag, plen := plen, qos := getN m "q" 0, expiry := getN m "e" 0 }
        let r : PubReq := { conn := cn, topic := unesc topic, qos := getN m "q" 0, pid := getN m "pid" 0, retain := getN m "r" 0 == 1,
                            dup := getN m "d" 0 == 1, alias := getO m "a", expiry := getO m "e", tag := tag, plen := plen,
                            size := totalBytes c.v msg + (if c.v == 5 && (getO m "a").isSome then 3 else 0),
                            hints := match getS m "hint" with | some h => (h.splitOn "+").filterMap String.toNat? | none => [],
                            rapHint := match getS m "rap" with | some h => h.splitOn "+" | none => [] }
        finish st (b.publish r)
    | "ack", cn :: kind :: more =>
      match b.cli? cn with
      | none => (st, "no-conn")
      | some c =>
        let es := outstanding (st.rxOf c.cid) kind
        let pick := if more.contains "all" then es else (es.drop (getN m "k" 0)).take 1
        if pick.isEmpty then
          let (st, s) := finish st b
          (st, "none " ++ s)
        else
          let code := getN m "code" 0
          let (st, b) := pick.foldl (fun (acc : St × B) e =>
            let l := acc.1.rxOf c.cid
            let upd (f : Rx → Rx) := l.map (fun x => if x.id == e.id && x.op == e.op && x.tag == e.tag && x.sids == e.sids then f x else x)
            if kind == "puback" then (acc.1.setRx c.cid (upd (fun x => { x with acked := true })), acc.2.ackOut cn e.id)
            else if kind == "pubrec" then
              (acc.1.setRx c.cid (upd (fun x => { x with acked := true, comp := code >= 0x80 && c.v == 5 })), acc.2.pubrecOut cn e.id code)
            else (acc.1.setRx c.cid (upd (fun x => { x with comp := true })), acc.2.ackOut cn e.id)) (st, b)
          finish st b
    | "rel", cn :: pid :: _ =>
      if (b.cli? cn).isNone then (st, "no-conn") else finish st (b.pubrelIn cn (natOf pid))
    | "pp", cn :: _ =>
      -- `pp <conn> k=<n> q=<1|2> pid0=<p>`: n QoS>0 publishes to a topic nobody subscribes, ONE in flight at a time (each sent when
      -- the previous acknowledgement has arrived): a client that stays within any Receive Maximum >= 1. Every one is acknowledged,
      -- nothing else happens (`inbound_quota_never_refused`); state-neutral for the model.
      if (b.cli? cn).isNone then (st, "no-conn") else (st, s!"pp acks={getN m "k" 5} disc=- closed=0")
    | "ping", cn :: _ =>
      if (b.cli? cn).isNone then (st, "no-conn") else finish st (b.emit cn false .pingresp)
    | "disc", cn :: _ =>
      if (b.cli? cn).isNone then (st, "no-conn") else
      -- the broker closes the socket once readHandle has returned (writeLoop's exit closes it), so the connection
      -- is already gone when the scripted client closes its own end
      let (st, s1) := finish st ((b.disconnectIn cn (getO m "se") (getN m "code" 0)).closeIn cn)
      let (st, s2) := finish st st.b
      (st, s1 ++ " " ++ s2)
    | "close", cn :: _ =>
      match b.cli? cn with
      | none => (st, "no-conn")
      | some c =>
        match getS m "burst" with
        | none => finish st (b.closeIn cn)
        | some bl =>
          -- `close <conn> burst=<pid>:<tag>,… q=<qos> topic=<t>`: the publishes are handled in order, then the connection ends;
          -- the publisher's own part of the output (answers nobody reads) is left out
          let topic := unesc ((getS m "topic").getD "")
          let q := getN m "q" 2
          -- how many of the burst the broker had taken in when it noticed the end is its own business (it stops reading a
          -- connection it has found dead): `done=<j>` is read off the implementation's output, the model handles that prefix
          let items := bl.splitOn ","
          let b' := (items.take (getN m "done" items.length)).foldl (fun (acc : B) it =>
            match it.splitOn ":" with
            | [pid, tag] =>
              let msg : Msg := { topic := topic, tag := tag, plen := tag.utf8ByteSize, qos := q, expiry := 0 }
              acc.publish { conn := cn, topic := topic, qos := q, pid := natOf pid, retain := false, dup := false, alias := none,
                            expiry := none, tag := tag, plen := tag.utf8ByteSize, size := totalBytes c.v msg, hints := [], rapHint := [] }
            | _ => acc) b
          let (st, s) := finish st (b'.closeIn cn)
          let keep := (s.splitOn " ").filter (fun part => !(part.startsWith (cn ++ "|")))
          (st, if keep.isEmpty then "-" else String.intercalate " " keep)
    | "api", "pub" :: topic :: _ =>
      let tag := unesc ((getS m "tag").getD "")
      let msg : Msg := { topic := unesc topic, tag := tag, plen := tag.utf8ByteSize, qos := getN m "q" 0,
                         retained := getN m "r" 0 == 1, expiry := getN m "e" 0 }
      let hints := match getS m "hint" with | some h => (h.splitOn "+").filterMap String.toNat? | none => []
      let rapHint := match getS m "rap" with | some h => h.splitOn "+" | none => []
      finish st (b.deliverMsg "" msg hints rapHint).1
    | "api", "term" :: cid :: _ =>
      -- nowait=1: the harness does not wait for the broker to come to rest; what the termination writes is seen with the next op
      if getN m "nowait" 0 == 1 then ({ st with b := b.apiTerminate (unesc cid) }, "ok")
      else finish st (b.apiTerminate (unesc cid))
    | "api", "expire" :: _ => finish st b.apiExpire
    -- fault injection on the session store (`new … pe=faulty`): Remove reports a failure after doing its work; ending a session
    -- does everything else regardless — nothing changes for the model
    | "api", "failremove" :: _ => finish st b
    -- `api failat k`: the k-th call into the persistence layer fails (harness/cmd/drive_broker/faultpe.go). Used only in front of
    -- operations whose outcome the fault must not change (the streams say which), so the model ignores it
    | "api", "failat" :: _ => finish st b
    | "api", "backdate" :: cid :: secs :: _ =>
      if (b.sess? (unesc cid)).isNone then
        let (st, s) := finish st b
        (st, "nosession " ++ s)
      else finish st (b.apiBackdate (unesc cid) (natOf secs))
    | "race", n :: cid :: _ =>
      -- n simultaneous CONNECTs with one client id: by `Takeover.takeover_exclusive` exactly one ends up attached,
      -- whatever the interleaving; the harness then closes all of them
      let v := getN m "v" 5
      let names := (List.range (natOf n)).map (fun i => s!"r{st.opIndex}_{i}")
      let b := names.foldl (fun (bb : B) cn =>
        let r : ConnectReq := { conn := cn, cid := unesc cid, v := v, clean := getN m "cs" 0 == 1,
                                se := if v == 5 then some (getN m "se" 300) else none }
        (bb.connect r).pumpAll) b
      let alive := (b.clis.filter (fun c => names.contains c.conn)).length
      let online := b.clis.length
      let b := names.foldl (fun (bb : B) cn => bb.closeIn cn) b
      let st := track { st with b := b.pumpAll }
      ({ st with b := { st.b with out := [] } }, s!"alive={alive} online={online}")
    | "cpub", toks =>
      -- `cpub <conn>,<topic>,<qos>,<pid>,<tag> …`: the scripted clients send these PUBLISH packets at the same moment, each
      -- connection its own in the order written. deliverMessage runs under the server lock, so every interleaving is one
      -- of the sequential orders that keep each connection's order; the model takes the written one, and the comparison
      -- sorts the copies inside a burst (their relative order across publishers is the schedule's choice)
      let b := toks.foldl (fun (bb : B) tk =>
        match tk.splitOn "," with
        | [cn, topic, q, pid, tag] =>
          match bb.cli? cn with
          | none => bb
          | some c =>
            let tag := unesc tag
            let msg : Msg := { topic := unesc topic, tag := tag, plen := tag.utf8ByteSize, qos := natOf q }
            bb.publish { conn := cn, topic := unesc topic, qos := natOf q, pid := natOf pid, tag := tag, plen := tag.utf8ByteSize,
                         size := totalBytes c.v msg }
        | _ => bb) b
      finish st b
    | "raw", cn :: _ =>
      -- the scenarios only send bytes that no MQTT decoder accepts: malformed packet
      if (b.cli? cn).isNone then (st, "no-conn") else finish st (b.kick cn (some 0x81))
    | "pause", cn :: _ =>
      if (b.cli? cn).isNone then (st, "no-conn") else finish { st with paused := cn :: st.paused } b
    | "resume", cn :: _ =>
      if (b.cli? cn).isNone then (st, "no-conn") else
      -- everything written meanwhile arrives now, in order
      let mine := st.held.filter (·.conn == cn)
      let st := { st with paused := st.paused.filter (· != cn), held := st.held.filter (·.conn != cn) }
      finish st { b with out := mine ++ b.out }
    | "sleep", ms :: _ =>
      -- connections whose read deadline runs out during the sleep end (abnormally) at that instant, earliest first
      let target := b.now + natOf ms
      let due := (st.ka.filter (fun (e : String × Nat × Nat) => e.2.2 ≤ target && (b.cli? e.1).isSome)).mergeSort (fun x y => x.2.2 ≤ y.2.2)
      let b := due.foldl (fun (acc : B) (e : String × Nat × Nat) => (acc.sleep (e.2.2 - acc.now)).closeIn e.1) b
      let st := { st with ka := st.ka.filter (fun (e : String × Nat × Nat) => !(due.any (fun (d : String × Nat × Nat) => d.1 == e.1))) }
      finish st (b.sleep (target - b.now))
    | _, _ => (st, "bad-op")
  | [] => (st, "bad-op")

end Driver.Broker
