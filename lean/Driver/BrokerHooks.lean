import GmqttVerif.Model.BrokerHooks
import GmqttVerif.Model.Hooks
import GmqttVerif.Generated.Hooks
import Driver.Broker
/-
  C14 oracle: the broker model with hook verdicts (`Model/BrokerHooks.lean`) and the wrapper fold (`Model/Hooks.lean`)
  behind the line protocol of harness/cmd/drive_broker + hooks.go:

    new … order=b,a,c base=1      recording plugins in this plugin_order; base=1: recording base hooks (server.WithHook)
    hook <Kind> <who> k=v …       scripted verdict of a hook kind, imposed by plugin / `base` <who>;  hook [<Kind>] clear
    hooklog                       events since the last call: `Kind(detail):>b>a*<a<b`
    auth <conn> code= am= ad=     AUTH packet
    api snapshot                  sessions, subscriptions, retained messages, table sizes
    facts                         (oracle only) wrapper kinds of the generated facts that are not collected / applied

  Every other op is `Driver.Broker.step`. Events are predicted for the hook kinds in `modelled`; the other kinds
  (OnDelivered, OnMsgDropped, OnStop) are checked by the Python predicate only.
-/
namespace Driver.BrokerHooks
open GmqttVerif GmqttVerif.Broker GmqttVerif.Deliver GmqttVerif.BrokerHooks Driver Driver.Broker

abbrev KV := List (String × String)

structure HSt where
  st : St := {}
  hooks : Bool := false
  order : List String := []
  base : Bool := false
  verdicts : List (String × String × KV) := []      -- kind, who, parameters
  log : List String := []
  pending : List (String × ConnectReq × String) := []
  authMethod : List (String × String) := []

/-- the plugins whose wrapper of this hook kind ends up in `srv.hooks`, outermost first — as `initPluginHooks`
    treats the kind according to the GENERATED facts (collected? applied? in which direction?): the oracle follows the
    code that exists, the theorem `all_wrappers_installed` and the predicate say what it should be -/
def HSt.chain (h : HSt) (kind : String) : List String :=
  let w := kind ++ "Wrapper"
  if kind == "OnAuth" then []        -- the OnAuth callback is returned by a hook, it is not a hook kind
  else if Generated.collectedKinds.contains w && Generated.appliedKinds.contains w then
    (if Generated.appliedOutermostFirst.contains w then h.order else h.order.reverse)
  else []

/-- `srv.hooks.<kind> != nil` -/
def HSt.hooked (h : HSt) (kind : String) : Bool := !(h.chain kind).isEmpty || h.base

def HSt.present (h : HSt) : Bool := !h.order.isEmpty || h.base

/-- the verdict in force for a hook kind (only a participant of the chain can impose one) -/
def HSt.verdict (h : HSt) (kind : String) : KV :=
  match h.verdicts.find? (·.1 == kind) with
  | some (_, who, kv) => if (h.chain kind).contains who || (who == "base" && h.base) then kv else []
  | none => []

/-- the event a call of this hook kind leaves in the log (none when nobody is hooked into the kind) -/
def HSt.ev (h : HSt) (kind detail : String) : List String :=
  if h.hooked kind then [kind ++ "(" ++ detail ++ "):" ++ Hooks.eventSeq (h.chain kind) h.base] else []

def HSt.fire (h : HSt) (evs : List String) : HSt := { h with log := h.log ++ evs }

def msgDetail (m : Msg) : String := s!"{tok m.topic}/q{m.qos}/r{b2 m.retained}/{tok m.tag}"

def errOf (kv : KV) : Option Nat :=
  match getO kv "code" with
  | some c => some c
  | none => if getN kv "plain" 0 == 1 then some 0x80 else none

def authVerdict (kv : KV) : AuthVerdict :=
  match errOf kv with
  | some c => .reject c
  | none => if getN kv "nilresp" 0 == 1 then .reject 0x80 else if getN kv "continue" 0 == 1 then .cont else .accept

def rewriteOf (kv : KV) : Option (Msg → Msg) :=
  if (getS kv "t").isSome || (getS kv "tag").isSome || (getS kv "q").isSome || (getS kv "r").isSome then
    some (fun m =>
      let m := match getS kv "t" with | some t => { m with topic := unesc t } | none => m
      let m := match getS kv "tag" with | some p => { m with tag := unesc p, plen := (unesc p).utf8ByteSize } | none => m
      let m := match getO kv "q" with | some q => { m with qos := q } | none => m
      match getS kv "r" with | some r => { m with retained := r == "1" } | none => m)
  else none

def msgVerdict (kv : KV) : MsgVerdict :=
  match errOf kv with
  | some c => .reject c
  | none =>
    if getN kv "drop" 0 == 1 then .drop
    else match rewriteOf kv with | some f => .rewrite f | none => .accept

def willVerdict (kv : KV) : WillVerdict :=
  if getN kv "drop" 0 == 1 then .drop
  else match rewriteOf kv with | some f => .rewrite f | none => .keep

def HSt.wv (h : HSt) : WillVerdict := willVerdict (h.verdict "OnWillPublish")

/-- "t/1:135,t/2:128" -/
def pairsOf (s : String) : List (String × String) :=
  (s.splitOn ",").filterMap (fun p =>
    match (p.splitOn ":").reverse with
    | v :: k :: more => some (unesc (String.intercalate ":" (k :: more).reverse), v)
    | _ => none)

def lookupN (l : List (String × String)) (k : String) : Option Nat :=
  match l.find? (·.1 == k) with | some (_, v) => v.toNat? | none => none

/-! ### events of the steps that publish wills -/

def HSt.willEvents (h : HSt) (cid : String) (w : Msg) : List String :=
  h.ev "OnWillPublish" s!"{tok cid},{msgDetail w}" ++
    (match h.wv with
     | .keep => h.ev "OnWillPublished" s!"{tok cid},{msgDetail w}"
     | .drop => []
     | .rewrite f => h.ev "OnWillPublished" s!"{tok cid},{msgDetail (f w)}")

def HSt.termEvents (h : HSt) (b : B) (cid : String) (reason : Nat) : List String :=
  h.ev "OnSessionTerminated" s!"{tok cid},reason{reason}" ++
    (match b.willOf? cid with | some (_, w, _) => h.willEvents cid w | none => [])

/-- events of `internalClose` + `unregisterClient` for `conn` (mirrors the decisions of `unregisterH`) -/
def HSt.unregEvents (h : HSt) (b : B) (conn : String) (force : Bool := false) : List String :=
  match b.cli? conn with
  | none => []
  | some c =>
    let closed := h.ev "OnClosed" (tok c.cid)
    match b.sess? c.cid with
    | none => closed ++ h.termEvents b c.cid 0
    | some s0 =>
      let s := if !force && c.v == 5 then
          match c.discExpiry with
          | some (some e) => { s0 with expiry := e }
          | _ => s0
        else s0
      let store := !force && s.expiry != 0
      let delay := if s.expiry ≤ s.willDelay then s.expiry else s.willDelay
      let will := if !c.cleanWill then
          match s.will with
          | some w => if delay != 0 && store then [] else h.willEvents c.cid w
          | none => []
        else []
      let b' := if !c.cleanWill && s.will.isSome && delay != 0 && store then b.dropWill c.cid else b
      closed ++ will ++ (if store then [] else h.termEvents b' c.cid 0)

/-- events of the authenticated part of CONNECT (`registerClient`), from the state before it -/
def HSt.admitEvents (h : HSt) (b : B) (r : ConnectReq) : List String :=
  let wv := h.wv
  let (takeover, b1) := match b.cliOf? r.cid with
    | some old => (h.unregEvents b old.conn, kickH wv b old.conn (some 0x8E))
    | none => ([], b)
  let resume := wouldResume b1 r
  takeover ++ h.ev "OnConnected" (tok r.cid) ++
    (if (b1.sess? r.cid).isSome && !resume then h.termEvents b1 r.cid 1 else []) ++
    h.ev (if resume then "OnSessionResumed" else "OnSessionCreated") (tok r.cid)

/-! ### rendering -/

def showX : XPkt → String
  | .connackErr v code => if v == 5 then s!"connack(sp=0,code={code},se=-,rm=-,ta=-,mp=-,ka=-)" else s!"connack(sp=0,code={code})"
  | .auth c => s!"auth({c})"
  | .closed => "closed"

/-- `Driver.Broker.flush` plus the packets `Pkt` cannot express (they never share an op with other H packets) -/
def flushX (b : B) (xout : List XOut) : B × String :=
  let conns := (((b.out.map (·.conn)) ++ (xout.map (·.conn))).eraseDups).mergeSort (· ≤ ·)
  let parts := conns.map (fun cn =>
    let mine := b.out.filter (·.conn == cn)
    let hx := (xout.filter (·.conn == cn)).map (fun o => showX o.pkt)
    let hh := (mine.filter (!·.poll)).map (fun o => showPkt o.pkt)
    let p := (mine.filter (·.poll)).map (fun o => showPkt o.pkt)
    cn ++ "|H:" ++ String.intercalate "," (hx ++ hh) ++ "|P:" ++ String.intercalate "," p)
  ({ b with out := [] }, if parts.isEmpty then "-" else String.intercalate " " parts)

def HSt.bh (h : HSt) : BH := { b := h.st.b, pending := h.pending, authMethod := h.authMethod }

/-- finish an op on the extended state: pump, track, render -/
def finishH (h : HSt) (bh : BH) (pre : String := "") : HSt × String :=
  let b := bh.b.pumpAll
  let st := track { h.st with b := b }
  let (b', s) := flushX st.b bh.xout
  ({ h with st := { st with b := b' }, pending := bh.pending, authMethod := bh.authMethod },
   if pre.isEmpty then s else pre ++ " " ++ s)

def sortS (l : List String) : List String := l.mergeSort (· ≤ ·)
def joinPlus (l : List String) : String := if l.isEmpty then "~" else String.intercalate "+" l

def snapshot (b : B) : String :=
  let sess := sortS (b.sessions.map (fun s => tok s.cid ++ (match s.will with | some w => "!" ++ tok w.tag | none => "")))
  let subs := sortS (b.subs.map (fun cs => s!"{tok cs.1}:{tok cs.2.fullName}:{cs.2.qos}"))
  let ret := sortS (b.retained.map (fun tm => s!"{tok tm.1}:{tm.2.qos}:{tok tm.2.tag}"))
  s!"sess={joinPlus sess} subs={joinPlus subs} ret={joinPlus ret} online={b.clis.length} offline={b.offline.length} wills={b.pendingWills.length} queues={b.sessions.length} unacks={b.sessions.length}"

/-- the generated facts, entry by entry: what a failing `all_wrappers_installed` is about -/
def factsLine : String :=
  let f := Generated.hookWrapperFields
  let nc := f.filter (fun k => !Generated.collectedKinds.contains k)
  let na := f.filter (fun k => !Generated.appliedKinds.contains k)
  let nr := Generated.appliedKinds.filter (fun k => !Generated.appliedOutermostFirst.contains k)
  s!"not-collected={joinPlus nc} not-applied={joinPlus na} not-outermost-first={joinPlus nr}"

def parseConnect (cn cid : String) (m : KV) : ConnectReq :=
  let v := getN m "v" 4
  { conn := cn, cid := unesc cid, v := v, clean := getN m "cs" 1 == 1, se := getO m "se", rm := getO m "rm",
    mp := getO m "mp", ta := getO m "ta", ka := getN m "ka" 0,
    will := match getS m "will" with | some w => parseWill w v | none => none }

/-- complete an accepted CONNECT -/
def admitStep (h : HSt) (r : ConnectReq) (method : Option String) : HSt × String :=
  let h := h.fire (h.admitEvents h.st.b r)
  finishH h (admitConn h.wv h.bh r method)

def step (h : HSt) (line : String) : HSt × String :=
  let delegate : HSt × String :=
    let (st, s) := Driver.Broker.step h.st line
    ({ h with st := st }, s)
  match words line with
  | "new" :: rest =>
    let (_, m) := kvSplit rest
    let (st, s) := Driver.Broker.step {} line
    let hooks := (getS m "order").isSome || (getS m "plugins").isSome || (getS m "base").isSome
    let order := match getS m "order" with
      | some o => if o == "" || o == "~" then [] else o.splitOn ","
      | none => ["a", "b", "c"].take (getN m "plugins" 0)
    ({ st := st, hooks := hooks, order := if hooks then order else [], base := hooks && getN m "base" 0 == 1 }, s)
  | "facts" :: _ => (h, factsLine)
  | op :: rest =>
    if !h.st.have_ then (h, "no-broker") else
    let bump (h : HSt) : HSt := { h with st := { h.st with opIndex := h.st.opIndex + 1, b := { h.st.b with now := h.st.b.now + 1 } } }
    let (pos, m) := kvSplit rest
    match op, pos with
    | "hook", args =>
      let h := bump h
      if !h.hooks then (h, "nohooks") else
      match args with
      | ["clear"] => ({ h with verdicts := [] }, "ok")
      | [kind, "clear"] => ({ h with verdicts := h.verdicts.filter (·.1 != kind) }, "ok")
      | kind :: who :: _ => ({ h with verdicts := (kind, who, m) :: h.verdicts.filter (·.1 != kind) }, "ok")
      | _ => (h, "bad-op")
    | "hooklog", _ =>
      let h := bump h
      if !h.hooks then (h, "nohooks") else
      ({ h with log := [] }, if h.log.isEmpty then "-" else String.intercalate " " h.log)
    | "api", "snapshot" :: _ => (bump h, snapshot h.st.b)
    | "conn", cn :: cid :: _ =>
      let h := bump h
      let r := parseConnect cn cid m
      let h := h.fire (h.ev "OnAccept" "")
      if getS (h.verdict "OnAccept") "accept" == some "0" then (h, s!"send-failed {cn}|H:closed|P:")
      else
        let h := { h with st := { h.st with connCid := (cn, r.cid) :: h.st.connCid.filter (·.1 != cn),
                                            connVer := (cn, r.v) :: h.st.connVer.filter (·.1 != cn) } }
        let method := if r.v == 5 then getS m "am" else none
        match method with
        | none =>
          let h := h.fire (h.ev "OnBasicAuth" (tok r.cid))
          let av := authVerdict (h.verdict "OnBasicAuth")
          (match av with
           | .reject _ => finishH h (connectH av h.wv h.bh r none)
           | _ => admitStep h r none)
        | some am =>
          -- `srv.hooks.OnEnhancedAuth == nil`: "OnEnhancedAuth hook is nil" (0x80)
          let h := h.fire (h.ev "OnEnhancedAuth" (tok r.cid))
          let av := if h.hooked "OnEnhancedAuth" then authVerdict (h.verdict "OnEnhancedAuth") else .reject 0x80
          (match av with
           | .accept => admitStep h r (some am)
           | _ => finishH h (connectH av h.wv h.bh r (some am)))
    | "auth", cn :: _ =>
      let h := bump h
      let code := getN m "code" 24
      match h.pending.find? (·.1 == cn) with
      | some (_, r, am) =>
        if code != 24 then finishH h (authContinueH .accept h.wv h.bh cn code)
        else
          let h := { h with log := h.log ++ [s!"OnAuth(~,code{code}):*"] }
          let kv := match h.verdicts.find? (·.1 == "OnAuth") with | some (_, _, kv) => kv | none => []
          (match authVerdict kv with
           | .accept => admitStep h r (some am)
           | av => finishH h (authContinueH av h.wv h.bh cn code))
      | none =>
        match h.st.b.cli? cn with
        | none => (h, "no-conn")
        | some c =>
          let method := ((h.authMethod.find? (·.1 == cn)).map (·.2)).getD ""
          let dataMatches := unesc ((getS m "ad").getD "") == method
          let hooked := h.hooked "OnReAuth"
          let called := c.v == 5 && dataMatches && hooked
          let h := if called then h.fire (h.ev "OnReAuth" s!"{tok c.cid},code{code}") else h
          let av := authVerdict (h.verdict "OnReAuth")
          let kicked := !called || (match av with | .reject _ => true | _ => false)
          let h := if kicked then h.fire (h.unregEvents h.st.b cn) else h
          finishH h (reauthH av h.wv h.bh cn dataMatches hooked)
    | "sub", cn :: pid :: topics =>
      let h := bump h
      match h.st.b.cli? cn with
      | none => (h, "no-conn")
      | some c =>
        let ts := topics.map parseSubTopic
        let kv := h.verdict "OnSubscribe"
        let rejL := pairsOf ((getS kv "rej").getD "")
        let grantL := pairsOf ((getS kv "grant").getD "")
        let b' := subscribeH (errOf kv) (lookupN rejL) (lookupN grantL) h.st.b cn (natOf pid) ts (getN m "id" 0)
        let codes := match b'.out.getLast? with | some { pkt := .suback _ cs, .. } => cs | _ => []
        let subscribed := (ts.zip codes).flatMap (fun (tc : SubTopic × Nat) =>
          if tc.2 < 0x80 then h.ev "OnSubscribed" s!"{tok c.cid},{tok tc.1.name}/q{tc.2}" else [])
        let h := h.fire (h.ev "OnSubscribe" s!"{tok c.cid},{String.intercalate "+" (ts.map (fun t => s!"{tok t.name}/q{t.qos}"))}" ++ subscribed)
        finishH h { h.bh with b := b' }
    | "unsub", cn :: pid :: topics =>
      let h := bump h
      match h.st.b.cli? cn with
      | none => (h, "no-conn")
      | some c =>
        let ts := topics.map unesc
        let kv := h.verdict "OnUnsubscribe"
        let rejL := pairsOf ((getS kv "rej").getD "")
        let renL := pairsOf ((getS kv "ren").getD "")
        let ren := fun t => match renL.find? (·.1 == t) with | some (_, n) => unesc n | none => t
        let b' := unsubscribeH (errOf kv) (lookupN rejL) ren h.st.b cn (natOf pid) ts
        let done := if (errOf kv).isSome then [] else
          (ts.filter (fun t => (lookupN rejL t).isNone)).flatMap (fun t => h.ev "OnUnsubscribed" s!"{tok c.cid},{tok (ren t)}")
        let h := h.fire (h.ev "OnUnsubscribe" s!"{tok c.cid},{String.intercalate "+" (ts.map tok)}" ++ done)
        finishH h { h.bh with b := b' }
    | "pub", cn :: topic :: _ =>
      let h := bump h
      match h.st.b.cli? cn with
      | none => (h, "no-conn")
      | some c =>
        let tag := unesc ((getS m "tag").getD "")
        let n := getN m "n" 0
        let plen := if n > tag.utf8ByteSize then n else tag.utf8ByteSize
        let msg : Msg := { topic := unesc topic, tag := tag, plen := plen, qos := getN m "q" 0, expiry := getN m "e" 0 }
        let r : PubReq := { conn := cn, topic := unesc topic, qos := getN m "q" 0, pid := getN m "pid" 0, retain := getN m "r" 0 == 1,
                            dup := getN m "d" 0 == 1, alias := getO m "a", expiry := getO m "e", tag := tag, plen := plen,
                            size := totalBytes c.v msg + (if c.v == 5 && (getO m "a").isSome then 3 else 0),
                            hints := match getS m "hint" with | some x => (x.splitOn "+").filterMap String.toNat? | none => [],
                            rapHint := match getS m "rap" with | some x => x.splitOn "+" | none => [] }
        let v := msgVerdict (h.verdict "OnMsgArrived")
        let h := match publishPre h.wv h.st.b r with
          | .refused _ => h.fire (h.unregEvents h.st.b cn)
          | .admitted _ c' s r' =>
            if r.qos == 2 && s.unack.contains r.pid then h
            else h.fire (h.ev "OnMsgArrived" s!"{tok c'.cid},{msgDetail (reqMsg r')}")
        finishH h { h.bh with b := publishH v h.wv h.st.b r }
    | "disc", cn :: _ =>
      let h := bump h
      if (h.st.b.cli? cn).isNone then (h, "no-conn") else
      -- the broker closes the socket once readHandle has returned (writeLoop's exit closes it), so the connection
      -- is already gone when the scripted client closes its own end
      let b1 := h.st.b.disconnectIn cn (getO m "se") (getN m "code" 0)
      let h := h.fire (h.unregEvents b1 cn)
      let (h, s1) := finishH h { h.bh with b := closeH h.wv b1 cn }
      let (h, s2) := finishH h h.bh
      (h, s1 ++ " " ++ s2)
    | "close", cn :: _ =>
      let h := bump h
      if (h.st.b.cli? cn).isNone then (h, "no-conn") else
      let h := h.fire (h.unregEvents h.st.b cn)
      finishH h { h.bh with b := closeH h.wv h.st.b cn }
    | "raw", cn :: _ =>
      let h := bump h
      if (h.st.b.cli? cn).isNone then (h, "no-conn") else
      let h := h.fire (h.unregEvents h.st.b cn)
      finishH h { h.bh with b := kickH h.wv h.st.b cn (some 0x81) }
    | "sleep", ms :: _ =>
      let h := bump h
      let b := h.st.b
      let due := b.pendingWills.filter (fun w => w.2.2 ≤ b.now + natOf ms)
      let h := h.fire (due.flatMap (fun w => h.willEvents w.1 w.2.1))
      finishH h { h.bh with b := sleepH h.wv b (natOf ms) }
    | _, _ => delegate
  | [] => (h, "bad-op")

end Driver.BrokerHooks

def main : IO Unit := do
  Driver.loop (← IO.getStdin) (← IO.getStdout) ({} : Driver.BrokerHooks.HSt) Driver.BrokerHooks.step
