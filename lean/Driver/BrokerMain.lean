import Driver.Broker
/- root module of `oracle_broker`; other drivers import `Driver.Broker` and reuse `Driver.Broker.step` -/
def main : IO Unit := do
  Driver.loop (← IO.getStdin) (← IO.getStdout) ({} : Driver.Broker.St) Driver.Broker.step
