import GmqttVerif.Model.Codec.Size
import Driver.Common
/- line protocol for pkg/packets + message.go (C06); same ops and output as harness/cmd/drive_codec -/
namespace Driver.Codec
open GmqttVerif.Codec Driver

def hexDigit (n : Nat) : Char := if n < 10 then Char.ofNat (48 + n) else Char.ofNat (87 + n)

def hex2 (n : Nat) : String := String.ofList [hexDigit (n / 16 % 16), hexDigit (n % 16)]

def hexOf (bs : Bytes) : String := String.join (bs.map hex2)

def hexVal (c : Char) : Option Nat :=
  let n := c.toNat
  if 48 ≤ n && n ≤ 57 then some (n - 48)
  else if 97 ≤ n && n ≤ 102 then some (n - 87)
  else if 65 ≤ n && n ≤ 70 then some (n - 55)
  else none

def unhexList : List Char → Option Bytes
  | [] => some []
  | [_] => none
  | a :: b :: t =>
    match hexVal a, hexVal b, unhexList t with
    | some x, some y, some r => some ((x * 16 + y) :: r)
    | _, _, _ => none

/-- "-" is the empty byte string -/
def unhex (s : String) : Option Bytes := if s == "-" then some [] else unhexList s.toList

/-- "-" = nil, "x<hex>" = non-nil -/
def unhx (s : String) : Option (Option Bytes) :=
  if s == "-" then some none
  else match s.toList with
    | 'x' :: t => (unhexList t).map some
    | _ => none

def hx (b : Bytes) : String := "x" ++ hexOf b
def hxo : Option Bytes → String
  | none => "-"
  | some b => hx b

def b2i (b : Bool) : String := if b then "1" else "0"

def showEntry : Nat × PVal → String
  | (id, .byte n) => s!"{hex2 id}={n}"
  | (id, .u16 n) => s!"{hex2 id}={n}"
  | (id, .u32 n) => s!"{hex2 id}={n}"
  | (id, .str b) => s!"{hex2 id}={hx b}"
  | (id, .vbis l) => s!"{hex2 id}=" ++ String.intercalate "|" (l.map toString)
  | (id, .users l) => s!"{hex2 id}=" ++ String.intercalate "|" (l.map (fun kv => hx kv.1 ++ ":" ++ hx kv.2))

def showProps : Option Props → String
  | none => "nil"
  | some l => "{" ++ String.intercalate "," (l.map showEntry) ++ "}"

def showAck (name : String) (withVer : Bool) (a : Ack) : String :=
  if withVer then s!"{name} ver={a.version} pid={a.pid} code={a.code} props={showProps a.props}"
  else s!"{name} pid={a.pid} code={a.code} props={showProps a.props}"

def dump : Packet → String
  | .connect c =>
    s!"CONNECT ver={c.version} level={c.level} name={hx c.protoName} uf={b2i c.usernameFlag} pf={b2i c.passwordFlag} " ++
    s!"wr={b2i c.willRetain} wq={c.willQos} wf={b2i c.willFlag} cs={b2i c.cleanStart} ka={c.keepAlive} cid={hx c.clientID} " ++
    s!"wt={hxo c.willTopic} wm={hxo c.willMsg} user={hxo c.username} pass={hxo c.password} " ++
    s!"props={showProps c.props} wprops={showProps c.wprops}"
  | .connack c => s!"CONNACK ver={c.version} code={c.code} sp={b2i c.sessionPresent} props={showProps c.props}"
  | .publish p =>
    s!"PUBLISH ver={p.version} dup={b2i p.dup} qos={p.qos} retain={b2i p.retain} topic={hx p.topic} pid={p.pid} " ++
    s!"payload={hx p.payload} props={showProps p.props}"
  | .puback a => showAck "PUBACK" true a
  | .pubrec a => showAck "PUBREC" true a
  | .pubrel a => showAck "PUBREL" false a
  | .pubcomp a => showAck "PUBCOMP" true a
  | .subscribe s =>
    let ts := s.topics.map (fun t => s!"{hx t.name}:{t.qos}:{b2i t.noLocal}:{b2i t.rap}:{t.retainHandling}")
    s!"SUBSCRIBE ver={s.version} pid={s.pid} topics=[{String.intercalate "," ts}] props={showProps s.props}"
  | .suback s => s!"SUBACK ver={s.version} pid={s.pid} payload={hxo s.payload} props={showProps s.props}"
  | .unsubscribe u =>
    s!"UNSUBSCRIBE ver={u.version} pid={u.pid} topics=[{String.intercalate "," (u.topics.map hx)}] props={showProps u.props}"
  | .unsuback s => s!"UNSUBACK ver={s.version} pid={s.pid} payload={hxo s.payload} props={showProps s.props}"
  | .pingreq => "PINGREQ"
  | .pingresp => "PINGRESP"
  | .disconnect d => s!"DISCONNECT ver={d.version} code={d.code} props={showProps d.props}"
  | .auth a => s!"AUTH code={a.code} props={showProps a.props}"

def errClass : Err → String
  | .io => "io"
  | .other => "other"
  | .code c => if c = 0x81 then "malformed" else if c = 0x82 then "protocol" else "code" ++ hex2 c

def verOf : String → Option Nat
  | "3" => some 3
  | "4" => some 4
  | "5" => some 5
  | _ => none

/-- remaining length the decoded packet's `FixHeader` carries: the value read from the wire -/
def wireRemLen (bs : Bytes) : Nat :=
  match bs with
  | [] => 0
  | _ :: s1 => match decVbi s1 with
    | .ok (n, _) => n
    | .error _ => 0

def decLine (ver : Nat) (data : Bytes) : String :=
  let o := readPacket ver data
  let consumed := data.length - o.rest.length
  match o.res with
  | .error e => s!"err:{errClass e} consumed={consumed}"
  | .ok p =>
    let d0 := dump p
    let size0 := totalBytes (wireRemLen data)
    match bodyOf p with
    | .error e => s!"ok {d0} consumed={consumed} size0={size0} packerr:{errClass e}"
    | .ok (t, fl, body) =>
      match frame t fl body with
      | .error e => s!"ok {d0} consumed={consumed} size0={size0} packerr:{errClass e}"
      | .ok out =>
        let size := totalBytes body.length
        let o2 := readPacket ver out
        let rt := match o2.res with
          | .error e => "err:" ++ errClass e
          | .ok p2 =>
            if o2.rest.length != 0 then s!"short:{out.length - o2.rest.length}"
            else if dump p2 != d0 then "differs" else "ok"
        s!"ok {d0} consumed={consumed} size0={size0} size={size} reenc={hexOf out} rt={rt}"

def msgReport (m : Message) (ver : Nat) : String :=
  let total := msgTotalBytes ver m
  match pack (.publish (messageToPublish m ver)) with
  | .error e => s!"total={total} packerr:{errClass e}"
  | .ok out => s!"total={total} len={out.length} repack={hexOf out}"

def streamLoop : Nat → Nat → Nat → Bytes → List String → List String
  | 0, _, _, _, acc => acc
  | fuel + 1, ver, total, bs, acc =>
    if bs.isEmpty then acc else
    let o := readPacket ver bs
    let after := total - o.rest.length
    match o.res with
    | .error e => acc ++ [s!"err:{errClass e}@{after}"]
    | .ok p =>
      let name := ((dump p).splitOn " ").headD ""
      let v := match p with
        | .connect c => s!"v{c.version}"
        | _ => ""
      streamLoop fuel (versionAfter ver o.res) total o.rest (acc ++ [s!"{name}{v}@{after}"])

def parseUsers (s : String) : Option (List (Bytes × Bytes)) :=
  if s == "-" then some [] else
  (s.splitOn "|").mapM (fun kv =>
    match kv.splitOn ":" with
    | [k, v] => match unhx k, unhx v with
      | some k', some v' => some (k'.getD [], v'.getD [])
      | _, _ => none
    | _ => none)

def parseSubIds (s : String) : List Nat :=
  if s == "-" then [] else (s.splitOn "|").map natOf

def step (_ : Unit) (line : String) : Unit × String :=
  let out : String :=
    match words line with
    | ["keep", v, h] =>
      -- decoded packets are values: keeping them while other codec calls run changes nothing
      match verOf v, (h.splitOn ",").mapM unhex with
      | some ver, some datas => "keep " ++ String.intercalate " | " (datas.map (decLine ver))
      | _, _ => "bad-op"
    | ["pf", _, _, _] => "pf"      -- an encode into a failing writer: encoding is a function of the packet, nothing carries over
    | [op, v, h] =>
      match verOf v, unhex h with
      | some ver, some data =>
        if op == "dec" then decLine ver data
        else if op == "msg" then
          let o := readPacket ver data
          match o.res with
          | .error e => "err:" ++ errClass e
          | .ok (.publish p) => msgReport { messageFromPublish p with pid := p.pid } ver
          | .ok _ => "notpublish"
        else if op == "alloc" then
          let o := readPacket ver data
          let res := match o.res with
            | .ok _ => "ok"
            | .error e => "err:" ++ errClass e
          res ++ " alloc=" ++ (if allocBytes ver data > 4 * data.length + 16384 then "excess" else "proportional")
        else "bad-op"
      | _, _ => "bad-op"
    | [op, a] =>
      if op == "stream" then
        match unhex a with
        | some data => String.intercalate " " ("stream" :: streamLoop (data.length + 1) 4 data.length data [])
        | none => "bad-op"
      else if op == "vbi" then
        match unhex a with
        | some data =>
          match decVbi data with
          | .ok (n, rest) => s!"ok {n} consumed={data.length - rest.length}"
          | .error e => s!"err:{errClass e} consumed={data.length - (vbiErrRest data 0 0).length}"
        | none => "bad-op"
      else if op == "evbi" then
        match a.toNat? with
        | some n => match encVbi n with
          | .ok b => "ok " ++ hexOf b
          | .error e => "err:" ++ errClass e
        | none => "bad-op"
      else if op == "vt" || op == "vf" || op == "v5" || op == "u8" || op == "rvt" || op == "rvf" || op == "rv5" then
        match unhx a with
        | some (some data) =>
          b2i (if op == "vt" then validUTF8 data && validTopicName true data
               else if op == "vf" then validUTF8 data && validTopicFilter true data
               else if op == "v5" then validUTF8 data && validV5Topic data
               else if op == "rvt" then validTopicName true data
               else if op == "rvf" then validTopicFilter true data
               else if op == "rv5" then validV5Topic data
               else validUTF8 data)
        | _ => "bad-op"
      else "bad-op"
    | ["mk", v, qos, retain, dup, pid, topic, payload, ct, cd, expiry, pf, rt, subids, user] =>
      match verOf v, unhx topic, unhx payload, unhx ct, unhx cd, unhx rt, parseUsers user with
      | some ver, some t, some p, some c, some d, some r, some us =>
        msgReport { dup := dup == "1", qos := natOf qos, retained := retain == "1", topic := t.getD [], payload := p.getD [],
                    pid := natOf pid, contentType := c.getD [], correlationData := d, messageExpiry := natOf expiry,
                    payloadFormat := natOf pf, responseTopic := r.getD [], subIds := parseSubIds subids, user := us } ver
      | _, _, _, _, _, _, _ => "bad-op"
    | _ => "bad-op"
  ((), out)

end Driver.Codec

def main : IO Unit := do
  Driver.loop (← IO.getStdin) (← IO.getStdout) () Driver.Codec.step
