import GmqttVerif.Model.Codec.SourceTie
/- `oracle_codecfacts`: prints every entry on which the regenerated facts of pkg/packets/properties.go
   (Generated/Codec.lean) and the model's transcription differ, one per line, then the self-check of the expected
   fingerprints, then `tied` when there is nothing to report. Used by `bin/check C06` for the model-side search when
   `Properties/C06Tables.lean` no longer builds, and on every run to keep expected texts and fingerprints together. -/
open GmqttVerif.Codec

def main : IO Unit := do
  let ds := diffs
  let sc := selfCheck
  for l in ds do IO.println l
  for l in sc do IO.println l
  if ds.isEmpty && sc.isEmpty then IO.println "tied"
