/- shared helpers for the line-protocol oracle (core Lean only) -/
namespace Driver

def words (s : String) : List String :=
  (s.splitOn " ").filter (· ≠ "")

def natOf (s : String) : Nat := s.toNat?.getD 0

def natList (s : String) : List Nat :=
  if s == "-" then [] else (s.splitOn ",").filterMap String.toNat?

def showInt (i : Int) : String := if i < 0 then s!"-{i.natAbs}" else s!"{i.natAbs}"

/-- strip the trailing newline / carriage return -/
def chomp (s : String) : String :=
  let s := if s.endsWith "\n" then (s.dropEnd 1).toString else s
  if s.endsWith "\r" then (s.dropEnd 1).toString else s

/-- read lines until EOF, thread a state, print one output line per input line -/
partial def loop {σ : Type} (h : IO.FS.Stream) (out : IO.FS.Stream) (st : σ)
    (step : σ → String → σ × String) : IO Unit := do
  let line ← h.getLine
  if line.isEmpty then
    out.flush
    return ()
  let (st', o) := step st (chomp line)
  out.putStrLn o
  loop h out st' step

end Driver
