import GmqttVerif.Model.Fed.EventQueue
import Driver.Common
/- line protocol for `federation.eventQueue` (C16). Event bodies are ghost tags (numbers). -/
namespace Driver.FedQueue
open GmqttVerif.Fed Driver

abbrev Q := EQ Nat

def showIds (l : List (Event Nat)) : String := String.intercalate "," (l.map (fun e => toString e.id))

def showEvs (l : List (Event Nat)) : String := String.intercalate "," (l.map (fun e => s!"{e.id}:{e.body}"))

/-- ids of the list, compressed when they are consecutive (they always are unless the model is wrong) -/
def showList (l : List (Event Nat)) : String :=
  match l with
  | [] => "[]"
  | e :: _ =>
    let ids := l.map (·.id)
    if ids == List.range' e.id l.length then s!"[{e.id}..{e.id + l.length - 1}]" else s!"[{showIds l}]"

def dump (q : Q) : String :=
  let cur := match q.dangling with
    | some e => s!"dangling:{e.id}"
    | none => match q.rest with
      | [] => "nil"
      | e :: _ => s!"at:{e.id}"
  s!"l={showList q.items} cur={cur} nid={q.nextID} closed={if q.closed then 1 else 0}"

def step (q : Q) (line : String) : Q × String :=
  match words line with
  | ["new"] => (EQ.empty, "ok " ++ dump (EQ.empty : Q))
  | ["add", tag] =>
    let r := q.add (natOf tag)
    (r.1, s!"id={r.2} " ++ dump r.1)
  | ["fetch"] =>
    match q.fetch with
    | (q', .blocked) => (q', "blocked " ++ dump q')
    | (q', .closed) => (q', "closed " ++ dump q')
    | (q', .ok evs) => (q', s!"ev=[{showEvs evs}] " ++ dump q')
  | ["ack", id] => let q' := q.ack (natOf id); (q', "ok " ++ dump q')
  | ["setpos", id] => let q' := q.setReadPosition (natOf id); (q', "ok " ++ dump q')
  | ["clear"] => let q' := q.clear; (q', "ok " ++ dump q')
  | ["close"] => let q' := q.close; (q', "ok " ++ dump q')
  | ["open"] => let q' := q.open; (q', "ok " ++ dump q')
  | _ => (q, "bad-op")

end Driver.FedQueue

def main : IO Unit := do
  Driver.loop (← IO.getStdin) (← IO.getStdout) (GmqttVerif.Fed.EQ.empty : Driver.FedQueue.Q) Driver.FedQueue.step
