import GmqttVerif.Model.Fed.Route
import GmqttVerif.Model.Fed.Node
import Driver.Common
/- line protocol for `Federation.sendMessage` (C17). -/
namespace Driver.FedRoute
open GmqttVerif.Fed Driver

def optStr (s : String) : String := if s == "-" then "" else s
def sortS (l : List String) : List String := l.mergeSort (fun a b => !(b < a))

def showOut (o : RouteOut) : String :=
  let cnt := sortS (o.sent.map (fun p => s!"{p.1}:{p.2}"))
  s!"targets=[{String.intercalate "," (sortS o.targets)}] drop={if o.drop then 1 else 0} " ++
  s!"nso={if o.nonSharedOnly then 1 else 0} cnt=[{String.intercalate ";" cnt}]"

def setCnt (sent : List (String × Nat)) (t : String) (n : Nat) : List (String × Nat) :=
  (sent.filter (·.1 != t)) ++ [(t, n)]

/-- per peer the queued events as `id:topic` (all events of this driver are Message events) -/
def showQueues (n : Node) : String :=
  let one (p : String × EQ Body) : String :=
    p.1 ++ "=" ++ String.intercalate "," (p.2.items.map (fun e => match e.body with
      | .msg m => s!"{e.id}:{if m.topic == "" then "-" else m.topic}"
      | _ => s!"{e.id}:?"))
  "qs=[" ++ String.intercalate ";" (sortS (n.queues.map one)) ++ "]"

def step (n : Node) (line : String) : Node × String :=
  -- `pubd` = `pub` with DUP=1 on the client's PUBLISH: the flag says the CLIENT sent the packet before, routing is the same
  let ws := match words line with
    | "pubd" :: rest => "pub" :: rest
    | "wpub" :: rest => "pub" :: rest     -- a will message takes the same routing decision (OnWillPublishWrapper → sendMessage)
    | l => l
  match ws with
  | ["new", self] => ({ recv := Recv.new self, locals := [], sent := [], queues := [] }, "ok")
  | ["peer", p] =>
    if p == n.recv.self || n.recv.peers.contains p then (n, "ok")
    else ({ n with recv := n.recv.nodeJoin p, queues := n.queues ++ [(p, EQ.empty)] }, "ok")
  | ["fsub", p, share, filter] =>
    let k : SubKey := { node := p, share := optStr share, filter := filter }
    (if n.recv.subs.contains k then n else { n with recv := { n.recv with subs := n.recv.subs ++ [k] } }, "ok")
  | ["funsub", p, topic] =>
    let st := splitTopic topic
    let k : SubKey := { node := p, share := st.1, filter := st.2 }
    ({ n with recv := { n.recv with subs := n.recv.subs.filter (· != k) } }, "ok")
  | ["lsub", c, share, filter] =>
    let k : LocalSub := { client := c, share := optStr share, filter := filter }
    (if n.locals.contains k then n else { n with locals := n.locals ++ [k] }, "ok")
  | ["lunsub", c, topic] =>
    let st := splitTopic topic
    let k : LocalSub := { client := c, share := st.1, filter := st.2 }
    ({ n with locals := n.locals.filter (· != k) }, "ok")
  | ["cnt", t, k] => ({ n with sent := setCnt n.sent t (natOf k) }, "ok")
  | ["recvpub", _, _, _] =>
    -- `Node.onStreamEvent` touches neither the peer queues nor the hook layer (C17 `receiver_no_reforward`)
    (n, "hookcalls=0 queued=0")
  | ["pub", topic, ret] =>
    let m : Msg := { topic := optStr topic, retained := ret == "1", payload := 1, qos := 1 }
    let o := route n.routeIn m.topic m.retained
    let r := n.onMsgArrived m
    (r.1, showOut o ++ " " ++ showQueues r.1)
  | _ => (n, "bad-op")

end Driver.FedRoute

def main : IO Unit := do
  Driver.loop (← IO.getStdin) (← IO.getStdout)
    ({ recv := GmqttVerif.Fed.Recv.new "self", locals := [], sent := [], queues := [] } : GmqttVerif.Fed.Node) Driver.FedRoute.step
