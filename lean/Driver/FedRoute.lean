import GmqttVerif.Model.Fed.Route
import Driver.Common
/- line protocol for `Federation.sendMessage` (C17). -/
namespace Driver.FedRoute
open GmqttVerif.Fed Driver

def optStr (s : String) : String := if s == "-" then "" else s
def sortS (l : List String) : List String := l.mergeSort (fun a b => !(b < a))

def showOut (o : RouteOut) : String :=
  let cnt := sortS (o.sent.map (fun p => s!"{p.1}:{p.2}"))
  s!"targets=[{String.intercalate "," (sortS o.targets)}] drop={if o.drop then 1 else 0} " ++
  s!"nso={if o.nonSharedOnly then 1 else 0} cnt=[{String.intercalate ";" cnt}]"

def setCnt (sent : List (String × Nat)) (t : String) (n : Nat) : List (String × Nat) :=
  (sent.filter (·.1 != t)) ++ [(t, n)]

def step (i : RouteIn) (line : String) : RouteIn × String :=
  match words line with
  | ["new", self] => ({ self := self, peers := [], fedSubs := [], locals := [], sent := [] }, "ok")
  | ["peer", n] =>
    if n == i.self || i.peers.contains n then (i, "ok") else ({ i with peers := i.peers ++ [n] }, "ok")
  | ["fsub", n, share, filter] =>
    let k : SubKey := { node := n, share := optStr share, filter := filter }
    (if i.fedSubs.contains k then i else { i with fedSubs := i.fedSubs ++ [k] }, "ok")
  | ["funsub", n, topic] =>
    let st := splitTopic topic
    let k : SubKey := { node := n, share := st.1, filter := st.2 }
    ({ i with fedSubs := i.fedSubs.filter (· != k) }, "ok")
  | ["lsub", c, share, filter] =>
    let k : LocalSub := { client := c, share := optStr share, filter := filter }
    (if i.locals.contains k then i else { i with locals := i.locals ++ [k] }, "ok")
  | ["lunsub", c, topic] =>
    let st := splitTopic topic
    let k : LocalSub := { client := c, share := st.1, filter := st.2 }
    ({ i with locals := i.locals.filter (· != k) }, "ok")
  | ["cnt", t, n] => ({ i with sent := setCnt i.sent t (natOf n) }, "ok")
  | ["recvpub", _, _, _] =>
    -- `Node.onStreamEvent` touches neither the peer queues nor the hook layer (C17 `receiver_no_reforward`)
    (i, "hookcalls=0 queued=0")
  | ["pub", topic, ret] =>
    let o := route i (optStr topic) (ret == "1")
    ({ i with sent := o.sent }, showOut o)
  | _ => (i, "bad-op")

end Driver.FedRoute

def main : IO Unit := do
  Driver.loop (← IO.getStdin) (← IO.getStdout)
    ({ self := "self", peers := [], fedSubs := [], locals := [], sent := [] } : GmqttVerif.Fed.RouteIn) Driver.FedRoute.step
