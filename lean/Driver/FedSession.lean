import GmqttVerif.Model.Fed.PeerSession
import Driver.Common
/- line protocol for the receiving side of the federation event stream (C16/C17):
   sessionMgr + Hello + eventStreamHandler + the EventStream receive loop + nodeJoin/nodeFail. -/
namespace Driver.FedSession
open GmqttVerif.Fed Driver

structure St where
  r : Recv := Recv.new "self"
  streams : List String := []      -- nodes with an open server-side stream

def optStr (s : String) : String := if s == "-" then "" else s
def strOpt (s : String) : String := if s == "" then "-" else s

/-- insertion sort on strings (dumps only) -/
def sortS (l : List String) : List String := l.mergeSort (fun a b => !(b < a))

def showSeen (l : LRU) : String :=
  match l.items with
  | [] => "0/-/-/0"
  | x :: _ => s!"{l.items.length}/{x}/{l.items.getLast!}/{l.items.foldl (· + ·) 0}"

def showMsg (m : Msg) : String := s!"{m.topic}:{if m.retained then 1 else 0}:{m.payload}:{m.qos}"

def dump (r : Recv) : String :=
  let subs := sortS (r.subs.map (fun k => s!"{k.node}|{strOpt k.share}|{k.filter}"))
  let sess := sortS (r.sessions.map (fun p => s!"{p.1}:{p.2.id}:{p.2.next}"))
  let ret := sortS (r.retained.map (fun p => s!"{p.1}={p.2.payload}"))
  s!"subs=[{String.intercalate ";" subs}] sess=[{String.intercalate ";" sess}] retained=[{String.intercalate ";" ret}] " ++
  s!"pubs={r.pubs.length} peers=[{String.intercalate "," (sortS r.peers)}]"

def parseBody : List String → Option Body
  | ["sub", share, filter] => some (.sub (optStr share) filter)
  | ["unsub", topic] => some (.unsub topic)
  | ["msg", topic, ret, payload, qos] =>
    some (.msg { topic := optStr topic, retained := ret == "1", payload := natOf payload, qos := natOf qos })
  | _ => none

def step (st : St) (line : String) : St × String :=
  match words line with
  | ["new", self] => ({ r := Recv.new self, streams := [] }, "ok")
  | ["join", node] =>
    let r := st.r.nodeJoin node
    ({ st with r := r }, s!"ok peers=[{String.intercalate "," (sortS r.peers)}]")
  | ["fail", node] =>
    let r := st.r.nodeFail node
    let streams := if st.r.peers.contains node && node != st.r.self then st.streams.filter (· != node) else st.streams
    ({ r := r, streams := streams }, s!"ok peers=[{String.intercalate "," (sortS r.peers)}]")
  | ["hello", node, sid] =>
    -- convention: a node says Hello only after its previous stream has ended
    let st := { st with streams := st.streams.filter (· != node) }
    match st.r.hello node (natOf sid) with
    | (_, none) => (st, "err")
    | (r, some (clean, next)) => ({ st with r := r }, s!"clean={if clean then 1 else 0} next={next}")
  | ["open", node] =>
    if st.streams.contains node then (st, "bad-op")
    else match st.r.getSess node with
      | none => (st, "err")
      | some _ => ({ st with streams := st.streams ++ [node] }, "ok")
  | "ev" :: node :: id :: ackok :: rest =>
    match parseBody rest with
    | none => (st, "bad-op")
    | some b =>
      if !st.streams.contains node then (st, "closed")
      else
        let ok := ackok == "1"
        let n0 := st.r.pubs.length
        let (r, _, aid) := st.r.event node { id := natOf id, body := b } ok
        let s := (r.getSess node).getD (Sess.fresh 0)
        let pub := match r.pubs.drop n0 with
          | m :: _ => " pub=" ++ showMsg m
          | [] => ""
        let streams := if ok then st.streams else st.streams.filter (· != node)
        ({ r := r, streams := streams },
         (if ok then s!"ack={aid}" else "ackfail") ++ s!" next={s.next} seen={showSeen s.seen}" ++ pub)
  | ["break", node] =>
    if st.streams.contains node then ({ st with streams := st.streams.filter (· != node) }, "ok") else (st, "noop")
  | ["dump"] => (st, dump st.r)
  | _ => (st, "bad-op")

end Driver.FedSession

def main : IO Unit := do
  Driver.loop (← IO.getStdin) (← IO.getStdout) ({} : Driver.FedSession.St) Driver.FedSession.step
