import GmqttVerif.Model.Fed.Protocol
import GmqttVerif.Model.Fed.LocalSubs
import Driver.Common
/- oracle for the two-node integration stream `fedsim` (C16): the protocol transition system of
   `Model/Fed/Protocol.lean` driven to quiescence after every op, with one-shot faults. -/
namespace Driver.FedSim
open GmqttVerif.Fed GmqttVerif.Fed.Proto Driver

abbrev S := St String Nat

structure Sim where
  st : S := init [] []
  ls : LS := LS.empty
  connected : Bool := false
  cutSend : Option Nat := none
  cutAck : Option Nat := none
  cutOpen : Bool := false
  cutHello : Bool := false
  cutReq : Bool := false
  atClear : Option (String × String × String) := none     -- (lsub|lunsub, client, topic) to run when clear() is entered
  afterClear : Option (String × String × String) := none  -- … right after clear()
  retainedKeys : List (String × Nat) := []

def sortS (l : List String) : List String := l.mergeSort (fun a b => !(b < a))

def stepD (st : S) (l : Label String Nat) : S := (Proto.step true 100 st l).getD st

/-- a subscribe / unsubscribe hook of the local store: new store and the event it emits (if any) -/
def hookOp (ls : LS) : String × String × String → LS × List (PBody String Nat)
  | ("lsub", c, t) => let r := ls.subscribe c t; (r.1, if r.2 then [.sub t] else [])
  | (_, c, t) => let r := ls.unsubscribe c t; (r.1, if r.2 then [.unsub t] else [])

/-- will the next handshake be a clean start? -/
def willClean (st : S) : Bool :=
  let h := helloR 100 st.r st.s.sid
  cleanDecision true st.s h.2.1 h.2.2

/-- `reconnect` with the armed clear hooks: the one at the entry of `clear()` is an ordinary emission before the step, the one
    after `clear()` is the step's `mid` -/
def reconnectWithHooks (m : Sim) (opens : Bool) : Sim :=
  if willClean m.st then
    let (ls1, ev1) := match m.atClear with
      | some h => hookOp m.ls h
      | none => (m.ls, [])
    let st1 := ev1.foldl (fun st b => stepD st (.emit b)) m.st
    let (ls2, ev2) := match m.afterClear with
      | some h => hookOp ls1 h
      | none => (ls1, [])
    { m with ls := ls2, st := stepD st1 (.reconnect opens ev2), atClear := none, afterClear := none }
  else { m with st := stepD m.st (.reconnect opens []) }

def dec : Option Nat → Option Nat
  | some (n + 1) => some n
  | x => x

/-- drive the model until the stream is up, both buffers are empty and nothing is left to send -/
def settle : Nat → Sim → Sim
  | 0, m => m
  | fuel + 1, m =>
    let st := m.st
    if !st.c.isOpen then
      if m.cutReq then settle fuel { m with st := stepD st .helloFail, cutReq := false }
      else if m.cutHello then settle fuel { m with st := stepD st .helloLost, cutHello := false }
      else if m.cutOpen then settle fuel { (reconnectWithHooks m false) with cutOpen := false }
      else settle fuel (reconnectWithHooks m true)
    else match st.c.up with
      | _ :: _ =>
        if m.cutSend == some 0 then settle fuel { m with st := stepD st .brk, cutSend := none }
        else if m.cutAck == some 0 then settle fuel { m with st := stepD st (.deliver false), cutAck := none, cutSend := dec m.cutSend }
        else settle fuel { m with st := stepD st (.deliver true), cutSend := dec m.cutSend, cutAck := dec m.cutAck }
      | [] =>
        match st.c.down with
        | _ :: _ => settle fuel { m with st := stepD st .deliverAck }
        | [] => if st.s.q.rest.isEmpty then m else settle fuel { m with st := stepD st .fetchSend }

def orderOk (st : S) : Bool := st.r.applied == st.s.hist.take st.r.applied.length

def report (m : Sim) : String :=
  let st := m.st
  s!"n={st.s.hist.length} applied={st.r.applied.length} order={if orderOk st then "ok" else "bad"} " ++
  s!"view=[{String.intercalate "," (sortS st.r.subs)}] local=[{String.intercalate "," (sortS st.s.topics)}] pubs={st.r.pubs.length}"

def fin (m : Sim) : Sim × String :=
  if m.connected then
    let m' := settle 100000 m
    -- the real driver waits until S's queue is fully acknowledged; events that are neither acknowledged nor going to be
    -- re-sent (possible only in the code before 086aedd, after a lost handshake response) show up as `hang`
    (m', (if m'.st.s.q.items.isEmpty then "" else "hang ") ++ report m')
  else (m, report m)

def emitAll (m : Sim) (bs : List (PBody String Nat)) : Sim :=
  { m with st := bs.foldl (fun st b => stepD st (.emit b)) m.st }

def step (m : Sim) (line : String) : Sim × String :=
  match words line with
  | ["new"] => ({}, "ok")
  | ["connect"] => fin { m with connected := true }
  | ["lsub", c, t] =>
    let r := m.ls.subscribe c t
    fin (emitAll { m with ls := r.1 } (if r.2 then [.sub t] else []))
  | ["lunsub", c, t] =>
    let r := m.ls.unsubscribe c t
    fin (emitAll { m with ls := r.1 } (if r.2 then [.unsub t] else []))
  | ["pub", _, tag] => fin (emitAll m [.msg (natOf tag)])
  | ["retain", t, tag] =>
    -- the retained store now holds (t ↦ tag); the publish itself is broadcast as a Message event
    let keys := m.retainedKeys.filter (·.1 != t) ++ [(t, natOf tag)]
    let st := stepD m.st (.setRetained (keys.map (·.2)))
    fin (emitAll { m with st := st, retainedKeys := keys } [.msg (natOf tag)])
  | ["cut-after-send", n] => ({ m with cutSend := some (natOf n) }, "armed")
  | ["cut-before-ack", n] => ({ m with cutAck := some (natOf n) }, "armed")
  | ["cut-open"] => ({ m with cutOpen := true }, "armed")
  | ["cut-hello-resp"] => ({ m with cutHello := true }, "armed")
  | ["cut-hello-req"] => ({ m with cutReq := true }, "armed")
  | ["at-clear", k, c, t] => if k == "lsub" || k == "lunsub" then ({ m with atClear := some (k, c, t) }, "armed") else (m, "bad-op")
  | ["after-clear", k, c, t] => if k == "lsub" || k == "lunsub" then ({ m with afterClear := some (k, c, t) }, "armed") else (m, "bad-op")
  | ["break"] => fin { m with st := stepD m.st .brk }
  | ["peer-restart"] => fin { m with st := stepD m.st .peerRestart }
  | ["sender-restart"] => fin { m with st := stepD m.st (.senderRestart m.st.s.topics m.st.s.retained) }
  | ["settle"] => fin m
  | _ => (m, "bad-op")

end Driver.FedSim

def main : IO Unit := do
  Driver.loop (← IO.getStdin) (← IO.getStdout) ({} : Driver.FedSim.Sim) Driver.FedSim.step
