import GmqttVerif.Model.Queue
import Driver.Common
/- oracle for `drive_hookrestore` (C14): sessions restored from persistence, their queues (Model/Queue.lean, the C10 model)
   overflow; every `dropped` event of the queue model is one OnMsgDropped event, which passes through every plugin's
   wrapper once and reaches the base hook once (`Hooks.wrappers_nest`). -/
namespace Driver.HookRestore
open GmqttVerif.Queue Driver

def kvs (toks : List String) : List (String × String) :=
  toks.filterMap (fun t => match t.splitOn "=" with
    | [k, v] => some (k, v)
    | _ => none)

def getN (m : List (String × String)) (k : String) (d : Nat) : Nat :=
  match m.lookup k with
  | some v => natOf v
  | none => d

structure St where
  qs : List Q := []
  plugins : Nat := 0
  base : Bool := false
  tag : Nat := 0

/-- one message offered to every restored session's queue (QoS capped by the subscription's QoS 1) -/
def offer (st : St) (qos : Nat) : St × Nat :=
  let e : Elem := { tag := st.tag, pub := true, id := 0, qos := min qos 1, exp := none, size := 10 }
  let r := st.qs.map (fun q => q.add 1000 e)
  let drops := (r.map (fun p => (p.2.filter (fun ev => match ev with | .dropped _ _ => true | _ => false)).length)).foldl (· + ·) 0
  ({ st with qs := r.map (·.1), tag := st.tag + 1 }, drops)

def offerN (st : St) (qos : Nat) : Nat → St × Nat
  | 0 => (st, 0)
  | n + 1 =>
    let (st1, d1) := offer st qos
    let (st2, d2) := offerN st1 qos n
    (st2, d1 + d2)

def step (st : St) (line : String) : St × String :=
  match words line with
  | "new" :: rest =>
    let m := kvs rest
    let maxq := getN m "maxq" 1000
    let r := getN m "restore" 0
    ({ qs := List.replicate r (new maxq 30000), plugins := getN m "plugins" 0, base := getN m "base" 0 == 1, tag := 0 }, "ok")
  | ["pub", n, q] =>
    let (st', d) := offerN st (natOf q) (natOf n)
    let ws := String.intercalate "," (List.replicate st.plugins (toString d))
    (st', s!"dropped={d} wrappers={ws} base={if st.base then d else 0}")
  | _ => (st, "bad-op")

end Driver.HookRestore

def main : IO Unit := do
  Driver.loop (← IO.getStdin) (← IO.getStdout) ({} : Driver.HookRestore.St) Driver.HookRestore.step
