import GmqttVerif.Model.Inbound
import Driver.Common
/-
  line protocol for the inbound QoS handling of one session (C04), for the wire-level harness.

    reset <clean:0|1> [3|5]                      -> ok         new connection; clean=1: session not resumed (fresh store). default v5
    pub <qos> <id> <dup:0|1> [hook=ok|drop|err:<code>]  -> deliver|nodeliver [ack:puback:<id>|ack:pubrec:<id>]
    pubrel <id>                                  -> ack:pubcomp:<id>
  A process starts in the state of a fresh v5 session; `reset 1 …` restores it.
-/
namespace Driver.Inbound
open GmqttVerif.Inbound Driver

def verdictOf (s : String) : Verdict :=
  if s == "hook=drop" then .drop
  else if s.startsWith "hook=err:" then .err (natOf (s.drop 9).toString)
  else .ok

def showAck : Ack → String
  | .puback id => s!"ack:puback:{id}"
  | .pubrec id => s!"ack:pubrec:{id}"
  | .pubcomp id => s!"ack:pubcomp:{id}"

def showOut (isPub : Bool) (o : Out) : String :=
  let parts := (if isPub then [if o.deliver then "deliver" else "nodeliver"] else []) ++ o.acks.map showAck
  if parts.isEmpty then "ok" else String.intercalate " " parts

def ev (s : St) (e : Event) (isPub : Bool) : St × String :=
  let (s', o) := step s e
  (s', showOut isPub o)

def step' (s : St) (line : String) : St × String :=
  match words line with
  | ["reset", c] => ev s (.reset (c == "1") true) false
  | ["reset", c, v] => ev s (.reset (c == "1") (v != "3")) false
  | ["pub", q, id, d] => ev s (.pub (natOf q) (natOf id % 65536) (d == "1") .ok) true
  | ["pub", q, id, d, h] => ev s (.pub (natOf q) (natOf id % 65536) (d == "1") (verdictOf h)) true
  | ["pubrel", id] => ev s (.pubrel (natOf id % 65536)) false
  | _ => (s, "bad-op")

end Driver.Inbound

def main : IO Unit := do
  Driver.loop (← IO.getStdin) (← IO.getStdout) GmqttVerif.Inbound.init Driver.Inbound.step'
