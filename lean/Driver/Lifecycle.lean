import GmqttVerif.Model.Lifecycle
import Driver.Common
/-
  Oracle for the lifecycle scripts of C15: a set of `Lifecycle.State` connections driven to quiescence after every op
  by a fixed-priority scheduler (the facts printed — which connections the broker has closed, how many clients are
  registered, which goroutines are left, what Stop did — do not depend on the schedule), plus the little bookkeeping
  that couples connections: the client-id registry (take-over), exact-topic subscriptions (a PUBLISH becomes a queued
  message of every subscribed connection), Stop.

  ops (same lines as harness/cmd/drive_broker + lifecycle.go):
    new k=v…             zl=0|1 (zero-length client id allowed)
    conn <c> <cid> v=N   = rawconn + burst C:<cid>:<v>
    release   lcev   lstop release=1     (a SUBSCRIBE to lc/hold keeps its handler inside a hook until `release`)
    rawconn <c> v=N noread=1
    burst <c> <tok>…     par <c>:<tok>+… …     ping <c>     disc <c>     close <c> / lclose <c>
    sleep <ms>           (≥ 5000: the CONNECT timeout of every connection still waiting for CONNECT fires)
    counts   census   lstop [burst=<c>:<tok>+…]
  output (see vlib/props/c15.py `canon`): `<c>:ev,ev …` with ev ∈ connack_ok connack_err closed, `online=N`,
  `serve=… read=… write=… handle=… poll=… stuck=…`, `stopped unload=N onstop=N <census> <events>`.

  `oracle_lifecycle`        the repaired code (`Fixes.all`, Stop tracks every connection) — what the theorems are about
  `oracle_lifecycle asis`   the code as it was (`Fixes.asIs`, Stop closes registered connections only)
-/
namespace Driver.Lifecycle
open GmqttVerif.Lifecycle Driver

structure OConn where
  name : String
  cid : String := ""
  v5 : Bool := false
  st : State := init
  reader : Bool := true
  reported : Bool := false       -- `closed` already printed
  writes : Nat := 0              -- packets the broker has written to the socket
  pend : List String := []       -- tokens of the packets in wire ++ inq
  awaited : Bool := false
  held : Bool := false           -- its handler is inside the OnSubscribe hook (SUBSCRIBE to lc/hold) until `release`
  cheld : Bool := false          -- client id hc…: internalClose is inside the OnClosed hook until `release`
  crel : Bool := false           -- … and has been released

structure O where
  fix : Fixes := Fixes.all
  stopAll : Bool := true
  zl : Bool := true
  conns : List OConn := []
  subs : List (String × String) := []   -- (client id, topic)
  stopped : Bool := false
  evs : List String := []               -- hook events: enter:<cid> exit:<cid> closed:<cid> onstop

def kv (ws : List String) : List (String × String) :=
  ws.filterMap fun w => match w.splitOn "=" with
    | [k, v] => some (k, v)
    | _ => none

def pos (ws : List String) : List String := ws.filter (fun w => !(w.contains '='))

def lookup (m : List (String × String)) (k : String) (d : String) : String :=
  match m.find? (·.1 == k) with
  | some (_, v) => v
  | none => d

/-- token -> abstract packet -/
def pktOf (o : O) (tok : String) : Option (Pkt × Option String) :=
  match tok.splitOn ":" with
  | ["C", cid, _] => if cid == "~" && !o.zl then some (.connFail, none) else some (.connOk, some cid)
  | ["CA", cid] => some (.authCont, some cid)
  | ["AU", "done"] => some (.connOk, none)
  | ["AU", _] => some (.authCont, none)
  | ["PING"] => some (.data true, none)
  | ["DISC"] => some (.disc, none)
  | ["SUB", _, _] => some (.data true, none)
  | ["PUB0", _] => some (.data false, none)
  | ["PUB1", _, _] => some (.data true, none)
  | ["ERR"] => some (.err, none)
  | ["MAL"] => some (.bad true, none)
  | _ => none

def cfgOf (o : O) (c : OConn) : Cfg := { fix := o.fix, v5 := c.v5 }

def prio : List Act :=
  [.rSendAbort, .rRead, .rReadErr, .rSend, .rWaitConn, .rAuthStep, .rErr, .rSendDisc, .rCloseIn,
   .wRecv, .wWriteOk, .wWriteFail, .wClose, .wDrain, .wFlushConnack, .wFlush, .wErr, .wCloseSock,
   .cRecv, .cRecvNil, .cSendAuth, .cSendAuthSkip, .cSendErrConnack, .cSendErrConnackSkip,
   .cWriteConnack, .cWriteConnackSkip, .cErr, .cCloseConnected,
   .sSpawn, .sWaitRead, .sCloseQueue, .sClosePl, .sWaitWg, .sCloseSock, .sUnreg, .sCloseClosed,
   .pStart, .pIdsOk, .pIdsExit, .pQueueMsg, .pQueueClosed, .pWrite, .pWriteSkip, .pErr,
   .hRecv, .hRecvEnd, .hWrite, .hWriteSkip, .hErr, .hSendDisc,
   .xErr, .xSendDisc, .xCloseSock, .xWake]

def setConn (o : O) (i : Nat) (c : OConn) : O := { o with conns := o.conns.set i c }

/-- apply an environment action to connection i (ignored when it is not enabled) -/
def envAct (o : O) (i : Nat) (a : Act) : O :=
  match o.conns[i]? with
  | some c => match step (cfgOf o c) c.st a with
    | some t => setConn o i { c with st := t }
    | none => o
  | none => o

/-- a message for every registered connection subscribed to `topic` -/
def route (o : O) (topic : String) : O := Id.run do
  let mut o := o
  for i in [0:o.conns.length] do
    match o.conns[i]? with
    | some c =>
      if c.st.registered && o.subs.contains (c.cid, topic) then o := envAct o i .enqueue
    | none => pure ()
  return o

/-- one scheduling decision for connection i: the first enabled action in priority order, with the bookkeeping that
    couples connections. `none`: nothing can move. -/
def stepConn (o : O) (i : Nat) : Option O :=
  match o.conns[i]? with
  | none => none
  | some c =>
    let cfg := cfgOf o c
    let rec go : List Act → Option O
      | [] => none
      | a :: rest =>
        -- a handler held in a hook is a handler that is slow: it has taken its packet and does not get on
        if c.held && (a == .hWrite || a == .hWriteSkip) then go rest else
        -- a client id hc…: the OnClosed hook (first thing internalClose does for a connected client) blocks until `release`
        if a == .sUnreg && c.cid.startsWith "hc" && c.st.status && !c.crel then
          (if c.cheld then go rest else
           match step cfg c.st a with
           | none => go rest
           | some _ => some { (setConn o i { c with cheld := true }) with evs := o.evs ++ [s!"closed:{c.cid}"] }) else
        match step cfg c.st a with
        | none => go rest
        | some t =>
          match a with
          | .cRecv =>
            match c.st.inq with
            | .connOk :: _ =>
              -- registerClient -> lockDuplicatedID: an online client with this id is taken over first
              match o.conns.findIdx? (fun d => d.name != c.name && d.cid == c.cid && d.st.registered) with
              | some j =>
                match o.conns[j]? with
                | some d =>
                  if d.st.x == .idle then some (envAct o j .kill)   -- setError(SessionTakenOver); Close(); <-closed
                  else go rest
                | none => go rest
              | none =>
                -- a clean start ends the previous session: its subscriptions go
                let o' := { o with subs := o.subs.filter (fun s => s.1 != c.cid) }
                some (setConn o' i { c with st := t, pend := c.pend.drop 1 })
            | _ => some (setConn o i { c with st := t, pend := c.pend.drop 1 })
          | .hRecv =>
            let tok := c.pend.headD ""
            let o1 := setConn o i { c with st := t, pend := c.pend.drop 1 }
            match tok.splitOn ":" with
            | ["SUB", _, "lc/hold"] =>
              some { (setConn o i { c with st := t, pend := c.pend.drop 1, held := true }) with evs := o.evs ++ [s!"enter:{c.cid}"] }
            | ["SUB", _, topic] => some { o1 with subs := (c.cid, topic) :: o1.subs }
            | ["PUB0", topic] => some (route o1 topic)
            | ["PUB1", _, topic] => some (route o1 topic)
            | _ => some o1
          | .rRead =>
            match c.st.wire with
            | .bad _ :: _ => some (setConn o i { c with st := t, pend := c.pend.drop 1 })
            | _ => some (setConn o i { c with st := t })
          | .wWriteOk => some (setConn o i { c with st := t, writes := c.writes + 1 })
          | .sUnreg =>
            let o1 := setConn o i { c with st := t }
            if c.st.status then
              some { o1 with subs := o1.subs.filter (fun s => s.1 != c.cid),
                             evs := if c.crel then o1.evs else o1.evs ++ [s!"closed:{c.cid}"] }
            else some o1
          | _ => some (setConn o i { c with st := t })
    go prio

/-- run every connection until nothing can move -/
def quiesce (o : O) : O := Id.run do
  let mut o := o
  let mut fuel := 200000
  let mut progress := true
  while progress && fuel > 0 do
    progress := false
    for i in [0:o.conns.length] do
      match stepConn o i with
      | some o' => o := o'; progress := true; fuel := fuel - 1
      | none => pure ()
  return o

def idxOf (o : O) (name : String) : Option Nat := o.conns.findIdx? (·.name == name)

/-- the peer writes packets -/
def feed (o : O) (name : String) (toks : List String) : O × Bool :=
  match idxOf o name with
  | none => (o, false)
  | some i =>
    match o.conns[i]? with
    | none => (o, false)
    | some c =>
      if c.st.srvClosed || c.st.peerClosed then (o, false) else
      let (c', _) := toks.foldl (fun (acc : OConn × Unit) tok =>
        let c := acc.1
        match pktOf o tok with
        | some (p, cid?) =>
          let c1 := match cid? with
            | some cid => if c.cid == "" then { c with cid := (if cid == "~" then "" else cid) } else c
            | none => c
          let c2 := match tok.splitOn ":" with
            | ["C", _, v] => if c.st.s == SPC.cSel && c.pend.isEmpty then { c1 with v5 := v == "5" } else c1
            | ["CA", _] => if c.st.s == SPC.cSel && c.pend.isEmpty then { c1 with v5 := true } else c1
            | _ => c1
          ({ c2 with st := { c2.st with wire := c2.st.wire ++ [p] }, pend := c2.pend ++ [tok] }, ())
        | none => (c, ())) (c, ())
      (setConn o i c', true)

/-- events of this op: connack (only asked for by `conn`), closed -/
def events (before : O) (o : O) (withConnack : Option String) : O × String := Id.run do
  let mut o := o
  let mut parts : List (String × String) := []
  for i in [0:o.conns.length] do
    match o.conns[i]? with
    | none => pure ()
    | some c =>
      let mut evs : List String := []
      if withConnack == some c.name then
        let w0 := match before.conns.find? (·.name == c.name) with
          | some b => b.writes
          | none => 0
        if c.writes > w0 then
          evs := evs ++ [if c.st.status then "connack_ok" else "connack_err"]
      if c.reader && !c.reported && (c.st.srvClosed || c.st.peerClosed) then
        evs := evs ++ ["closed"]
        o := setConn o i { c with reported := true }
      if !evs.isEmpty then parts := parts ++ [(c.name, String.intercalate "," evs)]
  let sorted := parts.toArray.qsort (fun a b => a.1 < b.1) |>.toList
  let s := if sorted.isEmpty then "-" else String.intercalate " " (sorted.map fun p => p.1 ++ ":" ++ p.2)
  return (o, s)

/-- goroutines parked where nothing will ever wake them (only the code as it was has such states) -/
def stuckOf (o : O) : List String := Id.run do
  let mut r : List String := []
  for c in o.conns do
    let s := c.st
    -- a plain channel send shows as `chan send`; the repaired code has a `select` in these places (`select` is a
    -- state the driver accepts as waiting for input)
    match s.r with
    | .send _ => if !o.fix.readSelect then r := r ++ ["read:chan_send"]
    | .setErr _ => if s.once == .running then r := r ++ ["read:sync.Mutex.Lock"]
    | _ => pure ()
    if s.w == .setErr && s.once == .running then r := r ++ ["write:sync.Mutex.Lock"]
    if (s.s == .cSendAuth || s.s == .cSendErrConnack) && !o.fix.connSelect then r := r ++ ["serve:chan_send"]
    if s.s == .cSetErr && s.once == .running then r := r ++ ["serve:sync.Mutex.Lock"]
    if s.p == .setErr && s.once == .running then r := r ++ ["poll:sync.Mutex.Lock"]
    match s.h with
    | .setErr _ => if s.once == .running then r := r ++ ["handle:sync.Mutex.Lock"]
    | _ => pure ()
  return r.toArray.qsort (· < ·) |>.toList

def census (o : O) : String :=
  let n (f : OConn → Bool) := (o.conns.filter f).length
  let st := stuckOf o
  s!"serve={n (fun c => c.st.s != .done)} read={n (fun c => c.st.r != .done)} write={n (fun c => c.st.w != .done)} " ++
  s!"handle={n (fun c => c.st.h != .done && c.st.h != .notStarted)} poll={n (fun c => c.st.p != .done && c.st.p != .notStarted)} " ++
  "stuck=" ++ (if st.isEmpty then "-" else String.intercalate "," st)

def hangPrefix (o : O) : String :=
  -- the driver reports HANG when a broker goroutine is parked in `chan send` / a mutex
  if (stuckOf o).isEmpty then "" else "HANG "

def finish (before o : O) (withConnack : Option String := none) (pre : String := "") : O × String :=
  let o1 := quiesce o
  let (o2, ev) := events before o1 withConnack
  (o2, pre ++ hangPrefix o2 ++ ev)

def newConn (o : O) (name : String) (m : List (String × String)) : O :=
  let c : OConn := { name := name, v5 := lookup m "v" "4" == "5", reader := lookup m "noread" "0" != "1",
                     st := { init with stalled := lookup m "noread" "0" == "1" } }
  { o with conns := (o.conns.filter (·.name != name)) ++ [c] }

def parBursts (o : O) (specs : List String) : O :=
  specs.foldl (fun o spec =>
    match spec.splitOn ":" with
    | name :: rest =>
      let toks := (String.intercalate ":" rest).splitOn "+"
      (feed o name toks).1
    | [] => o) o

/-- `release`: the held handlers leave the hook; the SUBSCRIBE they were handling is stored -/
def release (o : O) : O := Id.run do
  let mut o := o
  for i in [0:o.conns.length] do
    match o.conns[i]? with
    | some c =>
      if c.held then
        o := { (setConn o i { c with held := false }) with evs := o.evs ++ [s!"exit:{c.cid}"], subs := (c.cid, "lc/hold") :: o.subs }
      else if c.cheld && !c.crel then
        o := { (setConn o i { c with crel := true }) with evs := o.evs ++ [s!"cdone:{c.cid}"] }
    | none => pure ()
  return o

def showEvs (o : O) : String := if o.evs.isEmpty then "-" else String.intercalate "," o.evs

def doStop (o : O) (rel : Bool := false) : O × String := Id.run do
  -- Stop: listeners, then Close() on the connections it knows about, wait for their `closed`
  let mut o := o
  for i in [0:o.conns.length] do
    match o.conns[i]? with
    | some c =>
      if (o.stopAll && c.st.s != .done) || c.st.registered then
        o := setConn o i { c with st := { c.st with srvClosed := true }, awaited := true }
    | none => pure ()
  o := quiesce o
  let mut early := ""
  if rel then
    let done := o.conns.all (fun c => !c.awaited || c.st.closedCh)
    let held := (o.conns.filter (fun c => c.st.h != .done && c.st.h != .notStarted)).length
    early := s!" early={if done then 1 else 0} held={held}"
    o := quiesce (release o)
  let ok := o.conns.all (fun c => !c.awaited || c.st.closedCh)
  if ok then o := { o with evs := o.evs ++ ["onstop"] }
  let res := (if ok then "stopped" else "stop-timeout") ++ early ++ (if ok then " unload=1 onstop=1" else " unload=0 onstop=0") ++
    (if rel then " ev=" ++ showEvs o else "")
  return ({ o with stopped := true }, res)

def step (o : O) (line : String) : O × String :=
  let ws := words line
  match ws with
  | "new" :: rest =>
    let m := kv rest
    ({ fix := o.fix, stopAll := o.stopAll, zl := lookup m "zl" "1" == "1" }, "ok")
  | op :: rest =>
    if o.stopped then (o, "no-broker") else
    let m := kv rest
    let p := pos rest
    match op, p with
    | "conn", [name, cid] =>
      let o1 := newConn o name m
      let (o2, _) := feed o1 name [s!"C:{cid}:{lookup m "v" "4"}"]
      finish o1 o2 (some name)
    | "rawconn", [name] => finish o (newConn o name m)
    | "burst", name :: toks =>
      if (idxOf o name).isNone then (o, "no-conn") else
      let (o1, ok) := feed o name toks
      if ok then finish o o1 else finish o o1 none "send-failed "
    | "par", specs =>
      if specs.any (fun sp => (idxOf o ((sp.splitOn ":").headD "")).isNone) then (o, "no-conn") else
      finish o (parBursts o specs)
    | "ping", [name] =>
      if (idxOf o name).isNone then (o, "no-conn") else
      let (o1, ok) := feed o name ["PING"]
      if ok then finish o o1 else finish o o1 none "send-failed "
    | "disc", [name] =>
      if (idxOf o name).isNone then (o, "no-conn") else
      let (o1, _) := feed o name ["DISC"]
      let (o2, e1) := finish o o1
      let o3 := match idxOf o2 name with
        | some i => envAct o2 i .peerClose
        | none => o2
      let (o4, e2) := finish o2 o3
      (o4, e1 ++ " " ++ e2)
    | "close", [name] | "lclose", [name] =>
      match idxOf o name with
      | some i => finish o (envAct o i .peerClose)
      | none => (o, if op == "close" then "no-conn" else "bad-op")
    | "sleep", [ms] =>
      if natOf ms ≥ 5000 then
        let o1 := Id.run do
          let mut o := o
          for i in [0:o.conns.length] do
            o := envAct o i .cTimeout
          return o
        finish o o1
      else finish o o
    -- fault injection behind the persistence interfaces (harness/cmd/drive_broker/faultpe.go): the model is told the outcome —
    -- a CONNECT that ran into the fault arrives here as a refused CONNECT (`conn <name> ~`), see vlib/props/c15.py `hint`
    | "api", "failat" :: _ => finish o o
    | "release", [] => finish o (release o)
    | "lcev", [] => (o, s!"ev={showEvs o} subs={o.subs.eraseDups.length}")
    | "counts", [] => (o, s!"online={(o.conns.filter (·.st.registered)).length}")
    | "census", [] => (o, census o)
    | "lstop", [] =>
      if (match m.find? (·.1 == "burst") with
          | some (_, spec) => (idxOf o ((spec.splitOn ":").headD "")).isNone
          | none => false) then (o, "no-conn") else
      let o0 := match m.find? (·.1 == "burst") with
        | some (_, spec) => quiesce (parBursts o [spec])
        | none => o
      let (o1, res) := doStop o0 (lookup m "release" "0" == "1")
      let (o2, ev) := events o o1 none
      (o2, res ++ " " ++ census o2 ++ " " ++ hangPrefix o2 ++ ev)
    | _, _ => (o, "bad-op")
  | [] => (o, "bad-op")

end Driver.Lifecycle

def main (args : List String) : IO Unit := do
  let asis := args.contains "asis"
  let o : Driver.Lifecycle.O :=
    if asis then { fix := GmqttVerif.Lifecycle.Fixes.asIs, stopAll := false } else {}
  Driver.loop (← IO.getStdin) (← IO.getStdout) o Driver.Lifecycle.step
