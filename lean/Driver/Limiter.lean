import GmqttVerif.Model.Limiter
import Driver.Common
/-
  line protocol for the packet id limiter (C03, component level). Same lines as harness/cmd/drive_limiter.

    new <limit> <ctor>        -> ok u=0 f=1                (ctor 0/1 selects which Go constructor; same model)
    poll <max>                -> ids=1,2 | nil | blocked | busy   … u=<used> f=<freePid>   | spin
    release <id>              -> ok [woke:ids=…|woke:nil|woke:spin] u= f=
    brelease <id,id,…|->      -> same
    mark <ids|->              -> ok u= f=
    marksig <ids|->           -> ok [woke:…] u= f=
    close                     -> ok [woke:nil] u= f=
    dump                      -> marked=<ranges of set bits 0..65535> u= f=
    (any op after spin)       -> wedged
  Numbers are converted to uint16 exactly as the Go driver does (`uint16(n)` = `n % 65536`).
-/
namespace Driver.Limiter
open GmqttVerif.Limiter Driver

def u16 (s : String) : Nat := natOf s % 65536
def u16List (s : String) : List Nat := (natList s).map (· % 65536)

def showIds (l : List Nat) : String :=
  if l.isEmpty then "nil" else "ids=" ++ String.intercalate "," (l.map toString)

def showRes : PollRes → String
  | .blocked => "blocked"
  | .closed => "nil"
  | .ids l => showIds l
  | .spin => "spin"

def showState (s : Sys) : String := s!" u={s.lim.used} f={s.lim.freePid}"

def showOut (s : Sys) : Out → String
  | .wedged => "wedged"
  | .busy => "busy" ++ showState s
  | .polled .spin => "spin"
  | .polled r => showRes r ++ showState s
  | .done none => "ok" ++ showState s
  | .done (some .spin) => "ok woke:spin"
  | .done (some r) => "ok woke:" ++ showRes r ++ showState s

/-- set bits of offsets lo..65535 as ranges -/
def ranges (s : Sys) : String := Id.run do
  let mut parts : Array String := #[]
  let mut start : Option Nat := none
  for i in [0:65537] do
    let m := i ≤ 65535 && s.lim.marked i
    match start, m with
    | none, true => start := some i
    | some a, false =>
      parts := parts.push (if a + 1 = i then toString a else s!"{a}-{i - 1}")
      start := none
    | _, _ => pure ()
  return "marked=" ++ String.intercalate "," parts.toList

def op (s : Sys) (o : Op) : Sys × String :=
  let (s', out) := s.step o
  (s', showOut s' out)

def step (s : Sys) (line : String) : Sys × String :=
  match words line with
  | ["new", limit, _] => let s' := Sys.new (u16 limit); (s', "ok" ++ showState s')
  | ["poll", k] => op s (.poll (u16 k))
  | ["release", id] => op s (.release (u16 id))
  | ["brelease", ids] => op s (.batchRelease (u16List ids))
  | ["mark", ids] => op s (.mark (u16List ids))
  | ["marksig", ids] => op s (.markSignal (u16List ids))
  | ["close"] => op s .close
  | ["dump"] => if s.wedged then (s, "wedged") else (s, ranges s ++ showState s)
  | _ => (s, "bad-op")

end Driver.Limiter

def main : IO Unit := do
  Driver.loop (← IO.getStdin) (← IO.getStdout) (GmqttVerif.Limiter.Sys.new 0) Driver.Limiter.step
