import GmqttVerif.Model.Fed.LocalSubs
import Driver.Common
/- line protocol for `localSubStore` + the subscription hooks (C16 `localSubs_refcount`). -/
namespace Driver.LocalSubs
open GmqttVerif.Fed Driver

structure St where
  self : String := "self"
  pre  : List (String × String) := []     -- (client, full topic) loaded into the broker store before `load`
  h    : HookSt := { ls := LS.empty, queues := [] }

def optStr (s : String) : String := if s == "-" then "" else s
def sortS (l : List String) : List String := l.mergeSort (fun a b => !(b < a))

def showBody : Body → String
  | .sub share filter => s!"sub:{if share == "" then "-" else share}:{filter}"
  | .unsub t => s!"unsub:{t}"
  | .msg m => s!"msg:{m.topic}"

def showQ (h : HookSt) : String :=
  -- per peer: queue length and the ids its events carry (every queue numbers its own events: seed C16-3)
  String.intercalate "," (sortS (h.queues.map (fun p =>
    s!"{p.1}:{p.2.items.length}:{String.intercalate "+" (p.2.items.map (fun e => toString e.id))}")))

def res (h : HookSt) (evs : List Body) : String :=
  -- events are observed in the peers' queues: without a peer nothing is observable
  let evs := if h.queues.isEmpty then [] else evs
  s!"ev=[{String.intercalate "," (sortS (evs.map showBody))}] q=[{showQ h}]"

def dump (l : LS) : String :=
  let tp := sortS (l.topics.map (fun p => s!"{p.1}:{p.2}"))
  let ix := sortS (l.index.flatMap (fun p => if p.2.isEmpty then [s!"{p.1}:<empty>"] else p.2.map (fun t => s!"{p.1}:{t}")))
  s!"topics=[{String.intercalate ";" tp}] index=[{String.intercalate ";" ix}]"

def step (st : St) (line : String) : St × String :=
  match words line with
  | ["new", self] => ({ self := self, pre := [], h := { ls := LS.empty, queues := [] } }, "ok")
  | ["pre", c, share, filter] => ({ st with pre := st.pre ++ [(c, fullName (optStr share) filter)] }, "ok")
  | ["load"] =>
    -- the broker store keeps one entry per (client, full topic)
    let h : HookSt := { ls := LS.init st.pre, queues := [] }
    ({ st with h := h }, dump h.ls)
  | ["join", p] =>
    if p == st.self || st.h.queues.any (·.1 == p) then (st, "ok")
    else ({ st with h := { st.h with queues := st.h.queues ++ [(p, EQ.empty)] } }, "ok")
  | ["fail", p] => ({ st with h := { st.h with queues := st.h.queues.filter (·.1 != p) } }, "ok")
  | ["sub", c, share, filter] =>
    let r := st.h.onSubscribed c (optStr share) filter
    ({ st with h := r.1 }, res r.1 r.2)
  | ["unsub", c, topic] =>
    let r := st.h.onUnsubscribed c topic
    ({ st with h := r.1 }, res r.1 r.2)
  | ["term", c] =>
    let r := st.h.onSessionTerminated c
    ({ st with h := r.1 }, res r.1 r.2)
  | ["dump"] => (st, dump st.h.ls)
  | _ => (st, "bad-op")

end Driver.LocalSubs

def main : IO Unit := do
  Driver.loop (← IO.getStdin) (← IO.getStdout) ({} : Driver.LocalSubs.St) Driver.LocalSubs.step
