import Driver.Queue

def main (args : List String) : IO UInt32 := do
  match args with
  | ["queue"] => Driver.Queue.main; return 0
  | _ => IO.eprintln s!"usage: oracle <component>; unknown {args}"; return 2
