import GmqttVerif.Model.Queue
import Driver.Common
/- line protocol for the session queue (C10); see DESIGN.md §2.2 -/
namespace Driver.Queue
open GmqttVerif.Queue Driver

structure St where
  q : Q := new 1 0
  now : Nat := 1000

/-- `soon` = a deadline no run of ordinary ops reaches (each op advances the clock by 1000, a case has < 10^4 ops) but one
    `age` op (+10^8) passes; `future` and the `huge` in-flight expiry stay ahead of any number of `age` ops of a case -/
def expOf (now : Nat) : String → Option Nat
  | "past" => some 1
  | "future" => some 100000000000000
  | "soon" => some (now + 10000000)
  | _ => none

def ieOf : String → Nat
  | "tiny" => 1
  | "huge" => 1000000000000
  | _ => 0

def expClass (now : Nat) (e : Elem) : String :=
  match e.exp with
  | none => "none"
  | some t => if now > t then "past" else "future"

def showElem (now : Nat) (e : Elem) : String :=
  if e.pub then s!"{e.tag}:{e.id}:{e.qos}:{expClass now e}" else s!"rel:{e.id}"

def showReason : Reason → String
  | .full => "full" | .expired => "expired" | .expiredInflight => "expiredinflight" | .oversize => "oversize"

def showEv (now : Nat) : Ev → String
  | .dropped e r => s!"drop={showElem now e}:{showReason r}"
  | .inflight d => s!"i={showInt d}"
  | .queued d => s!"q={showInt d}"

def showEvs (now : Nat) (evs : List Ev) : String :=
  String.intercalate " " (evs.map (showEv now))

def showRet (now : Nat) (es : List Elem) : String :=
  "ret=[" ++ String.intercalate "," (es.map (showElem now)) ++ "]"

def step (st : St) (line : String) : St × String :=
  let now := st.now
  let pnow := now + 500     -- the instant at which results are printed
  let st1 := { st with now := now + 1000 }
  match words line with
  | ["new", max, ie] => ({ q := new (natOf max) (ieOf ie), now := 1000 }, "ok")
  | ["init", clean, limit] => ({ st1 with q := st.q.init (clean == "1") (natOf limit) }, "ok")
  | ["add", tag, qos, exp, size] =>
    let e : Elem := { tag := natOf tag, pub := true, id := 0, qos := natOf qos, exp := expOf now exp, size := natOf size }
    let (q', evs) := st.q.add now e
    ({ st1 with q := q' }, ("ok " ++ showEvs pnow evs).trimAscii.toString)
  | ["read", pids] =>
    match st.q.read now (natList pids) with
    | (q', .ok out evs) => ({ st1 with q := q' }, (showRet pnow out ++ " " ++ showEvs pnow evs).trimAscii.toString)
    | (_, .panic) => (st1, "panic")
    | (q', .blocked) => ({ st1 with q := q'.close }, "blocked")   -- the harness unblocks with Close
    | (_, .closed) => (st1, "closed")
  | ["readinflight", n] =>
    let (q', out) := st.q.readInflight now (natOf n)
    ({ st1 with q := q' }, showRet pnow out)
  | ["remove", pid] =>
    let (q', evs, _) := st.q.remove (natOf pid)
    ({ st1 with q := q' }, ("ok " ++ showEvs pnow evs).trimAscii.toString)
  | ["replace", pid] =>
    let e : Elem := { tag := 0, pub := false, id := natOf pid, qos := 0, exp := none, size := 0 }
    let (q', b) := st.q.replace e
    ({ st1 with q := q' }, if b then "replaced" else "notfound")
  | ["close"] => ({ st1 with q := st.q.close }, "ok")
  | ["age"] => ({ st with now := now + 100000000 }, "ok")
  -- `wait`: the redis driver really sleeps 1.1 s (stored deadlines are whole seconds: an entry re-stamped by ReadInflight then has
  -- other bytes than the copy handed out before); nothing expires in that time in these histories, so the model does nothing
  | ["wait"] => (st, "ok")
  | _ => (st, "bad-op")

end Driver.Queue

def main : IO Unit := do
  Driver.loop (← IO.getStdin) (← IO.getStdout) ({} : Driver.Queue.St) Driver.Queue.step
