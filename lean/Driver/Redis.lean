import GmqttVerif.Model.RedisStores
import GmqttVerif.Model.RedisHistory
import Driver.Common
/-
  Oracle for C09 (redis persistence). Mirror of harness/cmd/drive_redis (modes `cmds`, `stores`) and of the
  `crashscan` op of harness/cmd/drive_broker/redis.go (mode `wire`).
-/
namespace Driver.Redis
open GmqttVerif GmqttVerif.Codec GmqttVerif.Redis GmqttVerif.ElemCodec GmqttVerif.RedisStores Driver

/-! ### tokens -/

def hexDigit (c : Char) : Option Nat :=
  if '0' ≤ c ∧ c ≤ '9' then some (c.toNat - 48)
  else if 'A' ≤ c ∧ c ≤ 'F' then some (c.toNat - 55)
  else if 'a' ≤ c ∧ c ≤ 'f' then some (c.toNat - 87)
  else none

def unescChars : List Char → Bytes
  | [] => []
  | '%' :: a :: b :: rest =>
    match hexDigit a, hexDigit b with
    | some x, some y => (x * 16 + y) :: unescChars rest
    | _, _ => 37 :: unescChars (a :: b :: rest)
  | c :: rest => (String.singleton c).toUTF8.toList.map (·.toNat) ++ unescChars rest

/-- inverse of `respfake.Esc`; `~` = empty, `@N` = N bytes 'a' -/
def unesc (s : String) : Bytes :=
  if s == "~" then []
  else if s.startsWith "@" then List.replicate (natOf (s.drop 1).toString) 97
  else unescChars s.toList

def hexChar (n : Nat) : Char := if n < 10 then Char.ofNat (48 + n) else Char.ofNat (55 + n)

def safeByte (c : Nat) : Bool :=
  (97 ≤ c && c ≤ 122) || (65 ≤ c && c ≤ 90) || (48 ≤ c && c ≤ 57) ||
  c == 58 || c == 95 || c == 46 || c == 47 || c == 43 || c == 35 || c == 36 || c == 42 || c == 45

def escByte (c : Nat) : String :=
  if safeByte c then String.singleton (Char.ofNat c)
  else "%" ++ String.singleton (hexChar (c / 16)) ++ String.singleton (hexChar (c % 16))

/-- `respfake.Esc` -/
def esc (b : Bytes) : String :=
  if b.isEmpty then "~" else String.join (b.map escByte)

def showBytes (b : Bytes) : String :=
  if b.length > 2048 then s!"big({b.length},{esc (b.take 24)})" else esc b

def strBytes (s : String) : Bytes := s.toUTF8.toList.map (·.toNat)

/-- bytes as text (ASCII / Latin-1 view; the generators use ASCII) -/
def bytesStr (b : Bytes) : String := String.ofList (b.map Char.ofNat)

def tok (b : Bytes) : String :=
  if b.isEmpty then "~" else (bytesStr b).replace " " "_"

def insertSorted (x : String) : List String → List String
  | [] => [x]
  | y :: ys => if x ≤ y then x :: y :: ys else y :: insertSorted x ys

def sortStrings (l : List String) : List String := l.foldr insertSorted []

def bytesLe : Bytes → Bytes → Bool
  | [], _ => true
  | _ :: _, [] => false
  | a :: as, b :: bs => if a < b then true else if a > b then false else bytesLe as bs

def insertBy {α : Type} (le : α → α → Bool) (x : α) : List α → List α
  | [] => [x]
  | y :: ys => if le x y then x :: y :: ys else y :: insertBy le x ys

def sortBy {α : Type} (le : α → α → Bool) (l : List α) : List α := l.foldr (insertBy le) []

def kvOf (toks : List String) : List String × List (String × String) :=
  toks.foldr (fun t (acc : List String × List (String × String)) =>
    match t.splitOn "=" with
    | k :: v :: rest => if k != "" then (acc.1, (k, String.intercalate "=" (v :: rest)) :: acc.2) else (t :: acc.1, acc.2)
    | _ => (t :: acc.1, acc.2)) ([], [])

def look (m : List (String × String)) (k : String) : Option String := (m.find? (·.1 == k)).map (·.2)
def lookNat (m : List (String × String)) (k : String) (d : Nat) : Nat :=
  match look m k with
  | some v => v.toNat?.getD d
  | none => d

def intOf (s : String) : Int :=
  if s.startsWith "-" then -((natOf (s.drop 1).toString : Nat) : Int) else (natOf s : Int)

/-! ### mode cmds -/

def showReply : Reply → String
  | .int n => ":" ++ showInt n
  | .ok => "+OK"
  | .err k => "-" ++ k
  | .bulks xs => "[" ++ String.intercalate "," (xs.map (fun x => match x with | some b => "$" ++ esc b | none => "nil")) ++ "]"

def pairsOf : List Bytes → List (Bytes × Bytes)
  | f :: v :: rest => (f, v) :: pairsOf rest
  | _ => []

def parseCmd (name : String) (args : List Bytes) (raw : List String) : Option Cmd :=
  match name.toUpper, args, raw with
  | "DEL", [k], _ => some (.del k)
  | "HSET", k :: fvs, _ => if fvs.length ≥ 2 ∧ fvs.length % 2 = 0 then some (.hset k (pairsOf fvs)) else none
  | "HDEL", k :: fs, _ => if fs.isEmpty then none else some (.hdel k fs)
  | "RPUSH", [k, v], _ => some (.rpush k v)
  | "LSET", [k, _, v], [_, i, _] => some (.lset k (intOf i) v)
  | "LREM", [k, _, v], [_, c, _] => some (.lrem k (intOf c) v)
  | "LLEN", [k], _ => some (.llen k)
  | "LRANGE", [k, _, _], [_, a, b] => some (.lrange k (intOf a) (intOf b))
  | "HGETALL", [k], _ => some (.hgetall k)
  | "HMGET", k :: fs, _ => if fs.isEmpty then none else some (.hmget k fs)
  | _, _, _ => none

def dumpVal (k : Bytes) : Val → String
  | .hash fs => "hash:" ++ esc k ++ "{" ++ String.intercalate "," (fs.map (fun p => esc p.1 ++ "=" ++ esc p.2)) ++ "}"
  | .list xs => "list:" ++ esc k ++ "[" ++ String.intercalate "," (xs.map esc) ++ "]"

def dump (ds : Dataset) : String :=
  "D[" ++ String.intercalate ";" ((sortBy (fun a b => bytesLe a.1 b.1) ds).map (fun p => dumpVal p.1 p.2)) ++ "]"

def stepCmds (ds : Dataset) (line : String) : Dataset × String :=
  match words line with
  | ["new"] => ([], "ok")
  | ["dump"] => (ds, dump ds)
  | name :: raw =>
    match parseCmd name (raw.map unesc) raw with
    | some c => let (ds', r) := exec ds c; (ds', showReply r)
    | none => (ds, "-ERR")
  | [] => (ds, "bad-op")

/-! ### mode stores -/

structure St where
  ds : Dataset := []
  max : Nat := 1000
  ie : Nat := 0
  queues : List (Bytes × RedisQueue.RQ) := []
  unacks : List (Bytes × List Nat) := []          -- in-memory cache of every unack store object
  subsMem : List (Bytes × Bytes × Subscription) := []   -- the TrieDB mirror: client id, full topic name, subscription
  journal : List Cmd := []                        -- write commands since `new`
  uaIds : List (Bytes × Nat) := []
  now : Nat := 1000

def ieModel (secs : Nat) : Nat := if secs = 0 then 0 else 100000000000
def futureT : Nat := 1099511627776   -- 2^40
def pastT : Nat := 1

def expOf : String → Nat
  | "past" => pastT
  | "future" => futureT
  | _ => zeroTime

def canonExp (now : Nat) (ex : Nat) : Nat :=
  if ex == zeroTime then ex else if now > ex then pastT else futureT

/-- the harness prints element values with the entry time blanked and the expiry reduced to its class -/
def canonElemBytes (now : Nat) (b : Bytes) : Bytes :=
  if b.length < 19 then b
  else
    match readU64 (b.drop 9) with
    | some (ex, _) => List.replicate 8 0 ++ [b.getD 8 0] ++ writeU64 (canonExp now ex) ++ b.drop 17
    | none => b

def isQueueKey (k : Bytes) : Bool := queuePrefix.isPrefixOf k
def isSessKey (k : Bytes) : Bool := sessPrefix.isPrefixOf k

def showFvs (sess : Bool) (fvs : List (Bytes × Bytes)) : List String :=
  fvs.flatMap (fun p => [showBytes p.1, if sess && p.1 == fConnectedAt then "T" else showBytes p.2])

def showCmdArgs (now : Nat) : Cmd → List String
  | .del k => ["del", showBytes k]
  | .hset k fvs => ["hset", showBytes k] ++ showFvs (isSessKey k) fvs
  | .hdel k fs => ["hdel", showBytes k] ++ fs.map showBytes
  | .rpush k v => ["rpush", showBytes k, showBytes (if isQueueKey k then canonElemBytes now v else v)]
  | .lset k i v => ["lset", showBytes k, showInt i, showBytes (if isQueueKey k then canonElemBytes now v else v)]
  | .lrem k c v => ["lrem", showBytes k, showInt c, showBytes (if isQueueKey k then canonElemBytes now v else v)]
  | .llen k => ["llen", showBytes k]
  | .lrange k a b => ["lrange", showBytes k, showInt a, showInt b]
  | .hgetall k => ["hgetall", showBytes k]
  | .hmget k fs => ["hmget", showBytes k] ++ fs.map showBytes

/-- run commands on the dataset; render them (with `!` after a command that failed); also the successful writes -/
def runCmds (now : Nat) (ds : Dataset) : List Cmd → Dataset × List String × List Cmd
  | [] => (ds, [], [])
  | c :: cs =>
    let (ds1, r) := exec ds c
    let failed := match r with | .err _ => true | _ => false
    let s := String.intercalate "," (showCmdArgs now c) ++ (if failed then "!" else "")
    let (ds2, ss, ws) := runCmds now ds1 cs
    (ds2, s :: ss, if c.isWrite && !failed then c :: ws else ws)

def b2s (b : Bool) : String := if b then "1" else "0"

def showMsg (m : Message) : String :=
  let sids := if m.subIds.isEmpty then "-" else String.intercalate "+" (m.subIds.map toString)
  let ups := if m.userProps.isEmpty then "-" else String.intercalate ";" (m.userProps.map (fun p => showBytes p.1 ++ "|" ++ showBytes p.2))
  s!"msg({b2s m.dup},{m.qos},{b2s m.retained},{showBytes m.topic},{showBytes m.payload},{m.pid},{showBytes m.contentType},{showBytes m.correlationData},{m.messageExpiry},{m.payloadFormat},{showBytes m.responseTopic},{sids},{ups})"

def showMsgOpt : Option Message → String
  | none => "nil"
  | some m => showMsg m

def showSub (s : Subscription) : String :=
  s!"{esc s.shareName}:{esc s.topicFilter}:{s.id}:{s.qos}:{b2s s.noLocal}:{b2s s.rap}:{s.rh}"

def showSess (s : Session) : String := s!"sess({esc s.id},{showMsgOpt s.will},{s.willDelay},{s.expiry})"

def expClass (now : Nat) (e : Elem) : String :=
  if e.expiry == zeroTime then "none" else if now > e.expiry then "past" else "future"

def showElem (now : Nat) (e : Elem) : String :=
  match e.body with
  | .publish m => s!"{esc m.topic}:{m.pid}:{m.qos}:{expClass now e}"
  | .pubrel id => s!"rel:{id}"

def showElemFull (e : Elem) : String :=
  match e.body with
  | .publish m => s!"elem({e.atTime},{e.expiry},{showMsg m})"
  | .pubrel id => s!"elem({e.atTime},{e.expiry},rel({id}))"

def showReason : Queue.Reason → String
  | .full => "full" | .expired => "expired" | .expiredInflight => "expiredinflight" | .oversize => "oversize"

def showEv (now : Nat) : RedisQueue.Ev Elem → String
  | .dropped e r => s!"drop={showElem now e}:{showReason r}"
  | .inflight d => s!"i={showInt d}"
  | .queued d => s!"q={showInt d}"

def showEvs (now : Nat) (evs : List (RedisQueue.Ev Elem)) : String := String.intercalate " " (evs.map (showEv now))
def showRet (now : Nat) (es : List Elem) : String := "ret=[" ++ String.intercalate "," (es.map (showElem now)) ++ "]"

def parseMsg : List String → Option Message
  | [dup, qos, ret, topic, payload, pid, ct, cd, me, pf, rt, sids, ups] =>
    some { dup := dup == "1", qos := natOf qos, retained := ret == "1", topic := unesc topic, payload := unesc payload, pid := natOf pid,
           contentType := unesc ct, correlationData := unesc cd, messageExpiry := natOf me, payloadFormat := natOf pf, responseTopic := unesc rt,
           subIds := if sids == "-" then [] else (sids.splitOn "+").map natOf,
           userProps := if ups == "-" then [] else (ups.splitOn ";").map (fun s =>
             match s.splitOn "|" with
             | k :: v :: _ => (unesc k, unesc v)
             | _ => ([], [])) }
  | _ => none

def queueOf (st : St) (cid : Bytes) : RedisQueue.RQ :=
  match st.queues.find? (·.1 == cid) with
  | some p => p.2
  | none => { key := queueKey cid, max := st.max, ie := st.ie }

def setQueue (st : St) (cid : Bytes) (q : RedisQueue.RQ) : St :=
  { st with queues := (cid, q) :: st.queues.filter (·.1 != cid) }

def unackOf (st : St) (cid : Bytes) : List Nat :=
  match st.unacks.find? (·.1 == cid) with
  | some p => p.2
  | none => []

def setUnack (st : St) (cid : Bytes) (c : List Nat) : St :=
  { st with unacks := (cid, c) :: st.unacks.filter (·.1 != cid) }

def statusStr : RedisQueue.Status → String
  | .ok => "ok" | .err => "err" | .panic => "panic" | .blocked => "blocked" | .closed => "closed"
  | .replaced => "replaced" | .notfound => "notfound"

def listSubs (mem : List (Bytes × Bytes × Subscription)) : String :=
  "[" ++ String.intercalate "," (sortStrings (mem.map (fun p => esc p.1 ++ "/" ++ showSub p.2.2))) ++ "]"

/-- apply a queue method's result: run its commands, keep the object state -/
def finishQ (st : St) (cid : Bytes) (now : Nat) (r : RedisQueue.Res Elem) : St × List String :=
  let (ds', shown, ws) := runCmds now st.ds r.cmds
  let st1 := setQueue { st with ds := ds', journal := st.journal ++ ws } cid r.q
  (st1, shown)

def jstr (shown : List String) : String := "J[" ++ String.intercalate ";" shown ++ "]"

def trimJoin (a b : String) : String := (a ++ " " ++ b).trimAscii.toString

/-- the way a reconnecting client looks at its queue: Init without clean start, ReadInflight until empty, one Read -/
partial def drainInflight (q : RedisQueue.RQ) (ds : Dataset) (now : Nat) (acc : List Elem) (fuel : Nat) :
    Option (RedisQueue.RQ × Dataset × List Elem) :=
  if fuel = 0 then some (q, ds, acc) else
  let r := RedisQueue.readInflight elemOps q ds now 100
  if r.status != .ok then none
  else
    let ds' := applyAll ds r.cmds
    if r.ret.isEmpty then some (r.q, ds', acc) else drainInflight r.q ds' now (acc ++ r.ret) (fuel - 1)

def observeQueue (st : St) (ds : Dataset) (cid : Bytes) (now : Nat) : Except String (List String) :=
  let q0 : RedisQueue.RQ := { key := queueKey cid, max := st.max, ie := st.ie }
  let r0 : RedisQueue.Res Elem := RedisQueue.init q0 ds false 4294967295
  if r0.status != .ok then .error "fail:qinit" else
  match drainInflight r0.q ds now [] 1000 with
  | none => .error "fail:readinflight"
  | some (q1, ds1, infl) =>
    let r := RedisQueue.read elemOps q1 ds1 now ((List.range 200).map (· + 1000))
    match r.status with
    | .panic => .error "fail:readpanic"
    | .err => .error "fail:read"
    | .ok =>
      let fresh := r.ret.map (fun e => if e.isPub && e.qos > 0 then e.withId 0 else e)
      .ok (infl.map (showElem (now + 500)) ++ ["|"] ++ fresh.map (showElem (now + 500)))
    | _ => .ok (infl.map (showElem (now + 500)) ++ ["|"])

def observeUnack (ds : Dataset) (cid : Bytes) (ids : List Nat) : List String :=
  (ids.foldl (fun (acc : Dataset × List String) id =>
    let (cmds, ex, _) := unackSet acc.1 [] cid id
    (applyAll acc.1 cmds, if ex then acc.2 ++ [toString id] else acc.2)) (ds, [])).2

def insertNat (x : Nat) : List Nat → List Nat
  | [] => [x]
  | y :: ys => if x ≤ y then x :: y :: ys else y :: insertNat x ys

def observe (st : St) (ds : Dataset) (now : Nat) : String :=
  match recover ds with
  | .error .sessions => "fail:sessions"
  | .error .subs => "fail:subs"
  | .error _ =>
    -- the stores come up; the failure shows when the queue is first read
    "fail:queue"
  | .ok d =>
    let d := sortBy (fun (a b : Recovered) => bytesLe a.sess.id b.sess.id) d
    let mem := d.flatMap (fun r => r.subs.map (fun p => (r.sess.id, p.1, p.2)))
    let qs := d.map (fun r => (r.sess.id, observeQueue st ds r.sess.id now))
    match qs.find? (fun p => match p.2 with | .error _ => true | .ok _ => false) with
    | some (_, .error e) => e
    | _ =>
      let qp := qs.map (fun p => esc p.1 ++ "=[" ++ String.intercalate "," (match p.2 with | .ok l => l | .error _ => []) ++ "]")
      let up := d.map (fun r =>
        let ids := ((st.uaIds.filter (·.1 == r.sess.id)).map (·.2)).foldr insertNat []
        esc r.sess.id ++ "=[" ++ String.intercalate "," (observeUnack ds r.sess.id ids.eraseDups) ++ "]")
      "sess=[" ++ String.intercalate "," (d.map (fun r => showSess r.sess)) ++ "];subs=" ++ listSubs mem ++
        ";q=[" ++ String.intercalate "," qp ++ "];ua=[" ++ String.intercalate "," up ++ "]"

def rtStr {α : Type} [DecidableEq α] (x : α) : Except Err α → String
  | .ok y => if x = y then "ok" else "diff"
  | .error _ => "err"

def stepStores (st : St) (line : String) : St × String :=
  let now := st.now
  let pnow := now + 500
  let st1 := { st with now := now + 1000 }
  match words line with
  | "new" :: rest =>
    let (_, m) := kvOf rest
    ({ max := lookNat m "max" 1000, ie := ieModel (lookNat m "ie" 0) }, "ok")
  -- pure encodings
  | "emsg" :: fs =>
    match parseMsg fs with
    | some m => let b := encodeMessage m; (st, showBytes b ++ " rt=" ++ rtStr m (decodeMessage b))
    | none => (st, "bad-op")
  | ["dmsg", b] => (st, match decodeMessage (unesc b) with | .ok m => showMsg m | .error _ => "err")
  | "eelem" :: t0 :: ex :: "p" :: fs =>
    match parseMsg fs with
    | some m =>
      let e : Elem := { atTime := natOf t0, expiry := natOf ex, body := .publish m }
      let b := encodeElem e
      (st, showBytes b ++ " rt=" ++ rtStr e (decodeElem b))
    | none => (st, "bad-op")
  | ["eelem", t0, ex, "r", pid] =>
    let e : Elem := { atTime := natOf t0, expiry := natOf ex, body := .pubrel (natOf pid) }
    let b := encodeElem e
    (st, showBytes b ++ " rt=" ++ rtStr e (decodeElem b))
  | ["delem", b] => (st, match decodeElem (unesc b) with | .ok e => showElemFull e | .error _ => "err")
  | ["esub", share, filter, id, qos, nl, rap, rh] =>
    let s : Subscription := { shareName := unesc share, topicFilter := unesc filter, id := natOf id, qos := natOf qos,
                              noLocal := nl == "1", rap := rap == "1", rh := natOf rh }
    let b := encodeSubscription s
    (st, showBytes b ++ " rt=" ++ rtStr s (decodeSubscription b))
  | ["dsub", b] => (st, match decodeSubscription (unesc b) with | .ok s => showSub s | .error _ => "err")
  | op :: rest =>
    let (pos, m) := kvOf rest
    let cid := unesc (pos.getD 0 "~")
    let run (cmds : List Cmd) (res : String) : St × String :=
      let (ds', shown, ws) := runCmds now st.ds cmds
      ({ st1 with ds := ds', journal := st.journal ++ ws }, trimJoin (jstr shown) res)
    match op with
    | "sset" =>
      let will : Option Message := match look m "will" with
        | some w => if w == "-" then none else some { topic := unesc w, qos := lookNat m "wq" 1, payload := [119] }
        | none => none
      run (sessSet { id := cid, will := will, willDelay := lookNat m "wd" 0, connectedAt := 0, expiry := lookNat m "exp" 0 }) "ok"
    | "sget" =>
      run [sessGetCmd cid] (match sessGet st.ds (sessKey cid) with | .ok (some s) => showSess s | .ok none => "none" | .error _ => "err")
    | "srem" => run (sessRemove cid) "ok"
    | "sexp" => run (sessSetExpiry cid (natOf (pos.getD 1 "0"))) "ok"
    | "siter" =>
      (st1, match sessIterate st.ds with
        | .ok ss => "[" ++ String.intercalate "," (sortStrings (ss.map showSess)) ++ "]"
        | .error _ => "err")
    | "ssub" =>
      let s : Subscription := { shareName := strBytes ((look m "share").getD ""), topicFilter := unesc (pos.getD 1 "~"), id := lookNat m "id" 0,
                                qos := lookNat m "q" 0, noLocal := lookNat m "nl" 0 == 1, rap := lookNat m "rap" 0 == 1, rh := lookNat m "rh" 0 }
      let f := fullTopicName s
      let existed := st.subsMem.any (fun p => p.1 == cid && p.2.1 == f)
      let (st2, out) := run (subSubscribe cid s) ("existed=" ++ b2s existed)
      ({ st2 with subsMem := st.subsMem.filter (fun p => !(p.1 == cid && p.2.1 == f)) ++ [(cid, f, s)] }, out)
    | "sunsub" =>
      let t := unesc (pos.getD 1 "~")
      let (st2, out) := run (subUnsubscribe cid [t]) "ok"
      ({ st2 with subsMem := st.subsMem.filter (fun p => !(p.1 == cid && p.2.1 == t)) }, out)
    | "sunall" =>
      let (st2, out) := run (subUnsubscribeAll cid) "ok"
      ({ st2 with subsMem := st.subsMem.filter (fun p => p.1 != cid) }, out)
    | "slist" => (st1, listSubs st.subsMem)
    | "qinit" =>
      let r : RedisQueue.Res Elem := RedisQueue.init (queueOf st cid) st.ds (pos.getD 1 "0" == "1") (natOf (pos.getD 2 "0"))
      let (st2, shown) := finishQ st1 cid now r
      (st2, trimJoin (jstr shown) (statusStr r.status))
    | "qadd" =>
      let e : Elem := { atTime := 0, expiry := expOf (pos.getD 3 "none"),
                        body := .publish { qos := natOf (pos.getD 2 "0"), topic := unesc (pos.getD 1 "~"), payload := List.replicate (natOf (pos.getD 4 "0")) 97 } }
      let r := RedisQueue.add elemOps (queueOf st cid) st.ds now e
      let (st2, shown) := finishQ st1 cid now r
      (st2, trimJoin (jstr shown) (if r.status == .ok then trimJoin "ok" (showEvs pnow r.evs) else "err"))
    | "qread" =>
      let r := RedisQueue.read elemOps (queueOf st cid) st.ds now (natList (pos.getD 1 "-"))
      let r := if r.status == .blocked then { r with q := { r.q with closed := true } } else r   -- the harness unblocks with Close
      let (st2, shown) := finishQ st1 cid now r
      (st2, trimJoin (jstr shown) (if r.status == .ok then trimJoin (showRet pnow r.ret) (showEvs pnow r.evs) else statusStr r.status))
    | "qri" =>
      let r := RedisQueue.readInflight elemOps (queueOf st cid) st.ds now (natOf (pos.getD 1 "0"))
      let (st2, shown) := finishQ st1 cid now r
      (st2, trimJoin (jstr shown) (if r.status == .ok then showRet pnow r.ret else "err"))
    | "qrm" =>
      let r : RedisQueue.Res Elem := RedisQueue.remove (queueOf st cid) (natOf (pos.getD 1 "0"))
      let (st2, shown) := finishQ st1 cid now r
      (st2, trimJoin (jstr shown) (trimJoin "ok" (showEvs pnow r.evs)))
    | "qrep" =>
      let e : Elem := { atTime := 0, expiry := zeroTime, body := .pubrel (natOf (pos.getD 1 "0")) }
      let r := RedisQueue.replace elemOps (queueOf st cid) st.ds e
      let (st2, shown) := finishQ st1 cid now r
      (st2, trimJoin (jstr shown) (statusStr r.status))
    | "qclean" =>
      let r : RedisQueue.Res Elem := RedisQueue.clean (queueOf st cid)
      let (st2, shown) := finishQ st1 cid now r
      (st2, trimJoin (jstr shown) "ok")
    | "qclose" =>
      let r : RedisQueue.Res Elem := RedisQueue.close (queueOf st cid)
      let (st2, shown) := finishQ st1 cid now r
      (st2, trimJoin (jstr shown) "ok")
    | "uinit" =>
      let clean := pos.getD 1 "0" == "1"
      let (st2, out) := run (unackInit cid clean) "ok"
      (if clean then setUnack st2 cid [] else st2, out)
    | "uset" =>
      let id := natOf (pos.getD 1 "0")
      let (cmds, ex, cache) := unackSet st.ds (unackOf st cid) cid id
      let (st2, out) := run cmds ("exist=" ++ b2s ex)
      ({ setUnack st2 cid cache with uaIds := st.uaIds ++ [(cid, id)] }, out)
    | "urm" =>
      let id := natOf (pos.getD 1 "0")
      let (st2, out) := run (unackRemove cid id) "ok"
      (setUnack st2 cid ((unackOf st cid).filter (· != id)), out)
    | "dump" => (st1, dump st.ds)
    | "restart" =>
      let w := st.journal
      let ks := if pos.getD 0 "all" == "all" then List.range (w.length + 1) else [min (natOf (pos.getD 0 "0")) w.length]
      (st1, String.intercalate " " (s!"W={w.length}" :: ks.map (fun k => s!"k{k}\{{observe st (applyAll [] (w.take k)) now}}")))
    | _ => (st, "bad-op")
  | [] => (st, "bad-op")

/-! ### mode wire: `crashscan JH=<journal> Q2=<cid|pid;…>` -/

def parseJournalCmd (s : String) : Option Cmd :=
  match s.splitOn "," with
  | name :: raw => parseCmd name (raw.map unesc) raw
  | [] => none

def payloadTag (p : Bytes) : String :=
  let t := p.takeWhile (· != 46)
  if t.isEmpty then "~" else bytesStr t

def showWireSub (p : Bytes × Subscription) : String :=
  let s := p.2
  s!"{tok (fullTopicName s)}:{s.qos}:{if s.noLocal then 1 else 0}:{if s.rap then 1 else 0}:{s.rh}:{s.id}"

/-- what the reconnecting client is sent: the id-bearing prefix replayed (DUP publishes / PUBREL), then the rest as new messages -/
def rxOf (now : Nat) (q : List Elem) : List String :=
  let infl := q.takeWhile (fun e => e.id != 0)
  let rest := q.dropWhile (fun e => e.id != 0)
  infl.map (fun e => match e.body with
    | .publish m => s!"pub({payloadTag m.payload},{m.qos},1,{m.pid})"
    | .pubrel id => s!"rel({id})") ++
  (rest.filter (fun e => !elemExpired now e)).map (fun e => match e.body with
    | .publish m => if m.qos == 0 then s!"pub({payloadTag m.payload},0,0,0)" else s!"pub({payloadTag m.payload},{m.qos},0,*)"
    | .pubrel _ => "panic")

def dupsOf (resumed : Bool) (unack : List Bytes) (pids : List Nat) : List String :=
  (pids.foldl (fun (acc : List Nat × List String) pid =>
    let d := acc.1.contains pid || (resumed && unack.contains (natToDec pid))
    (acc.1 ++ [pid], acc.2 ++ [s!"{pid}={if d then 1 else 0}"])) ([], [])).2

def observeWire (ds : Dataset) (q2 : List (Bytes × Nat)) (now : Nat) : String :=
  match recover ds with
  | .error _ => "fail"
  | .ok d =>
    let d := sortBy (fun (a b : Recovered) => bytesLe a.sess.id b.sess.id) d
    if d.isEmpty then "-" else
    String.intercalate "," (d.map (fun r =>
      let resumed := r.sess.expiry != 0
      let subs := sortStrings (r.subs.map showWireSub)
      let rx := if resumed then rxOf now r.queue else []
      let dups := dupsOf resumed r.unack ((q2.filter (·.1 == r.sess.id)).map (·.2))
      s!"{tok r.sess.id}\{exp={r.sess.expiry};subs=[{String.intercalate "," subs}];conn={if resumed then 1 else 0}/0;rx=[{String.intercalate "," rx}];dup=[{String.intercalate "," dups}]}"))

/-! ### conformance of the broker's journal with the history model (`HOp.cmds`, the command sequence `crash_consistent` is about)

Every `j <op>` line arrives with the journal segment the real broker produced for it (`JS=`) and the list of history steps it
amounts to (`EV=`, derived by vlib/props/c09.py from the wire op and the packets the scripted clients saw). The model state is
advanced with `hstep`; per client the model's commands must equal the journal's (timestamps aside). Payloads the wire does not
determine (the stored session record, the encoded subscription, the queued element) are taken from the journal command itself. -/

def famOfKey (k : Bytes) : Option (Fam × Bytes) :=
  if sessPrefix.isPrefixOf k then some (.sess, k.drop 8)
  else if subPrefix.isPrefixOf k then some (.sub, k.drop 4)
  else if queuePrefix.isPrefixOf k then some (.queue, k.drop 6)
  else if unackPrefix.isPrefixOf k then some (.unack, k.drop 6)
  else none

def decNat? (b : Bytes) : Option Nat := if b.isEmpty then none else decToNatAux b 0

def elemOf? (b : Bytes) : Option Elem := match decodeElem b with | .ok e => some e | .error _ => none

/-- the decoded command a raw redis command stands for (inverse of `DCmd.enc`) -/
def dcmdOf (c : Cmd) : Option DCmd :=
  match c with
  | .del k => (famOfKey k).map (fun p => .delKey p.1 p.2)
  | .hset k fvs =>
    match famOfKey k with
    | some (.sess, c) => some (.setSess c fvs)
    | some (.sub, c) =>
      match fvs with
      | [(f, v)] => match decodeSubscription v with
        | .ok sub => if fullTopicName sub == f then some (.setSub c sub) else none
        | .error _ => none
      | _ => none
    | some (.unack, c) =>
      match fvs with
      | [(f, v)] => if v == [49] then (decNat? f).map (fun id => .setUnack c id) else none
      | _ => none
    | _ => none
  | .hdel k fs =>
    match famOfKey k with
    | some (.sub, c) => some (.delSubs c fs)
    | some (.unack, c) => match fs with
      | [f] => (decNat? f).map (fun id => .delUnack c id)
      | _ => none
    | _ => none
  | .rpush k v => match famOfKey k with
    | some (.queue, c) => (elemOf? v).map (fun e => .push c e)
    | _ => none
  | .lset k i v => match famOfKey k with
    | some (.queue, c) => if i < 0 then none else (elemOf? v).map (fun e => .lset c i.toNat e)
    | _ => none
  | .lrem k n v => match famOfKey k with
    | some (.queue, c) => if n == 1 then (elemOf? v).map (fun e => .lrem1 c e) else none
    | _ => none
  | _ => none

def canonE (e : Elem) : String :=
  showElemFull { e with atTime := 0, expiry := if e.expiry == zeroTime then zeroTime else 1 }

def famStr : Fam → String
  | .sess => "session" | .sub => "sub" | .queue => "queue" | .unack => "unack"

def showD : DCmd → String
  | .delKey f c => s!"del({famStr f},{esc c})"
  | .setSess c fvs => s!"setsess({esc c}," ++ String.intercalate "," (fvs.map (fun p => esc p.1 ++ "=" ++ esc p.2)) ++ ")"
  | .setSub c sub => s!"setsub({esc c},{showSub sub})"
  | .delSubs c fs => s!"delsubs({esc c}," ++ String.intercalate "," (fs.map esc) ++ ")"
  | .push c e => s!"push({esc c},{canonE e})"
  | .lset c i e => s!"lset({esc c},{i},{canonE e})"
  | .lrem1 c e => s!"lrem({esc c},{canonE e})"
  | .setUnack c id => s!"setunack({esc c},{id})"
  | .delUnack c id => s!"delunack({esc c},{id})"

structure WSt where
  st : HSt := {}
  ie : Nat := 30
  broken : Bool := false

/-- first command of the segment (not yet used) that satisfies `p` -/
def takeFirst (p : DCmd → Bool) : List DCmd → Option (DCmd × List DCmd)
  | [] => none
  | d :: ds => if p d then some (d, ds) else (takeFirst p ds).map (fun r => (r.1, d :: r.2))

def fillerIds (used : List Nat) : List Nat := used ++ (List.range (100 - used.length)).map (· + 60001)

/-- one history step from an event token; `pool` = journal commands whose payload has not been claimed yet -/
def opOfEvent (ev : String) (pool : List DCmd) : Option (HOp × List DCmd) :=
  match ev.splitOn "|" with
  | ["con", c, clean] =>
    let cid := unesc c
    match takeFirst (fun d => match d with | .setSess c' fvs => c' == cid && fvs.length == 5 | _ => false) pool with
    | some (.setSess _ fvs, pool') =>
      match parseSession (sessFields.map (hfind fvs)) with
      | .ok (some s) => some (.connect cid (clean == "1") s 0, pool')
      | _ => none
    | _ => none
  | ["sub", c] =>
    let cid := unesc c
    match takeFirst (fun d => match d with | .setSub c' _ => c' == cid | _ => false) pool with
    | some (.setSub _ sub, pool') => some (.subscribe cid sub, pool')
    | _ => none
  | ["uns", c, t] => some (.unsubscribe (unesc c) (unesc t), pool)
  | ["enq", c] =>
    let cid := unesc c
    match takeFirst (fun d => match d with | .push c' _ => c' == cid | _ => false) pool with
    | some (.push _ e, pool') => some (.enqueue cid e, pool')
    | _ => none
  | ["dlv", c, ids] => some (.deliver (unesc c) (fillerIds (if ids == "-" then [] else (ids.splitOn "+").map natOf)) 0, pool)
  | ["ack", c, id] => some (.ack (unesc c) (natOf id), pool)
  | ["rec", c, id] => some (.pubrec (unesc c) (natOf id) 0, pool)
  | ["rq2", c, id] => some (.recvQos2 (unesc c) (natOf id), pool)
  | ["rel", c, id] => some (.pubrel (unesc c) (natOf id), pool)
  | ["exp", c, n] => some (.setExpiry (unesc c) (natOf n), pool)
  | ["trm", c] => some (.terminate (unesc c), pool)
  | _ => none

def runEvents (ie : Nat) : List String → HSt → List DCmd → List DCmd → Option (HSt × List DCmd)
  | [], st, _, acc => some (st, acc)
  | ev :: evs, st, pool, acc =>
    match opOfEvent ev pool with
    | none => none
    | some (op, pool') => runEvents ie evs (hstep ie st op) pool' (acc ++ op.cmds ie st)

def cidsOf (ds : List DCmd) : List Bytes := (ds.map DCmd.cid).eraseDups

def conform (w : WSt) (js ev : String) : WSt × String :=
  if ev == "skip" then ({ w with broken := true }, "seg=skip")
  else if w.broken then (w, "seg=skip")
  else
    let raw := (if js == "" then [] else js.splitOn ";").map parseJournalCmd
    if raw.any Option.isNone then ({ w with broken := true }, "seg=DIFF:unparsed")
    else
      let real := (raw.filterMap id).map dcmdOf
      if real.any Option.isNone then ({ w with broken := true }, "seg=DIFF:not-a-store-command")
      else
        let real := real.filterMap id
        match runEvents w.ie (if ev == "" then [] else ev.splitOn ";") w.st real [] with
        | none => ({ w with broken := true }, "seg=DIFF:no-such-step")
        | some (st', model) =>
          let bad := (cidsOf (real ++ model)).filter (fun c =>
            (real.filter (·.cid == c)).map showD != (model.filter (·.cid == c)).map showD)
          match bad with
          | [] => ({ w with st := st' }, "seg=ok")
          | c :: _ =>
            ({ w with broken := true },
             s!"seg=DIFF:{esc c}:model=[{String.intercalate ";" ((model.filter (·.cid == c)).map showD)}]:real=[{String.intercalate ";" ((real.filter (·.cid == c)).map showD)}]")

def stepWire (w : WSt) (line : String) : WSt × String :=
  match words line with
  | "new" :: _ => ({}, "-")
  | "j" :: rest =>
    let (_, m) := kvOf rest
    match look m "EV" with
    | none => (w, "-")
    | some ev => conform w ((look m "JS").getD "") ev
  | "crashscan" :: rest =>
    let (_, m) := kvOf rest
    let jh := (look m "JH").getD ""
    let cmds := (if jh == "" then [] else jh.splitOn ";").filterMap parseJournalCmd
    let q2 := match look m "Q2" with
      | some s => if s == "" then [] else (s.splitOn ";").filterMap (fun t => match t.splitOn "|" with
          | [c, p] => some (unesc c, natOf p)
          | _ => none)
      | none => []
    let step := max 1 (lookNat m "step" 1)
    let now := lookNat m "now" 0
    let ks := (List.range (cmds.length + 1)).filter (· % step == 0)
    (w, String.intercalate " " (s!"W={cmds.length}" :: ks.map (fun k => s!"k{k}\{{observeWire (applyAll [] (cmds.take k)) q2 now}}")))
  | _ => (w, "-")

end Driver.Redis

def main (args : List String) : IO Unit := do
  let i ← IO.getStdin
  let o ← IO.getStdout
  match args with
  | ["cmds"] => Driver.loop i o ([] : GmqttVerif.Redis.Dataset) Driver.Redis.stepCmds
  | ["wire"] => Driver.loop i o ({} : Driver.Redis.WSt) Driver.Redis.stepWire
  | _ => Driver.loop i o ({} : Driver.Redis.St) Driver.Redis.stepStores
