import GmqttVerif.Model.Retained
import Driver.Common
/- line protocol for the retained-message store (C07, store level); see harness/cmd/drive_retained -/
namespace Driver.Retained
open GmqttVerif.Retained Driver

/-- topics/filters are written with a leading ':' so that the empty string is a token -/
def arg (s : String) : Option Topic :=
  match s.toList with
  | ':' :: rest => some rest
  | _ => none

def showMsg (m : Msg) : String := String.ofList m.topic ++ "=" ++ toString m.tag

/-- canonical form of anything that came out of a map iteration: rendered entries, sorted -/
def showList (ms : List Msg) : String :=
  let parts := (ms.map showMsg).toArray.qsort (fun a b => a < b)
  "[" ++ String.intercalate "," parts.toList ++ "]"

/-- callback of `iterstop n`: count the calls, return false on the n-th -/
def countStop (n : Nat) (calls : Nat) (_ : Msg) : Nat × Bool := (calls + 1, decide (calls + 1 < n))

def step (st : Store) (line : String) : Store × String :=
  match line.splitOn " " with
  | ["new"] => (Store.new, "ok")
  | ["add", t, tag] =>
    match arg t with
    | some t => (st.addOrReplace { topic := t, tag := natOf tag }, "ok")
    | none => (st, "bad-op")
  | ["rm", t] =>
    match arg t with
    | some t => (st.remove t, "ok")
    | none => (st, "bad-op")
  | ["clear"] => (st.clearAll, "ok")
  | ["get", t] =>
    match arg t with
    | some t => (st, match st.getRetainedMessage t with | some m => showMsg m | none => "none")
    | none => (st, "bad-op")
  | ["match", f] =>
    match arg f with
    | some f => (st, showList (st.getMatchedMessages f))
    | none => (st, "bad-op")
  | "cmatch" :: fs =>
    -- concurrent lookups: each answers what it answers alone
    match fs.mapM arg with
    | some l => (st, String.intercalate " | " (l.map (fun f => showList (st.getMatchedMessages f))))
    | none => (st, "bad-op")
  | ["iter"] => (st, showList st.iterateAll)
  | ["iterstop", n] => (st, s!"calls={st.iterate (countStop (natOf n)) 0}")
  | _ => (st, "bad-op")

end Driver.Retained

def main : IO Unit := do
  Driver.loop (← IO.getStdin) (← IO.getStdout) GmqttVerif.Retained.Store.new Driver.Retained.step
