import GmqttVerif.Model.Stats
import Driver.Common
/-
  C20 oracle: folds the events that vlib/props/c20.py derives from the harness's ground truth (packets written / decoded
  by the scripted clients, hook calls, real queue contents) through the model of `statsManager` and prints the same
  canonical dump as the `stats` op of harness/cmd/drive_broker/stats.go (left of `##`).

    new …                      reset
    stats ev=<e>;<e>;…         apply the events, print `G:<counters> C:<cid>{<counters>};…`
    anything else              `-`
  events: pr/<cid>/<type>/<n>/<bytes>  ps/…  mr/<cid>/<qos>/<n>  ms/…  md/<cid>/<qos>/<reason>/<n>
          ai/<cid>/<d> di/<cid>/<d> aq/<cid>/<d> dq/<cid>/<d>  cc/<cid> cd/<cid>  sa/<0|1>  st/<cid>/<reason>
  Argument `asis`: the unpatched statsManager (`Fix.asIs`); default: the repaired one (`Fix.all`).
-/
namespace Driver.Stats
open GmqttVerif GmqttVerif.Stats Driver

def ptypeOf (s : String) : Option PType :=
  (PType.all.zip ["auth", "connect", "connack", "disconnect", "pingreq", "pingresp", "puback", "pubcomp", "publish", "pubrec",
                  "pubrel", "suback", "subscribe", "unsuback", "unsubscribe"]).find? (·.2 == s) |>.map (·.1)

def ptypeName (t : PType) : String :=
  match t with
  | .auth => "auth" | .connect => "connect" | .connack => "connack" | .disconnect => "disconnect" | .pingreq => "pingreq"
  | .pingresp => "pingresp" | .puback => "puback" | .pubcomp => "pubcomp" | .publish => "publish" | .pubrec => "pubrec"
  | .pubrel => "pubrel" | .suback => "suback" | .subscribe => "subscribe" | .unsuback => "unsuback" | .unsubscribe => "unsubscribe"

def reasonOf (s : String) : Reason :=
  if s == "oversize" then .oversize else if s == "full" then .full else if s == "expired" then .expired
  else if s == "inflexpired" then .inflExpired else .internal

def reasonName : Reason → String
  | .internal => "internal" | .oversize => "oversize" | .full => "full" | .expired => "expired" | .inflExpired => "inflexpired"

def cidOf (t : String) : String := if t == "~" then "" else t

/-- n events carrying `bytes` in total -/
def spread (mk : Nat → Event) (n bytes : Nat) : List Event :=
  if n == 0 then [] else mk bytes :: (List.replicate (n - 1) (mk 0))

def parseEvent (e : String) : List Event :=
  match e.splitOn "/" with
  | ["pr", c, t, n, b] => match ptypeOf t with | some pt => spread (fun x => .packetReceived (cidOf c) pt x) (natOf n) (natOf b) | none => []
  | ["ps", c, t, n, b] => match ptypeOf t with | some pt => spread (fun x => .packetSent (cidOf c) pt x) (natOf n) (natOf b) | none => []
  | ["mr", c, q, n] => List.replicate (natOf n) (.messageReceived (cidOf c) (natOf q))
  | ["ms", c, q, n] => List.replicate (natOf n) (.messageSent (cidOf c) (natOf q))
  | ["md", c, q, r, n] => List.replicate (natOf n) (.messageDropped (cidOf c) (natOf q) (reasonOf r))
  | ["ai", c, d] => [.addInflight (cidOf c) (natOf d)]
  | ["di", c, d] => [.decInflight (cidOf c) (natOf d)]
  | ["aq", c, d] => [.addQueueLen (cidOf c) (natOf d)]
  | ["dq", c, d] => [.decQueueLen (cidOf c) (natOf d)]
  | ["cc", c] => [.clientConnected (cidOf c)]
  | ["cd", c] => [.clientDisconnected (cidOf c)]
  | ["sa", b] => [.sessionActive (b == "1")]
  | ["st", c, r] => [.sessionTerminated (cidOf c) (if r == "takenover" then .takenOver else if r == "expired" then .expired else .normal)]
  | _ => []

def u64 (i : Int) : Nat := (i % 18446744073709551616).toNat

def cumEntries (fx : Fix) (c : CStats) : List (String × Nat) :=
  let ts : List (Option PType) := none :: PType.all.map some
  let tn (t : Option PType) : String := match t with | none => "total" | some x => ptypeName x
  ts.flatMap (fun t => [("br." ++ tn t, view fx c (.bytesIn t)), ("pr." ++ tn t, view fx c (.pktsIn t)),
                        ("bs." ++ tn t, view fx c (.bytesOut t)), ("ps." ++ tn t, view fx c (.pktsOut t))]) ++
  [0, 1, 2].flatMap (fun q => [(s!"mr.q{q}", view fx c (.msgIn q)), (s!"ms.q{q}", view fx c (.msgOut q))] ++
    Reason.all.map (fun r => (s!"md.q{q}.{reasonName r}", view fx c (.dropped q r)))) ++
  [("infl", u64 c.inflight), ("queued", u64 c.queued)]

def kvList (l : List (String × Nat)) : String :=
  let l := (l.filter (·.2 != 0)).mergeSort (fun a b => a.1 ≤ b.1)
  String.intercalate "," (l.map (fun kv => kv.1 ++ "=" ++ toString kv.2))

def dump (fx : Fix) (s : Stats) : String :=
  let g := cumEntries fx s.g ++
    [("cn.connected", s.conn.connected), ("cn.disconnected", s.conn.disconnected), ("se.created", s.conn.created),
     ("se.term.normal", s.conn.termNormal), ("se.term.expired", s.conn.termExpired), ("se.term.takenover", s.conn.termTakenOver),
     ("active", u64 s.conn.active), ("inactive", u64 s.conn.inactive)]
  let cs := s.clients.mergeSort (fun a b => a.1 ≤ b.1)
  let showCid (c : String) : String := if c.isEmpty then "~" else c
  "G:" ++ kvList g ++ " C:" ++ String.intercalate ";" (cs.map (fun (cc : String × CStats) => showCid cc.1 ++ "{" ++ kvList (cumEntries fx cc.2) ++ "}"))

def kvNat (toks : List String) (k : String) (d : Nat) : Nat :=
  match toks.find? (·.startsWith (k ++ "=")) with
  | some t => ((t.drop (k.length + 1)).toString.toNat?).getD d
  | none => d

structure St where
  s : Stats := {}
  have_ : Bool := false

def step (fx : Fix) (st : St) (line : String) : St × String :=
  match words line with
  | "new" :: rest =>
    -- config.MQTT.Validate, as drive_broker applies it
    let maxq := kvNat rest "maxq" 1000
    let mi := kvNat rest "mi" 100
    let valid := maxq > 0 && kvNat rest "rm" 100 != 0 && kvNat rest "mp" 268435456 != 0 && mi != 0 && maxq ≥ mi
    if !valid && kvNat rest "novalidate" 0 == 0 then ({}, "invalid-config") else ({ have_ := true }, "ok")
  | "stats" :: rest =>
    if !st.have_ then (st, "no-broker") else
    let s := st.s
    let evs := match rest.find? (·.startsWith "ev=") with
      | some t => ((t.drop 3).toString.splitOn ";").flatMap parseEvent
      | none => []
    let s := s.run fx evs
    ({ st with s := s }, dump fx s)
  | _ => (st, if st.have_ then "-" else "no-broker")

end Driver.Stats

def main (args : List String) : IO Unit := do
  let fx := if args.contains "asis" then GmqttVerif.Stats.Fix.asIs else GmqttVerif.Stats.Fix.all
  Driver.loop (← IO.getStdin) (← IO.getStdout) ({} : Driver.Stats.St) (Driver.Stats.step fx)
