import GmqttVerif.Model.SubStore
import Driver.Common
/- line protocol for the in-memory subscription index (C02, C11); same as harness/cmd/drive_substore -/
namespace Driver.SubStore
open GmqttVerif GmqttVerif.SubStore Driver

def str (s : String) : Str := s.toList
def undash (s : String) : Str := if s == "-" then [] else s.toList
def dash (s : Str) : String := if s.isEmpty then "-" else String.ofList s
def b2s (b : Bool) : String := if b then "1" else "0"

def showEntry (e : Str × Sub) : String :=
  let s := e.2
  s!"{String.ofList e.1},{dash s.share},{String.ofList s.filter},{s.qos},{b2s s.nl},{b2s s.rap},{s.rh},{s.id}"

def showEntries (es : List (Str × Sub)) : String :=
  let l := ((es.map showEntry).toArray.qsort (· < ·)).toList
  (s!"n={l.length} " ++ String.intercalate ";" l).trimAscii.toString

def showStats (s : Stats) : String := s!"total={s.total} current={s.current}"

def iter (st : Store) (o : Opts) : String := showEntries (st.iterate o)

def step (st : Store) (line : String) : Store × String :=
  match line.splitOn " " with
  | ["new"] => (SubStore.new, "ok")
  -- redis wrapper (drive_substore redis): `fault` arms a failure of the next redis command; the stream marks the mutating op
  -- that runs into it `failed …`: it reports an error and changes nothing; a store reloaded from redis equals the live one
  | ["fault"] => (st, "ok")
  | "failed" :: _ => (st, "err")
  | ["reload"] => (st, "same")
  | ["sub", c, share, filter, qos, nl, rap, rh, id] =>
    let s : Sub := { share := undash share, filter := str filter, qos := natOf qos % 256, nl := nl == "1", rap := rap == "1",
                     rh := natOf rh % 256, id := natOf id % 4294967296 }
    let (st', existed) := st.subscribe (str c) s
    (st', if existed then "ok existed" else "ok new")
  | ["unsub", c, full] => (st.unsubscribe (str c) (str full), "ok")
  | ["unsuball", c] => (st.unsubscribeAll (str c), "ok")
  | ["cmatch", ty, topics] =>
    -- concurrent lookups: each answers what it answers alone (lookups do not change the store)
    (st, String.intercalate " | " ((topics.splitOn ",").map (fun t => iter st { type := natOf ty % 256, topic := str t, matchType := 2 })))
  | ["match", ty, topic] => (st, iter st { type := natOf ty % 256, topic := str topic, matchType := 2 })
  | ["match", ty, topic, c] => (st, iter st { type := natOf ty % 256, topic := str topic, matchType := 2, client := str c })
  | ["get", ty, name] => (st, iter st { type := natOf ty % 256, topic := str name, matchType := 1 })
  | ["get", ty, name, c] => (st, iter st { type := natOf ty % 256, topic := str name, matchType := 1, client := str c })
  | ["client", c, ty] => (st, iter st { type := natOf ty % 256, client := str c })
  | ["all", ty] => (st, iter st { type := natOf ty % 256 })
  | ["stats"] => (st, showStats st.stats)
  | ["cstats", c] =>
    (st, match st.getClientStats (str c) with
         | some s => showStats s
         | none => "noclient")
  | ["split", full] =>
    let (g, f) := Topic.splitTopic (str full)
    (st, dash g ++ " " ++ dash f)
  | _ => (st, "bad-op")

end Driver.SubStore

def main : IO Unit := do
  Driver.loop (← IO.getStdin) (← IO.getStdout) GmqttVerif.SubStore.new Driver.SubStore.step
