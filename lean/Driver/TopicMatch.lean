import GmqttVerif.Model.TopicMatchBytes
import Driver.Common
/- line protocol for the exported byte scanner packets.TopicMatch (C02, stream `topicmatch`):
     tm <hex-topic> <hex-filter>  ->  true | false | panic        (`-` = the empty byte string)
   stateless; byte b ↦ `Char.ofNat b`. -/
namespace Driver.TopicMatch
open GmqttVerif GmqttVerif.TopicMatchBytes Driver

def hexVal (c : Char) : Option Nat :=
  if '0' ≤ c ∧ c ≤ '9' then some (c.toNat - '0'.toNat)
  else if 'a' ≤ c ∧ c ≤ 'f' then some (c.toNat - 'a'.toNat + 10)
  else if 'A' ≤ c ∧ c ≤ 'F' then some (c.toNat - 'A'.toNat + 10)
  else none

def unhexList : List Char → Option Str
  | [] => some []
  | [_] => none
  | a :: b :: rest =>
    match hexVal a, hexVal b, unhexList rest with
    | some x, some y, some r => some (Char.ofNat (16 * x + y) :: r)
    | _, _, _ => none

/-- `-` is the empty byte string; otherwise a non-empty even-length hex string -/
def unhex (s : String) : Option Str :=
  if s == "-" then some []
  else match unhexList s.toList with
    | some [] => none
    | r => r

def step (st : Unit) (line : String) : Unit × String :=
  match words line with
  | ["tm", t, f] =>
    match unhex t, unhex f with
    | some topic, some filter => (st, (topicMatchBytes topic filter).show)
    | _, _ => (st, "bad-op")
  | _ => (st, "bad-op")

end Driver.TopicMatch

def main : IO Unit := do
  Driver.loop (← IO.getStdin) (← IO.getStdout) () Driver.TopicMatch.step
