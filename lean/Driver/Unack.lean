import GmqttVerif.Model.Unack
import Driver.Common
/-
  line protocol for the unack store (C04, component level). Same lines as harness/cmd/drive_unack.
    new          -> ok
    init <0|1>   -> ok
    set <id>     -> new | exist
    remove <id>  -> ok
  ids are converted to uint16 exactly as the Go driver does.
-/
namespace Driver.Unack
open GmqttVerif.Unack Driver

def step (s : Option Store) (line : String) : Option Store × String :=
  match s, words line with
  | _, ["new"] => (some new, "ok")
  | some st, ["init", c] => (some (st.init (c == "1")), "ok")
  | some st, ["set", id] =>
    let (st', ex) := st.set (natOf id % 65536)
    (some st', if ex then "exist" else "new")
  | some st, ["remove", id] => (some (st.remove (natOf id % 65536)), "ok")
  | s, _ => (s, "bad-op")

end Driver.Unack

def main : IO Unit := do
  Driver.loop (← IO.getStdin) (← IO.getStdout) (none : Option GmqttVerif.Unack.Store) Driver.Unack.step
