import GmqttVerif.Model.WsConn
import Driver.Common
/- line protocol for `wsConn` (C18).
   new | msg b <hex|-> | msg t <hex|-> | close | read <n> | write <hex|->
   `oracle_wsconn`       : the tree with the F01 patch (slack 0, what the theorems are about)
   `oracle_wsconn asis`  : the tree as it is (slack 1) -/
namespace Driver.WsConn
open GmqttVerif.WsConn Driver

/-- a byte is kept as its two hex digits -/
abbrev Byte := String

def pairs : List Char → List Byte
  | a :: b :: rest => String.ofList [a, b] :: pairs rest
  | _ => []

def unhex (s : String) : List Byte := if s == "-" then [] else pairs s.toList

def hex (l : List Byte) : String := if l.isEmpty then "-" else String.join l

structure W where
  slack   : Nat := 0
  st      : St Byte := St.init
  pending : List (Msg Byte) := []
  closed  : Bool := false     -- the peer closed the connection
  dead    : Bool := false     -- a Read hit its deadline: the gorilla connection is unusable afterwards

def step (w : W) (line : String) : W × String :=
  match words line with
  | ["new"] => ({ slack := w.slack }, "ok")
  | ["msg", "b", h] => ({ w with pending := w.pending ++ [.binary (unhex h)] }, "ok")
  | ["msg", "t", h] => ({ w with pending := w.pending ++ [.text (unhex h)] }, "ok")
  | ["close"] => ({ w with closed := true }, "ok")
  | ["read", n] =>
    if w.st.buf.isNone && w.pending.isEmpty && (w.dead || !w.closed) then
      ({ w with dead := true }, if w.dead then "eof" else "blocked")
    else
      let (st', p', res) := read w.slack w.st w.pending (natOf n)
      let w' := { w with st := st', pending := p' }
      match res with
      | .data c => (w', hex c)
      | .errType => (w', "err")
      | .eof => (w', "eof")
  | ["write", h] =>
    let (m, n) := write (unhex h)
    match m with
    | .binary p => (w, s!"b:{hex p} n={n}")
    | .text p => (w, s!"t:{hex p} n={n}")
  | _ => (w, "bad-op")

end Driver.WsConn

def main (args : List String) : IO Unit := do
  let slack := if args.contains "asis" then 1 else 0
  Driver.loop (← IO.getStdin) (← IO.getStdout) ({ slack := slack } : Driver.WsConn.W) Driver.WsConn.step
