import GmqttVerif.Model.WsConn
import Driver.Common
/- end-to-end oracle for MQTT over WebSocket (C18, stream `wsecho`):
     new [<max_packet_size>] | msg b <hex|-> | msg t <hex|-> | recv <n> | quiet
   (max_packet_size does not enter the model: it limits MQTT packets of v5 sessions, never WebSocket messages; the sessions here are 3.1.1)
   The WebSocket messages go through the `wsConn` model (reads of 1024 bytes, as the broker's bufio reader issues them);
   the delivered byte stream is framed into MQTT packets and answered by a minimal MQTT 3.1.1 echo model:
   CONNECT -> CONNACK(0), SUBSCRIBE(one filter, QoS 0) -> SUBACK(0), PUBLISH QoS 0 (flags 0) -> the same bytes back
   (the session subscribes to the topic it publishes to). Anything else, or a text message, ends the connection.
   `oracle_wsecho asis` uses the unpatched reset condition in the wsConn part. -/
namespace Driver.WsEcho
open GmqttVerif.WsConn Driver

def hexVal (c : Char) : Nat :=
  if '0' ≤ c ∧ c ≤ '9' then c.toNat - '0'.toNat
  else if 'a' ≤ c ∧ c ≤ 'f' then c.toNat - 'a'.toNat + 10
  else 0

def unhexL : List Char → List Nat
  | a :: b :: rest => (hexVal a * 16 + hexVal b) :: unhexL rest
  | _ => []

def unhex (s : String) : List Nat := if s == "-" then [] else unhexL s.toList

def hexDigit (n : Nat) : Char := "0123456789abcdef".toList.getD n '?'

def hex (l : List Nat) : String :=
  if l.isEmpty then "-" else String.ofList (l.flatMap (fun b => [hexDigit (b / 16 % 16), hexDigit (b % 16)]))

structure S where
  slack   : Nat := 0
  ws      : St Nat := St.init
  pending : List (Msg Nat) := []
  inbuf   : List Nat := []      -- bytes handed to the packet reader, not yet a whole packet
  out     : List Nat := []      -- bytes the broker has sent, not yet collected by `recv`
  conn    : Bool := false
  sub     : Bool := false
  dead    : Bool := false

/-- drain the wsConn model with 1024-byte reads -/
def pump (s : S) : Nat → S
  | 0 => s
  | fuel + 1 =>
    if s.dead || (s.ws.buf.isNone && s.pending.isEmpty) then s
    else
      let (ws', p', res) := read s.slack s.ws s.pending 1024
      let s' := { s with ws := ws', pending := p' }
      match res with
      | .data c => pump { s' with inbuf := s'.inbuf ++ c } fuel
      | _ => { s' with dead := true }

/-- remaining length: (value, number of length bytes) if complete -/
def varint : List Nat → Nat → Nat → Nat → Option (Nat × Nat)
  | [], _, _, _ => none
  | b :: rest, mult, acc, k =>
    let acc' := acc + (b % 128) * mult
    if b < 128 then some (acc', k + 1)
    else if k ≥ 3 then some (0, 99)      -- malformed
    else varint rest (mult * 128) acc' (k + 1)

def frames (s : S) : Nat → S
  | 0 => s
  | fuel + 1 =>
    if s.dead then s else
    match s.inbuf with
    | [] => s
    | t :: rest =>
      match varint rest 1 0 0 with
      | none => s
      | some (len, k) =>
        if k == 99 then { s with dead := true }
        else if rest.length < k + len then s
        else
          let pkt := s.inbuf.take (1 + k + len)
          let body := (rest.drop k).take len
          let s1 := { s with inbuf := s.inbuf.drop (1 + k + len) }
          if t == 0x10 && !s.conn then frames { s1 with conn := true, out := s1.out ++ [0x20, 2, 0, 0] } fuel
          else if t == 0x82 && s.conn then
            frames { s1 with sub := true, out := s1.out ++ [0x90, 3, body.getD 0 0, body.getD 1 0, 0] } fuel
          else if t == 0x30 && s.conn then
            frames (if s.sub then { s1 with out := s1.out ++ pkt } else s1) fuel
          else { s1 with dead := true }

def step (s : S) (line : String) : S × String :=
  match words line with
  | ["new"] => ({ slack := s.slack }, "ok")
  | ["new", _] => ({ slack := s.slack }, "ok")
  | ["msg", k, h] =>
    let m : Msg Nat := if k == "t" then .text (unhex h) else .binary (unhex h)
    let s1 := { s with pending := s.pending ++ [m] }
    let s2 := pump s1 ((unhex h).length + 4)
    let s3 := frames s2 (s2.inbuf.length + 1)
    (s3, "ok")
  | ["recv", n] =>
    let n := natOf n
    if s.out.length ≥ n then ({ s with out := s.out.drop n }, hex (s.out.take n))
    else ({ s with out := [] }, (if s.dead then "closed:" else "timeout:") ++ hex s.out)
  | ["quiet"] =>
    ({ s with out := [] }, if s.dead then "closed:" ++ hex s.out else if s.out.isEmpty then "quiet" else hex s.out)
  | _ => (s, "bad-op")

end Driver.WsEcho

def main (args : List String) : IO Unit := do
  let slack := if args.contains "asis" then 1 else 0
  Driver.loop (← IO.getStdin) (← IO.getStdout) ({ slack := slack } : Driver.WsEcho.S) Driver.WsEcho.step
