/-
  Association lists standing in for Go maps (core Lean only).

  A Go `map[K]V` is modelled as `List (K × V)`; iteration order of a Go map is unspecified and every
  driver sorts what it prints, so the order of the list carries no meaning.
    `get k l`    = `v, ok := m[k]`            (first binding)
    `set k v l`  = `m[k] = v`                 (new binding in front, every old binding of `k` dropped)
    `del k l`    = `delete(m, k)`             (every binding of `k` dropped)
  With these definitions the map laws (`get_set`, `get_del`) hold for every list, with or without
  duplicate keys, and lists built from `[]` by `set`/`del` have no duplicate keys (`nodupKeys_set`).
-/
namespace GmqttVerif.AL

variable {κ β : Type} [DecidableEq κ]

def get (k : κ) : List (κ × β) → Option β
  | [] => none
  | (k', v) :: r => if k' = k then some v else get k r

def del (k : κ) (l : List (κ × β)) : List (κ × β) :=
  l.filter (fun kv => !decide (kv.1 = k))

def set (k : κ) (v : β) (l : List (κ × β)) : List (κ × β) :=
  (k, v) :: del k l

def keys (l : List (κ × β)) : List κ := l.map (·.1)

def has (k : κ) (l : List (κ × β)) : Bool := (get k l).isSome

end GmqttVerif.AL
