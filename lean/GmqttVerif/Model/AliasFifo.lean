/-
  Model of the outbound topic alias manager `topicalias/fifo` and of the PUBLISH rewriting in
  `client.writeLoop` (server/client.go) that uses it.

  ```go
  type topicAlias struct { max int; alias *list.List /* of *aliasElem{topic, alias} */; index map[string]uint16 }

  func (q *Queue) Check(publish *packets.Publish) (alias uint16, exist bool) {
      topicName := string(publish.TopicName)
      if a, ok := q.topicAlias.index[topicName]; ok { return a, true }
      l := q.topicAlias.alias.Len()
      if l == q.topicAlias.max {
          first := q.topicAlias.alias.Front()
          elem := first.Value.(*aliasElem)              // nil pointer dereference when the list is empty (max = 0)
          q.topicAlias.alias.Remove(first)
          delete(q.topicAlias.index, elem.topic)
          alias = elem.alias
      } else {
          alias = uint16(l + 1)
      }
      q.topicAlias.alias.PushBack(&aliasElem{topic: topicName, alias: alias})
      q.topicAlias.index[topicName] = alias
      return
  }
  ```
  writeLoop, for a v5 client:
  ```go
  if client.opts.ClientTopicAliasMax > 0 {
      if alias, ok := client.topicAliasManager.Check(p); ok {
          p.TopicName = []byte{}; p.Properties.TopicAlias = &alias
      } else if alias != 0 { p.Properties.TopicAlias = &alias }
  }
  ```
  `container/list` is a `List` (front first), the Go map an association list (a freshly set key is consed in
  front, `delete` filters), topics are an arbitrary type with decidable equality.
-/
namespace GmqttVerif.Alias

variable {τ : Type} [DecidableEq τ]

/-- first value stored under `k` -/
def lookup (k : τ) : List (τ × Nat) → Option Nat
  | [] => none
  | (k', v) :: rest => if k' = k then some v else lookup k rest

/-- `topicAlias` -/
structure Fifo (τ : Type) where
  max   : Nat
  alias : List (τ × Nat)     -- container/list of aliasElem, front first
  index : List (τ × Nat)     -- map topic → alias
  deriving Repr

/-- `fifo.New(cfg, maxAlias, clientID)` -/
def Fifo.new (max : Nat) : Fifo τ := { max := max, alias := [], index := [] }

inductive CheckRes (τ : Type) where
  | ok (q : Fifo τ) (alias : Nat) (exist : Bool)
  | panic                                       -- `first.Value` on a nil element
  deriving Repr

/-- `Queue.Check` for a PUBLISH whose topic name is `t` -/
def Fifo.check (q : Fifo τ) (t : τ) : CheckRes τ :=
  match lookup t q.index with
  | some a => .ok q a true
  | none =>
    let l := q.alias.length
    if l = q.max then
      match q.alias with
      | [] => .panic
      | (ft, fa) :: rest =>
        .ok { q with alias := rest ++ [(t, fa)], index := (t, fa) :: q.index.filter (fun p => p.1 ≠ ft) } fa false
    else
      let a := (l + 1) % 65536        -- uint16(l + 1)
      .ok { q with alias := q.alias ++ [(t, a)], index := (t, a) :: q.index } a false

/-- what goes on the wire for one PUBLISH as far as topic and alias are concerned:
    `topic = none` is a zero-length topic name, `alias = none` is "no Topic Alias property" -/
structure Pkt (τ : Type) where
  topic : Option τ
  alias : Option Nat
  deriving Repr, DecidableEq

inductive EmitRes (τ : Type) where
  | ok (q : Fifo τ) (p : Pkt τ)
  | panic
  deriving Repr

/-- the `*packets.Publish` case of `writeLoop` for a v5 client whose CONNECT declared Topic Alias Maximum `clientMax`,
    for a message with topic `t`; `q` is the manager created by `New(cfg, clientMax, id)` -/
def emit (clientMax : Nat) (q : Fifo τ) (t : τ) : EmitRes τ :=
  if clientMax > 0 then
    match q.check t with
    | .ok q' a true => .ok q' { topic := none, alias := some a }
    | .ok q' a false => if a ≠ 0 then .ok q' { topic := some t, alias := some a } else .ok q' { topic := some t, alias := none }
    | .panic => .panic
  else .ok q { topic := some t, alias := none }

/-- the packets of a whole connection: `none` if the write loop panicked somewhere -/
def emitAll (clientMax : Nat) (q : Fifo τ) : List τ → Option (List (Pkt τ))
  | [] => some []
  | t :: ts =>
    match emit clientMax q t with
    | .ok q' p => (emitAll clientMax q' ts).map (p :: ·)
    | .panic => none

end GmqttVerif.Alias
