/-
  Model of the INBOUND topic alias handling of a v5 connection (server/client.go).

  at CONNECT (`connectWithTimeOut`):
  ```go
  client.opts.ReceiveMax = authOpts.ReceiveMax                 // config server_receive_maximum, uint16
  client.opts.ServerTopicAliasMax = authOpts.TopicAliasMax     // config topic_alias_maximum, uint16, advertised in CONNACK
  client.aliasMapper = make([][]byte, client.opts.ReceiveMax+1)            // uint16 arithmetic   (F02, second half)
  ```
  decoding a PUBLISH (`Properties.Unpack`): `if p.TopicAlias != nil && *p.TopicAlias == 0 { err = 0x94 }`
  `publishHandler`:
  ```go
  if client.version == packets.Version5 && pub.Properties.TopicAlias != nil {
      if *pub.Properties.TopicAlias >= client.opts.ServerTopicAliasMax { return 0x94 }   // (F02, first half)
      topicAlias := *pub.Properties.TopicAlias
      name := client.aliasMapper[int(topicAlias)]                  // index out of range => panic, recovered in readHandle
      if len(pub.TopicName) == 0 {
          if len(name) == 0 { return 0x94 }
          msg.Topic = string(name)
      } else {
          client.aliasMapper[topicAlias] = pub.TopicName
      }
  }
  ```
  `fixed = false` is the tree as it is; `fixed = true` is the tree with the F02 patch
  (`> ServerTopicAliasMax`, mapper sized `int(ServerTopicAliasMax)+1`): findings/F02-inbound-alias-max.diff.
  The slice is an association list (index → non-empty name, newest first) plus its length.
-/
namespace GmqttVerif.Alias

variable {τ : Type}

/-- `aliasMapper[a]`, `none` = zero-length entry -/
def mapperGet (a : Nat) : List (Nat × τ) → Option τ
  | [] => none
  | (a', t) :: rest => if a' = a then some t else mapperGet a rest

structure InSt (τ : Type) where
  serverMax : Nat                 -- opts.ServerTopicAliasMax
  size      : Nat                 -- len(aliasMapper)
  mapper    : List (Nat × τ)      -- non-empty entries of aliasMapper
  deriving Repr

inductive InRes (τ : Type) where
  | ok (topic : Option τ)     -- the message is accepted and routed under `topic` (`none` = zero-length topic)
  | disc (code : Nat)         -- the connection is ended with DISCONNECT `code`
  | panic                     -- index out of range: the connection is dropped without DISCONNECT
  deriving Repr, DecidableEq

/-- the alias part of `connectWithTimeOut` -/
def connect (fixed : Bool) (serverAliasMax receiveMax : Nat) : InSt τ :=
  { serverMax := serverAliasMax,
    size := if fixed then serverAliasMax + 1 else (receiveMax + 1) % 65536,
    mapper := [] }

/-- decoding + the alias part of `publishHandler` for a PUBLISH with Topic Alias property `alias`
    (`none` = absent) and topic name `topic` (`none` = zero length) -/
def publish (fixed : Bool) (st : InSt τ) (alias : Option Nat) (topic : Option τ) : InSt τ × InRes τ :=
  match alias with
  | none => (st, .ok topic)
  | some a =>
    if a = 0 then (st, .disc 0x94)                                        -- Properties.Unpack
    else if (if fixed then a > st.serverMax else a ≥ st.serverMax) then (st, .disc 0x94)
    else if a ≥ st.size then (st, .panic)
    else
      match topic with
      | none =>
        match mapperGet a st.mapper with
        | some t => (st, .ok (some t))
        | none => (st, .disc 0x94)
      | some t => ({ st with mapper := (a, t) :: st.mapper }, .ok (some t))

/-- the PUBLISH packets of one connection; processing stops with the first one that ends the connection -/
def runIn (fixed : Bool) (st : InSt τ) : List (Option Nat × Option τ) → List (InRes τ)
  | [] => []
  | (a, t) :: ps =>
    match publish fixed st a t with
    | (st', .ok r) => .ok r :: runIn fixed st' ps
    | (_, r) => [r]

end GmqttVerif.Alias
