/-
  Model of `plugin/auth` (auth.go, hooks.go, grpc_handler.go, config.go) and of the connect phase of one
  connection (`server/client.go`: `readLoop` until registration, `connectWithTimeOut`, `connectHandler`,
  `basicAuth` / `enhancedAuth`, `sendErrConnack`).

  * md5 / sha256 / bcrypt are NOT modelled: `Crypto` is an uninterpreted parameter.
  * `admin.Indexer` (`map[string]*list.Element` + `container/list`) is the association list `Accounts` in list
    order; `Set` on an existing key replaces in place, on a new key appends; `Remove` deletes.
  * The password file is its parsed content (`[]*Account` in file order); YAML is not modelled.
    `saveFileHandler` writes `./<tmp>` and renames onto `config.PasswordFile` (relative to the process's working
    directory) while `Load` reads `path.Join(ConfigDir, PasswordFile)`: two file slots, `same` says whether they are
    one file (absolute path, or working directory = config directory).   (F39)
  * A failing save is an input (`saveOk`), as `a.saveFile` is a replaceable function in the code.
-/
namespace GmqttVerif.Auth

/-! ## accounts -/

inductive Alg | plain | md5 | sha256 | bcrypt
  deriving DecidableEq, Repr, Inhabited

/-- the cryptographic primitives the plugin calls, uninterpreted -/
structure Crypto where
  md5hex : String → String
  sha256hex : String → String
  bcryptGen : String → Option String          -- `bcrypt.GenerateFromPassword` (none = error)
  bcryptCompare : String → String → Bool      -- `bcrypt.CompareHashAndPassword(hashed, password) == nil`

/-- `generatePassword` -/
def Crypto.gen (c : Crypto) : Alg → String → Option String
  | .plain, p => some p
  | .md5, p => some (c.md5hex p)
  | .sha256, p => some (c.sha256hex p)
  | .bcrypt, p => c.bcryptGen p

/-- the comparison at the end of `validate`: does `password` match the stored hash under `alg` -/
def Crypto.verify (c : Crypto) : Alg → String → String → Bool
  | .plain, h, p => h == p
  | .md5, h, p => h == c.md5hex p
  | .sha256, h, p => h == c.sha256hex p
  | .bcrypt, h, p => c.bcryptCompare h p

/-- `admin.Indexer` holding `*Account`: (username, stored hash) in list order -/
abbrev Accounts := List (String × String)

/-- `indexer.GetByID(u)` -/
def lookup (a : Accounts) (u : String) : Option String :=
  match a with
  | [] => none
  | (k, h) :: r => if k = u then some h else lookup r u

/-- `indexer.Set(u, &Account{u, h})`: in place when present, `PushBack` otherwise -/
def set (a : Accounts) (u h : String) : Accounts :=
  match a with
  | [] => [(u, h)]
  | (k, x) :: r => if k = u then (k, h) :: r else (k, x) :: set r u h

/-- `indexer.Remove(u)` -/
def remove (a : Accounts) (u : String) : Accounts :=
  match a with
  | [] => []
  | (k, x) :: r => if k = u then r else (k, x) :: remove r u

/-- `(*Auth).validate(username, password)` -/
def validate (c : Crypto) (alg : Alg) (a : Accounts) (user pass : String) : Bool :=
  match lookup a user with
  | none => false
  | some h => c.verify alg h pass

/-! ## the store: indexer + password file(s) -/

structure Store where
  idx : Accounts := []
  loadFile : Accounts := []     -- content of path.Join(ConfigDir, PasswordFile)   (read by Load)
  saveFile : Accounts := []     -- content of ./PasswordFile                        (written by saveFileHandler)
  same : Bool := true           -- the two paths name one file
  deriving Repr, Inhabited

/-- `a.saveFile()`: serialise the indexer (all rows, list order) and rename over the password file -/
def Store.save (s : Store) (ok : Bool) : Store :=
  if ok then { s with saveFile := s.idx, loadFile := if s.same then s.idx else s.loadFile } else s

inductive Res | ok | invalid | genErr | saveErr
  deriving DecidableEq, Repr, Inhabited

/-- `(*Auth).Update` -/
def Store.update (c : Crypto) (alg : Alg) (s : Store) (u p : String) (saveOk : Bool) : Store × Res :=
  if u = "" then (s, .invalid) else
  match c.gen alg p with
  | none => (s, .genErr)
  | some h =>
    let old := lookup s.idx u
    let s1 := { s with idx := set s.idx u h }
    if saveOk then (s1.save true, .ok)
    else
      -- "should rollback if failed to persist to file"
      match old with
      | none => ({ s1 with idx := remove s1.idx u }, .saveErr)
      | some oh => ({ s1 with idx := set s1.idx u oh }, .saveErr)

/-- `(*Auth).Delete` -/
def Store.delete (s : Store) (u : String) (saveOk : Bool) : Store × Res :=
  if u = "" then (s, .invalid) else
  match lookup s.idx u with
  | none => (s, .ok)            -- fast path: nothing saved
  | some oh =>
    let s1 := { s with idx := remove s.idx u }
    if saveOk then (s1.save true, .ok)
    else ({ s1 with idx := set s1.idx u oh }, .saveErr)

inductive LoadRes | ok | emptyUser | dup
  deriving DecidableEq, Repr, Inhabited

/-- the validation loop of `Load` (`dup` map = `seen`) -/
def loadCheck (seen : List String) : Accounts → LoadRes
  | [] => .ok
  | (u, _) :: r =>
    if u = "" then .emptyUser
    else if u ∈ seen then .dup
    else loadCheck (u :: seen) r

/-- `for _, v := range acts { a.indexer.Set(v.Username, v) }` into a fresh indexer -/
def loadInto (acts : Accounts) : Accounts := acts.foldl (fun ix p => set ix p.1 p.2) []

/-- a new plugin instance (`New` + `Load`): what a restarted broker holds. On a load error the indexer stays empty
    (gmqttd would refuse to start). -/
def Store.restart (s : Store) : Store × LoadRes :=
  match loadCheck [] s.loadFile with
  | .ok => ({ s with idx := loadInto s.loadFile }, .ok)
  | e => ({ s with idx := [] }, e)

inductive Op
  | update (u p : String) (saveOk : Bool)
  | delete (u : String) (saveOk : Bool)
  | restart
  deriving Repr, Inhabited

def Store.step (c : Crypto) (alg : Alg) (s : Store) : Op → Store
  | .update u p ok => (s.update c alg u p ok).1
  | .delete u ok => (s.delete u ok).1
  | .restart => s.restart.1

def Store.run (c : Crypto) (alg : Alg) (s : Store) (ops : List Op) : Store := ops.foldl (Store.step c alg) s

/-! ## the connect phase of one connection -/

structure ConnectPkt where
  v : Nat                       -- 3, 4, 5 (anything else does not decode)
  cidEmpty : Bool := false
  userFlag : Bool := false
  passFlag : Bool := false
  user : String := ""           -- "" when the flag is clear
  pass : String := ""
  authMethod : Option String := none     -- v5 property 0x15; always none for v3
  authData : String := ""
  deriving Repr, Inhabited, DecidableEq

/-- what arrives from the socket -/
inductive Pkt
  | connect (c : ConnectPkt)
  | auth (code : Nat) (data : String)
  | publish (qos : Nat)
  | other                         -- any other well-formed packet
  | garbage                       -- undecodable bytes or EOF: `ReadPacket` returns an error
  | timeout                       -- the 5 s timer of `connectWithTimeOut` fires (not a packet)
  | hangup                        -- `writeLoop` has ended and closed the socket (not a packet; fix 53130f4)
  deriving Repr, Inhabited, DecidableEq

inductive EnhResp | success | cont (data : String) | fail (code : Nat)
  deriving Repr, Inhabited, DecidableEq

/-- an OnEnhancedAuth hook and the OnAuth continuation it hands back -/
structure EnhHook where
  onConnect : String → String → EnhResp     -- auth method, auth data
  onAuth : String → EnhResp                 -- auth data of the AUTH packet

structure Cfg where
  allowZeroLenCid : Bool := true
  /-- OnBasicAuth chain: `none` = no hook (everything accepted); the auth plugin installs `validate` -/
  basic : Option (String → String → Bool) := none
  enh : Option EnhHook := none
  /-- true = the code since fix b5c09eb: the read loop goes on reading while an enhanced authentication is in progress
      (`authStep`). false = before: after handing a packet to `client.in` the read loop waited for `<-client.connected`,
      which `connectWithTimeOut` closes only when it RETURNS, so the client's AUTH answer was never seen and the
      exchange ended by the 5 s timeout (findings/c19-enhanced-auth-deadlock.md). -/
  authReadFix : Bool := true

inductive Phase
  | awaitConnect      -- in the `for` loop of connectWithTimeOut, no CONNECT seen
  | awaitAuth         -- CONNECT seen, enhanced authentication in progress (`onAuth != nil`)
  | accepted          -- registered; packets go to readHandle
  | rejected          -- connectWithTimeOut returned false: nobody reads `client.in` any more, writeLoop flushes the
                      -- CONNACK and closes the socket (`hangup`); until then the read loop may still consume what
                      -- the peer had already sent (packets pipelined behind the CONNECT)
  | closed            -- the broker closed the socket
  deriving DecidableEq, Repr, Inhabited

structure Conn where
  phase : Phase := .awaitConnect
  version : Nat := 0            -- client.version, 0 until connectHandler stores it
  conn : Option ConnectPkt := none
  buffered : Nat := 0           -- packets parked in `client.in` (capacity 8) after rejection
  unread : List Pkt := []       -- sent by the client but still in the socket (read loop waiting for `connected`)
  deriving Repr, Inhabited, DecidableEq

/-- everything the connect phase can do -/
inductive Eff
  | connack (fmtVersion code : Nat)        -- CONNACK encoded for `fmtVersion`
  | authPkt (data : String)                -- AUTH(0x18) to the client
  | register (c : ConnectPkt)              -- `client.register`: sessions, queues, subscriptions of a replaced session, take-over
  | statMsg (qos : Nat)                    -- statsManager.messageReceived(qos, "")
  | statPkt                                -- statsManager.packetReceived(p, clientID)
  | closeSocket
  deriving Repr, Inhabited, DecidableEq

/-- effects that reach sessions / subscriptions / retained messages / other clients -/
def Eff.touchesBroker : Eff → Bool
  | .register _ => true
  | _ => false

def isV3 (v : Nat) : Bool := v == 3 || v == 4

/-- `sendErrConnack`: the v3 override is `codes.NotAuthorized` (0x87), as written -/
def errConnack (version code : Nat) : Eff :=
  .connack version (if isV3 version && code > 5 then 0x87 else code)

/-- OnBasicAuthWrapper of the plugin around the default hook -/
def basicCode (v : Nat) (ok : Bool) : Option Nat :=
  if ok then none else if isV3 v then some 5 else if v == 5 then some 0x87 else none

/-- `connectHandler`: none = authenticated, some code = error; plus the enhanced-auth continuation -/
inductive CH | ok | cont (data : String) | err (code : Nat)
  deriving Repr, DecidableEq

/-- the condition of the first `if` of `connectHandler`: `IsVersion3X(v) || (IsVersion5(v) && AuthMethod == nil)`.
    `authMethod = none` is the Go `nil` (property absent); a property that is present with a zero-length value decodes
    to a non-nil empty slice, here `some ""`. -/
def basicBranch (c : ConnectPkt) : Bool := isV3 c.v || (c.v == 5 && c.authMethod.isNone)

/-- the condition of the second `if`: `version == Version5 && AuthMethod != nil` (present, empty or not) -/
def enhancedBranch (c : ConnectPkt) : Bool := c.v == 5 && c.authMethod.isSome

/-- `basicAuth`: the OnBasicAuth chain -/
def basicAuth (cfg : Cfg) (c : ConnectPkt) : CH :=
  match cfg.basic with
  | none => .ok
  | some f => match basicCode c.v (f c.user c.pass) with | none => .ok | some code => .err code

/-- `enhancedAuth`: fails closed without a hook -/
def enhancedAuth (cfg : Cfg) (c : ConnectPkt) : CH :=
  match c.authMethod, cfg.enh with
  | some m, some h =>
    (match h.onConnect m c.authData with
     | .success => .ok
     | .cont d => .cont d
     | .fail code => .err code)
  | _, _ => .err 0x80          -- "OnEnhancedAuth hook is nil"

/-- `connectHandler`, as written: two independent `if`s, the second overriding the result of the first -/
def connectHandler (cfg : Cfg) (c : ConnectPkt) : CH :=
  if !cfg.allowZeroLenCid && c.cidEmpty then .err 0x85 else
  let r1 : CH := if basicBranch c then basicAuth cfg c else .ok      -- `err` stays nil when the branch is not taken
  if enhancedBranch c then enhancedAuth cfg c else r1

/-- the version `sendErrConnack` sees: connectHandler stores it only after the zero-length check -/
def versionAfter (cfg : Cfg) (old : Nat) (c : ConnectPkt) : Nat :=
  if !cfg.allowZeroLenCid && c.cidEmpty then old else c.v

/-- the readLoop part that runs for every packet before it is handed to `client.in`:
    some effects, and whether the loop goes on (false = it returned and the socket gets closed) -/
def readLoopPre (c : Conn) : Pkt → List Eff × Bool
  | .garbage => ([], false)
  | .publish q => if c.version == 5 && q > 0 then ([.statMsg q], false)   -- tryDecServerQuota on a zero quota
                  else ([.statMsg q], true)
  | _ => ([], true)

/-- one input in the connect loop (`select` on client.in / timeout) -/
def connectLoop (cfg : Cfg) (c : Conn) : Pkt → Conn × List Eff
  | .timeout => ({ c with phase := .rejected }, [])           -- ErrConnectTimeOut: no CONNACK, socket stays open
  | .garbage => ({ c with phase := .closed }, [.closeSocket]) -- p == nil
  | .connect p =>
    if c.conn.isSome then
      ({ c with phase := .rejected }, [errConnack c.version 0x82, .statPkt])
    else
      let v' := versionAfter cfg c.version p
      match connectHandler cfg p with
      | .err code => ({ c with phase := .rejected, version := v', conn := some p }, [errConnack v' code, .statPkt])
      | .cont d => ({ c with phase := .awaitAuth, version := v', conn := some p }, [.authPkt d])
      | .ok => ({ c with phase := .accepted, version := v', conn := some p }, [.register p, .connack v' 0, .statPkt])
  | .auth code data =>
    if c.conn.isNone || isV3 c.version then ({ c with phase := .rejected }, [errConnack c.version 0x82, .statPkt])
    else if c.phase != .awaitAuth then ({ c with phase := .rejected }, [errConnack c.version 0x82, .statPkt])   -- onAuth == nil
    else if code != 0x18 then ({ c with phase := .rejected }, [errConnack c.version 0x82, .statPkt])
    else
      match cfg.enh with
      | none => ({ c with phase := .rejected }, [errConnack c.version 0x82, .statPkt])
      | some h =>
        match h.onAuth data with
        | .fail e => ({ c with phase := .rejected }, [errConnack c.version e, .statPkt])
        | .cont d => (c, [.authPkt d])
        | .success =>
          match c.conn with
          | some p => ({ c with phase := .accepted }, [.register p, .connack c.version 0, .statPkt])
          | none => (c, [])
  | _ => ({ c with phase := .rejected }, [errConnack c.version 0x81, .statPkt])

/-- an input after `connectWithTimeOut` returned false: a packet is read, counted, parked in `client.in` — never
    handled; when `client.in` is full the read loop leaves through `<-client.close` (fix 1a613fd). `hangup` = writeLoop
    has flushed the CONNACK and closed the socket. (The read loop may also leave through `<-client.close` while
    `client.in` still has room — Go picks at random; that branch has the effects of `hangup`.) -/
def rejectedStep (c : Conn) (p : Pkt) : Conn × List Eff :=
  if p == .timeout then (c, []) else
  if c.phase != .rejected then (c, []) else
  if p == .hangup then ({ c with phase := .closed }, [.closeSocket])
  else
    let (effs, go) := readLoopPre c p
    if !go then ({ c with phase := .closed }, effs ++ [.closeSocket])
    else if c.buffered < 8 then ({ c with buffered := c.buffered + 1 }, effs ++ [.statPkt])
    else ({ c with phase := .closed }, effs ++ [.closeSocket])

def rejectedRun (c : Conn) : List Pkt → Conn × List Eff
  | [] => (c, [])
  | p :: ps =>
    let (c1, e1) := rejectedStep c p
    let (c2, e2) := rejectedRun c1 ps
    (c2, e1 ++ e2)

/-- one input on a connection that has not been accepted -/
def step (cfg : Cfg) (c : Conn) (p : Pkt) : Conn × List Eff :=
  match c.phase with
  | .accepted => (c, [])            -- from here on: readHandle (the broker model)
  | .closed => (c, [])
  | .rejected => rejectedStep c p
  | .awaitAuth =>
    if p == .hangup then (c, []) else
    if p == .timeout then
      -- ErrConnectTimeOut; `connected` is closed, the read loop counts the CONNECT and reads what has piled up
      let (c1, e1) := connectLoop cfg c .timeout
      let (c2, e2) := rejectedRun { c1 with unread := [] } c.unread
      (c2, e1 ++ [.statPkt] ++ e2)
    else if !cfg.authReadFix then ({ c with unread := c.unread ++ [p] }, [])
    else
      let (effs, go) := readLoopPre c p
      if !go then ({ c with phase := .closed }, effs ++ [.closeSocket])
      else
        let (c', e2) := connectLoop cfg c p
        (c', effs ++ e2)
  | .awaitConnect =>
    if p == .hangup then (c, []) else
    if p == .timeout then connectLoop cfg c p else
    let (effs, go) := readLoopPre c p
    if !go then ({ c with phase := .closed }, effs ++ [.closeSocket])
    else
      let (c', e2) := connectLoop cfg c p
      (c', effs ++ e2)

def run (cfg : Cfg) (c : Conn) : List Pkt → Conn × List Eff
  | [] => (c, [])
  | p :: ps =>
    let (c1, e1) := step cfg c p
    let (c2, e2) := run cfg c1 ps
    (c2, e1 ++ e2)

end GmqttVerif.Auth
