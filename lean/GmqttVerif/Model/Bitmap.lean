/-
  Model of `pkg/bitmap/bitmap.go` (gmqtt): a byte slice indexed by `offset>>3`, bit `offset&7`.

  Go widths: `size`, `offset` are uint16 (modelled as `Nat`, callers pass values < 65536),
  `vals` is `[]byte` (modelled as `Array Nat`; every entry stays < 256, lemma `WF.set`).
  `x &^ m` (Go and-not) is `x ^^^ (x &&& m)`.
-/
namespace GmqttVerif.Bitmap

/-- `bitmap.MaxSize` -/
def maxSize : Nat := 65535

structure Bitmap where
  vals : Array Nat
  size : Nat
  deriving Repr, Inhabited

/-- `bitmap.New(size)` (bitmap.go:12-19) -/
def new (size : Nat) : Bitmap :=
  let size :=
    if size = 0 ∨ size ≥ maxSize then maxSize
    else if size % 8 ≠ 0 then (size + (8 - size % 8)) % 65536
    else size
  { size := size, vals := Array.replicate (size >>> 3 + 1) 0 }

/-- one byte: `v |= 0x01 << pos` -/
def setBit (v pos : Nat) : Nat := v ||| (1 <<< pos)
/-- one byte: `v &^= 0x01 << pos` -/
def clearBit (v pos : Nat) : Nat := v ^^^ (v &&& (1 <<< pos))
/-- one byte: `(v >> pos) & 0x01` -/
def getBit (v pos : Nat) : Nat := (v >>> pos) &&& 1

/-- `(*Bitmap).Set(offset, value)` (bitmap.go:27-41); the returned bool is dropped (no caller reads it) -/
def Bitmap.set (b : Bitmap) (offset value : Nat) : Bitmap :=
  if b.size < offset then b
  else
    let index := offset >>> 3
    let pos := offset &&& 7
    let old := b.vals.getD index 0
    { b with vals := b.vals.setIfInBounds index (if value = 0 then clearBit old pos else setBit old pos) }

/-- `(*Bitmap).Get(offset)` (bitmap.go:44-52) -/
def Bitmap.get (b : Bitmap) (offset : Nat) : Nat :=
  if b.size < offset then 0
  else getBit (b.vals.getD (offset >>> 3) 0) (offset &&& 7)

end GmqttVerif.Bitmap
