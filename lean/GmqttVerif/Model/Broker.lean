import GmqttVerif.Model.Deliver
import GmqttVerif.Model.Queue
import GmqttVerif.Model.AliasFifo
/-
  Layer B: one broker as a sequential state machine at wire level (server/server.go + server/client.go).

  Every wire step (a packet sent by a scripted client, a socket close, an API call, the passage of time)
  is processed to quiescence: handler, `deliverMessage` under `srv.mu`, then every online client's
  `pollMessageHandler` pumps its session queue through its packet-id window. The per-connection output is
  kept in two streams: H (packets written by the connect / handler goroutines, in order) and
  P (packets written by the poll goroutine, in order).

  Components: subscriptions as the abstract table justified by C02 (`Deliver`), session queue = `Queue`
  (C10), packet-id window as the set of ids in use (C03), inbound QoS 2 ids (C04), retained messages as
  the abstract map justified by C07. Time `now` is in milliseconds and only moves by `sleep`.
-/
namespace GmqttVerif.Broker
open GmqttVerif.Deliver

structure Cfg where
  onlyOnce  : Bool := true
  queueQos0 : Bool := true
  maxQueued : Nat := 1000
  maxInflight : Nat := 100
  recvMax   : Nat := 100          -- server_receive_maximum
  aliasMax  : Nat := 10           -- topic_alias_maximum
  maxPacket : Nat := 268435456    -- max_packet_size
  sessExpiry : Nat := 7200        -- s
  msgExpiry : Nat := 7200         -- s
  inflightExpiry : Nat := 30      -- s
  maxKeepAlive : Nat := 300
  retainAvail : Bool := true
  wildAvail : Bool := true
  subIdAvail : Bool := true
  sharedAvail : Bool := true
  deriving Repr, Inhabited

inductive Pkt
  | connack (sp : Bool) (code : Nat) (props : Option (Nat × Nat × Nat × Nat × Nat))  -- se rm ta mp ka
  | publish (topic : String) (qos : Nat) (retain dup : Bool) (id : Nat) (tag : String) (plen : Nat)
      (sids : List Nat) (exp : Option Nat) (alias : Option Nat) (size : Nat)
  | suback (pid : Nat) (codes : List Nat)
  | unsuback (pid : Nat) (codes : List Nat)
  | puback (id code : Nat)
  | pubrec (id code : Nat)
  | pubrel (id : Nat)
  | pubcomp (id : Nat)
  | pingresp
  | disconnect (code : Nat)
  | closed
  deriving Repr, DecidableEq, Inhabited

/-- stored session (`gmqtt.Session` + its queue and unack stores) -/
structure Sess where
  cid : String
  expiry : Nat            -- ExpiryInterval (s)
  connectedAt : Nat       -- ms
  will : Option Msg := none
  willDelay : Nat := 0
  queue : Queue.Q
  unack : List Nat := []  -- inbound QoS 2 ids awaiting PUBREL
  deriving Repr, Inhabited

/-- an online connection (`client`) -/
structure Cli where
  conn : String
  cid : String
  v : Nat                 -- 3, 4, 5
  maxInflight : Nat       -- limiter limit
  used : List Nat := []   -- packet ids marked in the limiter
  cliMaxPkt : Nat
  cliAliasMax : Nat := 0
  quota : Nat := 0        -- serverReceiveMaximumQuota
  cleanWill : Bool := false
  discExpiry : Option (Option Nat) := none   -- DISCONNECT seen: its Session Expiry property
  aliasIn : List (Nat × String) := []        -- `aliasMapper`: inbound alias ↦ topic
  aliasOut : Alias.Fifo String := Alias.Fifo.new 0   -- `topicAliasManager` (fifo) for outbound aliases
  deriving Repr, Inhabited

structure Out where
  conn : String
  poll : Bool       -- P stream
  pkt : Pkt
  deriving Repr, Inhabited

structure B where
  cfg : Cfg := {}
  now : Nat := 1000000000000   -- ms; large so that back-dating never underflows
  sessions : List Sess := []
  clis : List Cli := []
  offline : List (String × Nat) := []          -- cid ↦ expiry deadline (ms)
  subs : List (String × Sub) := []             -- abstract subscription table
  retained : List (String × Msg) := []         -- topic ↦ retained message
  msgs : List Msg := []                        -- message of queue element `tag` (index)
  ats : List Nat := []                         -- `Elem.At` of queue element `tag` (ms)
  pendingWills : List (String × Msg × Nat) := []   -- delayed wills: cid, message, due (ms)
  out : List Out := []
  deriving Repr, Inhabited

def B.emit (b : B) (conn : String) (poll : Bool) (p : Pkt) : B :=
  { b with out := b.out ++ [{ conn := conn, poll := poll, pkt := p }] }

def B.sess?' (b : B) (cid : String) : Option Sess := b.sessions.find? (·.cid == cid)

/-- size of the Topic Alias property on the wire -/
def aliasPropBytes : Nat := 3

/-- a PUBLISH passes through `writeLoop`: for a v5 client that accepts aliases the fifo manager is consulted;
    a known topic is replaced by its alias (zero-length topic name), a new one is sent in full with the alias that
    is now bound to it. `size` is adjusted to what goes on the wire. -/
def B.emitPub (b : B) (conn : String) (p : Pkt) : B :=
  match p, b.clis.find? (·.conn == conn) with
  | .publish topic qos retain dup id tag plen sids exp _ size, some c =>
    if c.v == 5 && c.cliAliasMax > 0 then
      match c.aliasOut.check topic with
      | .ok q a exist =>
        let c' := { c with aliasOut := q }
        let b := { b with clis := c' :: b.clis.filter (·.conn != conn) }
        if exist then
          b.emit conn true (.publish "" qos retain dup id tag plen sids exp (some a) (size - topic.utf8ByteSize + aliasPropBytes))
        else if a != 0 then
          b.emit conn true (.publish topic qos retain dup id tag plen sids exp (some a) (size + aliasPropBytes))
        else b.emit conn true p
      | .panic => b.emit conn true p
    else b.emit conn true p
  | _, _ => b.emit conn true p

def B.sess? (b : B) (cid : String) : Option Sess := b.sessions.find? (·.cid == cid)
def B.cli? (b : B) (conn : String) : Option Cli := b.clis.find? (·.conn == conn)
def B.cliOf? (b : B) (cid : String) : Option Cli := b.clis.find? (·.cid == cid)

def B.setSess (b : B) (s : Sess) : B :=
  { b with sessions := s :: b.sessions.filter (·.cid != s.cid) }
def B.setCli (b : B) (c : Cli) : B :=
  { b with clis := c :: b.clis.filter (·.conn != c.conn) }
def B.dropCli (b : B) (conn : String) : B := { b with clis := b.clis.filter (·.conn != conn) }

/-! ### sizes (`Message.TotalBytes`) -/

def vbiLen (n : Nat) : Nat := if n ≤ 127 then 1 else if n ≤ 16383 then 2 else if n ≤ 2097151 then 3 else 4

/-- `Message.TotalBytes(version)` for the fields the scenarios use -/
def totalBytes (v : Nat) (m : Msg) : Nat :=
  let rl := m.plen + 2 + m.topic.utf8ByteSize + (if m.qos > 0 then 2 else 0)
  let rl := if v == 5 then
      let pl := (m.sids.map (fun i => 1 + vbiLen i)).sum + (if m.expiry != 0 then 5 else 0)
      rl + pl + vbiLen pl
    else rl
  1 + vbiLen rl + rl

/-! ### enqueueing -/

def B.msgOf (b : B) (tag : Nat) : Msg := b.msgs.getD tag default

/-- `addMsgToQueueLocked` after `downgrade`: queue existence, `queue_qos0_messages`, expiry stamp, `Add`.
    `origQos` is the QoS before the downgrade (the code tests it first). Drop notifications are not wire-visible. -/
def B.enqueue (b : B) (cid : String) (origQos : Nat) (m : Msg) : B :=
  match b.sess? cid with
  | none => b
  | some s =>
    if !b.cfg.queueQos0 && (b.cliOf? cid).isNone && origQos == 0 then b
    else
      let v := match b.cliOf? cid with | some c => c.v | none => s.queue.limit * 0 + 4
      -- lifetime = the publisher's interval capped by the configured maximum
      let exp : Option Nat :=
        if b.cfg.msgExpiry != 0 then
          (if m.expiry != 0 && m.expiry ≤ b.cfg.msgExpiry then some (b.now + m.expiry * 1000)
           else some (b.now + b.cfg.msgExpiry * 1000))
        else if m.expiry != 0 then some (b.now + m.expiry * 1000) else none
      let tag := b.msgs.length
      let e : Queue.Elem := { tag := tag, pub := true, id := 0, qos := m.qos, exp := exp, size := totalBytes v m }
      let (q', _) := s.queue.add b.now e
      { (b.setSess { s with queue := q' }) with msgs := b.msgs ++ [m], ats := b.ats ++ [b.now] }

/-- shared-group choice: the hinted member (by subscription id) if it is a member, else the first -/
def pickBy (hints : List Nat) (_g : String) (members : List (String × Sub)) : Option (String × Sub) :=
  match members.find? (fun cs => cs.2.id != 0 && hints.contains cs.2.id) with
  | some x => some x
  | none => members.head?

/-- The iteration order of the subscription store is a Go map order. The only place where it is observable beyond
    the order of copies is onlyonce mode with several matching subscriptions of maximal QoS that differ in RAP:
    `rapHint` (client ids that were observed to receive RETAIN=1) selects a legal order. -/
def orderTable (rapHint : List String) (table : List (String × Sub)) : List (String × Sub) :=
  table.filter (fun cs => cs.2.rap == rapHint.contains cs.1) ++ table.filter (fun cs => cs.2.rap != rapHint.contains cs.1)

/-- `deliverMessage(src, msg)` -/
def B.deliverMsg (b : B) (src : String) (m : Msg) (hints : List Nat) (rapHint : List String := []) : B × Bool :=
  let (matched, enqs) := deliver b.cfg.onlyOnce src (orderTable rapHint b.subs) m (pickBy hints)
  (enqs.foldl (fun b (cm : String × Msg) => b.enqueue cm.1 m.qos cm.2) b, matched)

/-! ### outbound pump (`pollMessageHandler`) -/

def freshId (used : List Nat) : Nat → Nat → Nat
  | 0, c => c
  | fuel+1, c => if used.contains c then freshId used fuel (c+1) else c

/-- `n` ids not in `used`, ascending from 1 -/
def freshIds (used : List Nat) : Nat → List Nat
  | 0 => []
  | n+1 =>
    let i := freshId used (used.length + 1) 1
    i :: freshIds (i :: used) n

/-- the Message Expiry Interval forwarded to a v5 subscriber: the received interval minus the whole seconds the
    message waited in the broker (at least 1) -/
def remaining (orig waitedMs : Nat) : Nat :=
  let d := waitedMs / 1000
  if d < orig then orig - d else 1

/-- what `pollNewMessages` writes for one element returned by `Read` -/
def B.pubPkt (b : B) (c : Cli) (e : Queue.Elem) (at_ : Nat) : Pkt :=
  let m := b.msgOf e.tag
  let exp : Option Nat :=
    if c.v == 5 && m.expiry != 0 then some (remaining m.expiry (b.now - at_))
    else none
  let m' := { m with expiry := match exp with | some d => d | none => 0 }
  .publish m.topic m.qos m.retained m.dup e.id m.tag m.plen (if c.v == 5 then m.sids else []) exp none
    (totalBytes c.v { m' with sids := if c.v == 5 then m.sids else [] })

/-- one client's poll loop, to quiescence (fuel bounds the number of `Read` calls) -/
def B.pump (b : B) (conn : String) : Nat → B
  | 0 => b
  | fuel+1 =>
    match b.cli? conn with
    | none => b
    | some c =>
      match b.sess? c.cid with
      | none => b
      | some s =>
        if c.used.length >= c.maxInflight then b
        else
          let n := min (min 100 c.maxInflight) (c.maxInflight - c.used.length)
          let ids := freshIds c.used n
          match s.queue.read b.now ids with
          | (q', .ok out _) =>
            let b1 := out.foldl (fun bb (e : Queue.Elem) => bb.emitPub conn (b.pubPkt c e (b.ats.getD e.tag b.now))) b
            -- the stored message keeps the reduced interval (it is what a later retransmission carries)
            let b1 := { b1 with msgs := out.foldl (fun (ms : List Msg) (e : Queue.Elem) =>
                          let m := ms.getD e.tag default
                          if c.v == 5 && m.expiry != 0 then
                            ms.set e.tag { m with expiry := remaining m.expiry (b.now - b.ats.getD e.tag b.now) }
                          else ms) b1.msgs }
            let usedIds := (out.filter (fun e => e.qos != 0)).map (·.id)
            let c1 := match b1.cli? conn with | some x => x | none => c     -- alias state may have moved
            let b2 := (b1.setSess { s with queue := q' }).setCli { c1 with used := c.used ++ usedIds }
            b2.pump conn fuel
          | _ => b

def B.pumpAll (b : B) : B :=
  ((b.clis.map (·.conn)).mergeSort (· ≤ ·)).foldl (fun bb cn => bb.pump cn 10000) b

/-- `pollInflights` loop after a resumed connect: replay in-flight entries (DUP=1, no subscription ids) -/
def B.replay (b : B) (conn : String) : Nat → B
  | 0 => b
  | fuel+1 =>
    match b.cli? conn with
    | none => b
    | some c =>
      match b.sess? c.cid with
      | none => b
      | some s =>
        let (q', els) := s.queue.readInflight b.now c.maxInflight
        let b0 := b.setSess { s with queue := q' }
        if els.isEmpty then b0
        else
          let (b1, used) := els.foldl (fun (acc : B × List Nat) (e : Queue.Elem) =>
            if e.pub then
              let m := b.msgOf e.tag
              (acc.1.emitPub conn (.publish m.topic m.qos m.retained true e.id m.tag m.plen []
                 (if c.v == 5 && m.expiry != 0 then some m.expiry else none) none
                 (totalBytes c.v { m with sids := [] })), acc.2 ++ [e.id])
            else (acc.1.emit conn true (.pubrel e.id), acc.2 ++ [e.id])) (b0, c.used)
          let c1 := match b1.cli? conn with | some x => x | none => c
          (b1.setCli { c1 with used := used }).replay conn fuel

/-! ### session end -/

/-- `removeSessionLocked` + hooks: queue, session, subscriptions, offline entry -/
def B.terminate (b : B) (cid : String) : B :=
  { b with sessions := b.sessions.filter (·.cid != cid),
           offline := b.offline.filter (·.1 != cid),
           subs := b.subs.filter (·.1 != cid) }

def B.willOf? (b : B) (cid : String) : Option (String × Msg × Nat) :=
  b.pendingWills.find? (fun (w : String × Msg × Nat) => w.1 == cid)
def B.dropWill (b : B) (cid : String) : B :=
  { b with pendingWills := b.pendingWills.filter (fun (w : String × Msg × Nat) => w.1 != cid) }

/-- `sendWillLocked`: a will with RETAIN updates the retained store, then `deliverMessage` -/
def B.sendWill (b : B) (cid : String) (m : Msg) : B :=
  let b := if m.retained then
      (if m.plen == 0 then { b with retained := b.retained.filter (·.1 != m.topic) }
       else { b with retained := (m.topic, m) :: b.retained.filter (·.1 != m.topic) })
    else b
  (b.deliverMsg cid m []).1

/-- `sessionTerminatedLocked`: a pending delayed will is published (the timer goroutine is signalled and sends it
    as soon as the lock is free), and the session is removed -/
def B.terminateS (b : B) (cid : String) : B :=
  let b' := b.terminate cid
  match b.willOf? cid with
  | some (_, w, _) => (b'.dropWill cid).sendWill cid w
  | none => b'

/-- `unregisterClient` for the connection `conn` (socket gone); `force` = TerminateSession -/
def B.unregister (b : B) (conn : String) (force : Bool) : B :=
  match b.cli? conn with
  | none => b
  | some c =>
    let b := b.dropCli conn
    match b.sess? c.cid with
    | none => b.terminateS c.cid
    | some s0 =>
      let s := if !force && c.v == 5 then
          match c.discExpiry with
          | some (some e) => { s0 with expiry := e }
          | _ => s0
        else s0
      let store := !force && s.expiry != 0
      let s := { s with queue := s.queue.close }
      let b := b.setSess s
      let b :=
        if !c.cleanWill then
          match s.will with
          | none => b
          | some w =>
            let delay := if s.expiry ≤ s.willDelay then s.expiry else s.willDelay
            if delay != 0 && store then
              let b := b.dropWill c.cid
              { b with pendingWills := b.pendingWills ++ [(c.cid, w, b.now + delay * 1000)] }
            else b.sendWill c.cid w
        else b
      if store then { b with offline := (c.cid, b.now + s.expiry * 1000) :: b.offline.filter (·.1 != c.cid) }
      else b.terminateS c.cid

/-- the broker closes `conn` after an error: optional DISCONNECT (v5, connected), then the socket -/
def B.kick (b : B) (conn : String) (code : Option Nat) : B :=
  match b.cli? conn with
  | none => b
  | some c =>
    let b := match code with
      | some k => if c.v == 5 then b.emit conn false (.disconnect k) else b
      | none => b
    (b.emit conn false .closed).unregister conn false

/-! ### wire steps -/

structure ConnectReq where
  conn : String
  cid : String
  v : Nat := 4
  clean : Bool := true
  se : Option Nat := none
  rm : Option Nat := none
  mp : Option Nat := none
  ta : Option Nat := none
  ka : Nat := 0
  will : Option (Msg × Nat) := none     -- message, delay
  deriving Repr, Inhabited

def B.connect (b : B) (r : ConnectReq) : B :=
  let cfg := b.cfg
  let se := if r.v == 5 then (match r.se with | none => 0 | some i => min i cfg.sessExpiry) else cfg.sessExpiry
  let ka := min r.ka cfg.maxKeepAlive
  let maxInflight := if r.v == 5 then (match r.rm with | some x => min x cfg.maxInflight | none => cfg.maxInflight) else cfg.maxInflight
  let cliMaxPkt := if r.v == 5 then (match r.mp with | some x => x | none => 4294967295) else 4294967295
  let cliAliasMax := if r.v == 5 then (match r.ta with | some x => x | none => 0) else 0
  -- lockDuplicatedID: displace an online client with the same id
  let b := match b.cliOf? r.cid with
    | some old => b.kick old.conn (some 0x8E)
    | none => b
  let oldS := b.sess? r.cid
  -- expiry is measured from the end of the last connection: the deadline kept in `offlineClients`
  let resume := match oldS with
    | some _ =>
      let expired := match b.offline.find? (fun (cd : String × Nat) => cd.1 == r.cid) with
        | some cd => decide (b.now > cd.2)
        | none => false
      !expired && !r.clean
    | none => false
  -- old session ended: terminate, fire a delayed will now
  let b := match oldS with
    | some _ =>
      if !resume then b.terminateS r.cid
      else b.dropWill r.cid
    | none => b
  let queue : Queue.Q := match oldS with
    | some s => if resume then s.queue.init false cliMaxPkt else (Queue.new cfg.maxQueued (cfg.inflightExpiry * 1000)).init true cliMaxPkt
    | none => (Queue.new cfg.maxQueued (cfg.inflightExpiry * 1000)).init true cliMaxPkt
  -- sizes depend on the protocol version of the connection that reads
  let queue := if resume then
      { queue with rest := queue.rest.map (fun e => if e.pub then { e with size := totalBytes r.v (b.msgOf e.tag) } else e) }
    else queue
  let unack := match oldS with | some s => if resume then s.unack else [] | none => []
  let expiry := if r.v != 5 then (if !r.clean then cfg.sessExpiry else 0) else se
  let sess : Sess := { cid := r.cid, expiry := expiry, connectedAt := b.now,
                       will := r.will.map (fun (w : Msg × Nat) => w.1), willDelay := if r.v == 5 then (match r.will with | some w => w.2 | none => 0) else 0,
                       queue := queue, unack := unack }
  let cli : Cli := { conn := r.conn, cid := r.cid, v := r.v, maxInflight := maxInflight, cliMaxPkt := cliMaxPkt,
                     cliAliasMax := cliAliasMax, quota := cfg.recvMax, aliasOut := Alias.Fifo.new cliAliasMax }
  let b := { (b.setSess sess).setCli cli with offline := b.offline.filter (·.1 != r.cid) }
  let b := b.emit r.conn false (.connack resume 0 (if r.v == 5 then some (se, cfg.recvMax, cfg.aliasMax, cfg.maxPacket, ka) else none))
  b.replay r.conn 100000

structure SubTopic where
  name : String
  qos : Nat
  nl : Bool := false
  rap : Bool := false
  rh : Nat := 0
  deriving Repr, Inhabited

/-- `subscription.SplitTopic` on a String -/
def splitShare (name : String) : String × String :=
  let (g, f) := Topic.splitTopic name.toList
  (String.ofList g, String.ofList f)

def hasWildcard (f : String) : Bool := f.toList.any (fun c => c == '+' || c == '#')

def B.subscribe (b : B) (conn : String) (pid : Nat) (topics : List SubTopic) (idProp : Nat) : B :=
  match b.cli? conn with
  | none => b
  | some c =>
    let subID := if c.v == 5 && b.cfg.subIdAvail then idProp else 0
    if c.v == 5 && !b.cfg.subIdAvail && subID != 0 then b.kick conn (some 0xA1)
    else
      let (b, codes) := topics.foldl (fun (acc : B × List Nat) (t : SubTopic) =>
        let b := acc.1
        let (share, filter) := splitShare t.name
        -- `subReq.Subscriptions` is a map keyed by the topic name: the LAST entry with this name supplies the options
        let last := match (topics.filter (fun x => x.name == t.name)).getLast? with | some x => x | none => t
        let sub : Sub := { share := share, filter := filter, qos := last.qos, nl := last.nl, rap := last.rap, rh := last.rh, id := subID }
        let code := last.qos
        let code := if c.v == 5 && share != "" && !b.cfg.sharedAvail then 0x9E else code
        let code := if c.v == 5 && !b.cfg.subIdAvail && subID != 0 then 0xA1 else code
        let code := if c.v == 5 && !b.cfg.wildAvail && hasWildcard filter then 0xA2 else code
        if code >= 0x80 then (b, acc.2 ++ [code])
        else
          let existed := b.subs.any (fun cs => cs.1 == c.cid && cs.2.share == share && cs.2.filter == filter)
          let subs := (b.subs.filter (fun cs => !(cs.1 == c.cid && cs.2.share == share && cs.2.filter == filter))) ++ [(c.cid, sub)]
          let b := { b with subs := subs }
          let b :=
            if share == "" && ((!existed && t.rh != 2) || t.rh == 0) then
              match b.sess? c.cid with
              | none => b
              | some _ =>
                (b.retained.filter (fun tm => subMatches sub tm.1)).foldl (fun bb tm =>
                  let m := tm.2
                  let m' : Msg := { m with qos := min m.qos sub.qos, dup := false, retained := sub.rap && m.retained }
                  match bb.sess? c.cid with
                  | none => bb
                  | some s =>
                    let exp := if m.expiry != 0 then some (bb.now + m.expiry * 1000) else none
                    let e : Queue.Elem := { tag := bb.msgs.length, pub := true, id := 0, qos := m'.qos, exp := exp,
                                            size := totalBytes c.v m' }
                    let (q', _) := s.queue.add bb.now e
                    { (bb.setSess { s with queue := q' }) with msgs := bb.msgs ++ [m'], ats := bb.ats ++ [bb.now] }) b
            else b
          (b, acc.2 ++ [code])) (b, [])
      b.emit conn false (.suback pid codes)

def B.unsubscribe (b : B) (conn : String) (pid : Nat) (topics : List String) : B :=
  match b.cli? conn with
  | none => b
  | some c =>
    let b := topics.foldl (fun b name =>
      let (share, filter) := splitShare name
      { b with subs := b.subs.filter (fun cs => !(cs.1 == c.cid && cs.2.share == share && cs.2.filter == filter)) }) b
    b.emit conn false (.unsuback pid (if c.v == 5 then topics.map (fun _ => 0) else []))

structure PubReq where
  conn : String
  topic : String
  qos : Nat := 0
  pid : Nat := 0
  retain : Bool := false
  dup : Bool := false
  alias : Option Nat := none
  expiry : Option Nat := none
  tag : String := ""
  plen : Nat := 0
  size : Nat := 0      -- total bytes of the packet as sent (for max_packet_size)
  hints : List Nat := []
  rapHint : List String := []
  deriving Repr, Inhabited

def B.publish (b : B) (r : PubReq) : B :=
  match b.cli? r.conn with
  | none => b
  | some c =>
    -- the decoder refuses alias 0 (0x94) and a zero-length topic name without alias (0x82) before anything else
    if c.v == 5 && r.alias == some 0 then b.kick r.conn (some 0x94)
    else if r.topic == "" && (c.v != 5 || r.alias.isNone) then b.kick r.conn (some 0x82)
    -- readLoop: receive quota (v5, QoS>0)
    else if c.v == 5 && r.qos > 0 && c.quota == 0 then b.kick r.conn (some 0x93)
    else
      let c := if c.v == 5 && r.qos > 0 then { c with quota := c.quota - 1 } else c
      let b := b.setCli c
      -- readHandle: maximum packet size (v5)
      if c.v == 5 && b.cfg.maxPacket != 0 && r.size > b.cfg.maxPacket then b.kick r.conn (some 0x95)
      else if !b.cfg.retainAvail && r.retain then b.kick r.conn (some 0x9A)
      else
        -- topic alias (v5): 0 is refused by the decoder, > advertised maximum by the handler; an empty topic name
        -- needs a bound alias; a non-empty one (re)binds it
        let aliasRes : Except Nat (String × Cli) :=
          if c.v == 5 then
            match r.alias with
            | some a =>
              if a == 0 || a > b.cfg.aliasMax then .error 0x94
              else if r.topic == "" then
                match c.aliasIn.find? (fun (p : Nat × String) => p.1 == a) with
                | some (_, t) => if t == "" then .error 0x94 else .ok (t, c)
                | none => .error 0x94
              else .ok (r.topic, { c with aliasIn := (a, r.topic) :: c.aliasIn.filter (fun (p : Nat × String) => p.1 != a) })
            | none => if r.topic == "" then .error 0x82 else .ok (r.topic, c)
          else if r.topic == "" then .error 0x82 else .ok (r.topic, c)
        match aliasRes with
        | .error code => b.kick r.conn (some code)
        | .ok (topic, c) =>
        let b := b.setCli c
        let r := { r with topic := topic }
        let m : Msg := { topic := r.topic, tag := r.tag, plen := r.plen, qos := r.qos, retained := r.retain, dup := r.dup,
                         expiry := match r.expiry with | some e => e | none => 0 }
        match b.sess? c.cid with
        | none => b
        | some s =>
          let dupl := r.qos == 2 && s.unack.contains r.pid
          let s := if r.qos == 2 && !dupl then { s with unack := s.unack ++ [r.pid] } else s
          let b := b.setSess s
          -- a retransmission of a PUBLISH still awaiting PUBREL gives back the quota unit readLoop took for it
          let b := if dupl && c.v == 5 then
              (match b.cli? r.conn with
               | some c' => b.setCli { c' with quota := min (c'.quota + 1) b.cfg.recvMax }
               | none => b)
            else b
          -- the retained store is updated next to `deliverMessage` (not for a duplicate QoS 2 PUBLISH)
          let b := if r.retain && !dupl then
              (if r.plen == 0 then { b with retained := b.retained.filter (·.1 != r.topic) }
               else { b with retained := (r.topic, m) :: b.retained.filter (·.1 != r.topic) })
            else b
          let (b, matched) := if !dupl then b.deliverMsg c.cid m r.hints r.rapHint else (b, false)
          let code := if c.v == 5 && !matched then 0x10 else 0
          let b := if r.qos == 1 then b.emit r.conn false (.puback r.pid code)
                   else if r.qos == 2 then b.emit r.conn false (.pubrec r.pid code) else b
          -- writeLoop: a PUBACK gives the quota back
          if r.qos == 1 && c.v == 5 then
            match b.cli? r.conn with
            | some c' => b.setCli { c' with quota := min (c'.quota + 1) b.cfg.recvMax }
            | none => b
          else b

/-- client PUBREL for its own QoS 2 publish -/
def B.pubrelIn (b : B) (conn : String) (pid : Nat) : B :=
  match b.cli? conn with
  | none => b
  | some c =>
    let b := match b.sess? c.cid with
      | some s => b.setSess { s with unack := s.unack.filter (· != pid) }
      | none => b
    let b := b.emit conn false (.pubcomp pid)
    if c.v == 5 then
      match b.cli? conn with
      | some c' => b.setCli { c' with quota := min (c'.quota + 1) b.cfg.recvMax }
      | none => b
    else b

def eraseFirst (x : Nat) : List Nat → List Nat
  | [] => []
  | y :: ys => if x == y then ys else y :: eraseFirst x ys

/-- `limiter.release`: only a marked id is released -/
def Cli.release (c : Cli) (id : Nat) : Cli := { c with used := eraseFirst id c.used }

/-- PUBACK / PUBCOMP from the subscriber: `queueStore.Remove` + `pl.release` -/
def B.ackOut (b : B) (conn : String) (id : Nat) : B :=
  match b.cli? conn with
  | none => b
  | some c =>
    let b := match b.sess? c.cid with
      | some s => b.setSess { s with queue := (s.queue.remove id).1 }
      | none => b
    b.setCli (c.release id)

/-- PUBREC from the subscriber -/
def B.pubrecOut (b : B) (conn : String) (id code : Nat) : B :=
  match b.cli? conn with
  | none => b
  | some c =>
    if c.v == 5 && code >= 0x80 then b.ackOut conn id
    else
      let b := match b.sess? c.cid with
        | some s =>
          let e : Queue.Elem := { tag := 0, pub := false, id := id, qos := 0, exp := none, size := 0 }
          b.setSess { s with queue := (s.queue.replace e).1 }
        | none => b
      b.emit conn false (.pubrel id)

def B.disconnectIn (b : B) (conn : String) (se : Option Nat) (code : Nat := 0) : B :=
  match b.cli? conn with
  | none => b
  | some c =>
    if c.v == 5 then
      match b.sess? c.cid with
      | none => b          -- `readHandle` returns without recording the error: nothing is sent
      | some s =>
        let disExp := match se with | some e => e | none => 0
        -- protocol error (expiry 0 -> non-zero): `readHandle` returns before `err = codeErr`, so no DISCONNECT
        -- is sent and neither `client.disconnect` nor `cleanWillFlag` is set
        if s.expiry == 0 && disExp != 0 then b
        else
          let b := if disExp != 0 then b.setSess { s with expiry := disExp } else b
          -- reason code 0x04 "Disconnect with Will Message" keeps the will
          b.setCli { c with discExpiry := some se, cleanWill := code != 4 }
    else b.setCli { c with discExpiry := some none, cleanWill := true }

/-- the client's socket is gone (after DISCONNECT, or abruptly) -/
def B.closeIn (b : B) (conn : String) : B :=
  match b.cli? conn with
  | none => b
  | some _ => (b.unregister conn false).emit conn false .closed

def B.apiTerminate (b : B) (cid : String) : B :=
  match b.cliOf? cid with
  | some c => (b.emit c.conn false .closed).unregister c.conn true
  | none => if (b.offline.find? (·.1 == cid)).isSome then b.terminateS cid else b

def B.apiExpire (b : B) : B :=
  (b.offline.filter (fun cd => b.now > cd.2)).foldl (fun bb cd => bb.terminateS cd.1) b

def B.apiBackdate (b : B) (cid : String) (secs : Nat) : B :=
  match b.sess? cid with
  | none => b
  | some s =>
    { (b.setSess { s with connectedAt := s.connectedAt - secs * 1000 }) with
      offline := b.offline.map (fun cd => if cd.1 == cid then (cd.1, cd.2 - secs * 1000) else cd) }

def B.sleep (b : B) (ms : Nat) : B :=
  let b := { b with now := b.now + ms }
  let due := b.pendingWills.filter (fun w => w.2.2 ≤ b.now)
  let b := { b with pendingWills := b.pendingWills.filter (fun w => !(w.2.2 ≤ b.now)) }
  due.foldl (fun bb w => bb.sendWill w.1 w.2.1) b

end GmqttVerif.Broker
