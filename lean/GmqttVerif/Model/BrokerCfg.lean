import GmqttVerif.Model.Broker
/-
  `config.MQTT.Validate` (config/mqtt.go) on the fields the broker model has. The two remaining clauses of the validator
  (`maximum_qos <= 2`, `delivery_mode` is "overlap" or "onlyonce") concern fields the model does not carry: a configuration
  with another delivery mode or a maximum QoS above 2 is refused before a broker exists (`Driver/Broker.lean` mirrors them
  when it parses the `new` line).
-/
namespace GmqttVerif.Broker

/-- the clauses of `MQTT.Validate` over the modelled fields, in the order of the source -/
def Cfg.validB (cfg : Cfg) : Bool :=
  decide (cfg.maxQueued > 0) && cfg.recvMax != 0 && cfg.maxPacket != 0 && cfg.maxInflight != 0
    && decide (cfg.maxQueued ≥ cfg.maxInflight)

end GmqttVerif.Broker
