import GmqttVerif.Model.Broker
/-
  The sequential broker model (`Model/Broker.lean`) extended with HOOK VERDICTS (property C14).

  `Model/Broker.lean` describes a broker whose hooks accept everything and change nothing. Here every step a hook can
  influence takes the hook's verdict as an extra input and mirrors, branch by branch, what the handler does with it
  (server/client.go `connectWithTimeOut`/`connectHandler`/`sendErrConnack`, `subscribeHandler`, `unsubscribeHandler`,
  `publishHandler`, `reAuthHandler`; server/server.go `sendWillLocked`). The accepting paths call into the functions of
  `Model/Broker.lean`; where a hook sits in the middle of one of those functions (the will inside `unregisterClient`,
  the message inside `publishHandler`) the function is repeated here with the verdict threaded through, and
  `Properties/C14.lean` proves that with the neutral verdict it IS the function of `Model/Broker.lean`
  (`*_neutral` theorems), so the two cannot drift apart unnoticed.

  Modelled code = /repo with the repairs F09 (OnReAuth wrappers applied), F10 (the will as edited by OnWillPublish is
  what is published), F11/F12 (the retained store is updated after OnMsgArrived, from the message the hooks let
  through, under the topic resolved from the alias).
-/
namespace GmqttVerif.BrokerHooks
open GmqttVerif.Deliver GmqttVerif.Broker

/-- what an authentication hook (OnBasicAuth / OnEnhancedAuth / OnAuth / OnReAuth) returns -/
inductive AuthVerdict
  | accept
  | reject (code : Nat)     -- an error; `*codes.Error{Code}` or any other error (= 0x80, `converError`)
  | cont                    -- enhanced authentication: `Continue = true`
  deriving Repr, DecidableEq, Inhabited

/-- what OnMsgArrived leaves behind: its error and `req.Message` -/
inductive MsgVerdict
  | accept
  | reject (code : Nat)
  | drop                         -- `req.Drop()`: `req.Message = nil`
  | rewrite (f : Msg → Msg)      -- `req.Message` edited or replaced
  deriving Inhabited

/-- what OnWillPublish leaves in `req.Message` -/
inductive WillVerdict
  | keep
  | drop
  | rewrite (f : Msg → Msg)
  deriving Inhabited

/-- packets `Broker.Pkt` has no constructor for -/
inductive XPkt
  | connackErr (v code : Nat)     -- failing CONNACK (no properties)
  | auth (code : Nat)
  | closed                        -- the broker closes a connection that never became a client (refused CONNECT)
  deriving Repr, DecidableEq, Inhabited

structure XOut where
  conn : String
  pkt : XPkt
  deriving Repr, DecidableEq, Inhabited

structure BH where
  b : B := {}
  pending : List (String × ConnectReq × String) := []   -- connections in the middle of enhanced authentication (+ method)
  authMethod : List (String × String) := []       -- conn ↦ Authentication Method of its CONNECT
  xout : List XOut := []
  deriving Inhabited

/-! ### wills -/

/-- `sendWillLocked` with the verdict of OnWillPublish -/
def willH (wv : WillVerdict) (b : B) (cid : String) (m : Msg) : B :=
  match wv with
  | .keep => b.sendWill cid m
  | .drop => b
  | .rewrite f => b.sendWill cid (f m)

/-- `B.terminateS` with the will verdict -/
def terminateSH (wv : WillVerdict) (b : B) (cid : String) : B :=
  let b' := b.terminate cid
  match b.willOf? cid with
  | some (_, w, _) => willH wv (b'.dropWill cid) cid w
  | none => b'

/-- `B.unregister` with the will verdict -/
def unregisterH (wv : WillVerdict) (b : B) (conn : String) (force : Bool) : B :=
  match b.cli? conn with
  | none => b
  | some c =>
    let b := b.dropCli conn
    match b.sess? c.cid with
    | none => terminateSH wv b c.cid
    | some s0 =>
      let s := if !force && c.v == 5 then
          match c.discExpiry with
          | some (some e) => { s0 with expiry := e }
          | _ => s0
        else s0
      let store := !force && s.expiry != 0
      let s := { s with queue := s.queue.close }
      let b := b.setSess s
      let b :=
        if !c.cleanWill then
          match s.will with
          | none => b
          | some w =>
            let delay := if s.expiry ≤ s.willDelay then s.expiry else s.willDelay
            if delay != 0 && store then
              let b := b.dropWill c.cid
              { b with pendingWills := b.pendingWills ++ [(c.cid, w, b.now + delay * 1000)] }
            else willH wv b c.cid w
        else b
      if store then { b with offline := (c.cid, b.now + s.expiry * 1000) :: b.offline.filter (·.1 != c.cid) }
      else terminateSH wv b c.cid

/-- `B.kick` with the will verdict -/
def kickH (wv : WillVerdict) (b : B) (conn : String) (code : Option Nat) : B :=
  match b.cli? conn with
  | none => b
  | some c =>
    let b := match code with
      | some k => if c.v == 5 then b.emit conn false (.disconnect k) else b
      | none => b
    unregisterH wv (b.emit conn false .closed) conn false

/-- `B.closeIn` with the will verdict -/
def closeH (wv : WillVerdict) (b : B) (conn : String) : B :=
  match b.cli? conn with
  | none => b
  | some _ => (unregisterH wv b conn false).emit conn false .closed

/-- `B.sleep` with the will verdict -/
def sleepH (wv : WillVerdict) (b : B) (ms : Nat) : B :=
  let b := { b with now := b.now + ms }
  let due := b.pendingWills.filter (fun w => w.2.2 ≤ b.now)
  let b := { b with pendingWills := b.pendingWills.filter (fun w => !(w.2.2 ≤ b.now)) }
  due.foldl (fun bb w => willH wv bb w.1 w.2.1) b

/-! ### CONNECT -/

/-- `sendErrConnack`: a v3 client gets 0x87 for every code above the v3 range -/
def errConnackCode (v code : Nat) : Nat := if v != 5 && code > 5 then 135 else code

/-- would `registerClient` resume the stored session of `r.cid` (as in `B.connect`) -/
def wouldResume (b : B) (r : ConnectReq) : Bool :=
  match b.sess? r.cid with
  | some _ =>
    let expired := match b.offline.find? (fun (cd : String × Nat) => cd.1 == r.cid) with
      | some cd => decide (b.now > cd.2)
      | none => false
    !expired && !r.clean
  | none => false

/-- the part of `registerClient` in which wills can be published, with the will verdict: the displaced connection is
    closed (`lockDuplicatedID`), and a session that is not resumed is terminated (a pending delayed will fires).
    Afterwards `B.connect` finds no online client of this id, and either a session it resumes or none at all. -/
def preConnect (wv : WillVerdict) (b : B) (r : ConnectReq) : B :=
  let b := match b.cliOf? r.cid with
    | some old => kickH wv b old.conn (some 0x8E)
    | none => b
  match b.sess? r.cid with
  | some _ => if !wouldResume b r then terminateSH wv b r.cid else b
  | none => b

/-- the authenticated rest of `connectWithTimeOut` -/
def admitConn (wv : WillVerdict) (bh : BH) (r : ConnectReq) (method : Option String) : BH :=
  { bh with b := (preConnect wv bh.b r).connect r,
            pending := bh.pending.filter (·.1 != r.conn),
            authMethod := match method with
              | some am => (r.conn, am) :: bh.authMethod.filter (·.1 != r.conn)
              | none => bh.authMethod.filter (·.1 != r.conn) }

def BH.xemit (bh : BH) (conn : String) (p : XPkt) : BH := { bh with xout := bh.xout ++ [{ conn := conn, pkt := p }] }

/-- `sendErrConnack` + `setError`: the failing CONNACK, then writeLoop ends and closes the socket -/
def refuse (bh : BH) (conn : String) (v code : Nat) : BH :=
  (bh.xemit conn (.connackErr v (errConnackCode v code))).xemit conn .closed

/-- CONNECT with the verdict of OnBasicAuth (`method = none`) or OnEnhancedAuth (`method = some am`) -/
def connectH (av : AuthVerdict) (wv : WillVerdict) (bh : BH) (r : ConnectReq) (method : Option String := none) : BH :=
  match av with
  | .reject code => refuse bh r.conn r.v code
  | .cont =>
    match method with
    | some am => { bh with pending := (r.conn, r, am) :: bh.pending.filter (·.1 != r.conn) }.xemit r.conn (.auth 24)
    | none => admitConn wv bh r method       -- OnBasicAuth has no "continue"
  | .accept => admitConn wv bh r method

/-- AUTH during the CONNECT exchange, with the verdict of the `OnAuth` callback -/
def authContinueH (av : AuthVerdict) (wv : WillVerdict) (bh : BH) (conn : String) (code : Nat) : BH :=
  match bh.pending.find? (·.1 == conn) with
  | none => bh
  | some (_, r, am) =>
    if code != 24 then
      refuse { bh with pending := bh.pending.filter (·.1 != conn) } conn r.v 0x82
    else
      match av with
      | .reject c => refuse { bh with pending := bh.pending.filter (·.1 != conn) } conn r.v c
      | .cont => bh.xemit conn (.auth 24)
      | .accept => admitConn wv bh r (some am)

/-- AUTH on an established connection (`readHandle` + `reAuthHandler`). `dataMatches`: the packet passes the check
    `bytes.Equal(client.opts.AuthMethod, auth.Properties.AuthData)`; `hooked`: `srv.hooks.OnReAuth != nil` -/
def reauthH (av : AuthVerdict) (wv : WillVerdict) (bh : BH) (conn : String) (dataMatches hooked : Bool) : BH :=
  match bh.b.cli? conn with
  | none => bh
  | some c =>
    if c.v != 5 then { bh with b := kickH wv bh.b conn (some 0x82) }
    else if !dataMatches then { bh with b := kickH wv bh.b conn none }      -- `return` before `err = codeErr`
    else if !hooked then { bh with b := kickH wv bh.b conn (some 0x82) }
    else
      match av with
      | .reject code => { bh with b := kickH wv bh.b conn (some code) }
      | .cont => bh.xemit conn (.auth 24)
      | .accept => bh.xemit conn (.auth 0)

/-! ### SUBSCRIBE / UNSUBSCRIBE -/

/-- SUBACK / UNSUBACK payload: the positions a hook rejected carry its code, the others what the un-hooked handler
    reported for the remaining topics, in order -/
def mergeCodes (names : List String) (rej : String → Option Nat) (rejCode : Nat → Nat) : List Nat → List Nat :=
  match names with
  | [] => fun cs => cs
  | n :: ns => fun cs =>
    match rej n with
    | some code => rejCode code :: mergeCodes ns rej rejCode cs
    | none =>
      match cs with
      | c :: cs' => c :: mergeCodes ns rej rejCode cs'
      | [] => mergeCodes ns rej rejCode []

/-- replace the payload of the acknowledgement the handler wrote last -/
def patchAck (out : List Out) (f : List Nat → List Nat) : List Out :=
  match out.getLast? with
  | some o =>
    match o.pkt with
    | .suback pid cs => out.dropLast ++ [{ o with pkt := .suback pid (f cs) }]
    | .unsuback pid cs => out.dropLast ++ [{ o with pkt := .unsuback pid (f cs) }]
    | _ => out
  | none => out

/-- the topics the per-topic verdicts let through, with the QoS the hook granted -/
def acceptedTopics (topics : List SubTopic) (rej : String → Option Nat) (grant : String → Option Nat) : List SubTopic :=
  (topics.filter (fun t => (rej t.name).isNone)).map (fun t =>
    match grant t.name with
    | some q => { t with qos := q }
    | none => t)

/-- `subscribeHandler`. `hookErr`: the error OnSubscribe returned; `rej name`: `req.Subscriptions[name].Error`
    (codes ≥ 0x80); `grant name`: the QoS the hook wrote into `req.Subscriptions[name].Sub`. -/
def subscribeH (hookErr : Option Nat) (rej grant : String → Option Nat)
    (b : B) (conn : String) (pid : Nat) (topics : List SubTopic) (idProp : Nat) : B :=
  match b.cli? conn with
  | none => b
  | some c =>
    match hookErr with
    | some code => b.emit conn false (.suback pid (topics.map (fun _ => if c.v == 5 then code else 0x80)))
    | none =>
      let b' := b.subscribe conn pid (acceptedTopics topics rej grant) idProp
      { b' with out := patchAck b'.out (mergeCodes (topics.map (·.name)) rej (fun code => if c.v == 5 then code else 0x80)) }

/-- `unsubscribeHandler`. `ren name`: `req.Unsubs[name].TopicName` as the hook left it. -/
def unsubscribeH (hookErr : Option Nat) (rej : String → Option Nat) (ren : String → String)
    (b : B) (conn : String) (pid : Nat) (topics : List String) : B :=
  match b.cli? conn with
  | none => b
  | some c =>
    match hookErr with
    | some code => b.emit conn false (.unsuback pid (if c.v == 5 then topics.map (fun _ => code) else []))
    | none =>
      let b' := b.unsubscribe conn pid ((topics.filter (fun t => (rej t).isNone)).map ren)
      if c.v == 5 then { b' with out := patchAck b'.out (mergeCodes topics rej id) } else b'

/-! ### PUBLISH -/

/-- `retainedDB.Remove / AddOrReplace(msg)` -/
def storeRetained (b : B) (m : Msg) : B :=
  if m.retained then
    (if m.plen == 0 then { b with retained := b.retained.filter (·.1 != m.topic) }
     else { b with retained := (m.topic, m) :: b.retained.filter (·.1 != m.topic) })
  else b

/-- the hook's effect on `(msg, err)` -/
def MsgVerdict.result (v : MsgVerdict) (m : Msg) : Option Msg × Option Nat :=
  match v with
  | .accept => (some m, none)
  | .reject code => (some m, some code)
  | .drop => (none, none)
  | .rewrite f => (some (f m), none)

/-- what happens to the message the hook left behind: only a message that is still there and was not refused is
    stored (if RETAIN) and routed; the flag is `topicMatched` -/
def route (b : B) (c : Cli) (r : PubReq) (res : Option Msg × Option Nat) : B × Bool :=
  match res with
  | (some m', none) => (storeRetained b m').deliverMsg c.cid m' r.hints r.rapHint
  | _ => (b, false)

/-- reason code of the PUBACK / PUBREC -/
def ackCode (v : Nat) (err : Option Nat) (matched : Bool) : Nat :=
  if v == 5 then (match err with | some e => e | none => if !matched then 0x10 else 0) else 0

/-- the PUBACK / PUBREC -/
def ackEmit (b : B) (r : PubReq) (code : Nat) : B :=
  if r.qos == 1 then b.emit r.conn false (.puback r.pid code)
  else if r.qos == 2 then b.emit r.conn false (.pubrec r.pid code) else b

/-- a refused QoS 2 publish is forgotten again (`unackStore.Remove`) -/
def ackForget (b : B) (c : Cli) (r : PubReq) (code : Nat) : B :=
  if r.qos == 2 && code >= 0x80 then
    match b.sess? c.cid with
    | some s' => b.setSess { s' with unack := s'.unack.filter (· != r.pid) }
    | none => b
  else b

/-- writeLoop: a PUBACK, and a refusing PUBREC, give the receive quota back -/
def ackQuota (b : B) (c : Cli) (r : PubReq) (code : Nat) : B :=
  if c.v == 5 && (r.qos == 1 || (r.qos == 2 && code >= 0x80)) then
    match b.cli? r.conn with
    | some c' => b.setCli { c' with quota := min (c'.quota + 1) b.cfg.recvMax }
    | none => b
  else b

/-- the acknowledgement and what goes with it -/
def acknowledge (b : B) (c : Cli) (r : PubReq) (code : Nat) : B :=
  ackQuota (ackForget (ackEmit b r code) c r code) c r code

/-- a retransmission of a PUBLISH still awaiting PUBREL gives back the quota unit `readLoop` took for it (v5) -/
def dupQuota (b : B) (c : Cli) (r : PubReq) (dupl : Bool) : B :=
  if dupl && c.v == 5 then
    (match b.cli? r.conn with
     | some c' => b.setCli { c' with quota := min (c'.quota + 1) b.cfg.recvMax }
     | none => b)
  else b

/-- `publishHandler` from the QoS 2 bookkeeping on, for a PUBLISH that passed the checks in front of it:
    `m` is the message built from the packet (topic resolved from the alias), `s` the publisher's session.
    A duplicate QoS 2 PUBLISH is acknowledged again (and its receive-quota unit given back); the hook is not consulted
    and nothing is stored or routed. -/
def publishPost (v : MsgVerdict) (b : B) (c : Cli) (s : Sess) (r : PubReq) (m : Msg) : B :=
  let dupl := r.qos == 2 && s.unack.contains r.pid
  let b1 := dupQuota (b.setSess (if r.qos == 2 && !dupl then { s with unack := s.unack ++ [r.pid] } else s)) c r dupl
  let res : Option Msg × Option Nat := if dupl then (none, none) else v.result m
  let bm := route b1 c r res
  acknowledge bm.1 c r (ackCode c.v res.2 bm.2)

/-- the message `publishHandler` builds from the packet (`gmqtt.MessageFromPublish`, topic already resolved) -/
def reqMsg (r : PubReq) : Msg :=
  { topic := r.topic, tag := r.tag, plen := r.plen, qos := r.qos, retained := r.retain, dup := r.dup,
    expiry := match r.expiry with | some e => e | none => 0 }

/-- the checks in front of the hook (decoder, `readLoop`, `readHandle`, head of `publishHandler`), exactly as in
    `B.publish`, with the rest of the handler as a continuation: `refused` gets the state after the broker closed the
    connection (or an unknown connection), `k` the state, client, session and request (topic resolved from the alias)
    of a PUBLISH that reaches the QoS 2 bookkeeping and the hook. -/
def publishK {α : Type} (wv : WillVerdict) (refused : B → α) (k : B → Cli → Sess → PubReq → α) (b : B) (r : PubReq) : α :=
  match b.cli? r.conn with
  | none => refused b
  | some c =>
    -- the decoder refuses alias 0 (0x94) and a zero-length topic name without alias (0x82) before anything else
    if c.v == 5 && r.alias == some 0 then refused (kickH wv b r.conn (some 0x94))
    else if r.topic == "" && (c.v != 5 || r.alias.isNone) then refused (kickH wv b r.conn (some 0x82))
    -- readLoop: receive quota (v5, QoS>0)
    else if c.v == 5 && r.qos > 0 && c.quota == 0 then refused (kickH wv b r.conn (some 0x93))
    else
      let c := if c.v == 5 && r.qos > 0 then { c with quota := c.quota - 1 } else c
      let b := b.setCli c
      -- readHandle: maximum packet size (v5)
      if c.v == 5 && b.cfg.maxPacket != 0 && r.size > b.cfg.maxPacket then refused (kickH wv b r.conn (some 0x95))
      else if !b.cfg.retainAvail && r.retain then refused (kickH wv b r.conn (some 0x9A))
      else
        let aliasRes : Except Nat (String × Cli) :=
          if c.v == 5 then
            match r.alias with
            | some a =>
              if a == 0 || a > b.cfg.aliasMax then .error 0x94
              else if r.topic == "" then
                match c.aliasIn.find? (fun (p : Nat × String) => p.1 == a) with
                | some (_, t) => if t == "" then .error 0x94 else .ok (t, c)
                | none => .error 0x94
              else .ok (r.topic, { c with aliasIn := (a, r.topic) :: c.aliasIn.filter (fun (p : Nat × String) => p.1 != a) })
            | none => if r.topic == "" then .error 0x82 else .ok (r.topic, c)
          else if r.topic == "" then .error 0x82 else .ok (r.topic, c)
        match aliasRes with
        | .error code => refused (kickH wv b r.conn (some code))
        | .ok (topic, c) =>
        let b := b.setCli c
        let r := { r with topic := topic }
        match b.sess? c.cid with
        | none => refused b
        | some s => k b c s r

inductive Admission
  | refused (b : B)                                   -- connection closed by the broker, or unknown
  | admitted (b : B) (c : Cli) (s : Sess) (r : PubReq)

/-- does the PUBLISH reach the hook, and in which state -/
def publishPre (wv : WillVerdict) (b : B) (r : PubReq) : Admission := publishK wv .refused .admitted b r

/-- PUBLISH with the verdict of OnMsgArrived (and of OnWillPublish, should the broker close the connection) -/
def publishH (v : MsgVerdict) (wv : WillVerdict) (b : B) (r : PubReq) : B :=
  publishK wv id (fun b' c s r' => publishPost v b' c s r' (reqMsg r')) b r

end GmqttVerif.BrokerHooks
