import GmqttVerif.Model.Codec.Props
/-
  The 15 packet types of pkg/packets: `New<Type>Packet` (flag checks) + `Unpack` + `Pack`,
  `FixHeader.Pack`, `NewPacket` dispatch and `Reader.ReadPacket`.

  A body parser (`unpackX`) works on the *window* `restBuffer` (exactly `RemainLength` bytes read with
  `io.ReadFull`), so by construction it cannot look past the declared packet length.
  `[]byte` fields that `Unpack` always assigns are `Bytes`; fields that stay `nil` when absent are `Option Bytes`.

  The model mirrors the tree after these fixes (all committed in /repo, see findings/c06-*.md):
    F23  `Connect.Pack` wrote the protocol-name length as the constant `00 04`        → `writeBin protoName`
    F25  password read with `readUTF8String(true, …)`                                  → binary
    F26  zero-length topic name accepted without a topic alias                         → ErrProtocol
    N7   CONNECT Will QoS 3 accepted (and re-encoded as Will QoS 0)                    → ErrMalformed
  Everything else mirrors the unchanged tree, including: CONNACK always parsed as v5; no flag check for
  PUBACK/PUBREC/PUBREL/PUBCOMP; trailing bytes ignored in CONNECT and the v3 acks; over-long property length tolerated.
-/
namespace GmqttVerif.Codec

def v31 : Nat := 3
def v311 : Nat := 4
def v5 : Nat := 5

/-- `version2protoName` -/
def protoNameOf (level : Nat) : Option Bytes :=
  if level = 3 then some [0x4D, 0x51, 0x49, 0x73, 0x64, 0x70]      -- "MQIsdp"
  else if level = 4 then some [0x4D, 0x51, 0x54, 0x54]             -- "MQTT"
  else if level = 5 then some [0x4D, 0x51, 0x54, 0x54]
  else none

structure Connect where
  version : Nat
  level : Nat
  protoName : Bytes
  usernameFlag : Bool
  passwordFlag : Bool
  willRetain : Bool
  willQos : Nat
  willFlag : Bool
  cleanStart : Bool
  keepAlive : Nat
  clientID : Bytes
  willTopic : Option Bytes
  willMsg : Option Bytes
  username : Option Bytes
  password : Option Bytes
  props : Option Props
  wprops : Option Props
  deriving Repr, DecidableEq, Inhabited

structure Connack where
  version : Nat
  code : Nat
  sessionPresent : Bool
  props : Option Props
  deriving Repr, DecidableEq, Inhabited

structure Publish where
  version : Nat
  dup : Bool
  qos : Nat
  retain : Bool
  topic : Bytes
  pid : Nat
  payload : Bytes
  props : Option Props
  deriving Repr, DecidableEq, Inhabited

/-- PUBACK / PUBREC / PUBCOMP (with `version`) and PUBREL (`version` unused, 0) -/
structure Ack where
  version : Nat
  pid : Nat
  code : Nat
  props : Option Props
  deriving Repr, DecidableEq, Inhabited

structure Topic where
  name : Bytes
  qos : Nat
  noLocal : Bool
  rap : Bool
  retainHandling : Nat
  deriving Repr, DecidableEq, Inhabited

structure Subscribe where
  version : Nat
  pid : Nat
  topics : List Topic
  props : Option Props
  deriving Repr, DecidableEq, Inhabited

/-- SUBACK / UNSUBACK -/
structure SubAck where
  version : Nat
  pid : Nat
  payload : Option Bytes          -- nil until the first reason code is appended
  props : Option Props
  deriving Repr, DecidableEq, Inhabited

structure Unsubscribe where
  version : Nat
  pid : Nat
  topics : List Bytes
  props : Option Props
  deriving Repr, DecidableEq, Inhabited

structure Disconnect where
  version : Nat
  code : Nat
  props : Option Props
  deriving Repr, DecidableEq, Inhabited

structure Auth where
  code : Nat
  props : Option Props
  deriving Repr, DecidableEq, Inhabited

inductive Packet
  | connect (c : Connect)
  | connack (c : Connack)
  | publish (p : Publish)
  | puback (a : Ack)
  | pubrec (a : Ack)
  | pubrel (a : Ack)
  | pubcomp (a : Ack)
  | subscribe (s : Subscribe)
  | suback (s : SubAck)
  | unsubscribe (u : Unsubscribe)
  | unsuback (s : SubAck)
  | pingreq
  | pingresp
  | disconnect (d : Disconnect)
  | auth (a : Auth)
  deriving Repr, DecidableEq, Inhabited

/-! ### Unpack -/

def bit (x k : Nat) : Bool := x / 2 ^ k % 2 = 1

/-- `if c.Version == Version5 { c.WillProperties.UnpackWillProperties(bufr) }` -/
def unpackWillPropsStep (c : Connect) (w1 : Bytes) : Except Err (Option Props × Bytes) :=
  if c.version = v5 then
    match unpackProps none w1 with
    | .error e => .error e
    | .ok (ps, r) => .ok (some ps, r)
  else .ok (c.wprops, w1)

/-- the `if c.WillFlag { … }` block of `unpackPayload` -/
def unpackWillPart (c : Connect) (w1 : Bytes) : Except Err (Connect × Bytes) :=
  if c.willFlag then
    match unpackWillPropsStep c w1 with
    | .error e => .error e
    | .ok (wps, w2) =>
      match readStr true w2 with
      | .error e => .error e
      | .ok (wt, w3) =>
        match readBin w3 with
        | .error e => .error e
        | .ok (wm, w4) => .ok ({ c with wprops := wps, willTopic := some wt, willMsg := some wm }, w4)
  else .ok (c, w1)

/-- the `if c.UsernameFlag { … }` block -/
def unpackUserPart (c : Connect) (w : Bytes) : Except Err (Connect × Bytes) :=
  if c.usernameFlag then
    match readStr true w with
    | .error e => .error e
    | .ok (u, r) => .ok ({ c with username := some u }, r)
  else .ok (c, w)

/-- the `if c.PasswordFlag { … }` block (F25 fixed: binary data); bytes behind it are ignored -/
def unpackPassPart (c : Connect) (w : Bytes) : Except Err Connect :=
  if c.passwordFlag then
    match readBin w with
    | .error e => .error e
    | .ok (p, _) => .ok { c with password := some p }
  else .ok c

/-- `c.unpackPayload(bufr)` -/
def unpackConnectPayload (c : Connect) (w : Bytes) : Except Err Connect :=
  match readStr true w with
  | .error e => .error e
  | .ok (cid, w1) =>
    if (c.version = v311 || c.version = v31) && cid.isEmpty && !c.cleanStart then .error (.code 0x02) else
    match unpackWillPart { c with clientID := cid } w1 with
    | .error e => .error e
    | .ok (c, w5) =>
      match unpackUserPart c w5 with
      | .error e => .error e
      | .ok (c, w6) => unpackPassPart c w6

/-- `Connect.Unpack` on the window -/
def unpackConnect (w : Bytes) : Except Err Connect :=
  match readBin w with
  | .error e => .error e
  | .ok (name, w1) =>
    match w1 with
    | [] => .error .malformed
    | level :: w2 =>
      match protoNameOf level with
      | none => .error (.code 0x01)
      | some n =>
        if name != n then .error (.code 0x84) else
        match w2 with
        | [] => .error .malformed
        | flags :: w3 =>
          if flags % 2 != 0 then .error .malformed else
          let willFlag := bit flags 2
          let willQos := flags / 8 % 4
          if !willFlag && willQos != 0 then .error .malformed else
          if willQos > 2 then .error .malformed else          -- N7 fix
          let willRetain := bit flags 5
          if !willFlag && willRetain then .error .malformed else
          match readU16 w3 with
          | .error _ => .error .malformed
          | .ok (ka, w4) =>
            let c : Connect := {
              version := level, level := level, protoName := name,
              usernameFlag := bit flags 7, passwordFlag := bit flags 6, willRetain := willRetain,
              willQos := willQos, willFlag := willFlag, cleanStart := bit flags 1, keepAlive := ka,
              clientID := [], willTopic := none, willMsg := none, username := none, password := none,
              props := none, wprops := none }
            if level = v5 then
              match unpackProps (some tCONNECT) w4 with
              | .error e => .error e
              | .ok (ps, w5) => unpackConnectPayload { c with props := some ps, wprops := some [] } w5
            else unpackConnectPayload c w4

/-- `Connack.Unpack`; `NewConnackPacket` ignores the reader's version and always sets `Version5`.
    The error of the first `ReadByte` is not looked at (sp = 0 on an empty window). -/
def unpackConnack (w : Bytes) : Except Err Connack :=
  let sp := w.headD 0
  if sp / 2 % 128 > 0 then .error .malformed else
  match w.drop 1 with
  | [] => .error .malformed
  | code :: w2 =>
    match unpackProps (some tCONNACK) w2 with
    | .error e => .error e
    | .ok (ps, _) => .ok { version := v5, code := code, sessionPresent := sp = 1, props := some ps }

/-- `Publish.Unpack`; dup/qos/retain come from the flags -/
def unpackPublish (version : Nat) (dup : Bool) (qos : Nat) (retain : Bool) (w : Bytes) : Except Err Publish :=
  match readStr true w with
  | .error e => .error e
  | .ok (topic, w1) =>
    if !topic.isEmpty && !validTopicName true topic then .error .malformed else
    let pidPart : Except Err (Nat × Bytes) := if qos > 0 then readU16 w1 else .ok (0, w1)
    match pidPart with
    | .error e => .error e
    | .ok (pid, w2) =>
      if version = v5 then
        match unpackProps (some tPUBLISH) w2 with
        | .error e => .error e
        | .ok (ps, w3) =>
          if topic.isEmpty && !ps.has 0x23 then .error .protocol          -- F26 fix
          else .ok { version := version, dup := dup, qos := qos, retain := retain, topic := topic, pid := pid,
                     payload := w3, props := some ps }
      else
        if topic.isEmpty then .error .protocol                            -- F26 fix
        else .ok { version := version, dup := dup, qos := qos, retain := retain, topic := topic, pid := pid,
                   payload := w2, props := none }

/-- `Puback.Unpack`, `Pubrec.Unpack`, `Pubcomp.Unpack` (identical up to the packet type) -/
def unpackAck (t version remLen : Nat) (w : Bytes) : Except Err Ack :=
  match readU16 w with
  | .error e => .error e
  | .ok (pid, w1) =>
    if remLen = 2 then .ok { version := version, pid := pid, code := 0, props := none }
    else if version = v5 then
      match w1 with
      | [] => .error .malformed
      | code :: w2 =>
        match unpackProps (some t) w2 with
        | .error e => .error e
        | .ok (ps, _) => .ok { version := version, pid := pid, code := code, props := some ps }
    else .ok { version := version, pid := pid, code := 0, props := none }

/-- `Pubrel.Unpack`: no version, properties whenever `RemainLength != 2` -/
def unpackPubrel (remLen : Nat) (w : Bytes) : Except Err Ack :=
  match readU16 w with
  | .error e => .error e
  | .ok (pid, w1) =>
    if remLen = 2 then .ok { version := 0, pid := pid, code := 0, props := none }
    else
      match w1 with
      | [] => .error .io
      | code :: w2 =>
        match unpackProps (some tPUBREL) w2 with
        | .error e => .error e
        | .ok (ps, _) => .ok { version := 0, pid := pid, code := code, props := some ps }

/-- the `Topic` one round of the loop in `Subscribe.Unpack` builds from the filter and the options byte -/
def topicOf (version : Nat) (tf : Bytes) (opts : Nat) : Topic :=
  if version = v5 then
    { name := tf, qos := opts % 4, noLocal := bit opts 2, rap := bit opts 3, retainHandling := opts / 16 % 4 }
  else { name := tf, qos := opts, noLocal := false, rap := false, retainHandling := 0 }

/-- topic loop of `Subscribe.Unpack`; one round consumes ≥ 3 bytes -/
def subscribeLoop (version : Nat) : Nat → Bytes → List Topic → Except Err (List Topic)
  | 0, _, _ => .error .other
  | fuel + 1, w, acc =>
    match readStr true w with
    | .error e => .error e
    | .ok (tf, w1) =>
      if (if version = v5 then !validV5Topic tf else !validTopicFilter true tf) then .error .malformed else
      match w1 with
      | [] => .error .malformed
      | opts :: w2 =>
        if version != v5 && opts > 2 then .error .protocol
        else if opts / 64 % 4 != 0 then .error .protocol
        else if (topicOf version tf opts).qos > 2 then .error .protocol
        else if w2.isEmpty then .ok (acc ++ [topicOf version tf opts])
        else subscribeLoop version fuel w2 (acc ++ [topicOf version tf opts])

def unpackSubscribe (version : Nat) (w : Bytes) : Except Err Subscribe :=
  match readU16 w with
  | .error e => .error e
  | .ok (pid, w1) =>
    let pp : Except Err (Option Props × Bytes) :=
      if version = v5 then
        match unpackProps (some tSUBSCRIBE) w1 with
        | .error e => .error e
        | .ok (ps, r) => .ok (some ps, r)
      else .ok (none, w1)
    match pp with
    | .error e => .error e
    | .ok (ps, w2) =>
      match subscribeLoop version (w2.length + 1) w2 [] with
      | .error e => .error e
      | .ok ts => .ok { version := version, pid := pid, topics := ts, props := ps }

/-- `Suback.Unpack`: the loop appends every remaining byte and needs at least one -/
def unpackSuback (version : Nat) (w : Bytes) : Except Err SubAck :=
  match readU16 w with
  | .error _ => .error .malformed
  | .ok (pid, w1) =>
    let pp : Except Err (Option Props × Bytes) :=
      if version = v5 then
        match unpackProps (some tSUBACK) w1 with
        | .error e => .error e
        | .ok (ps, r) => .ok (some ps, r)
      else .ok (none, w1)
    match pp with
    | .error e => .error e
    | .ok (ps, w2) =>
      if w2.isEmpty then .error .malformed
      else .ok { version := version, pid := pid, payload := some w2, props := ps }

def unsubscribeLoop : Nat → Bytes → List Bytes → Except Err (List Bytes)
  | 0, _, _ => .error .other
  | fuel + 1, w, acc =>
    match readStr true w with
    | .error e => .error e
    | .ok (tf, w1) =>
      if !validTopicFilter true tf then .error .protocol
      else if w1.isEmpty then .ok (acc ++ [tf])
      else unsubscribeLoop fuel w1 (acc ++ [tf])

def unpackUnsubscribe (version : Nat) (w : Bytes) : Except Err Unsubscribe :=
  match readU16 w with
  | .error e => .error e
  | .ok (pid, w1) =>
    let pp : Except Err (Option Props × Bytes) :=
      if version = v5 then
        match unpackProps (some tUNSUBSCRIBE) w1 with
        | .error e => .error e
        | .ok (ps, r) => .ok (some ps, r)
      else .ok (none, w1)
    match pp with
    | .error e => .error e
    | .ok (ps, w2) =>
      match unsubscribeLoop (w2.length + 1) w2 [] with
      | .error e => .error e
      | .ok ts => .ok { version := version, pid := pid, topics := ts, props := ps }

/-- `Unsuback.Unpack`: v3.x stops after the packet id; every other version value parses properties + codes -/
def unpackUnsuback (version : Nat) (w : Bytes) : Except Err SubAck :=
  match readU16 w with
  | .error e => .error e
  | .ok (pid, w1) =>
    if version = v311 || version = v31 then .ok { version := version, pid := pid, payload := none, props := none }
    else
      match unpackProps (some tUNSUBACK) w1 with
      | .error e => .error e
      | .ok (ps, w2) =>
        if w2.isEmpty then .error .malformed
        else .ok { version := version, pid := pid, payload := some w2, props := some ps }

def unpackDisconnect (version remLen : Nat) (w : Bytes) : Except Err Disconnect :=
  if version = v5 then
    if remLen = 0 then .ok { version := version, code := 0, props := some [] }
    else
      match w with
      | [] => .error .malformed
      | code :: w1 =>
        match unpackProps (some tDISCONNECT) w1 with
        | .error e => .error e
        | .ok (ps, _) => .ok { version := version, code := code, props := some ps }
  else .ok { version := version, code := 0, props := none }

def unpackAuth (w : Bytes) : Except Err Auth :=
  match w with
  | [] => .error .malformed
  | code :: w1 =>
    match unpackProps (some tAUTH) w1 with
    | .error e => .error e
    | .ok (ps, _) => .ok { code := code, props := some ps }

/-! ### ReadPacket -/

/-- outcome of one `ReadPacket`: the result and the bytes of the stream that were not consumed -/
structure DecOut where
  res : Except Err Packet
  rest : Bytes

/-- `make([]byte, n); io.ReadFull(r, buf)` then the body parser on the window.
    `eShort` = what the caller returns when the stream ends early (everything available has been consumed then). -/
def withWindow (n : Nat) (stream : Bytes) (eShort : Err) (f : Bytes → Except Err Packet) : DecOut :=
  if stream.length < n then { res := .error eShort, rest := [] }
  else { res := f (stream.take n), rest := stream.drop n }

/-- what `NewPacket` + `New<Type>Packet` decide from the fixed header alone, before any body byte is read:
    refuse (`fail`), read the `RemainLength` bytes and parse them (`window`; the error is what the caller returns when
    `io.ReadFull` hits the end of the stream), or finish without reading (`done`: PINGREQ, PINGRESP, zero-length AUTH) -/
inductive Plan
  | fail (e : Err)
  | window (eShort : Err) (f : Bytes → Except Err Packet)
  | done (p : Packet)

/-- the dispatch of `NewPacket(fh, version, r)` and the flag / length checks of the constructors -/
def planOf (ptype flags remLen version : Nat) : Plan :=
  if ptype = tCONNECT then
    if flags != 0 then .fail .malformed
    else .window .io (fun w => (unpackConnect w).map .connect)
  else if ptype = tCONNACK then
    if flags != 0 then .fail .malformed
    else .window .malformed (fun w => (unpackConnack w).map .connack)
  else if ptype = tPUBLISH then
    let dup := bit flags 3
    let qos := flags / 2 % 4
    if qos = 0 && dup then .fail .malformed
    else if qos > 2 then .fail .malformed
    else .window .malformed (fun w => (unpackPublish version dup qos (flags % 2 = 1) w).map .publish)
  else if ptype = tPUBACK then
    .window .malformed (fun w => (unpackAck tPUBACK version remLen w).map .puback)
  else if ptype = tPUBREC then
    .window .malformed (fun w => (unpackAck tPUBREC version remLen w).map .pubrec)
  else if ptype = tPUBREL then
    .window .malformed (fun w => (unpackPubrel remLen w).map .pubrel)
  else if ptype = tPUBCOMP then
    .window .malformed (fun w => (unpackAck tPUBCOMP version remLen w).map .pubcomp)
  else if ptype = tSUBSCRIBE then
    if flags != 2 then .fail .malformed
    else .window .malformed (fun w => (unpackSubscribe version w).map .subscribe)
  else if ptype = tSUBACK then
    if flags != 0 then .fail .malformed
    else .window .malformed (fun w => (unpackSuback version w).map .suback)
  else if ptype = tUNSUBSCRIBE then
    if flags != 2 then .fail .malformed
    else .window .malformed (fun w => (unpackUnsubscribe version w).map .unsubscribe)
  else if ptype = tUNSUBACK then
    if flags != 0 then .fail .malformed
    else .window .malformed (fun w => (unpackUnsuback version w).map .unsuback)
  else if ptype = tPINGREQ then
    if flags != 0 then .fail .malformed
    else if remLen != 0 then .fail .malformed
    else .done .pingreq
  else if ptype = tPINGRESP then
    if flags != 0 then .fail .malformed
    else if remLen != 0 then .fail .malformed
    else .done .pingresp
  else if ptype = tDISCONNECT then
    if flags != 0 then .fail .malformed
    else .window .malformed (fun w => (unpackDisconnect version remLen w).map .disconnect)
  else if ptype = tAUTH then
    if flags != 0 then .fail .malformed
    else if remLen = 0 then .done (.auth { code := 0, props := none })
    else .window .malformed (fun w => (unpackAuth w).map .auth)
  else .fail .protocol

/-- carry the plan out on the stream that follows the fixed header -/
def runPlan (remLen : Nat) (stream : Bytes) : Plan → DecOut
  | .fail e => { res := .error e, rest := stream }
  | .window eShort f => withWindow remLen stream eShort f
  | .done p => { res := .ok p, rest := stream }

/-- `NewPacket(fh, version, r)`: `stream` = what follows the fixed header -/
def newPacket (ptype flags remLen version : Nat) (stream : Bytes) : DecOut :=
  runPlan remLen stream (planOf ptype flags remLen version)

/-- `Reader.ReadPacket()` with `r.version = version` on the byte stream `bs` -/
def readPacket (version : Nat) (bs : Bytes) : DecOut :=
  match bs with
  | [] => { res := .error .io, rest := [] }
  | first :: s1 =>
    match decVbi s1 with
    | .error e => { res := .error e, rest := vbiErrRest s1 0 0 }
    | .ok (n, s2) => newPacket (first / 16) (first % 16) n version s2

/-- ghost cost: the number of bytes `Unpack` allocates for the body (`make([]byte, RemainLength)`) before it has read a
    single body byte — the declared Remaining Length whenever the plan is to read a window (F24) -/
def allocBytes (version : Nat) (bs : Bytes) : Nat :=
  match bs with
  | [] => 0
  | first :: s1 =>
    match decVbi s1 with
    | .error _ => 0
    | .ok (n, _) =>
      match planOf (first / 16) (first % 16) n version with
      | .window _ _ => n
      | _ => 0

/-- reader version after a successful `ReadPacket` -/
def versionAfter (version : Nat) : Except Err Packet → Nat
  | .ok (.connect c) => c.version
  | _ => version

/-! ### Pack -/

/-- `FixHeader.Pack` -/
def packFixHeader (ptype flags remLen : Nat) : Except Err Bytes :=
  match encVbi remLen with
  | .error e => .error e
  | .ok l => .ok ((ptype * 16 % 256 + flags) :: l)

/-- header + body, the common tail of every `Pack` -/
def frame (ptype flags : Nat) (body : Bytes) : Except Err Bytes :=
  match packFixHeader ptype flags body.length with
  | .error e => .error e
  | .ok h => .ok (h ++ body)

def b2n (b : Bool) (n : Nat) : Nat := if b then n else 0

/-- first byte after the protocol level: the Connect Flags as `Pack` assembles them -/
def connectFlags (c : Connect) : Nat :=
  b2n c.usernameFlag 128 + b2n c.passwordFlag 64 + b2n c.willRetain 32 + b2n c.willFlag 4
    + (if c.willQos = 1 then 8 else if c.willQos = 2 then 16 else 0) + b2n c.cleanStart 2

def packWillPart (c : Connect) : Except Err Bytes :=
  if c.willFlag then
    match encodeUTF8String (c.willTopic.getD []) with
    | .error e => .error e
    | .ok wt =>
      match encodeUTF8String (c.willMsg.getD []) with
      | .error e => .error e
      | .ok wm => .ok ((if c.version = v5 then packWillProps c.wprops else []) ++ wt ++ wm)
  else .ok []

def packUserPart (c : Connect) : Except Err Bytes :=
  if c.usernameFlag then encodeUTF8String (c.username.getD []) else .ok []

def packPassPart (c : Connect) : Except Err Bytes :=
  if c.passwordFlag then encodeUTF8String (c.password.getD []) else .ok []

def connectHead (c : Connect) : Bytes :=
  writeBin c.protoName ++ [c.level, connectFlags c] ++ writeU16 c.keepAlive
    ++ (if c.version = v5 then packProps c.props else [])

def connectBody (c : Connect) : Except Err Bytes :=
  match encodeUTF8String c.clientID with
  | .error e => .error e
  | .ok cid =>
    match packWillPart c with
    | .error e => .error e
    | .ok wp =>
      match packUserPart c with
      | .error e => .error e
      | .ok up =>
        match packPassPart c with
        | .error e => .error e
        | .ok pp => .ok (connectHead c ++ cid ++ wp ++ up ++ pp)

def connackBody (c : Connack) : Bytes :=
  [if c.sessionPresent then 1 else 0, c.code] ++ (if c.version = v5 then packProps c.props else [])

def publishFlags (p : Publish) : Nat := b2n p.dup 8 + b2n p.retain 1 + p.qos * 2

def publishBody (p : Publish) : Bytes :=
  writeBin p.topic ++ (if p.qos = 1 || p.qos = 2 then writeU16 p.pid else [])
    ++ (if p.version = v5 then packProps p.props else []) ++ p.payload

/-- PUBACK / PUBREC / PUBCOMP -/
def ackBody (a : Ack) : Bytes :=
  writeU16 a.pid ++ (if a.version = v5 && (a.code != 0 || a.props.isSome) then a.code :: packProps a.props else [])

def pubrelBody (a : Ack) : Bytes :=
  writeU16 a.pid ++ (if a.code != 0 || a.props.isSome then a.code :: packProps a.props else [])

def subscribeBody (s : Subscribe) : Bytes :=
  writeU16 s.pid ++
    (if s.version = v5 then
      packProps s.props ++ s.topics.flatMap (fun t =>
        writeBin t.name ++ [t.qos + b2n t.noLocal 4 + b2n t.rap 8 + t.retainHandling * 16 % 256])
    else s.topics.flatMap (fun t => writeBin t.name ++ [t.qos]))

def subackBody (s : SubAck) : Bytes :=
  writeU16 s.pid ++ (if s.version = v5 then packProps s.props else []) ++ s.payload.getD []

def unsubscribeBody (u : Unsubscribe) : Bytes :=
  writeU16 u.pid ++ (if u.version = v5 then packProps u.props else []) ++ u.topics.flatMap writeBin

def disconnectBody (d : Disconnect) : Bytes :=
  if d.version = v311 || d.version = v31 then []
  else if d.code != 0 || d.props.isSome then d.code :: packProps d.props else []

def authBody (a : Auth) : Bytes :=
  if a.code != 0 || a.props.isSome then a.code :: packProps a.props else []

/-- body (variable header + payload) and first-byte flags that `Pack` produces -/
def bodyOf : Packet → Except Err (Nat × Nat × Bytes)
  | .connect c => (connectBody c).map (fun b => (tCONNECT, 0, b))
  | .connack c => .ok (tCONNACK, 0, connackBody c)
  | .publish p => .ok (tPUBLISH, publishFlags p, publishBody p)
  | .puback a => .ok (tPUBACK, 0, ackBody a)
  | .pubrec a => .ok (tPUBREC, 0, ackBody a)
  | .pubrel a => .ok (tPUBREL, 2, pubrelBody a)
  | .pubcomp a => .ok (tPUBCOMP, 0, ackBody a)
  | .subscribe s => .ok (tSUBSCRIBE, 2, subscribeBody s)
  | .suback s => .ok (tSUBACK, 0, subackBody s)
  | .unsubscribe u => .ok (tUNSUBSCRIBE, 2, unsubscribeBody u)
  | .unsuback s => .ok (tUNSUBACK, 0, subackBody s)
  | .pingreq => .ok (tPINGREQ, 0, [])
  | .pingresp => .ok (tPINGRESP, 0, [])
  | .disconnect d => .ok (tDISCONNECT, 0, disconnectBody d)
  | .auth a => .ok (tAUTH, 0, authBody a)

/-- `p.Pack(w)` -/
def pack (p : Packet) : Except Err Bytes :=
  match bodyOf p with
  | .error e => .error e
  | .ok (t, fl, body) => frame t fl body

end GmqttVerif.Codec
