/-
  Codec primitives of `pkg/packets/packets.go` (gmqtt), modelled on byte lists.

  A byte is a `Nat` below 256 (`AllBytes`); a `bytes.Buffer` / `io.Reader` is the list of bytes still unread.
  Every reader returns the value together with the unread rest, so "how much was consumed" is explicit.

  Names follow the Go source — note that gmqtt calls the function that READS a variable byte
  integer `EncodeRemainLength` and the one that WRITES it `DecodeRemainLength`:
    `decVbi`  = `EncodeRemainLength`   (reader)
    `encVbi`  = `DecodeRemainLength`   (writer)
-/
namespace GmqttVerif.Codec

abbrev Bytes := List Nat

/-- every element is a byte -/
def AllBytes (bs : Bytes) : Prop := ∀ b ∈ bs, b < 256

/-- error classes: `codes.Error{Code}` / `io.EOF`,`io.ErrUnexpectedEOF` / any other `error` (`fmt.Errorf`) -/
inductive Err
  | io
  | code (c : Nat)
  | other
  deriving Repr, DecidableEq, Inhabited

abbrev Err.malformed : Err := .code 0x81
abbrev Err.protocol : Err := .code 0x82

/-- largest value of a variable byte integer, `268435455` -/
def vbiMax : Nat := 268435455

/-- `uint32(x) << m` as Go evaluates it for a `uint32` shift count: 0 for `m ≥ 32`, truncated to 32 bits -/
def shl32 (x m : Nat) : Nat := if m ≥ 32 then 0 else (x * 2 ^ m) % 4294967296

/-- loop of `EncodeRemainLength`. `r.ReadByte()` at end of input yields `(0, io.EOF)`, and the code ignores
    `io.EOF`: the missing byte is treated as a terminating `0x00`. The byte count is not limited; `multiplier`
    is a `uint32` and wraps. -/
def decVbiAux : Bytes → Nat → Nat → Except Err (Nat × Bytes)
  | [], vbi, _ => if vbi > vbiMax then .error .malformed else .ok (vbi, [])
  | d :: rest, vbi, mult =>
    let vbi' := vbi ||| shl32 (d % 128) mult
    if vbi' > vbiMax then .error .malformed
    else if d < 128 then .ok (vbi', rest)
    else decVbiAux rest vbi' ((mult + 7) % 4294967296)

/-- `EncodeRemainLength(r)`: reads a variable byte integer -/
def decVbi (bs : Bytes) : Except Err (Nat × Bytes) := decVbiAux bs 0 0

/-- the unread rest of the input at the moment `EncodeRemainLength` gives up with ErrMalformed
    (only used to report how many bytes a failed `ReadPacket` consumed) -/
def vbiErrRest : Bytes → Nat → Nat → Bytes
  | [], _, _ => []
  | d :: rest, vbi, mult =>
    let vbi' := vbi ||| shl32 (d % 128) mult
    if vbi' > vbiMax then rest
    else if d < 128 then rest
    else vbiErrRest rest vbi' ((mult + 7) % 4294967296)

/-- the `for` loop of `DecodeRemainLength`; `fuel` = size of the pre-allocated result slice -/
def vbiDigits : Nat → Nat → Bytes
  | 0, _ => []
  | fuel + 1, n => if n / 128 > 0 then (n % 128 + 128) :: vbiDigits fuel (n / 128) else [n % 128]

/-- `DecodeRemainLength(length)`: writes a variable byte integer (1–4 bytes) or fails for `length ≥ 2^28` -/
def encVbi (n : Nat) : Except Err Bytes :=
  if n < 268435456 then .ok (vbiDigits 4 n) else .error .malformed

/-- `b, _ := DecodeRemainLength(n); w.Write(b)` — the callers inside `Properties.Pack` drop the error -/
def encVbiOrNil (n : Nat) : Bytes :=
  match encVbi n with
  | .ok b => b
  | .error _ => []

/-- number of bytes `DecodeRemainLength` produces; `getVariablelenght` of message.go (0 when too large) -/
def vbiLen (n : Nat) : Nat :=
  if n ≤ 127 then 1 else if n ≤ 16383 then 2 else if n ≤ 2097151 then 3 else if n ≤ 268435455 then 4 else 0

/-- `readUint16` -/
def readU16 : Bytes → Except Err (Nat × Bytes)
  | a :: b :: rest => .ok (a * 256 + b, rest)
  | _ => .error .malformed

/-- `writeUint16` (argument already a `uint16`; the two `byte(..)` conversions truncate) -/
def writeU16 (n : Nat) : Bytes := [n / 256 % 256, n % 256]

/-- `readUint32` -/
def readU32 : Bytes → Except Err (Nat × Bytes)
  | a :: b :: c :: d :: rest => .ok (((a * 256 + b) * 256 + c) * 256 + d, rest)
  | _ => .error .malformed

/-- `writeUint32` -/
def writeU32 (n : Nat) : Bytes := [n / 16777216 % 256, n / 65536 % 256, n / 256 % 256, n % 256]

/-- `r.ReadByte()` on a `bytes.Buffer`, error mapped by the caller -/
def readByte (e : Err) : Bytes → Except Err (Nat × Bytes)
  | b :: rest => .ok (b, rest)
  | [] => .error e

/-- `writeBinary` / `writeUTF8String`: `uint16(len(s))` silently truncates the length of an over-long field -/
def writeBin (s : Bytes) : Bytes := writeU16 (s.length % 65536) ++ s

/-- `EncodeUTF8String` (used by `Connect.Pack`): checks the length -/
def encodeUTF8String (s : Bytes) : Except Err Bytes :=
  if s.length > 65535 then .error .malformed else .ok (writeU16 s.length ++ s)

/-- length-prefixed field without any content check: `readUTF8String(false, r)` -/
def readBin : Bytes → Except Err (Bytes × Bytes)
  | a :: b :: rest =>
    let n := a * 256 + b
    if rest.length < n then .error .malformed else .ok (rest.take n, rest.drop n)
  | _ => .error .malformed

end GmqttVerif.Codec
