/-
  Tables of pkg/packets/properties.go, written as plain `def`s so that a go/ast extractor can regenerate this file:

    `validProps`  = `ValidProperties` (property id ↦ packet types the server accepts it in)
    `propKinds`   = which `propertyRead*` function the `switch` of `Properties.Unpack` uses for the id
    `packOrder`   = the order of the `propertyWrite*` calls in `Properties.Pack`
    `willProps`   = the `case`s of `UnpackWillProperties` / the calls of `PackWillProperties`

  `propKinds` reflects the F25 fix (de2e2ba): 0x16 (Authentication Data) is read with `propertyReadBinary`
  (before the fix: `propertyReadUTF8String`, see `Orig.propKinds`).
-/
namespace GmqttVerif.Codec

/-- packet type numbers -/
def tCONNECT : Nat := 1
def tCONNACK : Nat := 2
def tPUBLISH : Nat := 3
def tPUBACK : Nat := 4
def tPUBREC : Nat := 5
def tPUBREL : Nat := 6
def tPUBCOMP : Nat := 7
def tSUBSCRIBE : Nat := 8
def tSUBACK : Nat := 9
def tUNSUBSCRIBE : Nat := 10
def tUNSUBACK : Nat := 11
def tPINGREQ : Nat := 12
def tPINGRESP : Nat := 13
def tDISCONNECT : Nat := 14
def tAUTH : Nat := 15

/-- wire type of a property, i.e. the reader used for it:
    `byte` = propertyReadBool (value must be 0 or 1), `u16`, `u32`, `str` = propertyReadUTF8String,
    `bin` = propertyReadBinary, `vbi` = the Subscription Identifier case, `user` = the User Property case -/
inductive PKind
  | byte | u16 | u32 | str | bin | vbi | user
  deriving Repr, DecidableEq, Inhabited

def propKinds : List (Nat × PKind) := [
  (0x01, .byte), (0x02, .u32), (0x03, .str), (0x08, .str), (0x09, .bin), (0x0B, .vbi),
  (0x11, .u32), (0x12, .str), (0x13, .u16), (0x15, .str), (0x16, .bin), (0x17, .byte),
  (0x18, .u32), (0x19, .byte), (0x1A, .str), (0x1C, .str), (0x1F, .str), (0x21, .u16),
  (0x22, .u16), (0x23, .u16), (0x24, .byte), (0x25, .byte), (0x26, .user), (0x27, .u32),
  (0x28, .byte), (0x29, .byte), (0x2A, .byte)]

namespace Orig
/-- unchanged tree: Authentication Data (0x16) is read as a UTF-8 string (F25) -/
def propKinds : List (Nat × PKind) := [
  (0x01, .byte), (0x02, .u32), (0x03, .str), (0x08, .str), (0x09, .bin), (0x0B, .vbi),
  (0x11, .u32), (0x12, .str), (0x13, .u16), (0x15, .str), (0x16, .str), (0x17, .byte),
  (0x18, .u32), (0x19, .byte), (0x1A, .str), (0x1C, .str), (0x1F, .str), (0x21, .u16),
  (0x22, .u16), (0x23, .u16), (0x24, .byte), (0x25, .byte), (0x26, .user), (0x27, .u32),
  (0x28, .byte), (0x29, .byte), (0x2A, .byte)]
end Orig

/-- order in which `Properties.Pack` writes the properties -/
def packOrder : List Nat := [
  0x01, 0x02, 0x03, 0x08, 0x09, 0x0B, 0x11, 0x12, 0x13, 0x15, 0x16, 0x17, 0x18, 0x19, 0x1A, 0x1C, 0x1F,
  0x21, 0x22, 0x23, 0x24, 0x25, 0x26, 0x27, 0x28, 0x29, 0x2A]

/-- `ValidProperties` -/
def validProps : List (Nat × List Nat) := [
  (0x01, [tCONNECT, tPUBLISH]),
  (0x02, [tCONNECT, tPUBLISH]),
  (0x03, [tCONNECT, tPUBLISH]),
  (0x08, [tCONNECT, tPUBLISH]),
  (0x09, [tCONNECT, tPUBLISH]),
  (0x0B, [tSUBSCRIBE]),
  (0x11, [tCONNECT, tCONNACK, tDISCONNECT]),
  (0x12, [tCONNACK]),
  (0x13, [tCONNACK]),
  (0x15, [tCONNECT, tCONNACK, tAUTH]),
  (0x16, [tCONNECT, tCONNACK, tAUTH]),
  (0x17, [tCONNECT]),
  (0x18, [tCONNECT]),
  (0x19, [tCONNECT]),
  (0x1A, [tCONNACK]),
  (0x1C, [tCONNACK, tDISCONNECT]),
  (0x1F, [tCONNACK, tPUBACK, tPUBREC, tPUBREL, tPUBCOMP, tSUBACK, tUNSUBACK, tDISCONNECT, tAUTH]),
  (0x21, [tCONNECT, tCONNACK]),
  (0x22, [tCONNECT, tCONNACK]),
  (0x23, [tPUBLISH]),
  (0x24, [tCONNACK]),
  (0x25, [tCONNACK]),
  (0x26, [tCONNECT, tCONNACK, tPUBLISH, tPUBACK, tPUBREC, tPUBREL, tPUBCOMP, tSUBSCRIBE, tUNSUBSCRIBE, tSUBACK,
          tUNSUBACK, tDISCONNECT, tAUTH]),
  (0x27, [tCONNECT, tCONNACK]),
  (0x28, [tCONNACK]),
  (0x29, [tCONNACK]),
  (0x2A, [tCONNACK])]

/-- property ids handled by `UnpackWillProperties` / written by `PackWillProperties` (in that order) -/
def willProps : List Nat := [0x01, 0x02, 0x03, 0x08, 0x09, 0x18, 0x26]

end GmqttVerif.Codec
