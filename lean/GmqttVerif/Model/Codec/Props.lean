import GmqttVerif.Model.Codec.TopicValid
import GmqttVerif.Model.Codec.PropTable
/-
  `Properties.Unpack / Pack / UnpackWillProperties / PackWillProperties` (pkg/packets/properties.go).

  The Go struct `Properties` has one pointer / slice field per property id. It is modelled as an association list
  `id ↦ value`, kept sorted by id with at most one entry per id (rule "maps → association lists"): a field that is
  `nil` has no entry. `Properties.Pack` writes the fields in ascending id order (`packOrder`), i.e. in list order.
    *byte / *uint16 / *uint32      ↦ `.byte n` / `.u16 n` / `.u32 n`
    []byte (string or binary)      ↦ `.str b`            (non-nil, possibly empty)
    SubscriptionIdentifier []uint32↦ `.vbis l`           (entry present iff `len(l) != 0`)
    User []UserProperty            ↦ `.users l`          (entry present iff `len(l) != 0`)
  `*Properties == nil` vs `&Properties{}` is `Option Props` at the use sites.
-/
namespace GmqttVerif.Codec

inductive PVal
  | byte (n : Nat)
  | u16 (n : Nat)
  | u32 (n : Nat)
  | str (b : Bytes)
  | vbis (l : List Nat)
  | users (l : List (Bytes × Bytes))
  deriving Repr, DecidableEq, Inhabited

abbrev Props := List (Nat × PVal)

/-- the struct field for property `id` (`none` = nil) -/
def Props.get (ps : Props) (id : Nat) : Option PVal := List.lookup id ps

def Props.has (ps : Props) (id : Nat) : Bool := (ps.get id).isSome

/-- assign the struct field for `id` (sorted insert, replacing an existing entry) -/
def Props.put (id : Nat) (v : PVal) : Props → Props
  | [] => [(id, v)]
  | (i, w) :: t =>
    if id < i then (id, v) :: (i, w) :: t
    else if id = i then (id, v) :: t
    else (i, w) :: Props.put id v t

/-- `p.User = append(p.User, UserProperty{K: k, V: v})` -/
def Props.addUser (k v : Bytes) (ps : Props) : Props :=
  match ps.get 0x26 with
  | some (.users l) => ps.put 0x26 (.users (l ++ [(k, v)]))
  | _ => ps.put 0x26 (.users [(k, v)])

def kindOf (id : Nat) : Option PKind := List.lookup id propKinds

/-- `ValidateID(packetType, id)` -/
def propAllowed (t id : Nat) : Bool :=
  match List.lookup id validProps with
  | some l => l.contains t
  | none => false

/-- the `validate` closures handed to `propertyReadUint16` (Receive Maximum ≠ 0) -/
def validU16 (id o : Nat) : Bool := if id = 0x21 then o != 0 else true
/-- … to `propertyReadUint32` (Maximum Packet Size ≠ 0) -/
def validU32 (id o : Nat) : Bool := if id = 0x27 then o != 0 else true
/-- … to `propertyReadUTF8String` (Response Topic must be a topic name) -/
def validStr (id : Nat) (o : Bytes) : Bool := if id = 0x08 then validTopicName true o else true

/-- one `case` of the `switch` in `Properties.Unpack`: duplicate test, read, value test, assignment.
    `w` = `newBufr` after the id byte. The error classes differ per reader exactly as in the source:
    duplicate bool/uint16/subscription-id ⇒ ErrProtocol, duplicate uint32/string/binary ⇒ `errMorethanOnce` (a plain error). -/
def applyProp (id : Nat) (k : PKind) (acc : Props) (w : Bytes) : Except Err (Props × Bytes) :=
  match k with
  | .byte =>
    if acc.has id then .error .protocol else
    match w with
    | [] => .error .malformed
    | o :: rest => if o != 0 && o != 1 then .error .protocol else .ok (acc.put id (.byte o), rest)
  | .u16 =>
    if acc.has id then .error .protocol else
    match readU16 w with
    | .error _ => .error .malformed
    | .ok (o, rest) =>
      if !validU16 id o then .error .protocol
      else if id = 0x23 && o = 0 then .error (.code 0x94)
      else .ok (acc.put id (.u16 o), rest)
  | .u32 =>
    if acc.has id then .error .other else
    match readU32 w with
    | .error _ => .error .malformed
    | .ok (o, rest) => if !validU32 id o then .error .protocol else .ok (acc.put id (.u32 o), rest)
  | .str =>
    if acc.has id then .error .other else
    match readStr true w with
    | .error e => .error e
    | .ok (o, rest) => if !validStr id o then .error .protocol else .ok (acc.put id (.str o), rest)
  | .bin =>
    if acc.has id then .error .other else
    match readBin w with
    | .error _ => .error .malformed
    | .ok (o, rest) => .ok (acc.put id (.str o), rest)
  | .vbi =>
    if acc.has id then .error .protocol else
    match decVbi w with
    | .error _ => .error .malformed
    | .ok (si, rest) => if si = 0 then .error .protocol else .ok (acc.put id (.vbis [si]), rest)
  | .user =>
    match readStr true w with
    | .error _ => .error .malformed
    | .ok (k, rest) =>
      match readStr true rest with
      | .error _ => .error .malformed
      | .ok (v, rest') => .ok (acc.addUser k v, rest')

/-- may property `id` appear: `ValidateID(packetType, id)` for `Properties.Unpack` (`t = some packetType`);
    the `case` labels of `UnpackWillProperties` for `t = none` -/
def idAllowed (t : Option Nat) (id : Nat) : Bool :=
  match t with
  | some pt => propAllowed pt id
  | none => willProps.contains id

/-- what the loop returns for an id that may not appear: `ErrProtocol` after the `ValidateID` test of `Unpack`,
    `ErrMalformed` from the `default:` of `UnpackWillProperties` -/
def notAllowedErr (t : Option Nat) : Err :=
  match t with
  | some _ => .protocol
  | none => .malformed

/-- the `for` loop of `Properties.Unpack` (`t = some packetType`) and of `UnpackWillProperties` (`t = none`) over
    `newBufr`. Every round consumes the id byte, so `fuel = len(newBufr)` rounds suffice. -/
def unpackLoop (t : Option Nat) : Nat → Bytes → Props → Except Err Props
  | _, [], acc => .ok acc
  | 0, _ :: _, _ => .error .other
  | fuel + 1, id :: w, acc =>
    if !idAllowed t id then .error (notAllowedErr t) else
    match kindOf id with
    | none => .error .malformed
    | some k =>
      match applyProp id k acc w with
      | .error e => .error e
      | .ok (acc', w') => unpackLoop t fuel w' acc'

/-- `p.Unpack(bufr, packetType)` / `p.UnpackWillProperties(bufr)` on a fresh `&Properties{}`.
    `bufr.Next(length)` silently returns fewer bytes when the buffer is shorter than the declared length. -/
def unpackProps (t : Option Nat) (bufr : Bytes) : Except Err (Props × Bytes) :=
  match decVbi bufr with
  | .error e => .error e
  | .ok (len, rest) =>
    if len = 0 then .ok ([], rest) else
    match unpackLoop t (rest.take len).length (rest.take len) [] with
    | .error e => .error e
    | .ok ps =>
      if t.isSome && ps.has 0x16 && !ps.has 0x15 then .error .malformed
      else .ok (ps, rest.drop len)

/-- wire form of one struct field, as the `propertyWrite*` helpers and the two loops of `Pack` produce it -/
def encEntry : Nat × PVal → Bytes
  | (id, .byte n) => [id, n]
  | (id, .u16 n) => id :: writeU16 n
  | (id, .u32 n) => id :: writeU32 n
  | (id, .str b) => id :: writeBin b
  | (id, .vbis l) => l.flatMap (fun v => id :: encVbiOrNil v)
  | (id, .users l) => l.flatMap (fun kv => id :: (writeBin kv.1 ++ writeBin kv.2))

def packBody (ps : Props) : Bytes := ps.flatMap encEntry

/-- `p.Pack(bufw, packetType)` (p may be nil): property length, then the properties. The error of
    `DecodeRemainLength(newBufw.Len())` is dropped by the code. -/
def packProps (ps : Option Props) : Bytes :=
  let body := match ps with
    | none => []
    | some l => packBody l
  encVbiOrNil body.length ++ body

/-- `p.PackWillProperties(bufw)`: only the seven will properties are written -/
def packWillProps (ps : Option Props) : Bytes :=
  let body := match ps with
    | none => []
    | some l => packBody (l.filter (fun e => willProps.contains e.1))
  encVbiOrNil body.length ++ body

end GmqttVerif.Codec
