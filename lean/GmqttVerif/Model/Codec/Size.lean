import GmqttVerif.Model.Codec.Packets
/-
  `packets.TotalBytes` (packets.go), `Message.TotalBytes`, `MessageFromPublish`, `MessageToPublish` (message.go).

  Finding N5 (fixed in /repo by 06a58b6, mirrored here): `MessageToPublish` copied a non-nil but empty `CorrelationData`
  (`[]byte("")` from the admin API / federation, or an empty will correlation data) into the properties, so the
  packed PUBLISH carried `09 00 00` that `TotalBytes` does not count. `Orig.messageToPublish` keeps the code as found.
-/
namespace GmqttVerif.Codec

/-- `packets.TotalBytes(p)`: computed from the `FixHeader.RemainLength` the packet carries
    (set by `Pack`, or taken from the wire by `ReadPacket`) -/
def totalBytes (remLen : Nat) : Nat :=
  (if remLen ≤ 127 then 2 else if remLen ≤ 16383 then 3 else if remLen ≤ 2097151 then 4
   else if remLen ≤ 268435455 then 5 else 0) + remLen

/-- `gmqtt.Message`. Go strings are byte lists ("" = []); `CorrelationData` can be nil. -/
structure Message where
  dup : Bool
  qos : Nat
  retained : Bool
  topic : Bytes
  payload : Bytes
  pid : Nat
  contentType : Bytes
  correlationData : Option Bytes
  messageExpiry : Nat
  payloadFormat : Nat
  responseTopic : Bytes
  subIds : List Nat
  user : List (Bytes × Bytes)
  deriving Repr, DecidableEq, Inhabited

def optLen (o : Option Bytes) : Nat := (o.getD []).length

/-- `propertyLenght` of `Message.TotalBytes` -/
def msgPropsLen (m : Message) : Nat :=
  (if m.payloadFormat = 1 then 2 else 0)
  + (if m.contentType.length != 0 then 3 + m.contentType.length else 0)
  + (if optLen m.correlationData != 0 then 3 + optLen m.correlationData else 0)
  + (m.subIds.map (fun v => 1 + vbiLen v)).sum
  + (if m.messageExpiry != 0 then 5 else 0)
  + (if m.responseTopic.length != 0 then 3 + m.responseTopic.length else 0)
  + (m.user.map (fun kv => 5 + kv.1.length + kv.2.length)).sum

/-- `remainLenght` of `Message.TotalBytes` -/
def msgRemLen (version : Nat) (m : Message) : Nat :=
  m.payload.length + 2 + m.topic.length + (if m.qos > 0 then 2 else 0)
    + (if version = v5 then msgPropsLen m + vbiLen (msgPropsLen m) else 0)

/-- `m.TotalBytes(version)` -/
def msgTotalBytes (version : Nat) (m : Message) : Nat :=
  let rl := msgRemLen version m
  if rl ≤ 127 then 2 + rl else if rl ≤ 16383 then 3 + rl else if rl ≤ 2097151 then 4 + rl else 5 + rl

/-- an optional `[]byte` field of the `&packets.Properties{…}` literal -/
def optStrEntry (id : Nat) : Option Bytes → Props
  | some b => [(id, PVal.str b)]
  | none => []

/-- the `&packets.Properties{…}` literal of `MessageToPublish` as a sorted association list -/
def msgProps (pf : Nat) (expiry : Nat) (ct rt : Bytes) (cd : Option Bytes) (subIds : List Nat)
    (user : List (Bytes × Bytes)) : Props :=
  (if pf = 1 then [(0x01, PVal.byte pf)] else [])
  ++ (if expiry != 0 then [(0x02, PVal.u32 expiry)] else [])
  ++ (if ct.length != 0 then [(0x03, PVal.str ct)] else [])
  ++ (if rt.length != 0 then [(0x08, PVal.str rt)] else [])
  ++ optStrEntry 0x09 cd
  ++ (if subIds.length != 0 then [(0x0B, PVal.vbis subIds)] else [])
  ++ (if user.length != 0 then [(0x26, PVal.users user)] else [])

/-- `MessageToPublish(msg, version)` with the N5 fix (empty correlation data is not forwarded) -/
def messageToPublish (m : Message) (version : Nat) : Publish :=
  { version := version, dup := m.dup, qos := m.qos, retain := m.retained, topic := m.topic, pid := m.pid,
    payload := m.payload,
    props := if version = v5 then
        some (msgProps m.payloadFormat m.messageExpiry m.contentType m.responseTopic
          (if optLen m.correlationData != 0 then m.correlationData else none) m.subIds m.user)
      else none }

namespace Orig
/-- unchanged tree: `CorrelationData: msg.CorrelationData` whatever its length -/
def messageToPublish (m : Message) (version : Nat) : Publish :=
  { version := version, dup := m.dup, qos := m.qos, retain := m.retained, topic := m.topic, pid := m.pid,
    payload := m.payload,
    props := if version = v5 then
        some (msgProps m.payloadFormat m.messageExpiry m.contentType m.responseTopic m.correlationData m.subIds m.user)
      else none }
end Orig

def pvStr : Option PVal → Option Bytes
  | some (.str b) => some b
  | _ => none

def pvNum : Option PVal → Option Nat
  | some (.byte n) => some n
  | some (.u16 n) => some n
  | some (.u32 n) => some n
  | _ => none

/-- `MessageFromPublish(p)` (the caller's `PacketID` is not copied by the Go function) -/
def messageFromPublish (p : Publish) : Message :=
  let ps := p.props.getD []
  let v5p := p.version = v5
  { dup := p.dup, qos := p.qos, retained := p.retain, topic := p.topic, payload := p.payload, pid := 0,
    payloadFormat := if v5p then (pvNum (ps.get 0x01)).getD 0 else 0,
    contentType := if v5p then (pvStr (ps.get 0x03)).getD [] else [],
    correlationData := if v5p && optLen (pvStr (ps.get 0x09)) != 0 then pvStr (ps.get 0x09) else none,
    messageExpiry := if v5p then (pvNum (ps.get 0x02)).getD 0 else 0,
    responseTopic := if v5p then (pvStr (ps.get 0x08)).getD [] else [],
    subIds := [],
    user := if v5p then (match ps.get 0x26 with | some (.users l) => l | _ => []) else [] }

end GmqttVerif.Codec
