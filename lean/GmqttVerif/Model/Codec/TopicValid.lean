import GmqttVerif.Model.Codec.Utf8
/-
  `ValidTopicName`, `ValidTopicFilter`, `ValidV5Topic` of pkg/packets/packets.go.

  The loops walk the byte slice rune by rune (`utf8.DecodeRune`) and look at a byte only when the rune
  has size 1. `p[size:]` is `tl.drop (size - 1)` for `p = p0 :: tl` (size ≥ 1 for non-empty input).

  The model mirrors the tree after the fixes 11b2dae (F21), 4c8d3ed (F22), 382d423 (F26); the `Orig` namespace keeps
  the functions exactly as they were found:
    F21  `ValidTopicFilter`: the "`+` must be followed by `/`" test sits inside `isSetPrevByte`, so it is skipped
         for the first byte: "+a" is accepted.
    F22  `ru == utf8.RuneError` without `size == 1` rejects U+FFFD.
    F26  `ValidTopicName("")` is true.
-/
namespace GmqttVerif.Codec

def cPlus : Nat := 0x2B
def cHash : Nat := 0x23
def cSlash : Nat := 0x2F

/-- `plen > 1 && p[1] != '/'` -/
def headNotSlash : Bytes → Bool
  | b :: _ => b != cSlash
  | [] => false

/-- `isSetPrevByte && prevByte != '/'` -/
def prevNotSlash : Option Nat → Bool
  | some pb => pb != cSlash
  | none => false

/-- the `for len(p) > 0` loop of `ValidTopicName(mustUTF8, p)` -/
def validTopicNameLoop (must : Bool) : Bytes → Bool
  | [] => true
  | p0 :: tl =>
    let rs := decodeRune (p0 :: tl)
    if must && badRune rs.1 rs.2 then false
    else if rs.2 = 1 && (p0 = cPlus || p0 = cHash) then false
    else validTopicNameLoop must (tl.drop (rs.2 - 1))
termination_by p => p.length
decreasing_by simp [List.length_drop]; omega

/-- `ValidTopicName(mustUTF8, p)` with the F26 fix (`len(p) == 0` ⇒ false) -/
def validTopicName (must : Bool) (p : Bytes) : Bool := !p.isEmpty && validTopicNameLoop must p

/-- loop of `ValidTopicFilter`; `prev` = `prevByte` (`none` while `isSetPrevByte` is false) -/
def validTopicFilterLoop (must : Bool) : Bytes → Option Nat → Bool
  | [], _ => true
  | p0 :: tl, prev =>
    let rs := decodeRune (p0 :: tl)
    if must && badRune rs.1 rs.2 then false
    else if p0 = cHash && !tl.isEmpty then false
    else if rs.2 = 1 && (p0 = cPlus || p0 = cHash) && prevNotSlash prev then false
    else if rs.2 = 1 && p0 = cPlus && headNotSlash tl then false
    else validTopicFilterLoop must (tl.drop (rs.2 - 1)) (some p0)
termination_by p => p.length
decreasing_by simp [List.length_drop]; omega

/-- `ValidTopicFilter(mustUTF8, p)` (F21 fixed) -/
def validTopicFilter (must : Bool) (p : Bytes) : Bool := !p.isEmpty && validTopicFilterLoop must p none

/-- "$share/" -/
def sharePrefix : Bytes := [0x24, 0x73, 0x68, 0x61, 0x72, 0x65, 0x2F]

/-- the loop over `subp := p[7:]` in `ValidV5Topic` -/
def shareLoop : Bytes → Bool
  | [] => false
  | s0 :: tl =>
    let rs := decodeRune (s0 :: tl)
    if badRune rs.1 rs.2 then false
    else if rs.2 = 1 && s0 = cSlash then validTopicFilter true tl
    else if rs.2 = 1 && (s0 = cPlus || s0 = cHash) then false
    else shareLoop (tl.drop (rs.2 - 1))
termination_by p => p.length
decreasing_by simp [List.length_drop]; omega

/-- `ValidV5Topic(p)` -/
def validV5Topic (p : Bytes) : Bool :=
  if p.isEmpty then false
  else if sharePrefix.isPrefixOf p then
    if p.length < 9 then false
    else if (p.drop 7).head? != some cSlash then shareLoop (p.drop 7)
    else false
  else validTopicFilter true p

namespace Orig

def badRune (ru _size : Nat) : Bool := ru == runeError

def validTopicNameLoop (must : Bool) : Bytes → Bool
  | [] => true
  | p0 :: tl =>
    let rs := decodeRune (p0 :: tl)
    if must && badRune rs.1 rs.2 then false
    else if rs.2 = 1 && (p0 = cPlus || p0 = cHash) then false
    else validTopicNameLoop must (tl.drop (rs.2 - 1))
termination_by p => p.length
decreasing_by simp [List.length_drop]; omega

/-- unchanged tree: the empty topic name is "valid" (F26) -/
def validTopicName (must : Bool) (p : Bytes) : Bool := validTopicNameLoop must p

def validTopicFilterLoop (must : Bool) : Bytes → Option Nat → Bool
  | [], _ => true
  | p0 :: tl, prev =>
    let rs := decodeRune (p0 :: tl)
    if must && badRune rs.1 rs.2 then false
    else if p0 = cHash && !tl.isEmpty then false
    else if rs.2 = 1 && prev.isSome && (((p0 = cPlus || p0 = cHash) && prevNotSlash prev)
                                         || (p0 = cPlus && headNotSlash tl)) then false
    else validTopicFilterLoop must (tl.drop (rs.2 - 1)) (some p0)
termination_by p => p.length
decreasing_by simp [List.length_drop]; omega

def validTopicFilter (must : Bool) (p : Bytes) : Bool := !p.isEmpty && validTopicFilterLoop must p none

def shareLoop : Bytes → Bool
  | [] => false
  | s0 :: tl =>
    let rs := decodeRune (s0 :: tl)
    if badRune rs.1 rs.2 then false
    else if rs.2 = 1 && s0 = cSlash then validTopicFilter true tl
    else if rs.2 = 1 && (s0 = cPlus || s0 = cHash) then false
    else shareLoop (tl.drop (rs.2 - 1))
termination_by p => p.length
decreasing_by simp [List.length_drop]; omega

def validV5Topic (p : Bytes) : Bool :=
  if p.isEmpty then false
  else if sharePrefix.isPrefixOf p then
    if p.length < 9 then false
    else if (p.drop 7).head? != some cSlash then shareLoop (p.drop 7)
    else false
  else validTopicFilter true p

end Orig

end GmqttVerif.Codec
