import GmqttVerif.Model.Codec.Prim
/-
  `unicode/utf8.DecodeRune` (Go standard library, table driven) and `packets.ValidUTF8`.

  Bit operations of the Go source are written arithmetically (operands are bytes):
    `p0 & mask2` = `p0 % 32`, `p0 & mask3` = `p0 % 16`, `p0 & mask4` = `p0 % 8`, `b & maskx` = `b % 64`,
    `x << 6 | y` = `x * 64 + y` for `y < 64`.

  Finding F22 (fixed in /repo by 4c8d3ed): the tree used to test `ru == utf8.RuneError` without `size == 1`
  and therefore rejected a correctly encoded U+FFFD (EF BF BD). The model mirrors the repaired code;
  `Orig.validUTF8` keeps the code as it was found.
-/
namespace GmqttVerif.Codec

def runeError : Nat := 0xFFFD

/-- class of the first byte: the `first` table of unicode/utf8 together with `acceptRanges`:
    `(size, lo, hi)` where `lo..hi` is the accepted range of the second byte; size 1 = ASCII, size 0 = invalid (`xx`) -/
def firstInfo (p0 : Nat) : Nat × Nat × Nat :=
  if p0 < 0x80 then (1, 0, 0)
  else if p0 < 0xC2 then (0, 0, 0)
  else if p0 < 0xE0 then (2, 0x80, 0xBF)
  else if p0 = 0xE0 then (3, 0xA0, 0xBF)
  else if p0 < 0xED then (3, 0x80, 0xBF)
  else if p0 = 0xED then (3, 0x80, 0x9F)
  else if p0 < 0xF0 then (3, 0x80, 0xBF)
  else if p0 = 0xF0 then (4, 0x90, 0xBF)
  else if p0 < 0xF4 then (4, 0x80, 0xBF)
  else if p0 = 0xF4 then (4, 0x80, 0x8F)
  else (0, 0, 0)

/-- continuation byte `locb ≤ b ≤ hicb` -/
def isCont (b : Nat) : Bool := 0x80 ≤ b && b ≤ 0xBF

/-- the multi-byte part of `utf8.DecodeRune`: `sz` = expected size (2..4), `lo..hi` = accept range of the second byte -/
def decodeMulti (sz lo hi p0 : Nat) (tl : Bytes) : Nat × Nat :=
  if tl.length + 1 < sz then (runeError, 1) else
  match tl with
  | [] => (runeError, 1)
  | b1 :: tl1 =>
    if b1 < lo || hi < b1 then (runeError, 1)
    else if sz ≤ 2 then (p0 % 32 * 64 + b1 % 64, 2)
    else match tl1 with
      | [] => (runeError, 1)
      | b2 :: tl2 =>
        if !isCont b2 then (runeError, 1)
        else if sz ≤ 3 then ((p0 % 16 * 64 + b1 % 64) * 64 + b2 % 64, 3)
        else match tl2 with
          | [] => (runeError, 1)
          | b3 :: _ =>
            if !isCont b3 then (runeError, 1)
            else (((p0 % 8 * 64 + b1 % 64) * 64 + b2 % 64) * 64 + b3 % 64, 4)

/-- `utf8.DecodeRune(p)`: `(rune, size)` -/
def decodeRune : Bytes → Nat × Nat
  | [] => (runeError, 0)
  | p0 :: tl =>
    let fi := firstInfo p0
    if fi.1 = 1 then (p0, 1)                       -- ASCII
    else if fi.1 = 0 then (runeError, 1)           -- `xx`
    else decodeMulti fi.1 fi.2.1 fi.2.2 p0 tl

/-- `utf8.ValidRune` -/
def validRune (r : Nat) : Bool := r < 0xD800 || (0xDFFF < r && r ≤ 0x10FFFF)

/-- the control-character ranges `ValidUTF8` refuses: U+0000–U+001F [MQTT-1.5.3-2] and U+007F–U+009F -/
def ctlRune (r : Nat) : Bool := r ≤ 0x1F || (0x7F ≤ r && r ≤ 0x9F)

/-- the rune test of the fixed code: an *invalid encoding* is `(RuneError, 1)`; `(RuneError, 3)` is a genuine U+FFFD -/
def badRune (ru size : Nat) : Bool := ru == runeError && size == 1

/-- `ValidUTF8(p)` with the F22 fix (`ru == utf8.RuneError && size == 1`) -/
def validUTF8 : Bytes → Bool
  | [] => true
  | p0 :: tl =>
    let rs := decodeRune (p0 :: tl)
    if ctlRune rs.1 then false
    else if badRune rs.1 rs.2 then false
    else if !validRune rs.1 then false
    else if rs.2 = 0 then true
    else validUTF8 (tl.drop (rs.2 - 1))
termination_by p => p.length
decreasing_by simp [List.length_drop]; omega

namespace Orig
/-- `ValidUTF8(p)` exactly as in the unchanged tree: `ru == utf8.RuneError` rejects U+FFFD itself (F22) -/
def validUTF8 : Bytes → Bool
  | [] => true
  | p0 :: tl =>
    let rs := decodeRune (p0 :: tl)
    if ctlRune rs.1 then false
    else if rs.1 == runeError then false
    else if !validRune rs.1 then false
    else if rs.2 = 0 then true
    else validUTF8 (tl.drop (rs.2 - 1))
termination_by p => p.length
decreasing_by simp [List.length_drop]; omega
end Orig

/-- `readUTF8String(mustUTF8, r)` -/
def readStr (must : Bool) : Bytes → Except Err (Bytes × Bytes)
  | a :: b :: rest =>
    let n := a * 256 + b
    if rest.length < n then .error .malformed
    else if must && !validUTF8 (rest.take n) then .error .malformed
    else .ok (rest.take n, rest.drop n)
  | _ => .error .malformed

end GmqttVerif.Codec
