import GmqttVerif.Model.Topic
/-
  `deliverMessage` = `newDeliverHandler` + `flush` + `addMsgToQueueLocked` (server/server.go) as a pure function.

  Input: the subscription table as `(clientID, subscription)` pairs (what `subscriptionsDB.Iterate(TypeAll,
  MatchFilter, topic)` visits is the matching part of it — `deliver` does the matching itself through
  the declarative relation `Topic.MatchesTopic`, justified by C02), the source client, the message,
  a choice function for shared groups (stands for `rand.Intn`).
  Output: the list of enqueue requests `(clientID, message as stored in that client's queue)`.
-/
namespace GmqttVerif.Deliver

structure Sub where
  share  : String := ""
  filter : String
  qos    : Nat
  nl     : Bool := false
  rap    : Bool := false
  rh     : Nat := 0
  id     : Nat := 0
  deriving Repr, DecidableEq, Inhabited

structure Msg where
  topic    : String
  tag      : String            -- payload identity
  plen     : Nat               -- payload length
  qos      : Nat
  retained : Bool := false
  dup      : Bool := false
  expiry   : Nat := 0          -- Message Expiry Interval (s), 0 = none
  sids     : List Nat := []    -- subscription identifiers
  deriving Repr, DecidableEq, Inhabited

def Sub.fullName (s : Sub) : String :=
  if s.share ≠ "" then "$share/" ++ s.share ++ "/" ++ s.filter else s.filter

/-- does the subscription's filter match the topic name (MQTT 4.7) -/
def subMatches (s : Sub) (topic : String) : Bool :=
  Topic.MatchesTopic s.filter.toList topic.toList

/-- what `addMsgToQueueLocked` does to the copy it enqueues -/
def downgrade (m : Msg) (s : Sub) (ids : List Nat) : Msg :=
  { m with qos := min m.qos s.qos,
           sids := m.sids ++ ids.filter (· ≠ 0),
           dup := false,
           retained := s.rap && m.retained }

/-- subscriptions the iteration callback does not skip: matching, and not (NoLocal ∧ own message) -/
def eligible (src : String) (topic : String) (table : List (String × Sub)) : List (String × Sub) :=
  table.filter (fun cs => subMatches cs.2 topic && !(cs.2.nl && cs.1 == src))

/-- overlap mode: one enqueue per matching non-shared subscription -/
def overlap (m : Msg) (el : List (String × Sub)) : List (String × Msg) :=
  (el.filter (fun cs => cs.2.share == "")).map (fun cs => (cs.1, downgrade m cs.2 [cs.2.id]))

/-- onlyonce mode accumulator: per client the subscription of (first) maximal QoS and all ids, in visit order -/
def onceAcc : List (String × Sub) → List (String × Sub × List Nat) → List (String × Sub × List Nat)
  | [], acc => acc
  | (c, s) :: rest, acc =>
    match acc.find? (fun e => e.1 == c) with
    | none => onceAcc rest (acc ++ [(c, s, [s.id])])
    | some _ =>
      onceAcc rest (acc.map (fun e =>
        if e.1 == c then (c, (if e.2.1.qos < s.qos then s else e.2.1), e.2.2 ++ [s.id]) else e))

def onlyonce (m : Msg) (el : List (String × Sub)) : List (String × Msg) :=
  (onceAcc (el.filter (fun cs => cs.2.share == "")) []).map (fun e => (e.1, downgrade m e.2.1 e.2.2))

/-- distinct full names of the shared subscriptions visited, in visit order -/
def sharedGroups (el : List (String × Sub)) : List String :=
  ((el.filter (fun cs => cs.2.share != "")).map (fun cs => cs.2.fullName)).eraseDups

/-- shared subscriptions: one member per full name `$share/g/f`, chosen by `pick` -/
def shared (m : Msg) (el : List (String × Sub)) (pick : String → List (String × Sub) → Option (String × Sub)) :
    List (String × Msg) :=
  (sharedGroups el).filterMap (fun g =>
    let members := el.filter (fun cs => cs.2.share != "" && cs.2.fullName == g)
    match pick g members with
    | some (c, s) => some (c, downgrade m s [s.id])
    | none => none)

/-- the whole of `deliverMessage`: (matched, enqueue requests), in the order the code enqueues: overlap mode adds
    during the iteration and `flush` then serves the shared groups; onlyonce mode does everything in `flush`,
    shared groups first. The filter on queue existence / `queue_qos0_messages` is applied by the caller. -/
def deliver (onlyOnceMode : Bool) (src : String) (table : List (String × Sub)) (m : Msg)
    (pick : String → List (String × Sub) → Option (String × Sub)) : Bool × List (String × Msg) :=
  let el := eligible src m.topic table
  (!el.isEmpty, if onlyOnceMode then shared m el pick ++ onlyonce m el else overlap m el ++ shared m el pick)

end GmqttVerif.Deliver
