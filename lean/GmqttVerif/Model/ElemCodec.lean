import GmqttVerif.Model.Codec.Prim
/-
  The binary encodings of gmqtt's persistence layer:

    persistence/encoding/binary.go   WriteUint16/32, WriteBool, WriteString / ReadString …
    persistence/encoding/redis.go    EncodeMessage / DecodeMessage / DecodeMessageFromBytes
    persistence/queue/elem.go        Elem.Encode / Elem.Decode (Publish and Pubrel bodies)
    persistence/subscription/redis   EncodeSubscription / DecodeSubscription
    the five fields of the `session:<id>` hash as redigo writes and scans them (decimal integers)

  Go widths: a field whose Go type is uint8/uint16/uint32 is a `Nat` here and the `WF` predicates say it is in
  range; the one real truncation in the format — `WriteString` writes `uint16(len(s))` (F30) — is modelled by
  `writeBin` (`% 65536`).
-/
namespace GmqttVerif.ElemCodec
open GmqttVerif.Codec

/-- `gmqtt.Message` -/
structure Message where
  dup : Bool := false
  qos : Nat := 0
  retained : Bool := false
  topic : Bytes := []
  payload : Bytes := []
  pid : Nat := 0
  contentType : Bytes := []
  correlationData : Bytes := []
  messageExpiry : Nat := 0
  payloadFormat : Nat := 0
  responseTopic : Bytes := []
  subIds : List Nat := []
  userProps : List (Bytes × Bytes) := []
  deriving Repr, DecidableEq, Inhabited

def writeBool (b : Bool) : Bytes := [if b then 1 else 0]

/-- `ReadBool`: any non-zero byte is true -/
def readBool : Bytes → Except Err (Bool × Bytes)
  | b :: rest => .ok (b != 0, rest)
  | [] => .error .io

def encodeSubIds : List Nat → Bytes
  | [] => []
  | v :: vs => 0x0B :: encVbiOrNil v ++ encodeSubIds vs

def encodeUserProps : List (Bytes × Bytes) → Bytes
  | [] => []
  | (k, v) :: ps => 0x26 :: writeBin k ++ writeBin v ++ encodeUserProps ps

/-- the property part of `EncodeMessage`, in the order the code writes it -/
def encodeProps (m : Message) : Bytes :=
  (if m.contentType.length ≠ 0 then 0x03 :: writeBin m.contentType else []) ++
  (if m.correlationData.length ≠ 0 then 0x09 :: writeBin m.correlationData else []) ++
  (if m.messageExpiry ≠ 0 then 0x02 :: writeU32 m.messageExpiry else []) ++
  [0x01, m.payloadFormat] ++
  (if m.responseTopic.length ≠ 0 then 0x08 :: writeBin m.responseTopic else []) ++
  encodeSubIds m.subIds ++
  encodeUserProps m.userProps

/-- `encoding.EncodeMessage` for a non-nil message -/
def encodeMessage (m : Message) : Bytes :=
  writeBool m.dup ++ [m.qos] ++ writeBool m.retained ++ writeBin m.topic ++ writeBin m.payload ++ writeU16 m.pid ++
  encodeProps m

/-- one iteration of the `for` loop of `DecodeMessage` after the property id `pt` has been read: the value is read
    and stored; an unknown id is skipped (the `switch` has no default) -/
def parseProp (pt : Nat) (rest : Bytes) (m : Message) : Except Err (Message × Bytes) :=
  if pt = 0x03 then
    match readBin rest with
    | .ok (v, r) => .ok ({ m with contentType := v }, r)
    | .error e => .error e
  else if pt = 0x09 then
    match readBin rest with
    | .ok (v, r) => .ok ({ m with correlationData := v }, r)
    | .error e => .error e
  else if pt = 0x02 then
    match readU32 rest with
    | .ok (v, r) => .ok ({ m with messageExpiry := v }, r)
    | .error e => .error e
  else if pt = 0x01 then
    match readByte .io rest with
    | .ok (v, r) => .ok ({ m with payloadFormat := v }, r)
    | .error e => .error e
  else if pt = 0x08 then
    match readBin rest with
    | .ok (v, r) => .ok ({ m with responseTopic := v }, r)
    | .error e => .error e
  else if pt = 0x0B then
    match decVbi rest with
    | .ok (v, r) => .ok ({ m with subIds := m.subIds ++ [v] }, r)
    | .error e => .error e
  else if pt = 0x26 then
    match readBin rest with
    | .ok (k, r1) =>
      match readBin r1 with
      | .ok (v, r2) => .ok ({ m with userProps := m.userProps ++ [(k, v)] }, r2)
      | .error e => .error e
    | .error e => .error e
  else .ok (m, rest)

/-- the `for` loop of `DecodeMessage`: one property per iteration until the buffer is empty. `fuel` bounds the
    iterations; every iteration consumes at least the id byte, so `length + 1` (what `decodeMessage` passes) is never
    exhausted. -/
def decodeProps : Nat → Bytes → Message → Except Err Message
  | _, [], m => .ok m
  | 0, _ :: _, _ => .error .other
  | fuel + 1, pt :: rest, m =>
    match parseProp pt rest m with
    | .ok (m', r) => decodeProps fuel r m'
    | .error e => .error e

/-- `encoding.DecodeMessage` -/
def decodeMessage (bs : Bytes) : Except Err Message :=
  match readBool bs with
  | .error e => .error e
  | .ok (dup, r1) =>
  match readByte .io r1 with
  | .error e => .error e
  | .ok (qos, r2) =>
  match readBool r2 with
  | .error e => .error e
  | .ok (ret, r3) =>
  match readBin r3 with
  | .error e => .error e
  | .ok (topic, r4) =>
  match readBin r4 with
  | .error e => .error e
  | .ok (payload, r5) =>
  match readU16 r5 with
  | .error e => .error e
  | .ok (pid, r6) =>
    decodeProps (r6.length + 1) r6
      { dup := dup, qos := qos, retained := ret, topic := topic, payload := payload, pid := pid }

/-- `DecodeMessageFromBytes`: the empty value stands for "no message" -/
def decodeMessageOpt (bs : Bytes) : Except Err (Option Message) :=
  if bs.isEmpty then .ok none
  else match decodeMessage bs with
    | .ok m => .ok (some m)
    | .error e => .error e

/-- `EncodeMessage(msg)` with a possibly nil message (writes nothing for nil) -/
def encodeMessageOpt : Option Message → Bytes
  | none => []
  | some m => encodeMessage m

/-! ### queue elements -/

inductive Body
  | publish (m : Message)
  | pubrel (id : Nat)
  deriving Repr, DecidableEq, Inhabited

/-- `queue.Elem`; `atTime`/`expiry` are the uint64 values written (`uint64(t.Unix())`) -/
structure Elem where
  atTime : Nat
  expiry : Nat
  body : Body
  deriving Repr, DecidableEq, Inhabited

/-- `uint64(time.Time{}.Unix())`: the zero `Expiry` ("never") -/
def zeroTime : Nat := 18446744011573954816

def writeU64 (n : Nat) : Bytes :=
  [n / 72057594037927936 % 256, n / 281474976710656 % 256, n / 1099511627776 % 256, n / 4294967296 % 256,
   n / 16777216 % 256, n / 65536 % 256, n / 256 % 256, n % 256]

def readU64 : Bytes → Option (Nat × Bytes)
  | a :: b :: c :: d :: e :: f :: g :: h :: rest =>
    some ((((((((a * 256 + b) * 256 + c) * 256 + d) * 256 + e) * 256 + f) * 256 + g) * 256 + h), rest)
  | _ => none

/-- `Elem.Encode`: 8 bytes At, one 0, 8 bytes Expiry, one 0, the type byte, the body -/
def encodeElem (e : Elem) : Bytes :=
  writeU64 e.atTime ++ [0] ++ writeU64 e.expiry ++ [0] ++
  (match e.body with
   | .publish m => 0 :: encodeMessage m
   | .pubrel id => 1 :: writeU16 id)

/-- `Elem.Decode` -/
def decodeElem (bs : Bytes) : Except Err Elem :=
  if bs.length < 19 then .error .other
  else
    match readU64 bs with
    | none => .error .other
    | some (t0, r1) =>
      match readU64 (r1.drop 1) with
      | none => .error .other
      | some (ex, r2) =>
        match r2.drop 1 with
        | 0 :: body =>
          match decodeMessage body with
          | .ok m => .ok { atTime := t0, expiry := ex, body := .publish m }
          | .error e => .error e
        | 1 :: body =>
          match readU16 body with
          | .ok (id, _) => .ok { atTime := t0, expiry := ex, body := .pubrel id }
          | .error e => .error e
        | _ => .error .other

def Elem.id (e : Elem) : Nat :=
  match e.body with
  | .publish m => m.pid
  | .pubrel id => id

def Elem.withId (e : Elem) (pid : Nat) : Elem :=
  match e.body with
  | .publish m => { e with body := .publish { m with pid := pid } }
  | .pubrel _ => { e with body := .pubrel pid }

def Elem.isPub (e : Elem) : Bool :=
  match e.body with
  | .publish _ => true
  | .pubrel _ => false

def Elem.qos (e : Elem) : Nat :=
  match e.body with
  | .publish m => m.qos
  | .pubrel _ => 0

/-! ### subscriptions -/

/-- `gmqtt.Subscription` -/
structure Subscription where
  shareName : Bytes := []
  topicFilter : Bytes := []
  id : Nat := 0
  qos : Nat := 0
  noLocal : Bool := false
  rap : Bool := false
  rh : Nat := 0
  deriving Repr, DecidableEq, Inhabited

def encodeSubscription (s : Subscription) : Bytes :=
  writeBin s.shareName ++ writeBin s.topicFilter ++ writeU32 s.id ++ [s.qos] ++ writeBool s.noLocal ++ writeBool s.rap ++ [s.rh]

def decodeSubscription (bs : Bytes) : Except Err Subscription :=
  match readBin bs with
  | .error e => .error e
  | .ok (share, r1) =>
  match readBin r1 with
  | .error e => .error e
  | .ok (topic, r2) =>
  match readU32 r2 with
  | .error e => .error e
  | .ok (id, r3) =>
  match readByte .io r3 with
  | .error e => .error e
  | .ok (qos, r4) =>
  match readBool r4 with
  | .error e => .error e
  | .ok (nl, r5) =>
  match readBool r5 with
  | .error e => .error e
  | .ok (rap, r6) =>
  match readByte .io r6 with
  | .error e => .error e
  | .ok (rh, _) => .ok { shareName := share, topicFilter := topic, id := id, qos := qos, noLocal := nl, rap := rap, rh := rh }

/-- `subscription.GetFullTopicName`: the hash field under which a subscription is stored -/
def fullTopicName (s : Subscription) : Bytes :=
  if s.shareName.isEmpty then s.topicFilter
  else "$share/".toUTF8.toList.map (·.toNat) ++ s.shareName ++ [47] ++ s.topicFilter

/-! ### decimal integers (redigo writes Go integers in decimal and scans them back with ParseUint) -/

def digitsAux : Nat → Nat → Bytes → Bytes
  | 0, _, acc => acc
  | fuel + 1, n, acc => if n < 10 then (48 + n) :: acc else digitsAux fuel (n / 10) ((48 + n % 10) :: acc)

/-- `strconv.AppendUint(n, 10)` -/
def natToDec (n : Nat) : Bytes := digitsAux (n + 1) n []

def decToNatAux : Bytes → Nat → Option Nat
  | [], acc => some acc
  | c :: cs, acc => if 48 ≤ c ∧ c ≤ 57 then decToNatAux cs (acc * 10 + (c - 48)) else none

/-- `strconv.ParseUint(s, 10, 32)` as redigo's `Scan` into a `uint32` uses it -/
def decToU32 (bs : Bytes) : Option Nat :=
  if bs.isEmpty then none
  else match decToNatAux bs 0 with
    | some n => if n < 4294967296 then some n else none
    | none => none

end GmqttVerif.ElemCodec
