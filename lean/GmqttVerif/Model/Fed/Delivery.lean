import GmqttVerif.Model.Fed.Route
import GmqttVerif.Model.Deliver
/-
  End-to-end delivery of one non-retained message in a federation (C17 `federation_delivery_exact`): the composition of
    * the origin's routing decision `Fed.route` (`sendMessage`),
    * the event stream (C16: within a session every event is applied by the peer exactly once, in order),
    * the receiver: `eventStreamHandler` → `Publisher.Publish` = `deliverMessage("", msg, default options)` = `Deliver.deliver`
      with source `""` on the receiving broker's own subscription table.

  A node is its name and its broker subscription table `(clientID, subscription)` as in `Model/Deliver.lean`.
  The origin's federation tree is what the other nodes have announced and the origin has applied (C16 `quiescent_equal`):
  one entry per (node, shareName, topicFilter) held by some client of that node.
  `messageToEvent` / `eventToMessage` are taken to preserve the message (field-by-field copies in federation.go).
-/
namespace GmqttVerif.Fed
open GmqttVerif.Deliver

structure BNode where
  name  : String
  table : List (String × Sub)

/-- the federation tree of the origin after the other nodes' subscriptions have propagated -/
def announced (others : List BNode) : List SubKey :=
  others.flatMap (fun n => n.table.map (fun cs => { node := n.name, share := cs.2.share, filter := cs.2.filter }))

def originRouteIn (origin : BNode) (others : List BNode) (sent : List (String × Nat)) : RouteIn :=
  { self := origin.name
    peers := others.map (·.name)
    fedSubs := announced others
    locals := origin.table.map (fun cs => { client := cs.1, share := cs.2.share, filter := cs.2.filter })
    sent := sent }

/-- enqueue requests on node `n` caused by a message `m` published on `origin`: the node is a routing target, receives the
    Message event once, and hands it to its own delivery routine with source `""` -/
def remoteEnqueues (onlyOnce : Bool) (origin : BNode) (others : List BNode) (sent : List (String × Nat)) (m : Deliver.Msg)
    (pick : String → List (String × Sub) → Option (String × Sub)) (n : BNode) : List (String × Deliver.Msg) :=
  if (route (originRouteIn origin others sent) m.topic false).targets.contains n.name then
    (deliver onlyOnce "" n.table m pick).2
  else []

end GmqttVerif.Fed
