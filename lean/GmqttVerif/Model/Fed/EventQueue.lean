/-
  Model of `plugin/federation/peer.go: eventQueue` (the per-peer outgoing event queue).

  Go keeps a `container/list` `l`, a pointer `nextRead` into it ("next element to send"),
  the counter `nextID` and the flag `closed`.  The model keeps the list split at the pointer
  (zipper, as `Model/Queue.lean` does):

    `done` = elements in front of `nextRead`            (fetched, not yet acknowledged)
    `rest` = `nextRead` and everything behind it        (`nextRead == nil` ⇔ `rest = []`)

  plus one extra case the Go code can get into: `ack` removes the very element `nextRead`
  points to.  `container/list.Remove` clears the element's `next/prev/list` fields but keeps
  its `Value`, so afterwards `nextRead` is a *detached* element: `nextRead != nil`,
  `nextRead.Value` is still the event and `nextRead.Next() == nil`.
    `dangling = some e`  ⇔ `nextRead` is such a detached element (then `rest = []` and the
                            whole list is `done`).

  The payload type `β` is a parameter: the queue never looks at it.
-/
namespace GmqttVerif.Fed

/-- `federation.Event`: id + oneof body -/
structure Event (β : Type) where
  id   : Nat
  body : β
  deriving Repr, DecidableEq, Inhabited

structure EQ (β : Type) where
  done     : List (Event β)
  rest     : List (Event β)
  dangling : Option (Event β)
  nextID   : Nat
  closed   : Bool
  deriving Repr, DecidableEq, Inhabited

namespace EQ
variable {β : Type}

/-- `newEventQueue()` -/
def empty : EQ β := { done := [], rest := [], dangling := none, nextID := 0, closed := false }

/-- the `container/list`, front first -/
def items (q : EQ β) : List (Event β) := q.done ++ q.rest

/-- `e.nextRead == nil` -/
def nextReadNil (q : EQ β) : Bool := q.dangling.isNone && q.rest.isEmpty

/-- `clear()`: `nextID = 0; l = list.New(); nextRead = nil; closed = false` -/
def clear (_ : EQ β) : EQ β := empty

def close (q : EQ β) : EQ β := { q with closed := true }
def «open» (q : EQ β) : EQ β := { q with closed := false }

/-- `add(event)`: `event.Id = nextID; nextID++; elem = PushBack; if nextRead == nil { nextRead = elem }`.
    Returns the assigned id. -/
def add (q : EQ β) (b : β) : EQ β × Nat :=
  let e : Event β := { id := q.nextID, body := b }
  match q.dangling with
  | some _ => ({ q with done := q.done ++ q.rest ++ [e], rest := [], nextID := q.nextID + 1 }, q.nextID)
  | none   => ({ q with rest := q.rest ++ [e], nextID := q.nextID + 1 }, q.nextID)

inductive FetchRes (β : Type)
  | blocked                      -- would wait on the condition variable
  | closed                       -- returns nil
  | ok (evs : List (Event β))
  deriving Repr, DecidableEq

/-- `fetchEvents()`:
    `for (l.Len()==0 || nextRead==nil) && !closed { Wait }; if closed { return nil }`
    then up to 100 elements starting at `nextRead`, following `Next()`. -/
def fetch (q : EQ β) : EQ β × FetchRes β :=
  if (q.items.isEmpty || q.nextReadNil) && !q.closed then (q, .blocked)
  else if q.closed then (q, .closed)
  else match q.dangling with
    | some e => ({ q with dangling := none }, .ok [e])          -- detached element: `Next()` is nil
    | none =>
      let out := q.rest.take 100
      ({ q with done := q.done ++ out, rest := q.rest.drop 100 }, .ok out)

/-- the loop of `ack(id)` over a stretch of the list: remove every element with `Id <= id`,
    stop (return) right after the element with `Id == id`.  Result: what is left, and whether
    the loop returned early. -/
def ackWalk (id : Nat) : List (Event β) → List (Event β) × Bool
  | [] => ([], false)
  | e :: es =>
    if e.id == id then (es, true)
    else if e.id ≤ id then ackWalk id es
    else
      let r := ackWalk id es
      (e :: r.1, r.2)

/-- `ack(id)` -/
def ack (q : EQ β) (id : Nat) : EQ β :=
  let d := ackWalk id q.done
  if d.2 then { q with done := d.1 }
  else match q.rest with
    | [] => { q with done := d.1 }
    | c :: cs =>
      if c.id == id then
        -- the element under `nextRead` is removed and the loop returns
        { q with done := d.1 ++ cs, rest := [], dangling := some c }
      else if c.id ≤ id then
        { q with done := d.1 ++ (ackWalk id cs).1, rest := [], dangling := some c }
      else
        { q with done := d.1, rest := c :: (ackWalk id cs).1 }

/-- split a list in front of the first element with `Id == id` -/
def splitAtId (id : Nat) : List (Event β) → Option (List (Event β) × List (Event β))
  | [] => none
  | e :: es =>
    if e.id == id then some ([], e :: es)
    else match splitAtId id es with
      | some (a, b) => some (e :: a, b)
      | none => none

/-- `setReadPosition(id)`: point `nextRead` at the first element with that id; unchanged if there is none -/
def setReadPosition (q : EQ β) (id : Nat) : EQ β :=
  match splitAtId id q.items with
  | some (a, b) => { q with done := a, rest := b, dangling := none }
  | none => q

/-- id of the element under `nextRead`, if any (for dumps) -/
def cursorId (q : EQ β) : Option Nat :=
  match q.dangling with
  | some e => some e.id
  | none => q.rest.head?.map (·.id)

end EQ
end GmqttVerif.Fed
