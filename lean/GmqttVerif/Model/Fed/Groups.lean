import GmqttVerif.Model.Fed.Route
/-
  Share groups across a federation, for ONE published message (C17 `shared_one_in_federation`).

  A node is described by what matches the message on it:
    members    one entry (the group key = full shared topic name) per local subscriber of a matching share group
    nonShared  some local non-shared subscription matches
  The publishing node (`origin`) routes with `routeCore`; its view of the other nodes is what they announced
  (C16 `quiescent_equal`): each node's distinct groups and whether it holds a matching non-shared subscription.

  Who serves group `g`:
    * the origin, iff it has a member of `g` and its own delivery is neither dropped nor restricted to non-shared
      subscriptions (C11: one member of each matching local group);
    * every target node that has a member of `g` — the receiver hands the message to `Publisher.Publish`, i.e. the plain
      local delivery, which serves every matching local group once (it has no idea why the message was forwarded).
-/
namespace GmqttVerif.Fed

structure FNode (ν γ : Type) where
  name      : ν
  members   : List γ
  nonShared : Bool
  deriving Repr

variable {ν γ : Type} [DecidableEq ν] [DecidableEq γ]

def coreOf (origin : FNode ν γ) (others : List (FNode ν γ)) (sent : List (γ × Nat)) : CoreIn ν γ :=
  { self := origin.name
    peers := others.map (·.name)
    localShared := origin.members
    fedShared := others.flatMap (fun n => (dedupS n.members).map (fun g => (n.name, g)))
    fedNonShared := (others.filter (·.nonShared)).map (·.name)
    localNonShared := origin.nonShared
    sent := sent }

/-- number of nodes of the federation that hand the message to a member of group `g` -/
def servedBy (sort : List ν → List ν) (origin : FNode ν γ) (others : List (FNode ν γ)) (sent : List (γ × Nat)) (g : γ) : Nat :=
  let o := routeCore sort (coreOf origin others sent) false
  (if origin.members.contains g && !o.drop && !o.nonSharedOnly then 1 else 0) +
  (others.filter (fun n => o.targets.contains n.name && n.members.contains g)).length

/-- number of nodes that hand the message to their non-shared subscribers -/
def nonSharedServedBy (sort : List ν → List ν) (origin : FNode ν γ) (others : List (FNode ν γ)) (sent : List (γ × Nat)) : Nat :=
  let o := routeCore sort (coreOf origin others sent) false
  (if origin.nonShared && !o.drop then 1 else 0) + (others.filter (fun n => o.targets.contains n.name && n.nonShared)).length

end GmqttVerif.Fed
