import GmqttVerif.Model.Fed.PeerSession
import GmqttVerif.Model.AList
/-
  Model of `localSubStore` (federation.go) and of the three hooks that feed it (hooks.go:
  `OnSubscribedWrapper`, `OnUnsubscribedWrapper`, `OnSessionTerminatedWrapper`).

  Go maps become association lists (`Model/AList.lean`: `get` / `set` / `del`):
    `index  : [clientID] ↦ list of full topic names`   (`map[string]map[string]struct{}`)
    `topics : [topicName] ↦ reference count`            (`map[string]uint64`, never holds 0)
  Results that come out of a Go map iteration (`unsubscribeAll`) are compared after sorting.
-/
namespace GmqttVerif.Fed

structure LS where
  index  : List (String × List String)
  topics : List (String × Nat)
  deriving Repr, DecidableEq, Inhabited

namespace LS

def empty : LS := { index := [], topics := [] }

/-- `l.index[c]` (nil map when absent) -/
def clientTopics (l : LS) (c : String) : List String := (AL.get c l.index).getD []

/-- `l.topics[t]` (0 when absent) -/
def count (l : LS) (t : String) : Nat := (AL.get t l.topics).getD 0

/-- `subscribeLocked` -/
def subscribe (l : LS) (c t : String) : LS × Bool :=
  let cur := l.clientTopics c
  if cur.contains t then
    -- `index[c]` exists already (it contains t): nothing changes
    (l, false)
  else
    let n := l.count t + 1
    ({ index := AL.set c (cur ++ [t]) l.index, topics := AL.set t n l.topics }, n == 1)

/-- `decTopicCounterLocked` -/
def dec (tp : List (String × Nat)) (t : String) : List (String × Nat) :=
  match AL.get t tp with
  | some n => if n - 1 == 0 then AL.del t tp else AL.set t (n - 1) tp
  | none => tp

/-- `unsubscribe` -/
def unsubscribe (l : LS) (c t : String) : LS × Bool :=
  match AL.get c l.index with
  | some cur =>
    if cur.contains t then
      let cur' := cur.filter (· != t)
      let ix := if cur'.isEmpty then AL.del c l.index else AL.set c cur' l.index
      let l' : LS := { index := ix, topics := dec l.topics t }
      (l', l'.count t == 0)
    else (l, false)
  | none => (l, false)

/-- the loop of `unsubscribeAll` over the client's topics -/
def decAll : List (String × Nat) → List String → List (String × Nat) × List String
  | tp, [] => (tp, [])
  | tp, t :: ts =>
    let tp1 := dec tp t
    let r := decAll tp1 ts
    if (AL.get t tp1).getD 0 == 0 then (r.1, t :: r.2) else r

/-- `unsubscribeAll` -/
def unsubscribeAll (l : LS) (c : String) : LS × List String :=
  let r := decAll l.topics (l.clientTopics c)
  ({ index := AL.del c l.index, topics := r.1 }, r.2)

/-- `init`: replay the broker's subscription store -/
def init (subs : List (String × String)) : LS :=
  subs.foldl (fun l p => (l.subscribe p.1 p.2).1) empty

end LS

/-- the node as far as the subscription hooks see it: the local store and one outgoing queue per peer -/
structure HookSt where
  ls     : LS
  queues : List (String × EQ Body)
  deriving Repr, Inhabited

namespace HookSt

def addAll (qs : List (String × EQ Body)) (b : Body) : List (String × EQ Body) :=
  qs.map (fun p => (p.1, (p.2.add b).1))

/-- `OnSubscribedWrapper` -/
def onSubscribed (h : HookSt) (c share filter : String) : HookSt × List Body :=
  let r := h.ls.subscribe c (fullName share filter)
  if r.2 then ({ ls := r.1, queues := addAll h.queues (.sub share filter) }, [.sub share filter])
  else ({ h with ls := r.1 }, [])

/-- `OnUnsubscribedWrapper` -/
def onUnsubscribed (h : HookSt) (c topic : String) : HookSt × List Body :=
  let r := h.ls.unsubscribe c topic
  if r.2 then ({ ls := r.1, queues := addAll h.queues (.unsub topic) }, [.unsub topic])
  else ({ h with ls := r.1 }, [])

/-- `OnSessionTerminatedWrapper` -/
def onSessionTerminated (h : HookSt) (c : String) : HookSt × List Body :=
  let r := h.ls.unsubscribeAll c
  let evs := r.2.map Body.unsub
  ({ ls := r.1, queues := evs.foldl addAll h.queues }, evs)

end HookSt
end GmqttVerif.Fed
