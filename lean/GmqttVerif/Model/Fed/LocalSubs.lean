import GmqttVerif.Model.Fed.PeerSession
/-
  Model of `localSubStore` (federation.go) and of the three hooks that feed it (hooks.go:
  `OnSubscribedWrapper`, `OnUnsubscribedWrapper`, `OnSessionTerminatedWrapper`).

  Go maps become association lists in insertion order:
    `index  : [clientID] ↦ list of full topic names`   (`map[string]map[string]struct{}`)
    `topics : [topicName] ↦ reference count`            (`map[string]uint64`, never holds 0)
  Results that come out of a Go map iteration (`unsubscribeAll`) are compared after sorting.
-/
namespace GmqttVerif.Fed

structure LS where
  index  : List (String × List String)
  topics : List (String × Nat)
  deriving Repr, DecidableEq, Inhabited

namespace LS

def empty : LS := { index := [], topics := [] }

def clientTopics (l : LS) (c : String) : Option (List String) := (l.index.find? (·.1 == c)).map (·.2)

def count (l : LS) (t : String) : Nat := ((l.topics.find? (·.1 == t)).map (·.2)).getD 0

def setIndex (ix : List (String × List String)) (c : String) (ts : List String) : List (String × List String) :=
  if ix.any (·.1 == c) then ix.map (fun p => if p.1 == c then (c, ts) else p) else ix ++ [(c, ts)]

def setCount (tp : List (String × Nat)) (t : String) (n : Nat) : List (String × Nat) :=
  if tp.any (·.1 == t) then tp.map (fun p => if p.1 == t then (t, n) else p) else tp ++ [(t, n)]

/-- `subscribeLocked` -/
def subscribe (l : LS) (c t : String) : LS × Bool :=
  let cur := (l.clientTopics c).getD []
  if cur.contains t then
    -- `index[c]` exists already (it contains t): nothing changes
    (l, false)
  else
    let n := l.count t + 1
    ({ index := setIndex l.index c (cur ++ [t]), topics := setCount l.topics t n }, n == 1)

/-- `decTopicCounterLocked` -/
def dec (tp : List (String × Nat)) (t : String) : List (String × Nat) :=
  match tp.find? (·.1 == t) with
  | some (_, n) => if n - 1 == 0 then tp.filter (·.1 != t) else setCount tp t (n - 1)
  | none => tp

/-- `unsubscribe` -/
def unsubscribe (l : LS) (c t : String) : LS × Bool :=
  match l.clientTopics c with
  | some cur =>
    if cur.contains t then
      let cur' := cur.filter (· != t)
      let ix := if cur'.isEmpty then l.index.filter (·.1 != c) else setIndex l.index c cur'
      let l' : LS := { index := ix, topics := dec l.topics t }
      (l', l'.count t == 0)
    else (l, false)
  | none => (l, false)

/-- the loop of `unsubscribeAll` over the client's topics -/
def decAll : List (String × Nat) → List String → List (String × Nat) × List String
  | tp, [] => (tp, [])
  | tp, t :: ts =>
    let tp1 := dec tp t
    let r := decAll tp1 ts
    if ((tp1.find? (·.1 == t)).map (·.2)).getD 0 == 0 then (r.1, t :: r.2) else r

/-- `unsubscribeAll` -/
def unsubscribeAll (l : LS) (c : String) : LS × List String :=
  let cur := (l.clientTopics c).getD []
  let r := decAll l.topics cur
  ({ index := l.index.filter (·.1 != c), topics := r.1 }, r.2)

/-- `init`: replay the broker's subscription store -/
def init (subs : List (String × String)) : LS :=
  subs.foldl (fun l p => (l.subscribe p.1 p.2).1) empty

end LS

/-- the node as far as the subscription hooks see it: the local store and one outgoing queue per peer -/
structure HookSt where
  ls     : LS
  queues : List (String × EQ Body)
  deriving Repr, Inhabited

namespace HookSt

def addAll (qs : List (String × EQ Body)) (b : Body) : List (String × EQ Body) :=
  qs.map (fun p => (p.1, (p.2.add b).1))

/-- `OnSubscribedWrapper` -/
def onSubscribed (h : HookSt) (c share filter : String) : HookSt × List Body :=
  let r := h.ls.subscribe c (fullName share filter)
  if r.2 then ({ ls := r.1, queues := addAll h.queues (.sub share filter) }, [.sub share filter])
  else ({ h with ls := r.1 }, [])

/-- `OnUnsubscribedWrapper` -/
def onUnsubscribed (h : HookSt) (c topic : String) : HookSt × List Body :=
  let r := h.ls.unsubscribe c topic
  if r.2 then ({ ls := r.1, queues := addAll h.queues (.unsub topic) }, [.unsub topic])
  else ({ h with ls := r.1 }, [])

/-- `OnSessionTerminatedWrapper` -/
def onSessionTerminated (h : HookSt) (c : String) : HookSt × List Body :=
  let r := h.ls.unsubscribeAll c
  let evs := r.2.map Body.unsub
  ({ ls := r.1, queues := evs.foldl addAll h.queues }, evs)

end HookSt
end GmqttVerif.Fed
