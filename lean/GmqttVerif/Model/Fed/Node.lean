import GmqttVerif.Model.Fed.Route
/-
  One federation node with both directions: what it receives from peers (`Recv`) and what it sends to them
  (`route` + the per-peer queues).  Two entry points for a message:

  * `onMsgArrived`  — a local client (or a will) publishes: the broker core calls the `OnMsgArrived` hook, i.e.
                      `Federation.OnMsgArrivedWrapper` → `sendMessage`: copies go into the queues of the target peers.
  * `onStreamEvent` — a peer's event arrives on `EventStream`: `eventStreamHandler` calls `f.publisher.Publish(msg)`.
                      `publishService.Publish` (server/publish_service.go) is `srv.deliverMessage("", msg, defaultIterateOptions)`
                      — the delivery routine itself, below the hook layer; `OnMsgArrived` is invoked only by the client
                      PUBLISH handler (server/client.go) and `OnWillPublish` only by the will path.  So nothing on this
                      path can reach `sendMessage`: the peer queues are not part of what it touches.
-/
namespace GmqttVerif.Fed

structure Node where
  recv   : Recv
  locals : List LocalSub
  sent   : List (String × Nat)
  queues : List (String × EQ Body)
  deriving Inhabited

namespace Node

def routeIn (n : Node) : RouteIn :=
  { self := n.recv.self, peers := n.recv.peers, fedSubs := n.recv.subs, locals := n.locals, sent := n.sent }

/-- `OnMsgArrivedWrapper`: returns the node, `drop`, and whether the iteration options were replaced -/
def onMsgArrived (n : Node) (m : Msg) : Node × Bool × Bool :=
  let o := route n.routeIn m.topic m.retained
  ({ n with sent := o.sent
            queues := n.queues.map (fun p => if o.targets.contains p.1 then (p.1, (p.2.add (.msg m)).1) else p) },
   o.drop, o.nonSharedOnly)

/-- one iteration of the `EventStream` receive loop for an event of peer `src` -/
def onStreamEvent (n : Node) (src : String) (e : Event Body) (ackOk : Bool) : Node :=
  { n with recv := (n.recv.event src e ackOk).1 }

end Node
end GmqttVerif.Fed
