import GmqttVerif.Model.Fed.EventQueue
import GmqttVerif.Model.Fed.Topic
/-
  Receiver side of the federation event stream (`plugin/federation/federation.go`):
  `lruCache`, `session`, `sessionMgr.add/del`, `Federation.Hello`, `eventStreamHandler`, the body of
  the receive loop of `EventStream`, and `nodeJoin`/`nodeFail` as far as they touch this state.

  The federation subscription tree (`fedSubStore`, a `mem.TrieDB` keyed by node name) is modelled by its
  SPECIFICATION: a set of (node, shareName, topicFilter).  `Subscribe` inserts, `Unsubscribe` erases,
  `UnsubscribeAll node` erases every entry of the node.  (Before a8278d7 the real `TrieDB.UnsubscribeAll` did not do that
  for shared entries — F19; stream `fedsession-shared` of C16 is the regression check.)
-/
namespace GmqttVerif.Fed

/-- `lruCache`: FIFO of recently seen ids (front = oldest) with a fixed capacity -/
structure LRU where
  items : List Nat
  size  : Nat
  deriving Repr, DecidableEq, Inhabited

/-- `lruCache.set`: `true` if the id was already present; otherwise evict the front when full, push back -/
def LRU.set (l : LRU) (id : Nat) : LRU × Bool :=
  if l.items.contains id then (l, true)
  else
    let kept := if l.size == l.items.length then l.items.drop 1 else l.items
    ({ l with items := kept ++ [id] }, false)

/-- `session` (the session id, a uuid string in Go, is a number here) -/
structure Sess where
  id   : Nat
  next : Nat          -- nextEventID
  seen : LRU
  deriving Repr, DecidableEq, Inhabited

/-- the session `sessionMgr.add` creates on a clean start -/
def Sess.fresh (sid : Nat) : Sess := { id := sid, next := 0, seen := { items := [], size := 100 } }

/-- duplicate test of `eventStreamHandler`: `sess.seenEvents.set(eventID)` -/
def Sess.see (s : Sess) (id : Nat) : Sess × Bool :=
  let r := s.seen.set id
  ({ s with seen := r.1 }, r.2)

/-- `sess.nextEventID = ack.EventId + 1` (only executed when `stream.Send(ack)` succeeded) -/
def Sess.acked (s : Sess) (id : Nat) : Sess := { s with next := id + 1 }

/-- what `gmqtt.Message` carries as far as the federation is concerned. `payload = 0` ⇔ empty payload. -/
structure Msg where
  topic    : String
  retained : Bool
  payload  : Nat
  qos      : Nat
  deriving Repr, DecidableEq, Inhabited

/-- oneof `Event.Event` -/
inductive Body
  | sub (share filter : String)     -- Subscribe{ShareName, TopicFilter}
  | unsub (topic : String)          -- Unsubscribe{TopicName} (full name, possibly `$share/g/f`)
  | msg (m : Msg)
  deriving Repr, DecidableEq, Inhabited

structure SubKey where
  node   : String
  share  : String
  filter : String
  deriving Repr, DecidableEq, Inhabited

/-- state of one `Federation` value seen from the receiving side -/
structure Recv where
  self     : String
  peers    : List String                   -- keys of `f.peers`
  sessions : List (String × Sess)          -- `sessionMgr.sessions`
  subs     : List SubKey                   -- `fedSubStore` (specification level)
  pubs     : List Msg                      -- calls of `publisher.Publish`, oldest first
  retained : List (String × Msg)           -- `retainedStore` content touched by the federation
  deriving Repr, Inhabited

namespace Recv

def new (self : String) : Recv := { self := self, peers := [], sessions := [], subs := [], pubs := [], retained := [] }

def getSess (r : Recv) (node : String) : Option Sess := (r.sessions.find? (·.1 == node)).map (·.2)

def setSess (r : Recv) (node : String) (s : Sess) : Recv :=
  { r with sessions := (r.sessions.filter (·.1 != node)) ++ [(node, s)] }

/-- `fedSubStore.UnsubscribeAll(node)` (specification) -/
def unsubscribeAll (r : Recv) (node : String) : Recv := { r with subs := r.subs.filter (·.node != node) }

/-- `nodeJoin` for one member -/
def nodeJoin (r : Recv) (node : String) : Recv :=
  if node == r.self || r.peers.contains node then r else { r with peers := r.peers ++ [node] }

/-- `nodeFail` for one member: `delete(peers)`, `fedSubStore.UnsubscribeAll`, `sessionMgr.del` -/
def nodeFail (r : Recv) (node : String) : Recv :=
  if node == r.self || !r.peers.contains node then r
  else { (r.unsubscribeAll node) with peers := r.peers.filter (· != node), sessions := r.sessions.filter (·.1 != node) }

/-- `Federation.Hello` + `sessionMgr.add`. `none` = error (node has not joined). -/
def hello (r : Recv) (node : String) (sid : Nat) : Recv × Option (Bool × Nat) :=
  if !r.peers.contains node then (r, none)
  else
    match r.getSess node with
    | some s =>
      if s.id == sid then (r, some (false, s.next))
      else ((r.setSess node (Sess.fresh sid)).unsubscribeAll node, some (true, 0))
    | none => ((r.setSess node (Sess.fresh sid)).unsubscribeAll node, some (true, 0))

/-- the non-duplicate part of `eventStreamHandler` -/
def apply (r : Recv) (node : String) : Body → Recv
  | .sub share filter =>
    let k : SubKey := { node := node, share := share, filter := filter }
    if r.subs.contains k then r else { r with subs := r.subs ++ [k] }
  | .unsub topic =>
    let st := splitTopic topic
    let k : SubKey := { node := node, share := st.1, filter := st.2 }
    { r with subs := r.subs.filter (· != k) }
  | .msg m =>
    let r1 := { r with pubs := r.pubs ++ [m] }
    -- since 5eb0806: `if pubMsg.Retained { if len(Payload)==0 { Remove(topic) } else { AddOrReplace(pubMsg) } }`
    if m.retained then
      if m.payload == 0 then { r1 with retained := r1.retained.filter (·.1 != m.topic) }
      else { r1 with retained := (r1.retained.filter (·.1 != m.topic)) ++ [(m.topic, m)] }
    else r1

/-- the retained-store update of `eventStreamHandler` BEFORE 5eb0806: `AddOrReplace` for every retained message, also
    for an empty payload (F35) -/
def retainedAsIs (r : Recv) (m : Msg) : List (String × Msg) :=
  if m.retained then (r.retained.filter (·.1 != m.topic)) ++ [(m.topic, m)] else r.retained

/-- one iteration of the receive loop of `EventStream` for an event of `node` whose session exists:
    `eventStreamHandler`, `stream.Send(ack)` (succeeds iff `ackOk`), then `sess.nextEventID = ack.EventId+1`.
    Returns the new state, whether the event was a duplicate, and the ack id. -/
def event (r : Recv) (node : String) (e : Event Body) (ackOk : Bool) : Recv × Bool × Nat :=
  match r.getSess node with
  | none => (r, false, e.id)           -- not reachable through an open stream
  | some s =>
    let (s1, dup) := s.see e.id
    let r1 := if dup then r else r.apply node e.body
    let s2 := if ackOk then s1.acked e.id else s1
    (r1.setSess node s2, dup, e.id)

end Recv
end GmqttVerif.Fed
