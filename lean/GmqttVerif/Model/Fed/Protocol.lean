import GmqttVerif.Model.Fed.EventQueue
import GmqttVerif.Model.Fed.PeerSession
/-
  The federation event stream between ONE sending node S and ONE receiving node R as a transition system.

    sender   = `peer` of S for R: the real `eventQueue` model (`EQ`), `peer.sessionID`, and `peer.initStream`
               (Hello, clean start ⇒ `queue.clear()` + one Subscribe per key of `localSubStore.topics` + one Message
               per retained message, then `queue.setReadPosition(next_event_id)`, then `client.EventStream`)
    receiver = `sessionMgr.add` (clean-start decision by session id), `session.nextEventID`, `lruCache`,
               `eventStreamHandler` + the receive loop of `EventStream` (`Sess.see`, `Sess.acked`)
    channel  = two FIFO buffers (events up, acks down) that exist while a stream is open

  Environment steps (`Label`): every interleaving of them is a run.
    emit b           a hook / sendMessage calls `queue.add`
    setRetained ms   S's retained store changes
    fetchSend        `sendEvents`: `fetchEvents()` (≤ 100) and `client.Send` of each (a break "in the middle" is the
                     same as delivering a prefix and then `brk`)
    deliver ok       R's loop takes the next event: `eventStreamHandler`, `stream.Send(ack)`; `ok = false`: the Send
                     fails ⇒ `nextEventID` is NOT advanced and the stream ends
    deliverAck       `readLoop`: `queue.ack(id)`
    brk              the connection breaks: both buffers are lost, `queue.close()`
    reconnect opens mid
                     `initStream`: Hello processed by R and its answer processed by S; `opens = false`: `client.EventStream`
                     then fails (break between handshake and stream). `mid` = events that hooks running concurrently put into
                     the queue in the window of a clean start between `queue.clear()` and the moment `initStream` locks
                     `localSubStore` for its snapshot (they precede the resynchronisation events; hooks that ran before
                     `clear()` are ordinary `emit` steps before this one; once the store is locked hooks wait). Ignored when
                     the handshake does not lead to a clean start.
    helloLost        R processes Hello but the response never reaches S (break DURING the handshake)
    helloFail        the Hello never reaches R (connection refused / lost request)
    peerRestart      R loses its session and S's entries of the federation tree (process restart, or nodeFail on R)
    senderRestart    S restarts / re-creates the peer: new session id, empty queue

  Two variants, selected by `fixed : Bool`:
    fixed = true   the code since 086aedd: `peer.synced` / `peer.ackFloor` — a failed Hello while no clean start has been
                   completed with the current session id replaces the id by a fresh one; an answer `clean_start=false` whose
                   `next_event_id` lies below an already acknowledged id is treated as a clean start; `readLoop` records
                   `ackFloor = acked id + 1`.
    fixed = false  the code before that commit (kept for the refutations `…_as_is_refuted`): none of the above.

  Ghost state: `hist` = bodies added to the queue since its last `clear` (event id i ↔ `hist[i]`),
               `applied` = bodies R applied since its session was created.
  Event bodies are abstract: topics `τ`, messages `μ`.
-/
namespace GmqttVerif.Fed.Proto

inductive PBody (τ μ : Type)
  | sub (t : τ)
  | unsub (t : τ)
  | msg (m : μ)
  deriving Repr, DecidableEq

/-- effect of one event on a set of topics (the node's local key set on S, the node's entries in the federation tree on R) -/
def applyView {τ μ : Type} [DecidableEq τ] (v : List τ) : PBody τ μ → List τ
  | .sub t => if t ∈ v then v else v ++ [t]
  | .unsub t => v.filter (· ≠ t)
  | .msg _ => v

def view {τ μ : Type} [DecidableEq τ] (bs : List (PBody τ μ)) : List τ := bs.foldl applyView []

structure Sender (τ μ : Type) where
  sid      : Nat
  q        : EQ (PBody τ μ)
  topics   : List τ            -- keys of `localSubStore.topics`
  retained : List μ            -- S's retained store
  synced   : Bool              -- `peer.synced`: a clean start has been completed with the current session id
  ackFloor : Nat               -- `peer.ackFloor`: id after the highest event acknowledged in the current session
  hist     : List (PBody τ μ)  -- ghost

structure Receiver (τ μ : Type) where
  sess    : Option Sess
  subs    : List τ             -- S's entries in R's federation tree
  pubs    : List μ             -- `publisher.Publish` log
  applied : List (PBody τ μ)   -- ghost

structure Chan (τ μ : Type) where
  up     : List (Event (PBody τ μ))
  down   : List Nat
  isOpen : Bool

structure St (τ μ : Type) where
  s : Sender τ μ
  r : Receiver τ μ
  c : Chan τ μ

inductive Label (τ μ : Type)
  | emit (b : PBody τ μ)
  | setRetained (ms : List μ)
  | fetchSend
  | deliver (ackOk : Bool)
  | deliverAck
  | brk
  | reconnect (opens : Bool) (mid : List (PBody τ μ))
  | helloLost
  | helloFail
  | peerRestart
  | senderRestart (topics : List τ) (retained : List μ)
  deriving Repr

variable {τ μ : Type} [DecidableEq τ]

def init (topics : List τ) (retained : List μ) : St τ μ :=
  { s := { sid := 0, q := EQ.empty, topics := topics, retained := retained, synced := false, ackFloor := 0, hist := [] }
    r := { sess := none, subs := [], pubs := [], applied := [] }
    c := { up := [], down := [], isOpen := false } }

def Chan.broken : Chan τ μ := { up := [], down := [], isOpen := false }

/-- `queue.add` of several events -/
def addAll (q : EQ (PBody τ μ)) (bs : List (PBody τ μ)) : EQ (PBody τ μ) := bs.foldl (fun q b => (q.add b).1) q

/-- the events `initStream` enqueues on a clean start -/
def syncBodies (topics : List τ) (retained : List μ) : List (PBody τ μ) :=
  topics.map PBody.sub ++ retained.map PBody.msg

/-- `sessionMgr.add` + `Hello`: (receiver', clean_start, next_event_id). `cap` = capacity of the LRU (100 in the code). -/
def helloR (cap : Nat) (r : Receiver τ μ) (sid : Nat) : Receiver τ μ × Bool × Nat :=
  match r.sess with
  | some ss =>
    if ss.id == sid then (r, false, ss.next)
    else ({ r with sess := some { id := sid, next := 0, seen := { items := [], size := cap } }, subs := [], applied := [] }, true, 0)
  | none => ({ r with sess := some { id := sid, next := 0, seen := { items := [], size := cap } }, subs := [], applied := [] }, true, 0)

/-- the client half of `initStream` after the ServerHello arrived; `clean` = the client's decision, `pos` = the id it
    positions the queue at -/
def helloS (s : Sender τ μ) (clean : Bool) (pos : Nat) (mid : List (PBody τ μ)) : Sender τ μ :=
  let s1 := if clean then
      let tps := mid.foldl applyView s.topics
      let bs := mid ++ syncBodies tps s.retained
      { s with q := addAll s.q.clear bs, hist := bs, topics := tps, synced := true, ackFloor := 0 }
    else s
  { s1 with q := s1.q.setReadPosition pos }

/-- the client's clean-start decision: the server's, or (since 086aedd) a `next_event_id` below an acknowledged id -/
def cleanDecision (fixed : Bool) (s : Sender τ μ) (clean : Bool) (next : Nat) : Bool :=
  clean || (fixed && decide (next < s.ackFloor))

/-- a Hello that failed (since 086aedd): fresh session id unless a clean start has been completed with the current one -/
def helloErr (fixed : Bool) (s : Sender τ μ) : Sender τ μ :=
  if fixed && !s.synced then { s with sid := s.sid + 1 } else s

/-- the non-duplicate branch of `eventStreamHandler` -/
def applyR (r : Receiver τ μ) (b : PBody τ μ) : Receiver τ μ :=
  let r1 := { r with subs := applyView r.subs b, applied := r.applied ++ [b] }
  match b with
  | .msg m => { r1 with pubs := r1.pubs ++ [m] }
  | _ => r1

/-- one environment step; `none` = the step is not possible in this state -/
def step (fixed : Bool) (cap : Nat) (st : St τ μ) : Label τ μ → Option (St τ μ)
  | .emit b =>
    some { st with s := { st.s with q := (st.s.q.add b).1, hist := st.s.hist ++ [b], topics := applyView st.s.topics b } }
  | .setRetained ms => some { st with s := { st.s with retained := ms } }
  | .fetchSend =>
    if st.c.isOpen then
      match st.s.q.fetch with
      | (q', .ok evs) => some { st with s := { st.s with q := q' }, c := { st.c with up := st.c.up ++ evs } }
      | _ => none
    else none
  | .deliver ackOk =>
    if st.c.isOpen then
      match st.c.up, st.r.sess with
      | e :: up', some ss =>
        let (s1, dup) := ss.see e.id
        let r1 := if dup then st.r else applyR st.r e.body
        if ackOk then
          some { st with r := { r1 with sess := some (s1.acked e.id) }, c := { st.c with up := up', down := st.c.down ++ [e.id] } }
        else
          some { s := { st.s with q := st.s.q.close }, r := { r1 with sess := some s1 }, c := Chan.broken }
      | _, _ => none
    else none
  | .deliverAck =>
    if st.c.isOpen then
      match st.c.down with
      | id :: down' =>
        some { st with s := { st.s with q := st.s.q.ack id, ackFloor := id + 1 }, c := { st.c with down := down' } }
      | [] => none
    else none
  | .brk => some { st with s := { st.s with q := st.s.q.close }, c := Chan.broken }
  | .reconnect opens mid =>
    if st.c.isOpen then none
    else
      let (r', clean, next) := helloR cap st.r st.s.sid
      let clean' := cleanDecision fixed st.s clean next
      let s' := helloS st.s clean' (if clean' then 0 else next) mid
      if opens then some { s := { s' with q := s'.q.open }, r := r', c := { up := [], down := [], isOpen := true } }
      else some { s := s', r := r', c := Chan.broken }
  | .helloLost =>
    if st.c.isOpen then none
    else some { st with r := (helloR cap st.r st.s.sid).1, s := helloErr fixed st.s }
  | .helloFail =>
    if st.c.isOpen then none
    else some { st with s := helloErr fixed st.s }
  | .peerRestart =>
    some { s := { st.s with q := st.s.q.close }, r := { sess := none, subs := [], pubs := st.r.pubs, applied := [] }, c := Chan.broken }
  | .senderRestart ts ms =>
    some { s := { sid := st.s.sid + 1, q := EQ.empty, topics := ts, retained := ms, synced := false, ackFloor := 0, hist := [] },
           r := st.r, c := Chan.broken }

/-- run a schedule -/
def run (fixed : Bool) (cap : Nat) : List (Label τ μ) → St τ μ → Option (St τ μ)
  | [], st => some st
  | l :: ls, st => match step fixed cap st l with
    | some st' => run fixed cap ls st'
    | none => none

/-- R's session carries S's current session id -/
def Aligned (st : St τ μ) : Prop := ∃ ss, st.r.sess = some ss ∧ ss.id = st.s.sid

/-- …and R's `nextEventID` is not behind what S has seen acknowledged: the session R holds is the one S's queue belongs to
    (false exactly between a Hello that re-created R's session without S noticing and S's next successful Hello) -/
def InSession (st : St τ μ) : Prop := ∃ ss, st.r.sess = some ss ∧ ss.id = st.s.sid ∧ st.s.ackFloor ≤ ss.next

/-- nothing in flight, nothing left to send, stream up -/
def Quiescent (st : St τ μ) : Prop :=
  st.c.isOpen = true ∧ st.c.up = [] ∧ st.s.q.rest = [] ∧ st.s.q.dangling = none

def Label.isHelloLost : Label τ μ → Bool
  | .helloLost => true
  | _ => false

/-- labels of a stable connection: no break, no restart, no lost handshake, acks get through -/
def Label.isStable : Label τ μ → Bool
  | .fetchSend | .deliver true | .deliverAck | .reconnect true [] => true
  | _ => false

end GmqttVerif.Fed.Proto
