import GmqttVerif.Model.Fed.PeerSession
/-
  Model of `Federation.sendMessage` / `sendSharedMsg` (hooks.go): which peers get a copy of a message
  published on this node, and what the node does with its own local delivery (`drop`, `options`).

  Two layers.

  `routeCore` — the combinatorial part, generic in the type of node names `ν` and of shared-topic keys `κ`.
     Its input is what the three `Iterate` calls of `sendMessage` produce:
       localShared     full topic name of every local shared subscriber that matches (one entry per SUBSCRIBER)
       fedShared       (node, full topic name) of every matching shared entry of the federation tree
       fedNonShared    node of every matching non-shared entry of the federation tree
       localNonShared  does any local non-shared subscription match
     plus `self`, `peers` (keys of `f.peers`), the round-robin counters `sent` (`fedSubStore.sharedSent`, the "random
     pick" input) and `sort` (`sort.Strings`).

  `route` — the instance for strings: the lists are computed from the store contents with the matching functions of
     `Model/Fed/Topic.lean`.  This is what the oracle runs and what stream `fedroute` compares with the real code.

  Go iterates maps in random order; every use below is order-independent except the ORDER of `targets`
  (compared after sorting): the `sent[...]`-set logic makes the set of targets and `drop/options` independent
  of the order in which the shared topics are visited.
-/
namespace GmqttVerif.Fed

structure CoreIn (ν κ : Type) where
  self           : ν
  peers          : List ν
  localShared    : List κ
  fedShared      : List (ν × κ)
  fedNonShared   : List ν
  localNonShared : Bool
  sent           : List (κ × Nat)

structure CoreOut (ν κ : Type) where
  targets : List ν                 -- peers whose queue got the message (one `queue.add` each), in call order
  drop    : Bool                   -- local node must not deliver at all
  nonSharedOnly : Bool             -- `options != nil`: local delivery restricted to non-shared subscriptions
  sent    : List (κ × Nat)         -- counters afterwards
  deriving Repr, DecidableEq

section core
variable {ν κ : Type} [DecidableEq ν] [DecidableEq κ]

def counter (sent : List (κ × Nat)) (t : κ) : Nat := ((sent.find? (·.1 == t)).map (·.2)).getD 0

def bump (sent : List (κ × Nat)) (t : κ) : List (κ × Nat) :=
  if sent.any (·.1 == t) then sent.map (fun p => if p.1 == t then (t, p.2 + 1) else p) else sent ++ [(t, 1)]

/-- `sharedList[topic] = append(sharedList[topic], node)` -/
def pushShared (sl : List (κ × List ν)) (t : κ) (node : ν) : List (κ × List ν) :=
  if sl.any (·.1 == t) then sl.map (fun p => if p.1 == t then (t, p.2 ++ [node]) else p) else sl ++ [(t, [node])]

/-- keys of a Go `map[string]struct{}` filled in this order: first occurrences -/
def dedupS : List ν → List ν
  | [] => []
  | x :: xs => x :: (dedupS xs).filter (· != x)

/-- the shared map built by the two `Iterate` calls: full shared topic ↦ node names (this node once per
    matching local shared subscriber, every other node once per matching shared entry) -/
def sharedListCore (i : CoreIn ν κ) : List (κ × List ν) :=
  i.fedShared.foldl (fun sl p => pushShared sl p.2 p.1) (i.localShared.foldl (fun sl t => pushShared sl t i.self) [])

structure Acc (ν κ : Type) where
  targets : List ν
  sentSet : List ν
  drop    : Bool
  nso     : Bool
  cnt     : List (κ × Nat)

/-- one iteration of `sendSharedMsg`'s loop including the `send` closure of `sendMessage` -/
def sharedStep (sort : List ν → List ν) (i : CoreIn ν κ) (a : Acc ν κ) (p : κ × List ν) : Acc ν κ :=
  let v := sort p.2
  let a1 := { a with cnt := bump a.cnt p.1 }
  match v[counter a.cnt p.1 % v.length]? with
  | none => a1                                  -- not reachable: `v` is never empty
  | some pick =>
    if pick == i.self then a1
    else if a1.sentSet.contains pick then a1
    else
      let a2 := { a1 with sentSet := a1.sentSet ++ [pick] }
      if i.peers.contains pick then
        if i.localNonShared then { a2 with targets := a2.targets ++ [pick], drop := false, nso := true }
        else { a2 with targets := a2.targets ++ [pick], drop := true }
      else a2

/-- `sendMessage` -/
def routeCore (sort : List ν → List ν) (i : CoreIn ν κ) (retained : Bool) : CoreOut ν κ :=
  if retained then { targets := i.peers, drop := false, nonSharedOnly := false, sent := i.sent }
  else
    let a0 : Acc ν κ := { targets := [], sentSet := [], drop := false, nso := false, cnt := i.sent }
    let a := (sharedListCore i).foldl (sharedStep sort i) a0
    let extra := (dedupS i.fedNonShared).filter (fun n => !a.sentSet.contains n && i.peers.contains n)
    { targets := a.targets ++ extra, drop := a.drop, nonSharedOnly := a.nso, sent := a.cnt }

end core

/-! ### the instance the code runs -/

structure LocalSub where
  client : String
  share  : String
  filter : String
  deriving Repr, DecidableEq, Inhabited

structure RouteIn where
  self    : String
  peers   : List String
  fedSubs : List SubKey                 -- content of `f.fedSubStore`
  locals  : List LocalSub               -- content of `localSubStore.localStore` (the broker's own store)
  sent    : List (String × Nat)
  deriving Repr, Inhabited

abbrev RouteOut := CoreOut String String

/-- is a local subscription visited by `localStore.Iterate(TypeAll ^ TypeShared, topic, MatchFilter)` -/
def localNonSharedMatches (l : LocalSub) (topic : String) : Bool :=
  l.share == "" && subMatches "" l.filter topic

/-- `sort.Strings` -/
def sortStrings (l : List String) : List String := l.mergeSort (fun a b => !(b < a))

/-- results of the three `Iterate` calls of `sendMessage` -/
def toCore (i : RouteIn) (topic : String) : CoreIn String String :=
  { self := i.self
    peers := i.peers
    localShared := (i.locals.filter (fun l => l.share != "" && sharedMatches l.filter topic)).map (fun l => fullName l.share l.filter)
    fedShared := (i.fedSubs.filter (fun k => k.share != "" && subMatches k.share k.filter topic)).map
      (fun k => (k.node, fullName k.share k.filter))
    fedNonShared := (i.fedSubs.filter (fun k => k.share == "" && subMatches "" k.filter topic)).map (·.node)
    localNonShared := i.locals.any (fun l => localNonSharedMatches l topic)
    sent := i.sent }

def route (i : RouteIn) (topic : String) (retained : Bool) : RouteOut :=
  routeCore sortStrings (toCore i topic) retained

end GmqttVerif.Fed
