import GmqttVerif.Model.Fed.PeerSession
/-
  Model of `Federation.sendMessage` / `sendSharedMsg` (hooks.go): which peers get a copy of a message
  published on this node, and what the node does with its own local delivery (`drop`, `options`).

  Inputs, all explicit:
    self      `f.nodeName`
    peers     keys of `f.peers` (the nodes that have an outgoing queue)
    fedSubs   content of `f.fedSubStore` : (node, shareName, topicFilter)
    locals    content of the broker's own subscription store `localSubStore.localStore`: (client, shareName, topicFilter)
    sent      `fedSubStore.sharedSent`: round-robin counter per full shared topic name — the "random pick" input
    msg       topic, retained flag (payload does not influence routing)

  Go iterates maps in random order; every use below is order-independent except the ORDER of `targets`
  (compared after sorting) — the `sent[...]`-set logic makes the set of targets and `drop/options` independent
  of the order in which the shared topics are visited.
-/
namespace GmqttVerif.Fed

structure LocalSub where
  client : String
  share  : String
  filter : String
  deriving Repr, DecidableEq, Inhabited

structure RouteIn where
  self    : String
  peers   : List String
  fedSubs : List SubKey
  locals  : List LocalSub
  sent    : List (String × Nat)
  deriving Repr, Inhabited

structure RouteOut where
  targets : List String            -- peers whose queue got the message (one `queue.add` each), in call order
  drop    : Bool                   -- local node must not deliver at all
  nonSharedOnly : Bool             -- `options != nil`: local delivery restricted to non-shared subscriptions
  sent    : List (String × Nat)    -- counters afterwards
  deriving Repr, DecidableEq, Inhabited

def counter (sent : List (String × Nat)) (t : String) : Nat := ((sent.find? (·.1 == t)).map (·.2)).getD 0

def bump (sent : List (String × Nat)) (t : String) : List (String × Nat) :=
  if sent.any (·.1 == t) then sent.map (fun p => if p.1 == t then (t, p.2 + 1) else p) else sent ++ [(t, 1)]

/-- `sharedList[topic] = append(sharedList[topic], node)` -/
def pushShared (sl : List (String × List String)) (t node : String) : List (String × List String) :=
  if sl.any (·.1 == t) then sl.map (fun p => if p.1 == t then (t, p.2 ++ [node]) else p) else sl ++ [(t, [node])]

/-- is a local subscription visited by `localStore.Iterate(TypeAll ^ TypeShared, topic, MatchFilter)` -/
def localNonSharedMatches (l : LocalSub) (topic : String) : Bool :=
  l.share == "" && subMatches "" l.filter topic

/-- `sort.Strings` -/
def sortStrings (l : List String) : List String := l.mergeSort (fun a b => !(b < a))

/-- the shared map built by the two `Iterate` calls: full shared topic ↦ node names (this node once per
    matching local shared subscriber, every other node once per matching shared entry) -/
def sharedList (i : RouteIn) (topic : String) : List (String × List String) :=
  let l1 := (i.locals.filter (fun l => l.share != "" && sharedMatches l.filter topic)).foldl
    (fun sl l => pushShared sl (fullName l.share l.filter) i.self) []
  (i.fedSubs.filter (fun k => k.share != "" && subMatches k.share k.filter topic)).foldl
    (fun sl k => pushShared sl (fullName k.share k.filter) k.node) l1

/-- the `nonShared` node set -/
def nonSharedNodes (i : RouteIn) (topic : String) : List String :=
  ((i.fedSubs.filter (fun k => k.share == "" && subMatches "" k.filter topic)).map (·.node)).eraseDups

structure Acc where
  targets : List String
  sentSet : List String
  drop    : Bool
  nso     : Bool
  cnt     : List (String × Nat)

/-- one iteration of `sendSharedMsg`'s loop including the `send` closure of `sendMessage` -/
def sharedStep (i : RouteIn) (topic : String) (a : Acc) (p : String × List String) : Acc :=
  let v := sortStrings p.2
  let pick := v.getD (counter a.cnt p.1 % v.length) ""
  let a := { a with cnt := bump a.cnt p.1 }
  if pick == i.self then a
  else if a.sentSet.contains pick then a
  else
    let a := { a with sentSet := a.sentSet ++ [pick] }
    if i.peers.contains pick then
      if i.locals.any (fun l => localNonSharedMatches l topic) then
        { a with targets := a.targets ++ [pick], drop := false, nso := true }
      else
        { a with targets := a.targets ++ [pick], drop := true }
    else a

/-- `sendMessage` -/
def route (i : RouteIn) (topic : String) (retained : Bool) : RouteOut :=
  if retained then { targets := i.peers, drop := false, nonSharedOnly := false, sent := i.sent }
  else
    let a0 : Acc := { targets := [], sentSet := [], drop := false, nso := false, cnt := i.sent }
    let a := (sharedList i topic).foldl (sharedStep i topic) a0
    let extra := (nonSharedNodes i topic).filter (fun n => !a.sentSet.contains n && i.peers.contains n)
    { targets := a.targets ++ extra, drop := a.drop, nonSharedOnly := a.nso, sent := a.cnt }

end GmqttVerif.Fed
