import GmqttVerif.Model.Topic
/-
  Topic helpers of the federation models: thin `String` wrappers around `Model/Topic.lean` (no second definition of matching).

  * `subMatches share filter topic` = is a subscription (shareName, topicFilter) visited by
        `TrieDB.Iterate(fn, {Type: TypeAll, TopicName: topic, MatchType: MatchFilter})`.
    For a non-empty topic name this is the declarative MQTT 4.7 relation `Topic.MatchesTopic` — C02 `matchTopic_exact` proves that
    the three tries (shared, user, system) visit exactly the stored subscriptions satisfying it (valid topic names; since 71aefdf
    also for shared subscriptions and `$`-topics).  For `topic == ""` the code applies no topic restriction at all: every
    subscription is visited (`sendMessage` can still be reached with an empty topic through a will / the Publisher API).
  * `sharedMatches` = the same for `Iterate(TypeShared, …)` on the local store.
  * `splitTopic` / `fullName` = `subscription.SplitTopic` / `GetFullTopicName` (`Topic.splitTopic`, `Topic.fullName`).

  Stream `fedroute` compares `Fed.route` — hence these functions — with the real `mem.TrieDB` on every run.
-/
namespace GmqttVerif.Fed

/-- visited by `Iterate(TypeAll, TopicName = topic, MatchFilter)` -/
def subMatches (_share filter topic : String) : Bool :=
  if topic == "" then true else Topic.MatchesTopic filter.toList topic.toList

/-- visited by `Iterate(TypeShared, TopicName = topic, MatchFilter)` (shared subscriptions only) -/
def sharedMatches (filter topic : String) : Bool := subMatches "" filter topic

/-- for a non-empty topic name, matching IS the relation C01/C02 are stated with -/
theorem subMatches_eq_MatchesTopic (share filter topic : String) (h : topic ≠ "") :
    subMatches share filter topic = Topic.MatchesTopic filter.toList topic.toList := by
  simp [subMatches, h]

/-- `subscription.SplitTopic` -/
def splitTopic (t : String) : String × String :=
  let r := Topic.splitTopic t.toList
  (String.ofList r.1, String.ofList r.2)

/-- `Subscription.GetFullTopicName` -/
def fullName (share filter : String) : String :=
  String.ofList (Topic.fullName share.toList filter.toList)

end GmqttVerif.Fed
