/-
  Topic helpers local to the federation models (to be unified with `Model/Topic.lean`).

  * `levels`      = `strings.Split(s, "/")`
  * `matchLevels` = what `mem.topicTrie.matchTopic` computes, read as a predicate on ONE filter:
                    "is the trie node of this filter visited (`setRs`) when matching this topic name?"
  * `subMatches`  = is a subscription (shareName, topicFilter) visited by
                    `TrieDB.Iterate(fn, {Type: TypeAll, TopicName: topic, MatchType: MatchFilter})`
                    (three tries: shared, user, system), including the code's
                    behaviour for `topic == ""` (no topic restriction at all ⇒ every subscription; F18).
  * `splitTopic` / `fullName` = `subscription.SplitTopic` / `GetFullTopicName`.

  Assumption (generator keeps to it): topic NAMES contain no level equal to "+" or "#".
-/
namespace GmqttVerif.Fed

def levels (s : String) : List String := s.splitOn "/"

/-- `matchTopic` walk. At a trie node, for the remaining topic levels `t :: ts`:
    child "#" is reported; child "+" and child `t` are followed; at the last topic level the child itself
    and its "#" child are reported. -/
def matchLevels : List String → List String → Bool
  | f :: fs, t :: ts =>
    if f == "#" && fs.isEmpty then true
    else if f == "+" || f == t then
      match ts with
      | [] => fs.isEmpty || fs == ["#"]
      | _ :: _ => matchLevels fs ts
    else false
  | _, _ => false

/-- `isSystemTopic` -/
def isSys (s : String) : Bool := s.startsWith "$"

/-- `getMatchedTopicFilter` (since 71aefdf): for a topic name beginning with `$` only the child with exactly the topic's
    first level is followed, so a filter whose first level is `+` or `#` does not match [MQTT-4.7.2-1] — in every trie. -/
def trieMatches (filter topic : String) : Bool :=
  (!isSys topic || (levels filter).head? == (levels topic).head?) && matchLevels (levels filter) (levels topic)

/-- visited by `Iterate(TypeAll, TopicName = topic, MatchFilter)` -/
def subMatches (share filter topic : String) : Bool :=
  if topic == "" then true
  else if share != "" then trieMatches filter topic
  else (isSys filter == isSys topic) && trieMatches filter topic

/-- visited by `Iterate(TypeShared, TopicName = topic, MatchFilter)` (shared subscriptions only) -/
def sharedMatches (filter topic : String) : Bool :=
  if topic == "" then true else trieMatches filter topic

/-- `subscription.SplitTopic` -/
def splitTopic (t : String) : String × String :=
  if t.startsWith "$share/" then
    match t.splitOn "/" with
    | _ :: g :: r :: rs => (g, String.intercalate "/" (r :: rs))
    | _ => ("", "")
  else ("", t)

/-- `Subscription.GetFullTopicName` -/
def fullName (share filter : String) : String :=
  if share != "" then "$share/" ++ share ++ "/" ++ filter else filter

end GmqttVerif.Fed
