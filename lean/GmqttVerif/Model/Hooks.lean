/-
  Hook wrappers and their composition (server/server.go `initPluginHooks`, server/plugin.go `HookWrapper`).

  A hook is a call that produces a verdict `ρ` and has an observable effect; the only effect the property is about is
  the ORDER of calls, so the effect is a call log (`List String`) that every participant appends to.
  A plugin's wrapper of a hook kind is `h ↦ (log pre; r := h(); log post; return r)` — it never short-circuits.

  `initPluginHooks` collects the wrappers of one kind from the plugins in `plugin_order` into a slice `ws` and folds

      h := base
      for i := len(ws); i > 0; i-- { h = ws[i-1](h) }

  `composeLoop` is that loop, literally (index arithmetic included); `compose` is what it computes.
-/
namespace GmqttVerif.Hooks

abbrev Log := List String

/-- a hook call: given the log so far, the verdict and the log afterwards -/
abbrev Hook (ρ : Type) := Log → ρ × Log

/-- what one plugin contributes to one hook kind -/
structure Wrapper where
  pre  : String
  post : String
  deriving Repr, DecidableEq, Inhabited

/-- `func(next H) H { return func(args) R { log(pre); r := next(args); log(post); return r } }` -/
def Wrapper.apply {ρ : Type} (w : Wrapper) (next : Hook ρ) : Hook ρ :=
  fun l =>
    let (r, l') := next (l ++ [w.pre])
    (r, l' ++ [w.post])

/-- the loop of `initPluginHooks`: `i` counts down from `len(ws)`, each round wraps with `ws[i-1]` -/
def composeLoop {ρ : Type} (ws : List Wrapper) : Nat → Hook ρ → Hook ρ
  | 0, h => h
  | i+1, h =>
    match ws[i]? with
    | some w => composeLoop ws i (w.apply h)
    | none => composeLoop ws i h          -- unreachable for i < len(ws)

/-- `srv.hooks.X` after `initPluginHooks` -/
def compose {ρ : Type} (ws : List Wrapper) (base : Hook ρ) : Hook ρ := composeLoop ws ws.length base

/-- the other possible loop, `for i := 0; i < len(ws); i++ { h = ws[i](h) }` (the extractor tells the two apart) -/
def composeForward {ρ : Type} (ws : List Wrapper) (base : Hook ρ) : Hook ρ := ws.foldl (fun h w => w.apply h) base

/-- a base hook that logs `mark` entries and returns `r` -/
def baseHook {ρ : Type} (r : ρ) (marks : List String) : Hook ρ := fun l => (r, l ++ marks)

/-! ### the recording plugins of the wire harness (harness/cmd/drive_broker/hooks.go) -/

def recWrapper (plugin : String) : Wrapper := { pre := ">" ++ plugin, post := "<" ++ plugin }

/-- what one hook event looks like in the harness log when the plugins `order` are configured -/
def eventSeq (order : List String) (base : Bool) : String :=
  String.join ((compose (order.map recWrapper) (baseHook () (if base then ["*"] else [])) []).2)

end GmqttVerif.Hooks
