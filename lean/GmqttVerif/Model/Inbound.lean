import GmqttVerif.Model.Unack
/-
  Model of what `publishHandler` and `pubrelHandler` (server/client.go) do with the unack store and
  which acknowledgement they write, for one session across its connections.

    publishHandler  client.go:987-1090   (QoS 2 duplicate detection 1021-1029, delivery 1041-1056,
                                          reason code 1058-1070, ack + store roll-back 1072-1086)
    pubrelHandler   client.go:1119-1127
    registerClient  server.go:434-498    (resumed session: `ua.Init(false)`; otherwise a new store + `Init(true)`)

  Not modelled (they end the connection before any ack): RETAIN on a client without retain-available
  (990-995), topic alias errors (1000-1017), an error returned by the store (never happens with
  `unack/mem`).  The DUP flag of the PUBLISH is an input the handler never reads; it is kept in the
  event so the theorems quantify over it.  What the `OnMsgArrived` hook did is the input `Verdict`.
-/
namespace GmqttVerif.Inbound
open GmqttVerif.Unack

/-- outcome of `srv.hooks.OnMsgArrived` (client.go:1045-1053); `ok` also covers "no hook installed" -/
inductive Verdict
  | ok                    -- err == nil, msg != nil
  | drop                  -- err == nil, req.Message set to nil
  | err (code : Nat)      -- err != nil; `code` = converError(err).Code (0x80 for a plain error)
  deriving Repr, DecidableEq, Inhabited

inductive Event
  | pub (qos id : Nat) (dup : Bool) (v : Verdict)   -- PUBLISH received
  | pubrel (id : Nat)                               -- PUBREL received
  | reset (clean : Bool) (v5 : Bool)                -- new connection: `clean` = session NOT resumed; protocol version
  deriving Repr, DecidableEq, Inhabited

inductive Ack
  | puback (id : Nat) | pubrec (id : Nat) | pubcomp (id : Nat)
  deriving Repr, DecidableEq, Inhabited

structure Out where
  deliver : Bool        -- `deliverMessage` was called (client.go:1054-1056)
  acks : List Ack       -- packets written by the handler
  deriving Repr, DecidableEq, Inhabited

structure St where
  store : Store
  v5 : Bool
  deriving Repr, DecidableEq, Inhabited

def init : St := { store := Unack.new, v5 := true }

def step (s : St) : Event → St × Out
  | .pub qos id _dup v =>
    -- 1021-1029: `if pub.Qos == Qos2 { exist, _ := unackStore.Set(id); if exist { dup = true } }`
    let (store1, isDup) := if qos = 2 then s.store.set id else (s.store, false)
    -- 1041-1056: `if !dup { hook; if msg != nil && err == nil { deliverMessage } }`
    let deliver := !isDup && v == .ok
    -- 1058-1070: only v5 turns the hook error into the reason code; a duplicate never calls the hook (err == nil)
    let high : Bool := s.v5 && !isDup && (match v with | .err c => decide (c ≥ 0x80) | _ => false)
    -- 1072-1086
    if qos = 1 then ({ s with store := store1 }, { deliver := deliver, acks := [.puback id] })
    else if qos = 2 then
      -- `if code >= codes.UnspecifiedError { unackStore.Remove(id) }`
      let store2 := if high then store1.remove id else store1
      ({ s with store := store2 }, { deliver := deliver, acks := [.pubrec id] })
    else ({ s with store := store1 }, { deliver := deliver, acks := [] })
  | .pubrel id =>
    -- 1120-1126: Remove(id); write PUBCOMP
    ({ s with store := s.store.remove id }, { deliver := false, acks := [.pubcomp id] })
  | .reset clean v5 =>
    -- server.go:447-452 `ua.Init(false)` on resume; 486-493 new store + `Init(true)` otherwise
    ({ store := if clean then Unack.new.init true else s.store.init false, v5 := v5 }, { deliver := false, acks := [] })

def run (s : St) : List Event → St × List Out
  | [] => (s, [])
  | e :: es =>
    let (s', o) := step s e
    let (s'', os) := run s' es
    (s'', o :: os)

end GmqttVerif.Inbound
