/-
  C15 — the goroutine / channel protocol of ONE connection (server/client.go `serve`, `readLoop`, `writeLoop`,
  `connectWithTimeOut`, `readHandle`, `pollMessageHandler`, `setError`, `internalClose`) as an interleaving
  transition system: one program counter per goroutine over the shared objects

      in  (chan, cap 8)        `inq : List Pkt`, `inClosed`
      out (chan, cap 8)        `outq : List OPkt`
      close / errOnce          `once : Once`      (`close(client.close)` happens exactly when `once` becomes `.done`)
      connected, closed        `connectedCh`, `closedCh`
      rwc                      `peerClosed`, `srvClosed`, `stalled` (the peer does not read), `wire` (bytes the peer has
                               written and readLoop has not parsed yet — bufio buffer / socket buffer)
      queueStore.closed, pl.exit, messages waiting in the queue, free packet ids
      client.status, srv.clients[id]

  Packet contents are abstracted to the outcome they have (`Pkt`). Every atomic step is one blocking operation of the
  source (a channel operation, a socket operation, a `sync.Once`, a `WaitGroup.Wait`) together with the non-blocking
  code up to the next one.

  `Fixes` selects, repair by repair, between the code as it is (`Fixes.asIs`) and the repaired code
  (`Fixes.all`, findings/c15-*.diff):
    readSelect   readLoop:  `select { case client.in <- packet: case <-client.close: return }`        (F37)
    writeCloses  writeLoop: closes `rwc` when it exits                                                 (F38)
    onceNoBlock  setError:  the DISCONNECT is queued with a non-blocking send (inside errOnce.Do)       (F47)
    nilPacket    connectWithTimeOut: a closed `in` is an error, not `ok = true`                        (F49)
    connSelect   connectWithTimeOut: CONNACK(error) / AUTH are queued with `client.write` (select on close) (F48)
  (`Stop` tracking every connection — the second half of F38 — is the flag `SysCfg.stopAll` below.)
  The model follows the tree including commits ad55f8a / d202e0a: on `client.close` writeLoop flushes a pending
  CONNACK / DISCONNECT from `out` before it exits; and b5c09eb: after `client.in <- packet` readLoop waits for
  `connected` or for one `authStep` token (sent by connectWithTimeOut after every AUTH(continue)).

  Not modelled (see Properties/C15.lean): keep-alive read deadline (same path as a read error), `Client.Disconnect`
  API, persistence errors in `registerClient`, the write of a DISCONNECT taking effect on a half-closed TCP socket.
-/
namespace GmqttVerif.Lifecycle

structure Fixes where
  readSelect : Bool
  writeCloses : Bool
  onceNoBlock : Bool
  connSelect : Bool
  nilPacket : Bool
  deriving DecidableEq, Repr

def Fixes.asIs : Fixes := ⟨false, false, false, false, false⟩
def Fixes.all : Fixes := ⟨true, true, true, true, true⟩

structure Cfg where
  fix : Fixes
  v5 : Bool           -- protocol version of the client is 5 (decides whether setError sends a DISCONNECT)
  deriving DecidableEq, Repr

/-- inbound packets by what the server does with them -/
inductive Pkt
  | connOk               -- CONNECT that is accepted (or the AUTH that completes enhanced authentication)
  | connFail             -- CONNECT (or any first packet) that is refused
  | authCont             -- CONNECT / AUTH answered with AUTH(continue)
  | data (resp : Bool)   -- handled without error; `resp`: the handler queues a packet on `out`
  | err                  -- the handler returns a *codes.Error
  | disc                 -- DISCONNECT
  | bad (coded : Bool)   -- ReadPacket / receive-quota check fails; `coded`: the error is a *codes.Error
  deriving DecidableEq, Repr

inductive OPkt
  | data | connack | disc
  deriving DecidableEq, Repr

inductive Once
  | fresh | running | done
  deriving DecidableEq, Repr

/-- readLoop -/
inductive RPC
  | read                 -- packetReader.ReadPacket()
  | send (p : Pkt)       -- client.in <- packet
  | waitConn             -- select { <-client.connected ; <-client.authStep }
  | setErr (coded : Bool)-- deferred client.setError(err)
  | sendDisc             -- inside errOnce.Do: client.write(DISCONNECT)
  | closeIn              -- close(client.in)
  | done
  deriving DecidableEq, Repr

/-- writeLoop -/
inductive WPC
  | sel                  -- select { <-client.close ; <-client.out }
  | write (p : OPkt)     -- client.writePacket(packet)
  | drain                -- close branch: non-blocking receive loop on client.out
  | flushConnack         -- close branch: writePacket(CONNACK), back to the loop
  | flushDisc            -- close branch: writePacket(DISCONNECT); rwc.Close()
  | setErr               -- deferred client.setError(err)
  | closeSock            -- (repair writeCloses) rwc.Close()
  | done
  deriving DecidableEq, Repr

/-- the goroutine running serve(): connectWithTimeOut, then the joins, then internalClose -/
inductive SPC
  | cSel                 -- select { <-client.in ; <-timeout.C }
  | cSendAuth            -- client.out <- AUTH(continue)
  | cSendErrConnack      -- sendErrConnack: client.out <- CONNACK(error)
  | cWriteConnack        -- registered; client.write(CONNACK)
  | cSetErr              -- deferred client.setError(err)
  | cCloseConnected (ok : Bool)  -- close(client.connected); return ok
  | spawn (ok : Bool)    -- if ok { go pollMessageHandler; go readHandle }
  | waitRead             -- readWg.Wait()
  | closeQueue           -- client.queueStore.Close()
  | closePl              -- client.pl.close()
  | waitWg               -- client.wg.Wait()
  | closeSock            -- client.rwc.Close()
  | unreg                -- internalClose: if IsConnected { OnClosed; unregister }
  | closeClosed          -- close(client.closed)
  | done
  deriving DecidableEq, Repr

/-- pollMessageHandler -/
inductive PPC
  | notStarted
  | start                -- pollInflights: dereferences client.queueStore
  | ids                  -- pl.pollPacketIDs (cond wait: free ids or exit)
  | queue                -- queueStore.Read (cond wait: message or closed)
  | write                -- client.write(PUBLISH)
  | setErr               -- deferred client.setError(err)
  | done
  deriving DecidableEq, Repr

/-- readHandle -/
inductive HPC
  | notStarted
  | recv                 -- for packet := range client.in
  | write                -- a handler's client.write(response)
  | setErr (coded : Bool)
  | sendDisc
  | done
  deriving DecidableEq, Repr

/-- a goroutine of ANOTHER connection taking this client id over (lockDuplicatedID):
    oldClient.setError(SessionTakenOver); oldClient.Close(); <-oldClient.closed -/
inductive XPC
  | idle | setErr | sendDisc | closeSock | waitClosed | done
  deriving DecidableEq, Repr

structure State where
  r : RPC := .read
  w : WPC := .sel
  s : SPC := .cSel
  p : PPC := .notStarted
  h : HPC := .notStarted
  x : XPC := .idle
  once : Once := .fresh
  wire : List Pkt := []
  inq : List Pkt := []
  inClosed : Bool := false
  outq : List OPkt := []
  connectedCh : Bool := false
  authStep : Bool := false      -- client.authStep (cap 1): readLoop may read one more packet while CONNECT is pending
  closedCh : Bool := false
  peerClosed : Bool := false
  srvClosed : Bool := false
  stalled : Bool := false
  status : Bool := false        -- client.IsConnected()
  registered : Bool := false    -- srv.clients[id] == client
  unregistered : Bool := false  -- unregisterClient has run
  queueClosed : Bool := false
  plExit : Bool := false
  msgs : Nat := 0               -- messages waiting in the session queue
  idsFree : Bool := true        -- the limiter has a free packet id
  -- ghost: how often close() was executed on each channel (a second close would panic)
  nClose : Nat := 0
  nIn : Nat := 0
  nConnected : Nat := 0
  nClosed : Nat := 0
  nUnreg : Nat := 0
  deriving DecidableEq, Repr

def init : State := {}

/-- the socket is dead: the peer or the server has closed it -/
def State.dead (s : State) : Bool := s.peerClosed || s.srvClosed

def cap : Nat := 8

inductive Act
  -- environment
  | send (p : Pkt) | peerClose | srvClose | kill | enqueue | setIds (b : Bool) | setStall (b : Bool)
  -- readLoop
  | rRead | rReadErr | rSend | rSendAbort | rWaitConn | rAuthStep | rErr | rSendDisc | rCloseIn
  -- writeLoop
  | wRecv | wClose | wWriteOk | wWriteFail | wDrain | wFlushConnack | wFlush | wErr | wCloseSock
  -- serve / connectWithTimeOut
  | cRecv | cRecvNil | cTimeout | cSendAuth | cSendAuthSkip | cSendErrConnack | cSendErrConnackSkip
  | cWriteConnack | cWriteConnackSkip | cErr | cCloseConnected
  | sSpawn | sWaitRead | sCloseQueue | sClosePl | sWaitWg | sCloseSock | sUnreg | sCloseClosed
  -- pollMessageHandler
  | pStart | pIdsOk | pIdsExit | pQueueMsg | pQueueClosed | pWrite | pWriteSkip | pErr
  -- readHandle
  | hRecv | hRecvEnd | hWrite | hWriteSkip | hErr | hSendDisc
  -- take-over by another connection
  | xErr | xSendDisc | xCloseSock | xWake
  deriving DecidableEq, Repr

def Act.isEnv : Act → Bool
  | .send _ | .peerClose | .srvClose | .kill | .enqueue | .setIds _ | .setStall _ => true
  | _ => false

/-- every action of the connection's own goroutines (and of the goroutine taking it over) -/
def internalActs : List Act :=
  [.rRead, .rReadErr, .rSend, .rSendAbort, .rWaitConn, .rAuthStep, .rErr, .rSendDisc, .rCloseIn,
   .wRecv, .wClose, .wWriteOk, .wWriteFail, .wDrain, .wFlushConnack, .wFlush, .wErr, .wCloseSock,
   .cRecv, .cRecvNil, .cTimeout, .cSendAuth, .cSendAuthSkip, .cSendErrConnack, .cSendErrConnackSkip,
   .cWriteConnack, .cWriteConnackSkip, .cErr, .cCloseConnected,
   .sSpawn, .sWaitRead, .sCloseQueue, .sClosePl, .sWaitWg, .sCloseSock, .sUnreg, .sCloseClosed,
   .pStart, .pIdsOk, .pIdsExit, .pQueueMsg, .pQueueClosed, .pWrite, .pWriteSkip, .pErr,
   .hRecv, .hRecvEnd, .hWrite, .hWriteSkip, .hErr, .hSendDisc,
   .xErr, .xSendDisc, .xCloseSock, .xWake]

/-- `client.setError(err)` entered by a goroutine. `coded`: err is a *codes.Error.
    `toSend`: the caller's state when it goes on to queue the DISCONNECT inside `errOnce.Do`;
    `toAfter`: the caller's state when setError has returned. Blocks while another goroutine is inside `Do`. -/
def onceBegin (c : Cfg) (s : State) (coded : Bool) (toSend toAfter : State) : Option State :=
  match s.once with
  | .fresh =>
    if coded && c.v5 && s.status then some { toSend with once := .running }
    else some { toAfter with once := .done, nClose := s.nClose + 1 }
  | .done => some toAfter
  | .running => none

/-- inside `errOnce.Do`: `client.write(DISCONNECT)` — `close` is still open, so this is a plain send on `out` —
    then `close(client.close)`. With `onceNoBlock` a full `out` drops the DISCONNECT instead of blocking. -/
def onceSend (c : Cfg) (s : State) (toAfter : State) : Option State :=
  if s.outq.length < cap then
    some { toAfter with outq := s.outq ++ [.disc], once := .done, nClose := s.nClose + 1 }
  else if c.fix.onceNoBlock then some { toAfter with once := .done, nClose := s.nClose + 1 }
  else none

/-- `client.write(p)`: the send branch of `select { case <-client.close: case client.out <- p: }` -/
def outPut (s : State) (toAfter : State) (p : OPkt := .data) : Option State :=
  if s.outq.length < cap then some { toAfter with outq := s.outq ++ [p] } else none

/-- … and its `<-client.close` branch -/
def outSkip (s : State) (toAfter : State) : Option State :=
  if s.once = .done then some toAfter else none

def step (c : Cfg) (s : State) : Act → Option State
  -- ───────────── environment
  | .send p => if s.peerClosed = false ∧ s.srvClosed = false then some { s with wire := s.wire ++ [p] } else none
  | .peerClose => if s.peerClosed = false then some { s with peerClosed := true } else none
  | .srvClose => some { s with srvClosed := true }          -- Client.Close() by Stop / TerminateSession
  | .kill => if s.x = .idle ∧ s.registered = true then some { s with x := .setErr } else none
  | .enqueue => if s.registered = true then some { s with msgs := s.msgs + 1 } else none
  | .setIds b => some { s with idsFree := b }
  | .setStall b => some { s with stalled := b }
  -- ───────────── readLoop
  | .rRead =>
    match s.r, s.wire with
    | .read, .bad coded :: w => some { s with r := .setErr coded, wire := w }
    | .read, p :: w => some { s with r := .send p, wire := w }
    | _, _ => none
  | .rReadErr => if s.r = .read ∧ s.dead = true then some { s with r := .setErr false } else none
  | .rSend =>
    match s.r with
    | .send p => if s.inq.length < cap then some { s with r := .waitConn, inq := s.inq ++ [p] } else none
    | _ => none
  | .rSendAbort =>
    match s.r with
    | .send _ => if c.fix.readSelect = true ∧ s.once = .done then some { s with r := .setErr false } else none
    | _ => none
  | .rWaitConn => if s.r = .waitConn ∧ s.connectedCh = true then some { s with r := .read } else none
  | .rAuthStep => if s.r = .waitConn ∧ s.authStep = true then some { s with r := .read, authStep := false } else none
  | .rErr =>
    match s.r with
    | .setErr coded => onceBegin c s coded { s with r := .sendDisc } { s with r := .closeIn }
    | _ => none
  | .rSendDisc => if s.r = .sendDisc then onceSend c s { s with r := .closeIn } else none
  | .rCloseIn => if s.r = .closeIn then some { s with r := .done, inClosed := true, nIn := s.nIn + 1 } else none
  -- ───────────── writeLoop
  | .wRecv =>
    match s.w, s.outq with
    | .sel, p :: q => some { s with w := .write p, outq := q }
    | _, _ => none
  | .wClose => if s.w = .sel ∧ s.once = .done then some { s with w := .drain } else none
  | .wWriteOk =>
    match s.w with
    | .write .disc => if s.dead = false ∧ s.stalled = false then some { s with w := .setErr, srvClosed := true } else none
    | .write _ => if s.dead = false ∧ s.stalled = false then some { s with w := .sel } else none
    | _ => none
  | .wWriteFail =>
    match s.w with
    | .write _ => if s.dead = true then some { s with w := .setErr } else none
    | _ => none
  | .wDrain =>
    match s.w, s.outq with
    | .drain, [] => some { s with w := .setErr }
    | .drain, .disc :: q => some { s with w := .flushDisc, outq := q }
    | .drain, .connack :: q => some { s with w := .flushConnack, outq := q }
    | .drain, .data :: q => some { s with outq := q }
    | _, _ => none
  | .wFlushConnack =>
    if s.w = .flushConnack ∧ (s.dead = true ∨ s.stalled = false) then some { s with w := .drain } else none
  | .wFlush =>
    if s.w = .flushDisc ∧ (s.dead = true ∨ s.stalled = false) then some { s with w := .setErr, srvClosed := true } else none
  | .wErr =>
    if s.w = .setErr then
      onceBegin c s false s { s with w := if c.fix.writeCloses then .closeSock else .done }
    else none
  | .wCloseSock => if s.w = .closeSock then some { s with w := .done, srvClosed := true } else none
  -- ───────────── serve: connectWithTimeOut
  | .cRecv =>
    match s.s, s.inq with
    | .cSel, .connOk :: q => some { s with s := .cWriteConnack, inq := q, registered := true, status := true }
    | .cSel, .authCont :: q => some { s with s := .cSendAuth, inq := q }
    | .cSel, _ :: q => some { s with s := .cSendErrConnack, inq := q }
    | _, _ => none
  | .cRecvNil =>
    if s.s = .cSel ∧ s.inq = [] ∧ s.inClosed = true then
      some { s with s := if c.fix.nilPacket then .cSetErr else .cCloseConnected true }
    else none
  | .cTimeout => if s.s = .cSel then some { s with s := .cSetErr } else none
  | .cSendAuth => if s.s = .cSendAuth then outPut s { s with s := .cSel, authStep := true } else none
  | .cSendAuthSkip =>
    if s.s = .cSendAuth ∧ c.fix.connSelect = true then outSkip s { s with s := .cSel, authStep := true } else none
  | .cSendErrConnack => if s.s = .cSendErrConnack then outPut s { s with s := .cSetErr } .connack else none
  | .cSendErrConnackSkip =>
    if s.s = .cSendErrConnack ∧ c.fix.connSelect = true then outSkip s { s with s := .cSetErr } else none
  | .cWriteConnack => if s.s = .cWriteConnack then outPut s { s with s := .cCloseConnected true } .connack else none
  | .cWriteConnackSkip => if s.s = .cWriteConnack then outSkip s { s with s := .cCloseConnected true } else none
  | .cErr => if s.s = .cSetErr then onceBegin c s false s { s with s := .cCloseConnected false } else none
  | .cCloseConnected =>
    match s.s with
    | .cCloseConnected ok => some { s with s := .spawn ok, connectedCh := true, nConnected := s.nConnected + 1 }
    | _ => none
  -- ───────────── serve: after connectWithTimeOut
  | .sSpawn =>
    match s.s with
    | .spawn true => some { s with s := .waitRead, p := .start, h := .recv }
    | .spawn false => some { s with s := .waitRead }
    | _ => none
  | .sWaitRead => if s.s = .waitRead ∧ s.r = .done then some { s with s := .closeQueue } else none
  | .sCloseQueue => if s.s = .closeQueue then some { s with s := .closePl, queueClosed := s.registered } else none
  | .sClosePl => if s.s = .closePl then some { s with s := .waitWg, plExit := s.registered } else none
  | .sWaitWg =>
    if s.s = .waitWg ∧ s.w = .done ∧ (s.p = .done ∨ s.p = .notStarted) ∧ (s.h = .done ∨ s.h = .notStarted) then
      some { s with s := .closeSock }
    else none
  | .sCloseSock => if s.s = .closeSock then some { s with s := .unreg, srvClosed := true } else none
  | .sUnreg =>
    if s.s = .unreg then
      if s.status = true then
        some { s with s := .closeClosed, registered := false, unregistered := true, nUnreg := s.nUnreg + 1 }
      else some { s with s := .closeClosed }
    else none
  | .sCloseClosed => if s.s = .closeClosed then some { s with s := .done, closedCh := true, nClosed := s.nClosed + 1 } else none
  -- ───────────── pollMessageHandler
  | .pStart =>
    if s.p = .start then some { s with p := if s.registered then .ids else .setErr } else none   -- nil queueStore: recovered panic
  | .pIdsOk => if s.p = .ids ∧ s.plExit = false ∧ s.idsFree = true then some { s with p := .queue } else none
  | .pIdsExit => if s.p = .ids ∧ s.plExit = true then some { s with p := .setErr } else none
  | .pQueueMsg =>
    if s.p = .queue ∧ s.queueClosed = false ∧ 0 < s.msgs then some { s with p := .write, msgs := s.msgs - 1 } else none
  | .pQueueClosed => if s.p = .queue ∧ s.queueClosed = true then some { s with p := .setErr } else none
  | .pWrite => if s.p = .write then outPut s { s with p := .ids } else none
  | .pWriteSkip => if s.p = .write then outSkip s { s with p := .ids } else none
  | .pErr => if s.p = .setErr then onceBegin c s false s { s with p := .done } else none
  -- ───────────── readHandle
  | .hRecv =>
    match s.h, s.inq with
    | .recv, .data true :: q => some { s with h := .write, inq := q }
    | .recv, .err :: q => some { s with h := .setErr true, inq := q }
    | .recv, .bad _ :: q => some { s with h := .setErr true, inq := q }
    | .recv, .disc :: q => some { s with h := .setErr false, inq := q }
    | .recv, _ :: q => some { s with inq := q }
    | _, _ => none
  | .hRecvEnd => if s.h = .recv ∧ s.inq = [] ∧ s.inClosed = true then some { s with h := .setErr false } else none
  | .hWrite => if s.h = .write then outPut s { s with h := .recv } else none
  | .hWriteSkip => if s.h = .write then outSkip s { s with h := .recv } else none
  | .hErr =>
    match s.h with
    | .setErr coded => onceBegin c s coded { s with h := .sendDisc } { s with h := .done }
    | _ => none
  | .hSendDisc => if s.h = .sendDisc then onceSend c s { s with h := .done } else none
  -- ───────────── take-over
  | .xErr => if s.x = .setErr then onceBegin c s true { s with x := .sendDisc } { s with x := .closeSock } else none
  | .xSendDisc => if s.x = .sendDisc then onceSend c s { s with x := .closeSock } else none
  | .xCloseSock => if s.x = .closeSock then some { s with x := .waitClosed, srvClosed := true } else none
  | .xWake => if s.x = .waitClosed ∧ s.closedCh = true then some { s with x := .done } else none

inductive Reachable (c : Cfg) : State → Prop
  | init : Reachable c init
  | step (s t : State) (a : Act) : Reachable c s → step c s a = some t → Reachable c t

/-- all goroutines of the connection have exited (and nobody is in the middle of taking it over) -/
def State.exited (s : State) : Bool :=
  s.r == .done && s.w == .done && s.s == .done && (s.p == .done || s.p == .notStarted) &&
  (s.h == .done || s.h == .notStarted) && (s.x == .idle || s.x == .done)

/-- some goroutine can move -/
def State.canMove (c : Cfg) (s : State) : Bool := internalActs.any (fun a => (step c s a).isSome)

/-- run a schedule -/
def run (c : Cfg) (s : State) : List Act → Option State
  | [] => some s
  | a :: as => match step c s a with
    | some t => run c t as
    | none => none

/-! ### ranking function: strictly decreases along every step of the goroutines -/

def rankR : RPC → Nat
  | .done => 0 | .closeIn => 1 | .sendDisc => 4 | .setErr _ => 5 | .read => 6 | .waitConn => 7 | .send _ => 12
def rankW : WPC → Nat
  | .done => 0 | .closeSock => 1 | .setErr => 2 | .flushDisc => 3 | .drain => 4 | .flushConnack => 5 | .sel => 5 | .write _ => 6
def rankS : SPC → Nat
  | .done => 0 | .closeClosed => 1 | .unreg => 2 | .closeSock => 3 | .waitWg => 4 | .closePl => 5 | .closeQueue => 6
  | .waitRead => 7 | .spawn _ => 20 | .cCloseConnected _ => 21 | .cSetErr => 22 | .cWriteConnack => 24
  | .cSendErrConnack => 25 | .cSel => 26 | .cSendAuth => 29
def rankP : PPC → Nat
  | .notStarted => 0 | .done => 0 | .setErr => 1 | .queue => 2 | .ids => 3 | .write => 6 | .start => 7
def rankH : HPC → Nat
  | .notStarted => 0 | .done => 0 | .sendDisc => 3 | .setErr _ => 4 | .recv => 5 | .write => 8
def rankX : XPC → Nat
  | .idle => 0 | .done => 0 | .waitClosed => 1 | .closeSock => 2 | .sendDisc => 5 | .setErr => 6

def rank (s : State) : Nat :=
  7 * s.wire.length + 4 * s.inq.length + 2 * s.outq.length + 5 * s.msgs +
  rankR s.r + rankW s.w + rankS s.s + rankP s.p + rankH s.h + rankX s.x

/-! ### `Stop` over a set of connections (server/server.go `Stop`, `serveTCP`, `newClient`)

  Every connection is a copy of the protocol above. `Stop`: `srv.exit()`, close the listeners, then — under `srv.mu` —
  `Close()` a set of connections and remember their `closed` channels, wait for all of them, `Unload` every plugin,
  `OnStop`, return. As it is, the set is `srv.clients` (the REGISTERED connections); the repair `stopAll` makes it every
  connection `newClient` has created and `internalClose` has not finished (findings/c15-f38-stop-tracks-all.diff).
  The `ctx` timeout of Stop is not modelled (`context.Background()`).
-/

structure Conn where
  v5 : Bool
  st : State
  awaited : Bool := false      -- its `closed` channel is in Stop's list
  deriving DecidableEq, Repr

inductive StopPC
  | idle | closeListeners | closeClients | wait | unload (k : Nat) | onStop | done
  deriving DecidableEq, Repr

structure SysCfg where
  fix : Fixes
  stopAll : Bool
  plugins : Nat
  deriving DecidableEq, Repr

structure Sys where
  conns : List Conn := []
  listening : Bool := true
  stop : StopPC := .idle
  unloads : List Nat := []      -- how often each plugin's Unload ran
  onStops : Nat := 0
  deriving DecidableEq, Repr

def Sys.init (cfg : SysCfg) : Sys := { unloads := List.replicate cfg.plugins 0 }

inductive SysAct
  | accept (v5 : Bool)            -- serveTCP: Accept, newClient, go client.serve()
  | conn (i : Nat) (a : Act)      -- a step of (or an input to) connection i
  | stopCall                      -- somebody calls Stop
  | stopListeners | stopClients | stopWaited | stopUnload | stopUnloaded | stopOnStop
  deriving DecidableEq, Repr

def SysAct.isEnv : SysAct → Bool
  | .accept _ | .stopCall => true
  | .conn _ a => a.isEnv
  | _ => false

def bump : List Nat → Nat → List Nat
  | [], _ => []
  | x :: xs, 0 => (x + 1) :: xs
  | x :: xs, k + 1 => x :: bump xs k

def Conn.cfg (cfg : SysCfg) (c : Conn) : Cfg := { fix := cfg.fix, v5 := c.v5 }

/-- what `Stop` does to one connection under `srv.mu` -/
def stopConn (cfg : SysCfg) (c : Conn) : Conn :=
  if cfg.stopAll || c.st.registered then { c with st := { c.st with srvClosed := true }, awaited := true } else c

def sysStep (cfg : SysCfg) (y : Sys) : SysAct → Option Sys
  | .accept v5 => if y.listening = true then some { y with conns := y.conns ++ [{ v5 := v5, st := init }] } else none
  | .conn i a =>
    match y.conns[i]? with
    | some c =>
      match step (c.cfg cfg) c.st a with
      | some t => some { y with conns := y.conns.set i { c with st := t } }
      | none => none
    | none => none
  | .stopCall => if y.stop = .idle then some { y with stop := .closeListeners } else none
  | .stopListeners => if y.stop = .closeListeners then some { y with stop := .closeClients, listening := false } else none
  | .stopClients => if y.stop = .closeClients then some { y with stop := .wait, conns := y.conns.map (stopConn cfg) } else none
  | .stopWaited =>
    if y.stop = .wait ∧ y.conns.all (fun c => !c.awaited || c.st.closedCh) = true then some { y with stop := .unload 0 } else none
  | .stopUnload =>
    match y.stop with
    | .unload k => if k < cfg.plugins then some { y with stop := .unload (k + 1), unloads := bump y.unloads k } else none
    | _ => none
  | .stopUnloaded =>
    match y.stop with
    | .unload k => if cfg.plugins ≤ k then some { y with stop := .onStop } else none
    | _ => none
  | .stopOnStop => if y.stop = .onStop then some { y with stop := .done, onStops := y.onStops + 1 } else none

inductive SysReachable (cfg : SysCfg) : Sys → Prop
  | init : SysReachable cfg (Sys.init cfg)
  | step (y z : Sys) (a : SysAct) : SysReachable cfg y → sysStep cfg y a = some z → SysReachable cfg z

def sysRun (cfg : SysCfg) (y : Sys) : List SysAct → Option Sys
  | [] => some y
  | a :: as => match sysStep cfg y a with
    | some z => sysRun cfg z as
    | none => none

def sumRank : List Conn → Nat
  | [] => 0
  | c :: cs => rank c.st + sumRank cs

def rankStop (cfg : SysCfg) : StopPC → Nat
  | .idle => 0
  | .closeListeners => cfg.plugins + 6
  | .closeClients => cfg.plugins + 5
  | .wait => cfg.plugins + 4
  | .unload k => (cfg.plugins - k) + 2
  | .onStop => 1
  | .done => 0

def sysRank (cfg : SysCfg) (y : Sys) : Nat := sumRank y.conns + rankStop cfg y.stop

/-- some goroutine of some connection, or Stop itself, can move -/
def Sys.canMove (cfg : SysCfg) (y : Sys) : Bool :=
  y.conns.any (fun c => c.st.canMove (c.cfg cfg)) ||
  [SysAct.stopListeners, .stopClients, .stopWaited, .stopUnload, .stopUnloaded, .stopOnStop].any
    (fun a => (sysStep cfg y a).isSome)

end GmqttVerif.Lifecycle
