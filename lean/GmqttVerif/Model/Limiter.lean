import GmqttVerif.Model.Bitmap
/-
  Model of `server/limiter.go` (gmqtt): `packetIDLimiter` over `pkg/bitmap`.

  Go widths are explicit: `used`, `limit`, `freePid`, `max` are uint16; every `++`/`--`/`-` on them
  is written with `% 65536`.  `lockedPid` is `bitmap.New(65535)`: offsets 0..65535 are all valid.

  `sync.Cond`: each method body is one critical section = one model step.  `pollPacketIDs` parks in
  `cond.Wait()` while `used >= limit && !exit`; the model of the *system* (`Sys`) keeps the parked
  call (`pending`), and every method that calls `cond.Signal()` re-runs it (Signal wakes the only
  waiter, which re-evaluates the loop condition and either parks again or proceeds).  The broker has
  exactly one polling goroutine per limiter (`pollMessageHandler`), hence at most one waiter; a
  second `poll` while one is parked is answered `busy` without touching the limiter (harness convention).

  The inner search loop `for lockedPid.Get(freePid) == 1 { advance }` has no bound in the code.  The model
  gives it 65536 units of fuel (more than the 65535 candidates); running out is the outcome `spin`
  (the real call then loops for ever holding the mutex, so every later method call blocks: `wedged`).
  `Properties/C03.lean` proves `spin` is unreachable when callers respect the `markUsedLocked` contract.
-/
namespace GmqttVerif.Limiter
open GmqttVerif.Bitmap

/-- `packets.MaxPacketID` / `packets.MinPacketID` -/
def maxPid : Nat := 65535
def minPid : Nat := 1

structure Limiter where
  used      : Nat      -- uint16
  limit     : Nat      -- uint16
  exit      : Bool
  lockedPid : Bitmap
  freePid   : Nat      -- uint16
  deriving Repr, Inhabited

/-- `newPacketIDLimiter(limit)` (limiter.go:10-19) = `client.newPacketIDLimiter` (client.go:1352-1361) -/
def new (limit : Nat) : Limiter :=
  { used := 0, limit := limit % 65536, exit := false, lockedPid := Bitmap.new maxPid, freePid := 1 }

/-- `if freePid == MaxPacketID { freePid = MinPacketID } else { freePid++ }` (limiter.go:59-63, 68-72) -/
def advance (f : Nat) : Nat := if f = maxPid then minPid else (f + 1) % 65536

/-- the inner loop `for p.lockedPid.Get(p.freePid) == 1 { advance }` (limiter.go:58-64); `none` = out of fuel -/
def search (b : Bitmap) : Nat → Nat → Option Nat
  | 0, _ => none
  | fuel + 1, f => if b.get f = 1 then search b fuel (advance f) else some f

def searchFuel : Nat := 65536

/-- the outer loop `for j := 0; j < n; j++` (limiter.go:57-73); `acc` holds the ids appended so far, newest first
    (the caller reverses once); `none` = the search spun -/
def pollLoop : Nat → Limiter → List Nat → Option (Limiter × List Nat)
  | 0, l, acc => some (l, acc)
  | n + 1, l, acc =>
    match search l.lockedPid searchFuel l.freePid with
    | none => none
    | some f =>
      pollLoop n { l with used := (l.used + 1) % 65536,
                          lockedPid := l.lockedPid.set f 1,
                          freePid := advance f } (f :: acc)

inductive PollRes
  | blocked                -- parked in cond.Wait()
  | closed                 -- `if p.exit { return nil }`
  | ids (l : List Nat)     -- returned slice (nil when empty)
  | spin                   -- inner search loop never ends
  deriving Repr, DecidableEq, Inhabited

/-- `pollPacketIDs(max)` (limiter.go:44-75), one pass from the lock to either `cond.Wait()` or return -/
def Limiter.poll (l : Limiter) (max : Nat) : Limiter × PollRes :=
  if l.used ≥ l.limit ∧ l.exit = false then (l, .blocked)
  else if l.exit then (l, .closed)
  else
    let remain := (l.limit + 65536 - l.used) % 65536      -- uint16 `p.limit - p.used`
    let n := if remain < max then remain else max
    match pollLoop n l [] with
    | some (l', rev) => (l', .ids rev.reverse)
    | none => (l, .spin)

/-- `releaseLocked(id)` (limiter.go:85-90) -/
def Limiter.releaseLocked (l : Limiter) (id : Nat) : Limiter :=
  if l.lockedPid.get id = 1 then
    { l with lockedPid := l.lockedPid.set id 0, used := (l.used + 65535) % 65536 }
  else l

/-- `batchRelease(ids)` critical section (limiter.go:92-100); `release(id)` is the one-element case (77-83) -/
def Limiter.batchRelease (l : Limiter) (ids : List Nat) : Limiter :=
  ids.foldl Limiter.releaseLocked l

/-- `markUsedLocked(id)` (limiter.go:103-106): unconditional `used++`, bit set -/
def Limiter.markUsedLocked (l : Limiter) (id : Nat) : Limiter :=
  { l with used := (l.used + 1) % 65536, lockedPid := l.lockedPid.set id 1 }

/-- `lock(); for … markUsedLocked(id) …; unlock()` as in `pollInflights` (client.go:1369-1379) -/
def Limiter.markAll (l : Limiter) (ids : List Nat) : Limiter :=
  ids.foldl Limiter.markUsedLocked l

/-- `close()` critical section (limiter.go:33-38) -/
def Limiter.close (l : Limiter) : Limiter := { l with exit := true }

/-- is the bit of `id` set in `lockedPid` -/
def Limiter.marked (l : Limiter) (id : Nat) : Bool := l.lockedPid.get id == 1

/-! ### the limiter together with its (at most one) parked `pollPacketIDs` call -/

inductive Op
  | poll (max : Nat)
  | release (id : Nat)
  | batchRelease (ids : List Nat)
  | mark (ids : List Nat)        -- lock, markUsedLocked*, unlock           (no Signal)
  | markSignal (ids : List Nat)  -- lock, markUsedLocked*, unlockAndSignal
  | close
  deriving Repr, DecidableEq, Inhabited

structure Sys where
  lim     : Limiter
  pending : Option Nat := none   -- `max` of the call parked in cond.Wait()
  wedged  : Bool := false        -- a poll spins for ever holding the mutex
  deriving Repr, Inhabited

inductive Out
  | wedged                              -- the method call blocks on the mutex for ever
  | busy                                -- second poll while one is parked: not issued
  | polled (r : PollRes)                -- outcome of a `poll` op
  | done (woke : Option PollRes)        -- a non-poll op returned; what the parked call (if any) returned after Signal
  deriving Repr, DecidableEq, Inhabited

/-- `cond.Signal()`: the parked call, if any, re-evaluates its loop condition -/
def Sys.signal (s : Sys) : Sys × Out :=
  match s.pending with
  | none => (s, .done none)
  | some max =>
    match s.lim.poll max with
    | (_, .blocked) => (s, .done none)
    | (l', .spin) => ({ s with lim := l', pending := none, wedged := true }, .done (some .spin))
    | (l', r) => ({ s with lim := l', pending := none }, .done (some r))

def Sys.step (s : Sys) (op : Op) : Sys × Out :=
  if s.wedged then (s, .wedged)
  else match op with
  | .poll max =>
    if s.pending.isSome then (s, .busy)
    else match s.lim.poll max with
      | (l', .blocked) => ({ s with lim := l', pending := some max }, .polled .blocked)
      | (l', .spin) => ({ s with lim := l', wedged := true }, .polled .spin)
      | (l', r) => ({ s with lim := l' }, .polled r)
  | .release id => Sys.signal { s with lim := s.lim.releaseLocked id }
  | .batchRelease ids => Sys.signal { s with lim := s.lim.batchRelease ids }
  | .mark ids => ({ s with lim := s.lim.markAll ids }, .done none)
  | .markSignal ids => Sys.signal { s with lim := s.lim.markAll ids }
  | .close => Sys.signal { s with lim := s.lim.close }

def Sys.new (limit : Nat) : Sys := { lim := _root_.GmqttVerif.Limiter.new limit }

/-- run a history; returns the final state and the outputs in order -/
def run (s : Sys) : List Op → Sys × List Out
  | [] => (s, [])
  | op :: ops =>
    let (s', o) := s.step op
    let (s'', os) := run s' ops
    (s'', o :: os)

end GmqttVerif.Limiter
