/-
  Model of `persistence/queue/mem.Queue` (gmqtt).

  The Go code keeps a `container/list` plus a pointer `current` ("next element to read").
  The model keeps the same list split at that pointer (a zipper):
    `done`  = elements in front of `current`   (handed out / replayed on this connection)
    `rest`  = `current` and everything after it (`current == nil` ⇔ `rest = []`)
  Time is explicit: every operation that calls `time.Now()` takes `now : Nat`.
  The `queue.Notifier` calls are returned as a list of events, in call order.
-/
namespace GmqttVerif.Queue

/-- `queue.Elem` with a ghost `tag` (identity of the added message). -/
structure Elem where
  tag  : Nat
  pub  : Bool          -- true: *queue.Publish, false: *queue.Pubrel
  id   : Nat           -- packet id, 0 = none
  qos  : Nat
  exp  : Option Nat    -- `Expiry`; none = zero time = never
  size : Nat           -- `pub.TotalBytes(version)`
  deriving Repr, DecidableEq, Inhabited

inductive Reason
  | full | expired | expiredInflight | oversize
  deriving Repr, DecidableEq, Inhabited

/-- calls made on the `queue.Notifier`, in order -/
inductive Ev
  | dropped (e : Elem) (r : Reason)
  | inflight (d : Int)
  | queued (d : Int)
  deriving Repr, DecidableEq, Inhabited

structure Q where
  done    : List Elem
  rest    : List Elem
  drained : Bool
  closed  : Bool
  max     : Nat
  ie      : Nat      -- inflightExpiry, 0 = off
  limit   : Nat      -- readBytesLimit
  deriving Repr, DecidableEq, Inhabited

def Q.items (q : Q) : List Elem := q.done ++ q.rest

def new (max ie : Nat) : Q :=
  { done := [], rest := [], drained := false, closed := false, max := max, ie := ie, limit := 0 }

/-- `queue.ElemExpiry` -/
def expired (now : Nat) (e : Elem) : Bool :=
  match e.exp with
  | some t => decide (now > t)
  | none => false

def Q.close (q : Q) : Q := { q with closed := true }

def Q.init (q : Q) (clean : Bool) (limit : Nat) : Q :=
  let items := if clean then [] else q.items
  { q with done := [], rest := items, drained := false, closed := false, limit := limit }

/-- remove the first element satisfying `p`; returns it and the remaining list -/
def extractFirst (p : Elem → Bool) : List Elem → Option (Elem × List Elem)
  | [] => none
  | e :: es =>
    if p e then some (e, es)
    else match extractFirst p es with
      | some (v, es') => some (v, e :: es')
      | none => none

/-- an unread, queued (no packet id yet) PUBLISH -/
def isQueued (e : Elem) : Bool := e.pub && e.id == 0

inductive Victim
  | inflight (v : Elem) (done' : List Elem)   -- expired in-flight entry (in front of the cursor)
  | queued (v : Elem) (r : Reason) (rest' : List Elem)
  | newcomer
  deriving Repr

/-- the drop ladder of `Add` on a full queue, as the code walks it -/
def chooseVictim (q : Q) (now : Nat) (e : Elem) : Victim :=
  match extractFirst (expired now) q.done with
  | some (v, done') => .inflight v done'
  | none =>
    if q.drained && q.rest.isEmpty then .newcomer
    else match extractFirst (fun x => isQueued x && expired now x) q.rest with
      | some (v, rest') => .queued v .expired rest'
      | none =>
        match extractFirst (fun x => isQueued x && x.qos == 0) q.rest with
        | some (v, rest') => .queued v .full rest'
        | none =>
          if e.qos == 0 then .newcomer
          else match extractFirst isQueued q.rest with
            | some (v, rest') => .queued v .full rest'
            | none => .newcomer

/-- `Add` -/
def Q.add (q : Q) (now : Nat) (e : Elem) : Q × List Ev :=
  if q.items.length >= q.max then
    match chooseVictim q now e with
    | .inflight v done' =>
      ({ q with done := done', rest := q.rest ++ [e] }, [.inflight (-1), .dropped v .expiredInflight])
    | .queued v r rest' =>
      ({ q with rest := rest' ++ [e] }, [.dropped v r])
    | .newcomer => (q, [.dropped e .full])
  else
    ({ q with rest := q.rest ++ [e] }, [.queued 1])

/-- result of the `Read` loop -/
structure ReadOut where
  out   : List Elem    -- returned elements, in order
  kept  : List Elem    -- elements that became in-flight (appended in front of the cursor)
  evs   : List Ev      -- NotifyDropped calls, in order
  qd    : Int          -- msgQueueDelta
  ind   : Int          -- inflightDelta
  rest  : List Elem    -- list from the new `current`
  deriving Repr

/-- the `for i := 0; i < length && q.current != nil; i++` loop of `Read`.
    `n` = remaining iterations, second argument = list from `current`, `pids` = unused packet ids. -/
def readLoop (now ie limit : Nat) : Nat → List Elem → List Nat → ReadOut
  | 0, rest, _ => ⟨[], [], [], 0, 0, rest⟩
  | _, [], _ => ⟨[], [], [], 0, 0, []⟩
  | n+1, v :: rest, pids =>
    if expired now v then
      let r := readLoop now ie limit n rest pids
      { r with evs := .dropped v .expired :: r.evs, qd := r.qd - 1 }
    else if v.size > limit then
      let r := readLoop now ie limit n rest pids
      { r with evs := .dropped v .oversize :: r.evs, qd := r.qd - 1 }
    else if v.qos == 0 then
      let r := readLoop now ie limit n rest pids
      { r with out := v :: r.out, qd := r.qd - 1 }
    else
      match pids with
      | [] => ⟨[], [], [], 0, 0, v :: rest⟩   -- unreachable: n ≤ pids.length (Go would index out of range)
      | p :: pids' =>
        let v' := { v with id := p, exp := if ie != 0 then some (now + ie) else v.exp }
        let r := readLoop now ie limit n rest pids'
        { r with out := v' :: r.out, kept := v' :: r.kept, ind := r.ind + 1 }

inductive ReadRes
  | panic                       -- `Read` before the in-flight entries were drained
  | blocked                     -- would wait on the condition variable
  | closed                      -- ErrClosed
  | ok (out : List Elem) (evs : List Ev)
  deriving Repr

/-- `Read(pids)` -/
def Q.read (q : Q) (now : Nat) (pids : List Nat) : Q × ReadRes :=
  if !q.drained then (q, .panic)
  else if (q.items.isEmpty || q.rest.isEmpty) && !q.closed then (q, .blocked)
  else if q.closed then (q, .closed)
  else
    let r := readLoop now q.ie q.limit (min pids.length q.items.length) q.rest pids
    ({ q with done := q.done ++ r.kept, rest := r.rest },
     .ok r.out (r.evs ++ [.queued r.qd, .inflight r.ind]))

/-- loop of `ReadInflight`: returns (returned elements with refreshed expiry, rest', drainedSet) -/
def inflightLoop (now ie : Nat) : Nat → List Elem → List Elem × List Elem × Bool
  | 0, rest => ([], rest, false)
  | _, [] => ([], [], false)
  | n+1, v :: rest =>
    if v.id != 0 then
      let v' := { v with exp := if ie != 0 then some (now + ie) else v.exp }
      let (out, rest', d) := inflightLoop now ie n rest
      (v' :: out, rest', d)
    else ([], v :: rest, true)

/-- `ReadInflight(maxSize)` -/
def Q.readInflight (q : Q) (now : Nat) (maxSize : Nat) : Q × List Elem :=
  if q.items.isEmpty || q.rest.isEmpty then ({ q with drained := true }, [])
  else
    let n := min maxSize q.items.length
    let (out, rest', d) := inflightLoop now q.ie n q.rest
    ({ q with done := q.done ++ out, rest := rest', drained := q.drained || d }, out)

/-- `Remove(pid)`; also returns the removed element (ghost) -/
def Q.remove (q : Q) (pid : Nat) : Q × List Ev × Option Elem :=
  match extractFirst (fun x => x.id == pid) q.done with
  | some (v, done') => ({ q with done := done' }, [.queued (-1), .inflight (-1)], some v)
  | none => (q, [], none)

/-- overwrite the first element satisfying `p` with `e`; the ghost tag (message identity)
    stays with the slot: the PUBREL stands for the PUBLISH it replaces -/
def replaceFirst (p : Elem → Bool) (e : Elem) : List Elem → Option (List Elem)
  | [] => none
  | x :: xs =>
    if p x then some ({ e with tag := x.tag } :: xs)
    else match replaceFirst p e xs with
      | some xs' => some (x :: xs')
      | none => none

/-- `Replace(elem)` -/
def Q.replace (q : Q) (e : Elem) : Q × Bool :=
  match replaceFirst (fun x => x.id == e.id) e q.done with
  | some done' => ({ q with done := done' }, true)
  | none => (q, false)

/-! ### operations as data, for histories -/

inductive Op
  | add (now : Nat) (e : Elem)
  | read (now : Nat) (pids : List Nat)
  | readInflight (now : Nat) (n : Nat)
  | remove (pid : Nat)
  | replace (e : Elem)
  | init (clean : Bool) (limit : Nat)
  | close
  deriving Repr

/-- what one operation makes observable -/
structure Out where
  evs      : List Ev := []      -- notifier calls
  returned : List Elem := []    -- elements returned by Read / ReadInflight
  replay   : Bool := false      -- `returned` came from ReadInflight
  cleared  : List Elem := []    -- contents discarded by a clean Init
  acked    : List Elem := []    -- element taken out by Remove (ghost)
  status   : String := "ok"
  deriving Repr

def step (q : Q) : Op → Q × Out
  | .add now e => let (q', evs) := q.add now e; (q', { evs := evs })
  | .read now pids =>
    match q.read now pids with
    | (q', .ok out evs) => (q', { evs := evs, returned := out })
    | (q', .panic) => (q', { status := "panic" })
    | (q', .blocked) => (q', { status := "blocked" })
    | (q', .closed) => (q', { status := "closed" })
  | .readInflight now n => let (q', out) := q.readInflight now n; (q', { returned := out, replay := true })
  | .remove pid =>
    match q.remove pid with
    | (q', evs, some v) => (q', { evs := evs, acked := [v] })
    | (q', evs, none) => (q', { evs := evs })
  | .replace e =>
    match q.replace e with
    | (q', true) => (q', { status := "replaced" })
    | (q', false) => (q', { status := "notfound" })
  | .init clean limit => (q.init clean limit, { cleared := if clean then q.items else [] })
  | .close => (q.close, {})

def run (q : Q) : List Op → Q × List Out
  | [] => (q, [])
  | op :: ops =>
    let (q', o) := step q op
    let (q'', os) := run q' ops
    (q'', o :: os)

end GmqttVerif.Queue
