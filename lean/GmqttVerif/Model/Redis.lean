import GmqttVerif.Model.Codec.Prim
/-
  The part of redis that gmqtt's persistence backend uses: a dataset `key ↦ hash | list` and the semantics of the
  commands DEL HSET HDEL HGETALL HMGET LLEN LRANGE LREM LSET RPUSH (+ SCAN as "all keys matching a prefix").

  Semantics follow the redis command reference: a key vanishes when its hash/list becomes empty, negative list
  indices count from the tail, LRANGE clamps, LSET fails outside the list, a command on a key of the wrong type
  fails with WRONGTYPE and changes nothing. Hash fields keep insertion order (what a small redis hash does and what
  `harness/internal/respfake` does); no consumer depends on that order.

  Bytes are `Nat`s below 256 (as in `Model/Codec`).
-/
namespace GmqttVerif.Redis
open GmqttVerif.Codec (Bytes)

inductive Val
  | hash (fs : List (Bytes × Bytes))
  | list (xs : List Bytes)
  deriving Repr, DecidableEq, Inhabited

/-- association list, at most one entry per key, insertion order -/
abbrev Dataset := List (Bytes × Val)

def get (ds : Dataset) (k : Bytes) : Option Val :=
  match ds with
  | [] => none
  | (k', v) :: rest => if k' = k then some v else get rest k

def del (ds : Dataset) (k : Bytes) : Dataset :=
  match ds with
  | [] => []
  | (k', v) :: rest => if k' = k then rest else (k', v) :: del rest k

/-- overwrite in place, or append -/
def put (ds : Dataset) (k : Bytes) (v : Val) : Dataset :=
  match ds with
  | [] => [(k, v)]
  | (k', v') :: rest => if k' = k then (k, v) :: rest else (k', v') :: put rest k v

/-- store a value, or drop the key when the value became empty -/
def putOrDel (ds : Dataset) (k : Bytes) (v : Val) : Dataset :=
  match v with
  | .hash [] => del ds k
  | .list [] => del ds k
  | _ => put ds k v

inductive Cmd
  | del (k : Bytes)
  | hset (k : Bytes) (fvs : List (Bytes × Bytes))
  | hdel (k : Bytes) (fs : List Bytes)
  | rpush (k : Bytes) (v : Bytes)
  | lset (k : Bytes) (i : Int) (v : Bytes)
  | lrem (k : Bytes) (count : Int) (v : Bytes)
  | llen (k : Bytes)
  | lrange (k : Bytes) (start stop : Int)
  | hgetall (k : Bytes)
  | hmget (k : Bytes) (fs : List Bytes)
  deriving Repr, DecidableEq, Inhabited

def Cmd.isWrite : Cmd → Bool
  | .del _ | .hset _ _ | .hdel _ _ | .rpush _ _ | .lset _ _ _ | .lrem _ _ _ => true
  | _ => false

def Cmd.key : Cmd → Bytes
  | .del k | .hset k _ | .hdel k _ | .rpush k _ | .lset k _ _ | .lrem k _ _ | .llen k | .lrange k _ _ | .hgetall k | .hmget k _ => k

inductive Reply
  | int (n : Int)
  | ok
  | err (kind : String)            -- "WRONGTYPE" | "ERR"
  | bulks (xs : List (Option Bytes))
  deriving Repr, DecidableEq, Inhabited

/-! ### hashes -/

def hfind (fs : List (Bytes × Bytes)) (f : Bytes) : Option Bytes :=
  match fs with
  | [] => none
  | (f', v) :: rest => if f' = f then some v else hfind rest f

/-- set one field; returns the new field list and whether the field is new -/
def hset1 (fs : List (Bytes × Bytes)) (f v : Bytes) : List (Bytes × Bytes) × Bool :=
  match fs with
  | [] => ([(f, v)], true)
  | (f', v') :: rest =>
    if f' = f then ((f, v) :: rest, false)
    else let (r, isNew) := hset1 rest f v; ((f', v') :: r, isNew)

def hsetMany (fs : List (Bytes × Bytes)) : List (Bytes × Bytes) → List (Bytes × Bytes) × Nat
  | [] => (fs, 0)
  | (f, v) :: more =>
    let (fs1, isNew) := hset1 fs f v
    let (fs2, n) := hsetMany fs1 more
    (fs2, n + (if isNew then 1 else 0))

def hdel1 (fs : List (Bytes × Bytes)) (f : Bytes) : List (Bytes × Bytes) × Bool :=
  match fs with
  | [] => ([], false)
  | (f', v') :: rest =>
    if f' = f then (rest, true)
    else let (r, hit) := hdel1 rest f; ((f', v') :: r, hit)

def hdelMany (fs : List (Bytes × Bytes)) : List Bytes → List (Bytes × Bytes) × Nat
  | [] => (fs, 0)
  | f :: more =>
    let (fs1, hit) := hdel1 fs f
    let (fs2, n) := hdelMany fs1 more
    (fs2, n + (if hit then 1 else 0))

/-! ### lists -/

/-- redis' index normalisation for LRANGE: the (possibly empty) range `[lo, hi)` of positions -/
def rangeBounds (n : Nat) (start stop : Int) : Nat × Nat :=
  let s : Int := if start < 0 then start + n else start
  let e : Int := if stop < 0 then stop + n else stop
  let s : Int := if s < 0 then 0 else s
  if s > e ∨ s ≥ n then (0, 0)
  else
    let e : Int := if e ≥ n then (n : Int) - 1 else e
    (s.toNat, e.toNat + 1)

def lrange (xs : List Bytes) (start stop : Int) : List Bytes :=
  let (lo, hi) := rangeBounds xs.length start stop
  (xs.drop lo).take (hi - lo)

/-- remove the first `n` occurrences of `v` (all of them when `all`) scanning from the head -/
def lremHead (xs : List Bytes) (v : Bytes) (all : Bool) : Nat → List Bytes × Nat
  | n =>
    match xs with
    | [] => ([], 0)
    | x :: rest =>
      if x = v ∧ (all ∨ n > 0) then
        let (r, c) := lremHead rest v all (n - 1)
        (r, c + 1)
      else
        let (r, c) := lremHead rest v all n
        (x :: r, c)

def lrem (xs : List Bytes) (count : Int) (v : Bytes) : List Bytes × Nat :=
  if count ≥ 0 then lremHead xs v (count == 0) count.toNat
  else
    let (r, c) := lremHead xs.reverse v false (-count).toNat
    (r.reverse, c)

def lsetAt (xs : List Bytes) (i : Nat) (v : Bytes) : List Bytes :=
  match xs, i with
  | [], _ => []
  | _ :: rest, 0 => v :: rest
  | x :: rest, i + 1 => x :: lsetAt rest i v

/-! ### command execution -/

def exec (ds : Dataset) : Cmd → Dataset × Reply
  | .del k => match get ds k with
    | some _ => (del ds k, .int 1)
    | none => (ds, .int 0)
  | .hset k fvs => match get ds k with
    | some (.list _) => (ds, .err "WRONGTYPE")
    | some (.hash fs) => let (fs', n) := hsetMany fs fvs; (putOrDel ds k (.hash fs'), .int n)
    | none => let (fs', n) := hsetMany [] fvs; (putOrDel ds k (.hash fs'), .int n)
  | .hdel k fs' => match get ds k with
    | some (.list _) => (ds, .err "WRONGTYPE")
    | some (.hash fs) => let (r, n) := hdelMany fs fs'; (putOrDel ds k (.hash r), .int n)
    | none => (ds, .int 0)
  | .rpush k v => match get ds k with
    | some (.hash _) => (ds, .err "WRONGTYPE")
    | some (.list xs) => (put ds k (.list (xs ++ [v])), .int (xs.length + 1))
    | none => (put ds k (.list [v]), .int 1)
  | .lset k i v => match get ds k with
    | some (.hash _) => (ds, .err "WRONGTYPE")
    | some (.list xs) =>
      let j : Int := if i < 0 then i + xs.length else i
      if j < 0 ∨ j ≥ xs.length then (ds, .err "ERR") else (put ds k (.list (lsetAt xs j.toNat v)), .ok)
    | none => (ds, .err "ERR")
  | .lrem k count v => match get ds k with
    | some (.hash _) => (ds, .err "WRONGTYPE")
    | some (.list xs) => let (r, n) := lrem xs count v; (putOrDel ds k (.list r), .int n)
    | none => (ds, .int 0)
  | .llen k => match get ds k with
    | some (.hash _) => (ds, .err "WRONGTYPE")
    | some (.list xs) => (ds, .int xs.length)
    | none => (ds, .int 0)
  | .lrange k a b => match get ds k with
    | some (.hash _) => (ds, .err "WRONGTYPE")
    | some (.list xs) => (ds, .bulks ((lrange xs a b).map some))
    | none => (ds, .bulks [])
  | .hgetall k => match get ds k with
    | some (.list _) => (ds, .err "WRONGTYPE")
    | some (.hash fs) => (ds, .bulks (fs.flatMap (fun p => [some p.1, some p.2])))
    | none => (ds, .bulks [])
  | .hmget k fs' => match get ds k with
    | some (.list _) => (ds, .err "WRONGTYPE")
    | some (.hash fs) => (ds, .bulks (fs'.map (hfind fs)))
    | none => (ds, .bulks (fs'.map (fun _ => none)))

def apply (ds : Dataset) (c : Cmd) : Dataset := (exec ds c).1

/-- the dataset after a command sequence -/
def applyAll (ds : Dataset) : List Cmd → Dataset
  | [] => ds
  | c :: cs => applyAll (apply ds c) cs

/-- keys with the given prefix: what `SCAN 0 MATCH <prefix>*` (iterated to the end) yields, in dataset order -/
def keysWithPrefix (ds : Dataset) (pre : Bytes) : List Bytes :=
  (ds.map (·.1)).filter (fun k => pre.isPrefixOf k)

/-- list stored under a key ([] when absent); `none` for a key of the wrong type -/
def listAt (ds : Dataset) (k : Bytes) : Option (List Bytes) :=
  match get ds k with
  | some (.list xs) => some xs
  | some (.hash _) => none
  | none => some []

def hashAt (ds : Dataset) (k : Bytes) : Option (List (Bytes × Bytes)) :=
  match get ds k with
  | some (.hash fs) => some fs
  | some (.list _) => none
  | none => some []

end GmqttVerif.Redis
