import GmqttVerif.Model.RedisStores
/-
  The decoded store: what the four redis keys of every client id MEAN (session hash, subscriptions, queue elements,
  unack ids) and the commands the persistence layer issues, with decoded payloads. `DCmd.enc` is the redis command
  actually sent. Proofs/RedisStore.lean shows that the raw dataset refines this store command by command.
-/
namespace GmqttVerif.RedisStores
open GmqttVerif.Codec GmqttVerif.Redis GmqttVerif.ElemCodec

/-! ### keys -/

inductive Fam
  | sess | sub | queue | unack
  deriving DecidableEq, Repr

def keyOf : Fam → Bytes → Bytes
  | .sess, c => sessKey c
  | .sub, c => subKey c
  | .queue, c => queueKey c
  | .unack, c => unackKey c

/-! ### the decoded store -/

/-- decoded contents of the four keys of one client id -/
structure DClient where
  sess : List (Bytes × Bytes) := []          -- the hash `session:<id>` as stored
  subs : List (Bytes × Subscription) := []   -- `sub:<id>`: field (full topic name) ↦ subscription
  queue : List Elem := []                    -- `queue:<id>`
  unack : List Nat := []                     -- `unack:<id>`: packet ids
  deriving Inhabited

abbrev DStore := Bytes → DClient

def DStore.empty : DStore := fun _ => {}

/-- the commands the persistence layer issues, with decoded payloads -/
inductive DCmd
  | delKey (f : Fam) (c : Bytes)
  | setSess (c : Bytes) (fvs : List (Bytes × Bytes))
  | setSub (c : Bytes) (s : Subscription)
  | delSubs (c : Bytes) (fs : List Bytes)
  | push (c : Bytes) (e : Elem)
  | lset (c : Bytes) (i : Nat) (e : Elem)
  | lrem1 (c : Bytes) (e : Elem)
  | setUnack (c : Bytes) (id : Nat)
  | delUnack (c : Bytes) (id : Nat)

/-- the redis command actually sent -/
def DCmd.enc : DCmd → Cmd
  | .delKey f c => .del (keyOf f c)
  | .setSess c fvs => .hset (sessKey c) fvs
  | .setSub c s => .hset (subKey c) [(fullTopicName s, encodeSubscription s)]
  | .delSubs c fs => .hdel (subKey c) fs
  | .push c e => .rpush (queueKey c) (encodeElem e)
  | .lset c i e => .lset (queueKey c) (i : Int) (encodeElem e)
  | .lrem1 c e => .lrem (queueKey c) 1 (encodeElem e)
  | .setUnack c id => .hset (unackKey c) [(natToDec id, [49])]
  | .delUnack c id => .hdel (unackKey c) [natToDec id]

def DCmd.fam : DCmd → Fam
  | .delKey f _ => f
  | .setSess _ _ => .sess
  | .setSub _ _ | .delSubs _ _ => .sub
  | .push _ _ | .lset _ _ _ | .lrem1 _ _ => .queue
  | .setUnack _ _ | .delUnack _ _ => .unack

def DCmd.cid : DCmd → Bytes
  | .delKey _ c | .setSess c _ | .setSub c _ | .delSubs c _ | .push c _ | .lset c _ _ | .lrem1 c _ | .setUnack c _ | .delUnack c _ => c

def upsert {α : Type} (l : List (Bytes × α)) (f : Bytes) (v : α) : List (Bytes × α) :=
  match l with
  | [] => [(f, v)]
  | (f', v') :: rest => if f' = f then (f, v) :: rest else (f', v') :: upsert rest f v

def eraseField {α : Type} (l : List (Bytes × α)) (f : Bytes) : List (Bytes × α) :=
  match l with
  | [] => []
  | (f', v') :: rest => if f' = f then rest else (f', v') :: eraseField rest f

def eraseFields {α : Type} (l : List (Bytes × α)) : List Bytes → List (Bytes × α)
  | [] => l
  | f :: fs => eraseFields (eraseField l f) fs

def upsertMany (l : List (Bytes × Bytes)) : List (Bytes × Bytes) → List (Bytes × Bytes)
  | [] => l
  | (f, v) :: more => upsertMany (upsert l f v) more

/-- effect of a command on the component it addresses -/
def DClient.step (d : DClient) : DCmd → DClient
  | .delKey .sess _ => { d with sess := [] }
  | .delKey .sub _ => { d with subs := [] }
  | .delKey .queue _ => { d with queue := [] }
  | .delKey .unack _ => { d with unack := [] }
  | .setSess _ fvs => { d with sess := upsertMany d.sess fvs }
  | .setSub _ s => { d with subs := upsert d.subs (fullTopicName s) s }
  | .delSubs _ fs => { d with subs := eraseFields d.subs fs }
  | .push _ e => { d with queue := d.queue ++ [e] }
  | .lset _ i e => { d with queue := d.queue.set i e }
  | .lrem1 _ e => { d with queue := d.queue.erase e }
  | .setUnack _ id => { d with unack := if id ∈ d.unack then d.unack else d.unack ++ [id] }
  | .delUnack _ id => { d with unack := d.unack.erase id }

def dexec (g : DStore) (d : DCmd) : DStore :=
  fun c => if c = d.cid then (g c).step d else g c

def dfold (g : DStore) : List DCmd → DStore
  | [] => g
  | d :: ds => dfold (dexec g d) ds

/-! ### raw form of the decoded store -/

def encSubs (l : List (Bytes × Subscription)) : List (Bytes × Bytes) := l.map (fun p => (p.1, encodeSubscription p.2))
def encQueue (l : List Elem) : List Bytes := l.map encodeElem
def encUnack (l : List Nat) : List (Bytes × Bytes) := l.map (fun id => (natToDec id, [49]))

end GmqttVerif.RedisStores
