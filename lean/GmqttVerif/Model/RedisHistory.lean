import GmqttVerif.Model.RedisDecoded
/-
  Client histories on the redis backend: which storage commands the broker issues for every step of a client's life,
  as the (patched) code does it — `server.registerClient`, `removeSessionLocked`, `subscribeHandler`,
  `unsubscribeHandler`, `addMsgToQueueLocked`, `pollNewMessages`, the PUBACK / PUBREC / PUBCOMP / PUBREL handlers,
  `disconnectHandler` — each through the redis stores of Model/RedisStores.lean and Model/RedisQueue.lean.

  The commands are generated from the decoded store (what the stores read back from redis is, by
  `Proofs/RedisStore.rel_fold`, exactly the encoding of that store) under the standing assumptions of C09:
  no queue reaches `max_queued_messages`, nothing expires during the history and no message exceeds the client's
  maximum packet size (so `Add` is one RPUSH and `Read` drops nothing), and the broker process is the one that
  created the sessions (its in-memory caches agree with redis). The stream `redis-stores` compares these command
  lists with the real stores command for command; `redis-crash` compares the journals of whole broker histories.

  Reads (HMGET, LLEN, LRANGE, HGETALL) change nothing and are omitted: crash points lie between WRITE commands.
-/
namespace GmqttVerif.RedisStores
open GmqttVerif.Codec GmqttVerif.Redis GmqttVerif.ElemCodec

/-- broker state that matters for the commands: the decoded store and, per client, the read cursor of its queue object
    (`Queue.current`: how many entries in front have been handed out or replayed on the present connection) -/
structure HSt where
  g : DStore := DStore.empty
  cur : Bytes → Nat := fun _ => 0

inductive HOp
  /-- CONNECT accepted: `registerClient` (with the in-flight replay of `pollInflights` when the session is resumed) -/
  | connect (c : Bytes) (clean : Bool) (s : Session) (now : Nat)
  /-- one topic filter of a SUBSCRIBE -/
  | subscribe (c : Bytes) (s : Subscription)
  /-- one topic filter of an UNSUBSCRIBE -/
  | unsubscribe (c : Bytes) (topic : Bytes)
  /-- a PUBLISH routed to this client's queue (online or offline) -/
  | enqueue (c : Bytes) (e : Elem)
  /-- the poll loop hands out up to `pids.length` queued messages -/
  | deliver (c : Bytes) (pids : List Nat) (now : Nat)
  /-- PUBACK or PUBCOMP from the subscriber -/
  | ack (c : Bytes) (pid : Nat)
  /-- PUBREC from the subscriber: the PUBLISH is replaced by a PUBREL -/
  | pubrec (c : Bytes) (pid : Nat) (now : Nat)
  /-- a QoS 2 PUBLISH from this client: its packet id awaits PUBREL -/
  | recvQos2 (c : Bytes) (pid : Nat)
  /-- PUBREL from this client -/
  | pubrel (c : Bytes) (pid : Nat)
  /-- DISCONNECT carrying a new Session Expiry Interval -/
  | setExpiry (c : Bytes) (n : Nat)
  /-- the session ends: clean-session disconnect, expiry, administrative removal -/
  | terminate (c : Bytes)

def HOp.cid : HOp → Bytes
  | .connect c _ _ _ | .subscribe c _ | .unsubscribe c _ | .enqueue c _ | .deliver c _ _ | .ack c _ | .pubrec c _ _
  | .recvQos2 c _ | .pubrel c _ | .setExpiry c _ | .terminate c => c

/-- the five fields `Store.Set` writes -/
def sessHash (s : Session) : List (Bytes × Bytes) :=
  [(fClientId, s.id), (fWill, encodeMessageOpt s.will), (fWillDelay, natToDec s.willDelay),
   (fConnectedAt, natToDec s.connectedAt), (fExpiry, natToDec s.expiry)]

/-- `sessionStore.Get` finds a session -/
def sessionExists (g : DStore) (c : Bytes) : Bool :=
  match parseSession (sessFields.map (hfind (g c).sess)) with
  | .ok (some _) => true
  | _ => false

/-- `removeSessionLocked`: session record first, then the queue, then the subscriptions -/
def removalCmds (c : Bytes) : List DCmd := [.delKey .sess c, .delKey .queue c, .delKey .sub c]

/-- `ReadInflight` over the id-bearing prefix: with an in-flight expiry configured every replayed entry is rewritten -/
def refreshCmds (c : Bytes) (ie now : Nat) : List Elem → Nat → List DCmd
  | [], _ => []
  | e :: es, i =>
    if e.id != 0 then
      (if ie != 0 then [DCmd.lset c i { e with expiry := now + ie }] else []) ++ refreshCmds c ie now es (i + 1)
    else []

def assignElem (e : Elem) (pid now ie : Nat) : Elem :=
  let e1 := e.withId pid
  if ie != 0 then { e1 with expiry := now + ie } else e1

/-- the pipeline of `Read`: a QoS 0 entry is removed (LREM by value), any other gets the next packet id (LSET at the cursor) -/
def deliverCmds (c : Bytes) (ie now : Nat) : List Elem → List Nat → Nat → List DCmd
  | [], _, _ => []
  | e :: es, pids, cur =>
    if e.qos == 0 then DCmd.lrem1 c e :: deliverCmds c ie now es pids cur
    else
      match pids with
      | [] => []
      | p :: ps => DCmd.lset c cur (assignElem e p now ie) :: deliverCmds c ie now es ps (cur + 1)

/-- number of entries that became in-flight -/
def deliverCount : List Elem → List Nat → Nat
  | [], _ => 0
  | e :: es, pids =>
    if e.qos == 0 then deliverCount es pids
    else match pids with
      | [] => 0
      | _ :: ps => deliverCount es ps + 1

def findById (pid : Nat) : List Elem → Option Elem
  | [] => none
  | e :: es => if e.id = pid then some e else findById pid es

def indexById (pid : Nat) : List Elem → Nat → Option Nat
  | [], _ => none
  | e :: es, k => if e.id = pid then some k else indexById pid es (k + 1)

/-- length of the id-bearing prefix -/
def inflightLen : List Elem → Nat
  | [] => 0
  | e :: es => if e.id != 0 then inflightLen es + 1 else 0

/-- the write commands of one step, and the cursor afterwards -/
def HOp.run (ie : Nat) (st : HSt) : HOp → List DCmd × Nat
  | .connect c clean s now =>
    if sessionExists st.g c && !clean then
      -- resume: queue Init without clean start (LLEN), unack Init(false) (nothing), session Set, then the replay
      (DCmd.setSess c (sessHash s) :: refreshCmds c ie now (st.g c).queue 0, inflightLen (st.g c).queue)
    else
      ((if sessionExists st.g c then removalCmds c else []) ++
        [.delKey .sub c, .delKey .queue c, .delKey .unack c, .setSess c (sessHash s)], 0)
  | .subscribe c s => ([.setSub c s], st.cur c)
  | .unsubscribe c t => ([.delSubs c [t]], st.cur c)
  | .enqueue c e => ([.push c e], st.cur c)
  | .deliver c pids now =>
    let batch := ((st.g c).queue.drop (st.cur c)).take pids.length
    (deliverCmds c ie now batch pids (st.cur c), st.cur c + deliverCount batch pids)
  | .ack c pid =>
    match findById pid ((st.g c).queue.take (st.cur c)) with
    | some e => ([.lrem1 c e], st.cur c - 1)
    | none => ([], st.cur c)
  | .pubrec c pid now =>
    match indexById pid ((st.g c).queue.take (st.cur c)) 0 with
    | some k => ([.lset c k { atTime := now, expiry := zeroTime, body := .pubrel pid }], st.cur c)
    | none => ([], st.cur c)
  | .recvQos2 c pid => (if pid ∈ (st.g c).unack then [] else [.setUnack c pid], st.cur c)
  | .pubrel c pid => ([.delUnack c pid], st.cur c)
  | .setExpiry c n => ([.setSess c [(fExpiry, natToDec n)]], st.cur c)
  | .terminate c => (removalCmds c, 0)

def HOp.cmds (ie : Nat) (st : HSt) (op : HOp) : List DCmd := (op.run ie st).1

def hstep (ie : Nat) (st : HSt) (op : HOp) : HSt :=
  { g := dfold st.g (op.cmds ie st),
    cur := fun c => if c = op.cid then (op.run ie st).2 else st.cur c }

/-- state after a history -/
def hrun (ie : Nat) (st : HSt) : List HOp → HSt
  | [] => st
  | op :: ops => hrun ie (hstep ie st op) ops

/-- all write commands of a history, in order -/
def hcmds (ie : Nat) (st : HSt) : List HOp → List DCmd
  | [] => []
  | op :: ops => op.cmds ie st ++ hcmds ie (hstep ie st op) ops

end GmqttVerif.RedisStores
