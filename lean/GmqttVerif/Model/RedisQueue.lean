import GmqttVerif.Model.Redis
import GmqttVerif.Model.Queue
/-
  Model of `persistence/queue/redis.Queue` (gmqtt) WITH the patches of findings/c10-redis-queue.diff applied
  (the unpatched code differs from the memory queue in the ways listed in that finding; the patched code is the one
  compared with `Model/Queue.lean` by the `queue-redis` stream of C10).

  The Go object keeps only `len`, `current`, `readCache` (bytes of the entries in front of the cursor, by packet id)
  and some flags; the elements live in the redis list `queue:<clientID>`. Every method reads the list with LRANGE,
  decodes, decides, and writes with RPUSH / LSET index / LREM 1 <bytes>. The model does the same on `Redis.Dataset`
  and returns the commands it issued, in order (reads included).

  The element type is abstract (`ElemOps`): C10 instantiates it with `Queue.Elem` and an arbitrary injective
  encoding, C09 with `ElemCodec.Elem` and the real `Elem.Encode/Decode`.
-/
namespace GmqttVerif.RedisQueue
open GmqttVerif.Codec (Bytes)
open GmqttVerif.Redis
open GmqttVerif.Queue (Reason)

/-- what the queue code needs to know about an element -/
structure ElemOps (ε : Type) where
  enc : ε → Bytes
  dec : Bytes → Option ε
  id : ε → Nat
  isPub : ε → Bool
  qos : ε → Nat
  /-- `queue.ElemExpiry(now, e)` -/
  expired : Nat → ε → Bool
  /-- `Read`: `SetID(pid)`, and `Expiry = now + inflightExpiry` when that is configured -/
  assign : ε → (pid now ie : Nat) → ε
  /-- `ReadInflight`: `Expiry = now + inflightExpiry` when that is configured -/
  refresh : ε → (now ie : Nat) → ε
  /-- `pub.TotalBytes(version)` -/
  size : ε → Nat

inductive Ev (ε : Type)
  | dropped (e : ε) (r : Reason)
  | inflight (d : Int)
  | queued (d : Int)
  deriving Repr

/-- the in-memory half of the Go object -/
structure RQ where
  key : Bytes
  len : Nat := 0
  cur : Nat := 0
  cache : List (Nat × Bytes) := []
  drained : Bool := false
  closed : Bool := false
  max : Nat
  ie : Nat
  limit : Nat := 0
  deriving Repr, DecidableEq, Inhabited

def cacheGet (c : List (Nat × Bytes)) (id : Nat) : Option Bytes :=
  match c with
  | [] => none
  | (i, b) :: rest => if i = id then some b else cacheGet rest id

def cacheDel (c : List (Nat × Bytes)) (id : Nat) : List (Nat × Bytes) :=
  c.filter (fun p => p.1 != id)

/-- Go map assignment `readCache[id] = b` -/
def cachePut (c : List (Nat × Bytes)) (id : Nat) (b : Bytes) : List (Nat × Bytes) :=
  cacheDel c id ++ [(id, b)]

/-- decode every entry; `none` when one of them does not decode -/
def decodeAll {ε : Type} (O : ElemOps ε) : List Bytes → Option (List ε)
  | [] => some []
  | b :: bs =>
    match O.dec b, decodeAll O bs with
    | some e, some es => some (e :: es)
    | _, _ => none

/-- first element of a list (paired with its bytes) satisfying `p` -/
def findFirst {ε : Type} (p : ε → Bool) : List (Bytes × ε) → Option (Bytes × ε)
  | [] => none
  | (b, e) :: rest => if p e then some (b, e) else findFirst p rest

inductive Victim (ε : Type)
  | inflight (b : Bytes) (v : ε)
  | queued (b : Bytes) (v : ε) (r : Reason)
  | newcomer

/-- an unread, queued PUBLISH (no packet id yet) -/
def isQueued {ε : Type} (O : ElemOps ε) (e : ε) : Bool := O.isPub e && O.id e == 0

/-- the drop ladder of `Add` on a full queue; `pairs` = (bytes, decoded) of the whole list -/
def chooseVictim {ε : Type} (O : ElemOps ε) (q : RQ) (now : Nat) (e : ε) (pairs : List (Bytes × ε)) : Victim ε :=
  match findFirst (O.expired now) (pairs.take q.cur) with
  | some (b, v) => .inflight b v
  | none =>
    if q.drained && decide (q.cur ≥ q.len) then .newcomer
    else
      let rest := pairs.drop q.cur
      match findFirst (fun x => isQueued O x && O.expired now x) rest with
      | some (b, v) => .queued b v .expired
      | none =>
        match findFirst (fun x => isQueued O x && O.qos x == 0) rest with
        | some (b, v) => .queued b v .full
        | none =>
          if O.qos e == 0 then .newcomer
          else match findFirst (isQueued O) rest with
            | some (b, v) => .queued b v .full
            | none => .newcomer

inductive Status
  | ok | err | panic | blocked | closed | replaced | notfound
  deriving Repr, DecidableEq, Inhabited

/-- result of one method call: new object state, the commands issued, notifier calls, returned elements, status -/
structure Res (ε : Type) where
  q : RQ
  cmds : List Cmd := []
  evs : List (Ev ε) := []
  ret : List ε := []
  status : Status := .ok

/-- `Init` -/
def init {ε : Type} (q : RQ) (ds : Dataset) (clean : Bool) (limit : Nat) : Res ε :=
  let cmds1 := if clean then [Cmd.del q.key] else []
  let ds1 := applyAll ds cmds1
  match listAt ds1 q.key with
  | none => { q := q, cmds := cmds1 ++ [.llen q.key], status := .err }
  | some xs =>
    { q := { q with len := xs.length, cur := 0, cache := [], drained := false, closed := false, limit := limit },
      cmds := cmds1 ++ [.llen q.key] }

/-- `Clean` -/
def clean {ε : Type} (q : RQ) : Res ε := { q := q, cmds := [.del q.key] }

/-- `Close` -/
def close {ε : Type} (q : RQ) : Res ε := { q := { q with closed := true } }

/-- `Add` -/
def add {ε : Type} (O : ElemOps ε) (q : RQ) (ds : Dataset) (now : Nat) (e : ε) : Res ε :=
  if q.len ≥ q.max then
    let rd := [Cmd.lrange q.key 0 (-1)]
    match listAt ds q.key with
    | none => { q := q, cmds := rd, evs := [.dropped e .full], status := .err }
    | some xs =>
      match decodeAll O xs with
      | none => { q := q, cmds := rd, evs := [.dropped e .full], status := .err }
      | some es =>
        match chooseVictim O q now e (xs.zip es) with
        | .inflight b v =>
          { q := { q with cur := q.cur - 1, cache := cacheDel q.cache (O.id v) },
            cmds := rd ++ [.lrem q.key 1 b, .rpush q.key (O.enc e)],
            evs := [.inflight (-1), .dropped v .expiredInflight] }
        | .queued b v r =>
          { q := q, cmds := rd ++ [.lrem q.key 1 b, .rpush q.key (O.enc e)], evs := [.dropped v r] }
        | .newcomer => { q := q, cmds := rd, evs := [.dropped e .full] }
  else
    { q := { q with len := q.len + 1 }, cmds := [.rpush q.key (O.enc e)], evs := [.queued 1] }

/-- accumulator of the `Read` loop -/
structure ReadAcc (ε : Type) where
  q : RQ
  cmds : List Cmd := []
  evs : List (Ev ε) := []
  ret : List ε := []
  qd : Int := 0
  ind : Int := 0
  failed : Bool := false

/-- the `for i := 0; i < len(rs); i++` loop of `Read` -/
def readLoop {ε : Type} (O : ElemOps ε) (now : Nat) : List Bytes → List Nat → ReadAcc ε → ReadAcc ε
  | [], _, a => a
  | b :: bs, pids, a =>
    match O.dec b with
    | none => { a with failed := true }
    | some e =>
      if O.expired now e then
        readLoop O now bs pids { a with q := { a.q with len := a.q.len - 1 }, cmds := a.cmds ++ [.lrem a.q.key 1 b],
                                        evs := a.evs ++ [.dropped e .expired], qd := a.qd - 1 }
      else if O.size e > a.q.limit then
        readLoop O now bs pids { a with q := { a.q with len := a.q.len - 1 }, cmds := a.cmds ++ [.lrem a.q.key 1 b],
                                        evs := a.evs ++ [.dropped e .oversize], qd := a.qd - 1 }
      else if O.qos e == 0 then
        readLoop O now bs pids { a with q := { a.q with len := a.q.len - 1 }, cmds := a.cmds ++ [.lrem a.q.key 1 b],
                                        ret := a.ret ++ [e], qd := a.qd - 1 }
      else
        match pids with
        | [] => { a with failed := true }      -- Go: index out of range (cannot happen: at most len(pids) entries are read)
        | p :: pids' =>
          let e' := O.assign e p now a.q.ie
          let nb := O.enc e'
          readLoop O now bs pids'
            { a with q := { a.q with cur := a.q.cur + 1, cache := cachePut a.q.cache (O.id e') nb },
                     cmds := a.cmds ++ [.lset a.q.key a.q.cur nb], ret := a.ret ++ [e'], ind := a.ind + 1 }

/-- `Read(pids)` -/
def read {ε : Type} (O : ElemOps ε) (q : RQ) (ds : Dataset) (now : Nat) (pids : List Nat) : Res ε :=
  if !q.drained then { q := q, status := .panic }
  else if decide (q.cur ≥ q.len) && !q.closed then { q := q, status := .blocked }
  else if q.closed then { q := q, status := .closed }
  else if pids.isEmpty then { q := q, evs := [.queued 0, .inflight 0] }
  else
    let rd := [Cmd.lrange q.key q.cur ((q.cur + pids.length : Nat) - 1 : Int)]
    match listAt ds q.key with
    | none => { q := q, cmds := rd, status := .err }
    | some xs =>
      let a := readLoop O now (lrange xs q.cur ((q.cur + pids.length : Nat) - 1 : Int)) pids { q := q }
      if a.failed then { q := a.q, cmds := rd ++ a.cmds, evs := a.evs, status := .err }
      else { q := a.q, cmds := rd ++ a.cmds, evs := a.evs ++ [.queued a.qd, .inflight a.ind], ret := a.ret }

/-- loop of `ReadInflight`: `idx` = list index of the entry at hand -/
def inflightLoop {ε : Type} (O : ElemOps ε) (now : Nat) : List Bytes → Nat → ReadAcc ε → ReadAcc ε
  | [], _, a => a
  | b :: bs, idx, a =>
    match O.dec b with
    | none => { a with failed := true }
    | some e =>
      if O.id e != 0 then
        let e' := O.refresh e now a.q.ie
        let (b', cs) := if a.q.ie != 0 then (O.enc e', [Cmd.lset a.q.key idx (O.enc e')]) else (b, [])
        inflightLoop O now bs (idx + 1)
          { a with q := { a.q with cur := a.q.cur + 1, cache := cachePut a.q.cache (O.id e) b' },
                   cmds := a.cmds ++ cs, ret := a.ret ++ [e'] }
      else { a with q := { a.q with drained := true } }

/-- `ReadInflight(maxSize)` -/
def readInflight {ε : Type} (O : ElemOps ε) (q : RQ) (ds : Dataset) (now : Nat) (maxSize : Nat) : Res ε :=
  if q.len = 0 ∨ q.cur ≥ q.len then { q := { q with drained := true } }
  else if maxSize = 0 then { q := q }
  else
    let rd := [Cmd.lrange q.key q.cur ((q.cur + maxSize : Nat) - 1 : Int)]
    match listAt ds q.key with
    | none => { q := q, cmds := rd, status := .err }
    | some xs =>
      let a := inflightLoop O now (lrange xs q.cur ((q.cur + maxSize : Nat) - 1 : Int)) q.cur { q := q }
      if a.failed then { q := a.q, cmds := rd ++ a.cmds, status := .err }
      else { q := a.q, cmds := rd ++ a.cmds, ret := a.ret }

/-- `Remove(pid)` -/
def remove {ε : Type} (q : RQ) (pid : Nat) : Res ε :=
  match cacheGet q.cache pid with
  | some b =>
    { q := { q with cache := cacheDel q.cache pid, len := q.len - 1, cur := q.cur - 1 },
      cmds := [.lrem q.key 1 b], evs := [.queued (-1), .inflight (-1)] }
  | none => { q := q }

/-- index of the first decodable entry with the given id among `bs` (`none`: no such entry, or a decode error first) -/
def findId {ε : Type} (O : ElemOps ε) (id : Nat) : List Bytes → Nat → Option (Option Nat)
  | [], _ => some none
  | b :: bs, k =>
    match O.dec b with
    | none => none
    | some e => if O.id e = id then some (some k) else findId O id bs (k + 1)

/-- `Replace(elem)` -/
def replace {ε : Type} (O : ElemOps ε) (q : RQ) (ds : Dataset) (e : ε) : Res ε :=
  if q.cur = 0 then { q := q, status := .notfound }
  else
    let rd := [Cmd.lrange q.key 0 ((q.cur : Int) - 1)]
    match listAt ds q.key with
    | none => { q := q, cmds := rd, status := .err }
    | some xs =>
      match findId O (O.id e) (lrange xs 0 ((q.cur : Int) - 1)) 0 with
      | none => { q := q, cmds := rd, status := .err }
      | some none => { q := q, cmds := rd, status := .notfound }
      | some (some k) =>
        { q := { q with cache := cachePut q.cache (O.id e) (O.enc e) },
          cmds := rd ++ [.lset q.key k (O.enc e)], status := .replaced }

end GmqttVerif.RedisQueue
