import GmqttVerif.Model.Redis
import GmqttVerif.Model.ElemCodec
import GmqttVerif.Model.RedisQueue
/-
  The redis persistence stores of gmqtt as command emitters, and what a restarted broker loads.

    persistence/session/redis/store.go              Set / Remove / Get / SetSessionExpiry / Iterate
    persistence/subscription/redis/subscription.go  Subscribe / Unsubscribe / UnsubscribeAll / Init
    persistence/unack/redis/redis.go                Init / Set / Remove
    persistence/queue/redis/redis.go                → Model/RedisQueue.lean, instantiated with the real element codec
    server/server.go `init`                         → `recover`

  The code modelled is the tree WITH the patches of findings/c09-*.diff:
    F27  HDEL gets the topic names as separate arguments        (unpatched: one argument "[a b]": nothing is deleted)
    F28  Init registers the subscriptions under the client id   (unpatched: strings.TrimLeft(id, "sub:"))
    F29  unack Set uses the reply of HSET (0 = field existed)   (unpatched: ids of a previous process are forgotten)
    Get  HMGET on a missing key means "no session"              (unpatched: a non-nil empty session)
-/
namespace GmqttVerif.RedisStores
open GmqttVerif.Codec (Bytes)
open GmqttVerif.Redis
open GmqttVerif.ElemCodec

/-! ### keys and field names (ASCII) -/

/-- "session:" -/
def sessPrefix : Bytes := [115, 101, 115, 115, 105, 111, 110, 58]
/-- "sub:" -/
def subPrefix : Bytes := [115, 117, 98, 58]
/-- "queue:" -/
def queuePrefix : Bytes := [113, 117, 101, 117, 101, 58]
/-- "unack:" -/
def unackPrefix : Bytes := [117, 110, 97, 99, 107, 58]

def sessKey (cid : Bytes) : Bytes := sessPrefix ++ cid
def subKey (cid : Bytes) : Bytes := subPrefix ++ cid
def queueKey (cid : Bytes) : Bytes := queuePrefix ++ cid
def unackKey (cid : Bytes) : Bytes := unackPrefix ++ cid

/-- "client_id" -/
def fClientId : Bytes := [99, 108, 105, 101, 110, 116, 95, 105, 100]
/-- "will" -/
def fWill : Bytes := [119, 105, 108, 108]
/-- "will_delay_interval" -/
def fWillDelay : Bytes := [119, 105, 108, 108, 95, 100, 101, 108, 97, 121, 95, 105, 110, 116, 101, 114, 118, 97, 108]
/-- "connected_at" -/
def fConnectedAt : Bytes := [99, 111, 110, 110, 101, 99, 116, 101, 100, 95, 97, 116]
/-- "expiry_interval" -/
def fExpiry : Bytes := [101, 120, 112, 105, 114, 121, 95, 105, 110, 116, 101, 114, 118, 97, 108]

def sessFields : List Bytes := [fClientId, fWill, fWillDelay, fConnectedAt, fExpiry]

/-! ### session store -/

/-- `gmqtt.Session` (ConnectedAt in unix seconds) -/
structure Session where
  id : Bytes
  will : Option Message := none
  willDelay : Nat := 0
  connectedAt : Nat := 0
  expiry : Nat := 0
  deriving Repr, DecidableEq, Inhabited

/-- `Store.Set` -/
def sessSet (s : Session) : List Cmd :=
  [.hset (sessKey s.id)
    [(fClientId, s.id), (fWill, encodeMessageOpt s.will), (fWillDelay, natToDec s.willDelay),
     (fConnectedAt, natToDec s.connectedAt), (fExpiry, natToDec s.expiry)]]

/-- `Store.Remove` -/
def sessRemove (cid : Bytes) : List Cmd := [.del (sessKey cid)]

/-- `Store.SetSessionExpiry` -/
def sessSetExpiry (cid : Bytes) (n : Nat) : List Cmd := [.hset (sessKey cid) [(fExpiry, natToDec n)]]

/-- `redis.Scan` of one reply into a `uint32`: nil leaves the zero value, anything else must parse -/
def scanU32 : Option Bytes → Option Nat
  | none => some 0
  | some b => decToU32 b

/-- `getSessionLocked` on the reply of HMGET: `ok none` = no such session, `error` = the load fails -/
def parseSession (reply : List (Option Bytes)) : Except Unit (Option Session) :=
  match reply with
  | [cid, will, wd, ca, ex] =>
    match cid with
    | none => .ok none
    | some id =>
      match scanU32 wd, scanU32 ca, scanU32 ex, decodeMessageOpt (will.getD []) with
      | some wd, some ca, some ex, .ok w =>
        .ok (some { id := id, will := w, willDelay := wd, connectedAt := ca, expiry := ex })
      | _, _, _, _ => .error ()
  | _ => .error ()

/-- `Store.Get` (the HMGET it issues is `sessGetCmd`) -/
def sessGet (ds : Dataset) (key : Bytes) : Except Unit (Option Session) :=
  match hashAt ds key with
  | none => .error ()       -- WRONGTYPE
  | some fs => parseSession (sessFields.map (hfind fs))

def sessGetCmd (cid : Bytes) : Cmd := .hmget (sessKey cid) sessFields

/-- `Store.Iterate`: every key `session:*`, loaded with `getSessionLocked`; keys that hold no session are skipped -/
def sessIterate (ds : Dataset) : Except Unit (List Session) :=
  let rec go : List Bytes → Except Unit (List Session)
    | [] => .ok []
    | k :: ks =>
      match sessGet ds k, go ks with
      | .ok (some s), .ok rest => .ok (s :: rest)
      | .ok none, .ok rest => .ok rest
      | _, _ => .error ()
  go (keysWithPrefix ds sessPrefix)

/-! ### subscription store -/

/-- `sub.Subscribe` for one subscription (the broker calls it once per topic filter) -/
def subSubscribe (cid : Bytes) (s : Subscription) : List Cmd :=
  [.hset (subKey cid) [(fullTopicName s, encodeSubscription s)]]

/-- `sub.Unsubscribe` -/
def subUnsubscribe (cid : Bytes) (topics : List Bytes) : List Cmd := [.hdel (subKey cid) topics]

/-- `sub.UnsubscribeAll` -/
def subUnsubscribeAll (cid : Bytes) : List Cmd := [.del (subKey cid)]

def decodeSubs : List (Bytes × Bytes) → Except Unit (List (Bytes × Subscription))
  | [] => .ok []
  | (f, v) :: rest =>
    match decodeSubscription v, decodeSubs rest with
    | .ok s, .ok r => .ok ((f, s) :: r)
    | _, _ => .error ()

/-- `sub.Init` for one client id: HGETALL `sub:<id>`, every value decoded -/
def subLoad (ds : Dataset) (cid : Bytes) : Except Unit (List (Bytes × Subscription)) :=
  match hashAt ds (subKey cid) with
  | none => .error ()
  | some fs => decodeSubs fs

/-! ### unack store -/

/-- `Store.Init(cleanStart)` -/
def unackInit (cid : Bytes) (clean : Bool) : List Cmd := if clean then [.del (unackKey cid)] else []

/-- `Store.Set(id)`: (commands, existed) given the in-memory cache of this store object -/
def unackSet (ds : Dataset) (cache : List Nat) (cid : Bytes) (id : Nat) : List Cmd × Bool × List Nat :=
  if cache.contains id then ([], true, cache)
  else
    let c := Cmd.hset (unackKey cid) [(natToDec id, [49])]
    match (exec ds c).2 with
    | .int n => ([c], n == 0, cache ++ [id])
    | _ => ([c], false, cache)        -- error: the id is not cached

/-- `Store.Remove(id)` -/
def unackRemove (cid : Bytes) (id : Nat) : List Cmd := [.hdel (unackKey cid) [natToDec id]]

/-! ### the queue store on the real element codec -/

/-- `queue.ElemExpiry` on the stored uint64 seconds (interpreted as int64 like `time.Unix(int64(..), 0)`) -/
def elemExpired (now : Nat) (e : Elem) : Bool :=
  e.expiry != zeroTime && decide (now > e.expiry)

/-- `Message.TotalBytes(Version5)` is not needed by C09 (the read limit is the maximum); sizes are 0 here and the
    oversize branch is exercised by C10's streams -/
def elemOps : RedisQueue.ElemOps Elem where
  enc := encodeElem
  dec := fun b => match decodeElem b with | .ok e => some e | .error _ => none
  id := Elem.id
  isPub := Elem.isPub
  qos := Elem.qos
  expired := elemExpired
  assign := fun e pid now ie => let e1 := e.withId pid; if ie != 0 then { e1 with expiry := now + ie } else e1
  refresh := fun e now ie => if ie != 0 then { e with expiry := now + ie } else e
  size := fun _ => 0

/-! ### what a restarted broker loads (`server.init` + the stores' Init + the first look at every queue) -/

/-- one recovered session -/
structure Recovered where
  sess : Session
  subs : List (Bytes × Subscription)     -- hash field (full topic name) ↦ subscription
  queue : List Elem                      -- the list `queue:<id>`, decoded, in order
  unack : List Bytes                     -- fields of the hash `unack:<id>` (decimal packet ids)
  deriving Repr, DecidableEq, Inhabited

abbrev Durable := List Recovered

inductive Stage
  | sessions | subs | queue | unack
  deriving Repr, DecidableEq, Inhabited

def decodeElems : List Bytes → Except Unit (List Elem)
  | [] => .ok []
  | b :: bs =>
    match decodeElem b, decodeElems bs with
    | .ok e, .ok es => .ok (e :: es)
    | _, _ => .error ()

def recoverOne (ds : Dataset) (s : Session) : Except Stage Recovered :=
  match subLoad ds s.id with
  | .error _ => .error .subs
  | .ok subs =>
    match listAt ds (queueKey s.id) with
    | none => .error .queue
    | some xs =>
      match decodeElems xs with
      | .error _ => .error .queue
      | .ok es =>
        match hashAt ds (unackKey s.id) with
        | none => .error .unack
        | some fs => .ok { sess := s, subs := subs, queue := es, unack := fs.map (·.1) }

def recoverAll (ds : Dataset) : List Session → Except Stage Durable
  | [] => .ok []
  | s :: ss =>
    match recoverOne ds s, recoverAll ds ss with
    | .ok r, .ok rs => .ok (r :: rs)
    | .error e, _ => .error e
    | _, .error e => .error e

/-- `server.init` on the dataset: SCAN `session:*` + HMGET each, then per session HGETALL `sub:<id>`,
    the list `queue:<id>` (read lazily by ReadInflight/Read on reconnect) and the hash `unack:<id>` -/
def recover (ds : Dataset) : Except Stage Durable :=
  match sessIterate ds with
  | .error _ => .error .sessions
  | .ok ss => recoverAll ds ss

end GmqttVerif.RedisStores
