/-
  Federation: a clean-start resynchronisation racing with the subscription hooks (C16 / C17).

  Node A keeps, per peer B, a queue of events; B replays them in order on top of the state it has for A, which is EMPTY after a
  clean start. Two goroutines of A touch B's queue:

  * a client connection running `OnSubscribedWrapper` / `OnUnsubscribedWrapper` / `OnSessionTerminatedWrapper`: under
    `memberMu` (one hook at a time) it updates `localSubStore` (`upd`) and, if the topic's reference count crossed 0 <-> 1, adds a
    Subscribe / Unsubscribe event to the queue of every peer (`emit`). The two are separate critical sections for everybody who
    does not take `memberMu`;
  * B's peer goroutine in `initStream` after a handshake answered with clean_start: it clears the queue (`clear`) and then, under
    the `localSubStore` lock, queues a Subscribe for every topic that has a local subscriber (`snapQueue`). It does not take
    `memberMu`, so it can run between `upd` and `emit`.

  One topic is followed (topics are independent): `loc` = the topic has a local subscriber, events are `true` (Subscribe) and
  `false` (Unsubscribe), and what B ends up with after replaying a queue on the empty state is the value of the last event.

  The resynchronisation is a program (list of `RStep`) so that the order found in the source — and the other order — can both be
  run: `snapOnly` takes the snapshot into a local variable, `appendSaved` queues it later.
-/
namespace GmqttVerif.ResyncRace

inductive RStep
  | clear | snapQueue | snapOnly | appendSaved
  deriving Repr, DecidableEq

structure S where
  loc : Bool                    -- the topic has a local subscriber (localSubStore.topics)
  pend : Option Bool := none    -- a hook has updated localSubStore and not yet queued this event
  q : List Bool := []           -- B's queue on A
  prog : List RStep             -- what initStream still has to do
  saved : Option Bool := none   -- snapshot held in a local variable (`snapOnly`)
  deriving Repr, DecidableEq

/-- what B knows after replaying `q` on the empty state -/
def remoteOf (q : List Bool) : Bool := q.getLast?.getD false

inductive Act
  | upd (b : Bool)   -- a hook: the local reference count of the topic becomes > 0 (true) / 0 (false)
  | emit             -- the same hook queues the event
  | resync           -- the next step of initStream
  deriving Repr, DecidableEq

def step (s : S) : Act → Option S
  | .upd b => if s.pend.isSome then none else
      some { s with loc := b, pend := if s.loc != b then some b else none }
  | .emit => match s.pend with
      | some b => some { s with pend := none, q := s.q ++ [b] }
      | none => none
  | .resync => match s.prog with
      | [] => none
      | .clear :: rest => some { s with q := [], prog := rest }
      | .snapQueue :: rest => some { s with q := s.q ++ (if s.loc then [true] else []), prog := rest }
      | .snapOnly :: rest => some { s with saved := some s.loc, prog := rest }
      | .appendSaved :: rest => some { s with q := s.q ++ (if s.saved == some true then [true] else []), prog := rest }

def run (s : S) : List Act → Option S
  | [] => some s
  | a :: as => match step s a with
      | some t => run t as
      | none => none

/-- the resynchronisation as the source orders it: codes of `Generated/FedResync.lean`
    (1 `p.queue.clear()`, 2 `localSubStore.Lock()`, 3 the loop over `localSubStore.topics` that queues a Subscribe each,
     4 `localSubStore.Unlock()`, 5 `retainedStore.Iterate`, 6 `setReadPosition`; anything else is not understood) -/
def ofCodes : List Nat → Option (List RStep)
  | [] => some []
  | 1 :: rest => (ofCodes rest).map (RStep.clear :: ·)
  | 2 :: 3 :: 4 :: rest => (ofCodes rest).map (RStep.snapQueue :: ·)
  | 5 :: rest => ofCodes rest
  | 6 :: rest => ofCodes rest
  | _ => none

/-- the order in the source the model was written from -/
def asIs : List RStep := [.clear, .snapQueue]
/-- the other order: snapshot first, clear, then queue the snapshot -/
def snapshotFirst : List RStep := [.snapOnly, .clear, .appendSaved]

end GmqttVerif.ResyncRace

/-!
  ### the retained message of a PUBLISH that arrives during the resynchronisation

  The publisher's goroutine first runs the `OnMsgArrived` hook — the federation queues a message event for every peer
  (`pubEmit`) — and then updates the retained store (`pubStore`; order read from the source, `Generated/PubOrder.lean`).
  `initStream` clears the queue (`clear`) and later queues every message of the retained store (`iterate`).
-/
namespace GmqttVerif.ResyncRace.Retained

inductive Step
  | pubEmit | pubStore | clear | iterate
  deriving Repr, DecidableEq

structure St where
  stored : Bool := false     -- the message is in A's retained store
  queued : Bool := false     -- an event carrying it is in B's queue on A
  deriving Repr, DecidableEq

def step (s : St) : Step → St
  | .pubEmit => { s with queued := true }
  | .pubStore => { s with stored := true }
  | .clear => { s with queued := false }
  | .iterate => if s.stored then { s with queued := true } else s

def run (l : List Step) : St := l.foldl step {}

end GmqttVerif.ResyncRace.Retained
