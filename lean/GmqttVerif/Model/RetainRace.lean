/-
  A retained PUBLISH racing with a SUBSCRIBE of another connection (C07).

  The publisher's goroutine does two things for an accepted retained message, each atomic under its own lock: it updates the
  retained store (`store`) and it delivers to the subscriptions that exist at that moment (`deliver`, under `srv.mu`). The
  subscriber's goroutine does two things for a SUBSCRIBE: it installs the subscription (`install`) and it reads the retained
  store for the replay (`replay`). The order inside each goroutine is program order (read from the source on every run:
  `Generated/PubOrder.lean`); the scheduler interleaves the two sequences arbitrarily.

  State: is the subscription installed, is the message in the store, how many copies the subscriber got.
-/
namespace GmqttVerif.RetainRace

inductive Step
  | store | deliver | install | replay
  deriving Repr, DecidableEq

structure St where
  installed : Bool := false
  stored : Bool := false
  copies : Nat := 0
  deriving Repr, DecidableEq

def step (s : St) : Step → St
  | .store => { s with stored := true }
  | .deliver => if s.installed then { s with copies := s.copies + 1 } else s
  | .install => { s with installed := true }
  | .replay => if s.stored then { s with copies := s.copies + 1 } else s

def run (l : List Step) : St := l.foldl step {}

/-- all interleavings of two sequences that keep each one's order (`fuel` ≥ the sum of the lengths; structural, so the kernel
    evaluates it) -/
def interl : Nat → List Step → List Step → List (List Step)
  | _, [], ys => [ys]
  | _, xs, [] => [xs]
  | 0, _, _ => []
  | n + 1, x :: xs, y :: ys => (interl n xs (y :: ys)).map (x :: ·) ++ (interl n (x :: xs) ys).map (y :: ·)

def interleavings (xs ys : List Step) : List (List Step) := interl (xs.length + ys.length) xs ys

def dedup : List Step → List Step
  | [] => []
  | a :: t => a :: (dedup t).filter (· != a)

/-- program order of the publisher / of the subscriber as a list of steps, from the codes of `Generated/PubOrder.lean`
    (1 = retained-store update, 2 = delivery, 3 = install, 4 = replay; the hook call 0 and repeated codes are dropped) -/
def ofCodes (l : List Nat) : List Step :=
  l.filterMap (fun c => match c with
    | 1 => some Step.store | 2 => some Step.deliver | 3 => some Step.install | 4 => some Step.replay | _ => none) |> dedup

end GmqttVerif.RetainRace
