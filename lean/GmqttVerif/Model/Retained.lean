import GmqttVerif.Model.RetainedTopic
/-
  Model of the retained-message store `retained/trie` (retain_trie.go, trie_db.go), branch by branch.

  Go                                     model
  ------------------------------------   ---------------------------------------------------------
  `*gmqtt.Message`                       `Msg` = its `Topic` field + a ghost `tag` (carried in the payload)
  `topicNode{children,msg,parent,..}`    `Node.mk msg children`; `children map[string]*topicNode` is an
                                         association list (first match wins, `delete` removes every match,
                                         insertion of a new key appends). Iteration order of the Go map is
                                         unspecified; the model iterates in list order and the drivers sort.
  `parent` pointer                       only used by `remove` to delete the leaf from its parent: the
                                         model's `remove` rebuilds the path on the way back up.
  `topicName` field                      written by `addRetainMsg`, never read: not modelled.
  callbacks `retained.IterateFn`         `preOrderTraverse` takes an arbitrary stateful callback
                                         `σ → Msg → σ × Bool` (false = stop). `matchTopic` is only ever
                                         called with the collecting callback of `getMatchedMessages`
                                         (always true) and is modelled as returning the list of messages
                                         the callback is called with, in call order.
  `sync.RWMutex`                         every public method is one atomic step.
-/
namespace GmqttVerif.Retained

structure Msg where
  topic : Topic
  tag   : Nat
  deriving Repr, DecidableEq, Inhabited

inductive Node where
  | mk (msg : Option Msg) (children : List (Level × Node))
  deriving Repr, Inhabited

def Node.msg : Node → Option Msg
  | .mk m _ => m

def Node.children : Node → List (Level × Node)
  | .mk _ cs => cs

/-- `newNode()` / `newChild()` -/
def newNode : Node := .mk none []

/-! ### `map[string]*topicNode` as an association list -/

/-- `children[lv]` -/
def childGet : List (Level × Node) → Level → Option Node
  | [], _ => none
  | (k, n) :: rest, lv => if k = lv then some n else childGet rest lv

/-- `children[lv] = n` -/
def childSet : List (Level × Node) → Level → Node → List (Level × Node)
  | [], lv, n => [(lv, n)]
  | (k, c) :: rest, lv, n => if k = lv then (k, n) :: rest else (k, c) :: childSet rest lv n

/-- `delete(children, lv)` -/
def childDel (cs : List (Level × Node)) (lv : Level) : List (Level × Node) :=
  cs.filter (fun kc => kc.1 ≠ lv)

/-! ### retain_trie.go -/

/-- `addRetainMsg`: walk down creating missing nodes, set `msg` at the end. -/
def Node.add : Node → List Level → Msg → Node
  | .mk _ cs, [], m => .mk (some m) cs
  | .mk msg cs, lv :: rest, m =>
    let c := (childGet cs lv).getD newNode
    .mk msg (childSet cs lv (c.add rest m))

/-- `remove`: walk down, return unchanged if a level is missing; clear `msg`; if the node has no
    children delete it from its parent (ONE level only — emptied ancestors stay). -/
def Node.remove : Node → List Level → Node
  | n, [] => n                      -- unreachable: `strings.Split` never returns an empty slice
  | .mk msg cs, lv :: rest =>
    match childGet cs lv with
    | none => .mk msg cs
    | some c =>
      match rest with
      | [] => if c.children.isEmpty then .mk msg (childDel cs lv)
              else .mk msg (childSet cs lv (.mk none c.children))
      | _ :: _ => .mk msg (childSet cs lv (c.remove rest))

/-- the loop of `find` / `remove`: follow the levels, `none` if a child is missing -/
def Node.walk : Node → List Level → Option Node
  | n, [] => some n
  | .mk _ cs, lv :: rest =>
    match childGet cs lv with
    | none => none
    | some c => c.walk rest

/-- `find`: the node of the topic if it exists and holds a message -/
def Node.find (n : Node) (ls : List Level) : Option Node :=
  match n.walk ls with
  | some p => if p.msg.isSome then some p else none
  | none => none

mutual
/-- `preOrderTraverse(fn)`: own message first, then every child; stops (returns false) as soon as the
    callback returns false. -/
def Node.traverse {σ : Type} (fn : σ → Msg → σ × Bool) : Node → σ → σ × Bool
  | .mk msg cs, s =>
    match msg with
    | some m =>
      match fn s m with
      | (s', true) => traverseChildren fn cs s'
      | (s', false) => (s', false)
    | none => traverseChildren fn cs s
/-- `for _, c := range t.children { if !c.preOrderTraverse(fn) { return false } }; return true` -/
def traverseChildren {σ : Type} (fn : σ → Msg → σ × Bool) : List (Level × Node) → σ → σ × Bool
  | [], s => (s, true)
  | (_, c) :: rest, s =>
    match c.traverse fn s with
    | (s', true) => traverseChildren fn rest s'
    | (s', false) => (s', false)
end

/-- the callback of `getMatchedMessages` / of a collect-everything `Iterate`: append, return true -/
def collect (acc : List Msg) (m : Msg) : List Msg × Bool := (acc ++ [m], true)

/-- messages of the subtree in the order `preOrderTraverse` visits them with a never-stopping callback -/
def Node.preOrder (n : Node) : List Msg := (n.traverse collect []).1

/-- `matchTopic(topicSlice, fn)` with the collecting callback: the messages `fn` is called with. -/
def Node.matchTopic : Node → List Level → List Msg
  | _, [] => []                     -- unreachable (`topicSlice[0]` on an empty slice would panic)
  | .mk msg cs, f :: rest =>
    let endFlag := rest.isEmpty
    if f = hash then
      (Node.mk msg cs).preOrder                         -- `t.preOrderTraverse(fn)`, whatever follows the `#`
    else if f = plus then
      cs.flatMap (fun kv => if endFlag then kv.2.msg.toList else kv.2.matchTopic rest)
    else
      match childGet cs f with
      | none => []
      | some n => if endFlag then n.msg.toList else n.matchTopic rest

/-! ### trie_db.go -/

structure Store where
  user : Node
  sys  : Node
  deriving Repr, Inhabited

/-- `NewStore()` -/
def Store.new : Store := { user := newNode, sys := newNode }

/-- `getTrie` -/
def Store.getTrie (s : Store) (t : Topic) : Node :=
  if isSystemTopic t then s.sys else s.user

/-- write back the trie `getTrie t` selected (the Go code mutates it in place) -/
def Store.setTrie (s : Store) (t : Topic) (n : Node) : Store :=
  if isSystemTopic t then { s with sys := n } else { s with user := n }

/-- `GetRetainedMessage` -/
def Store.getRetainedMessage (s : Store) (t : Topic) : Option Msg :=
  match (s.getTrie t).find (splitLevels t) with
  | some n => n.msg
  | none => none

/-- `ClearAll` -/
def Store.clearAll (_ : Store) : Store := Store.new

/-- `AddOrReplace` -/
def Store.addOrReplace (s : Store) (m : Msg) : Store :=
  s.setTrie m.topic ((s.getTrie m.topic).add (splitLevels m.topic) m)

/-- `Remove` -/
def Store.remove (s : Store) (t : Topic) : Store :=
  s.setTrie t ((s.getTrie t).remove (splitLevels t))

/-- `GetMatchedMessages` (one trie only, chosen by the first byte of the FILTER) -/
def Store.getMatchedMessages (s : Store) (f : Topic) : List Msg :=
  (s.getTrie f).matchTopic (splitLevels f)

/-- `Iterate(fn)`: user trie, then — unless stopped — system trie -/
def Store.iterate {σ : Type} (s : Store) (fn : σ → Msg → σ × Bool) (init : σ) : σ :=
  match s.user.traverse fn init with
  | (st, true) => (s.sys.traverse fn st).1
  | (st, false) => st

/-- `Iterate` with a callback that collects everything -/
def Store.iterateAll (s : Store) : List Msg := s.iterate collect []

/-- the mutating part of the public API -/
inductive Op where
  | add (m : Msg)
  | remove (t : Topic)
  | clear
  deriving Repr, DecidableEq, Inhabited

def Store.step (s : Store) : Op → Store
  | .add m => s.addOrReplace m
  | .remove t => s.remove t
  | .clear => s.clearAll

/-- the store after a history, starting from `NewStore()` -/
def run (ops : List Op) : Store := ops.foldl Store.step Store.new

/-! ### declarative spec: topic ↦ last retained message -/

abbrev Spec := List (Topic × Msg)

def Spec.get (S : Spec) (t : Topic) : Option Msg :=
  match S with
  | [] => none
  | (k, m) :: rest => if k = t then some m else Spec.get rest t

def Spec.step (S : Spec) : Op → Spec
  | .add m => (m.topic, m) :: S.filter (fun km => km.1 ≠ m.topic)
  | .remove t => S.filter (fun km => km.1 ≠ t)
  | .clear => []

def specRun (ops : List Op) : Spec := ops.foldl Spec.step []

end GmqttVerif.Retained
