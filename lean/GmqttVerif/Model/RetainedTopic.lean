/-
  Topic vocabulary used by the retained-message store model (C07, store level).

  * `splitLevels`   mirrors `strings.Split(topic, "/")`
  * `isSystemTopic` mirrors `retained/trie.isSystemTopic`
  * `LevelMatch` / `Matches` : DECLARATIVE statement of MQTT 3.1.1 / 5.0 §4.7 on level lists
    (not a mirror of any code): `#` = the parent level and everything below, `+` = exactly one
    level (possibly empty), a filter whose first level is a wildcard never matches a topic whose
    first level begins with `$`.
  * `levelMatchB` / `matchesB` : the same as Boolean functions (proved equivalent in Proofs/RetainedTopic).

  A topic is a list of Unicode code points (`List Char`); Go works on bytes, but `/`, `$`, `+`, `#`
  are ASCII, so splitting and the first-byte test commute with UTF-8 encoding.
  (Another agent writes `Model/Topic.lean` for subscriptions; to be unified later.)
-/
namespace GmqttVerif.Retained

abbrev Level := List Char
/-- a topic name or topic filter as a string -/
abbrev Topic := List Char

/-- `strings.Split(s, "/")`: never empty; `""` ↦ `[""]`, `"a/"` ↦ `["a",""]`. -/
def splitLevels : Topic → List Level
  | [] => [[]]
  | c :: cs =>
    if c = '/' then [] :: splitLevels cs
    else match splitLevels cs with
      | [] => [[c]]                 -- unreachable: `splitLevels` is never empty
      | l :: ls => (c :: l) :: ls

/-- inverse of `splitLevels` (`strings.Join(levels, "/")`) -/
def joinLevels : List Level → Topic
  | [] => []
  | l :: ls => match ls with
    | [] => l
    | _ :: _ => l ++ '/' :: joinLevels ls

/-- `len(topicName) >= 1 && topicName[0] == '$'` -/
def isSystemTopic : Topic → Bool
  | [] => false
  | c :: _ => c == '$'

/-- the level list of a topic whose first byte is `$` -/
def sysLevels : List Level → Bool
  | (c :: _) :: _ => c == '$'
  | _ => false

def hash : Level := ['#']
def plus : Level := ['+']

/-- MQTT §4.7.1 on level lists. No rule applies to a `#` that is not the last level. -/
inductive LevelMatch : List Level → List Level → Prop
  | nil : LevelMatch [] []
  /-- multi-level wildcard: matches the parent level (`ts = []`) and any number of child levels -/
  | hash (ts : List Level) : LevelMatch [hash] ts
  /-- single-level wildcard: exactly one level, which may be empty -/
  | plus {fs : List Level} {t : Level} {ts : List Level} : LevelMatch fs ts → LevelMatch (plus :: fs) (t :: ts)
  | lit {f : Level} {fs ts : List Level} : f ≠ hash → f ≠ plus → LevelMatch fs ts → LevelMatch (f :: fs) (f :: ts)

/-- the filter starts with a wildcard level -/
def wildcardFirst : List Level → Bool
  | l :: _ => l == hash || l == plus
  | [] => false

/-- MQTT §4.7.1 + §4.7.2: does the filter (as levels) match the topic name (as levels)? -/
def Matches (f t : List Level) : Prop :=
  LevelMatch f t ∧ ¬ (wildcardFirst f = true ∧ sysLevels t = true)

/-- `#` occurs, if at all, only as the last level -/
def hashLast : List Level → Bool
  | [] => true
  | l :: ls => (ls.isEmpty || l != hash) && hashLast ls

/-- MQTT §4.7.1 validity of a topic filter: non-empty, wildcards occupy a whole level, `#` only last. -/
def ValidFilter (f : Topic) : Prop :=
  f ≠ [] ∧ (∀ l ∈ splitLevels f, ('#' ∈ l → l = hash) ∧ ('+' ∈ l → l = plus)) ∧ hashLast (splitLevels f) = true

/-- Boolean version of `LevelMatch` -/
def levelMatchB : List Level → List Level → Bool
  | [], ts => ts.isEmpty
  | f :: fs, ts =>
    if f = hash then fs.isEmpty
    else match ts with
      | [] => false
      | t :: ts' => (f == plus || f == t) && levelMatchB fs ts'

def matchesB (f t : List Level) : Bool :=
  levelMatchB f t && !(wildcardFirst f && sysLevels t)

end GmqttVerif.Retained
