import GmqttVerif.Model.AList
/-
  Model of `server/stats.go` (`statsManager`) as a fold over the events the broker reports
  (call sites: server/client.go readLoop / writeLoop / internalClose, server/server.go registerClient /
  sessionTerminatedLocked, server/queue_notifier.go).

  * `map[string]*ClientStats` is an association list (`AL.get / set / del`); `getClientStats` creates a missing entry.
  * cumulative `uint64` counters are `Nat` (no run gets near 2^64); the gauges (`InflightCurrent`, `QueuedCurrent`,
    `ActiveCurrent`, `InactiveCurrent`), which the code decrements by adding `^uint64(delta-1)`, are `Int`:
    the uint64 the code holds is this integer modulo 2^64, so "negative" here = "wrapped below zero" there.
  * `Fix` selects, defect by defect, between the code as it was in the snapshot (all false; finding F34) and the code
    since the fixes 0d86327 / 263342d (all true):
      qos      per-client messages received / sent are counted under their own QoS (as is: always under QoS 0)
      delta    addInflight adds `delta` to the global gauge (as is: adds 1)
      release  sessionTerminated gives the session's queued / in-flight gauges back to the global ones (as is: never)
      auth     PacketBytes.copy copies the Auth field (as is: GetGlobalStats/GetClientStats always show 0)
-/
namespace GmqttVerif.Stats

inductive PType
  | auth | connect | connack | disconnect | pingreq | pingresp | puback | pubcomp | publish | pubrec | pubrel
  | suback | subscribe | unsuback | unsubscribe
  deriving DecidableEq, Repr, Inhabited

def PType.all : List PType :=
  [.auth, .connect, .connack, .disconnect, .pingreq, .pingresp, .puback, .pubcomp, .publish, .pubrec, .pubrel,
   .suback, .subscribe, .unsuback, .unsubscribe]

inductive Reason | internal | oversize | full | expired | inflExpired
  deriving DecidableEq, Repr, Inhabited

def Reason.all : List Reason := [.internal, .oversize, .full, .expired, .inflExpired]

inductive TermReason | normal | takenOver | expired
  deriving DecidableEq, Repr, Inhabited

/-- the cumulative counters of `PacketStats` + `MessageStats` (one per struct field); `none` = the `Total` field -/
inductive Key
  | pktsIn (t : Option PType) | bytesIn (t : Option PType)
  | pktsOut (t : Option PType) | bytesOut (t : Option PType)
  | msgIn (q : Nat) | msgOut (q : Nat) | dropped (q : Nat) (r : Reason)
  deriving DecidableEq, Repr, Inhabited

/-- `ClientStats` / the packet + message part of `GlobalStats` -/
structure CStats where
  cum : Key → Nat := fun _ => 0
  inflight : Int := 0      -- MessageStats.InflightCurrent
  queued : Int := 0        -- MessageStats.QueuedCurrent

instance : Inhabited CStats := ⟨{}⟩

def CStats.bump (c : CStats) (k : Key) (n : Nat) : CStats :=
  { c with cum := fun k' => if k' = k then c.cum k' + n else c.cum k' }

/-- `ConnectionStats` (global only) -/
structure ConnStats where
  connected : Nat := 0
  disconnected : Nat := 0
  created : Nat := 0
  termNormal : Nat := 0
  termTakenOver : Nat := 0
  termExpired : Nat := 0
  active : Int := 0
  inactive : Int := 0
  deriving Repr, DecidableEq, Inhabited

structure Fix where
  qos : Bool := false
  delta : Bool := false
  release : Bool := false
  auth : Bool := false
  deriving Repr, DecidableEq, Inhabited

def Fix.all : Fix := { qos := true, delta := true, release := true, auth := true }
def Fix.asIs : Fix := {}

structure Stats where
  g : CStats := {}
  conn : ConnStats := {}
  clients : List (String × CStats) := []      -- statsManager.clientStats

instance : Inhabited Stats := ⟨{}⟩

/-- one call of a `statsManager` method -/
inductive Event
  | packetReceived (cid : String) (t : PType) (bytes : Nat)
  | packetSent (cid : String) (t : PType) (bytes : Nat)
  | messageReceived (cid : String) (qos : Nat)
  | messageSent (cid : String) (qos : Nat)
  | messageDropped (cid : String) (qos : Nat) (r : Reason)
  | addInflight (cid : String) (delta : Nat)
  | decInflight (cid : String) (delta : Nat)
  | addQueueLen (cid : String) (delta : Nat)
  | decQueueLen (cid : String) (delta : Nat)
  | clientConnected (cid : String)
  | clientDisconnected (cid : String)
  | sessionActive (create : Bool)
  | sessionTerminated (cid : String) (r : TermReason)
  deriving Repr, DecidableEq, Inhabited

/-- `getClientStats`: the entry, zero when it does not exist yet -/
def Stats.client (s : Stats) (cid : String) : CStats := (AL.get cid s.clients).getD {}

/-- update the (possibly just created) entry of `cid` -/
def Stats.updClient (s : Stats) (cid : String) (f : CStats → CStats) : Stats :=
  { s with clients := AL.set cid (f (s.client cid)) s.clients }

/-- `PacketStats.add` -/
def addPacket (c : CStats) (recv : Bool) (t : PType) (bytes : Nat) : CStats :=
  if recv then (((c.bump (.bytesIn (some t)) bytes).bump (.pktsIn (some t)) 1).bump (.bytesIn none) bytes).bump (.pktsIn none) 1
  else (((c.bump (.bytesOut (some t)) bytes).bump (.pktsOut (some t)) 1).bump (.bytesOut none) bytes).bump (.pktsOut none) 1

def qosOk (q : Nat) : Bool := q == 0 || q == 1 || q == 2

def Stats.apply (fx : Fix) (s : Stats) : Event → Stats
  | .packetReceived cid t b =>
    ({ s with g := addPacket s.g true t b }).updClient cid (fun c => addPacket c true t b)
  | .packetSent cid t b =>
    ({ s with g := addPacket s.g false t b }).updClient cid (fun c => addPacket c false t b)
  | .messageReceived cid q =>
    if !qosOk q then s else
    ({ s with g := s.g.bump (.msgIn q) 1 }).updClient cid (fun c => c.bump (.msgIn (if fx.qos then q else 0)) 1)
  | .messageSent cid q =>
    if !qosOk q then s else
    ({ s with g := s.g.bump (.msgOut q) 1 }).updClient cid (fun c => c.bump (.msgOut (if fx.qos then q else 0)) 1)
  | .messageDropped cid q r =>
    if !qosOk q then s else
    ({ s with g := s.g.bump (.dropped q r) 1 }).updClient cid (fun c => c.bump (.dropped q r) 1)
  | .addInflight cid d =>
    ({ s with g := { s.g with inflight := s.g.inflight + (if fx.delta then (d : Int) else 1) } }).updClient cid
      (fun c => { c with inflight := c.inflight + d })
  | .decInflight cid d =>
    -- "Avoid the counter to be negative": nothing happens when the client's gauge is 0 (the entry is still created)
    if (s.client cid).inflight == 0 then s.updClient cid id
    else ({ s with g := { s.g with inflight := s.g.inflight - d } }).updClient cid (fun c => { c with inflight := c.inflight - d })
  | .addQueueLen cid d =>
    ({ s with g := { s.g with queued := s.g.queued + d } }).updClient cid (fun c => { c with queued := c.queued + d })
  | .decQueueLen cid d =>
    if (s.client cid).queued == 0 then s.updClient cid id
    else ({ s with g := { s.g with queued := s.g.queued - d } }).updClient cid (fun c => { c with queued := c.queued - d })
  | .clientConnected _ => { s with conn := { s.conn with connected := s.conn.connected + 1 } }
  | .clientDisconnected _ =>
    { s with conn := { s.conn with disconnected := s.conn.disconnected + 1, active := s.conn.active - 1, inactive := s.conn.inactive + 1 } }
  | .sessionActive create =>
    if create then { s with conn := { s.conn with created := s.conn.created + 1, active := s.conn.active + 1 } }
    else { s with conn := { s.conn with inactive := s.conn.inactive - 1, active := s.conn.active + 1 } }
  | .sessionTerminated cid r =>
    let conn := match r with
      | .normal => { s.conn with termNormal := s.conn.termNormal + 1 }
      | .takenOver => { s.conn with termTakenOver := s.conn.termTakenOver + 1 }
      | .expired => { s.conn with termExpired := s.conn.termExpired + 1 }
    let conn := { conn with inactive := conn.inactive - 1 }
    let c := s.client cid
    let g := if fx.release then { s.g with inflight := s.g.inflight - c.inflight, queued := s.g.queued - c.queued } else s.g
    { s with g := g, conn := conn, clients := AL.del cid s.clients }

def Stats.run (fx : Fix) (s : Stats) (log : List Event) : Stats := log.foldl (Stats.apply fx) s

/-- what `GetGlobalStats` / `GetClientStats` hand out for a cumulative counter: `PacketBytes.copy` forgets `Auth` -/
def view (fx : Fix) (c : CStats) (k : Key) : Nat :=
  if fx.auth then c.cum k else
  match k with
  | .pktsIn (some .auth) | .bytesIn (some .auth) | .pktsOut (some .auth) | .bytesOut (some .auth) => 0
  | _ => c.cum k

end GmqttVerif.Stats
