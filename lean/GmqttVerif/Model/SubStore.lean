import GmqttVerif.Model.Trie
/-
  Model of `persistence/subscription/mem` (`topic_trie.go`, `trie_db.go`) — the in-memory subscription index.

  !!  The model mirrors the code AS IT IS AFTER the proposed fixes of findings
  !!  F19 / F20 (`/verif/findings/substore-shared-index.{md,diff}`) and
  !!  `/verif/findings/substore-shared-dollar-topic.{md,diff}`:
  !!    * the shared index is keyed by `shareName + "/" + topicFilter` (as its own comment says),
  !!    * `unsubscribeAll` removes through `topicTrie.unsubscribe` with the right share name,
  !!    * the per-client listing of shared subscriptions emits the entry of the index key's group only,
  !!    * `getMatchedTopicFilter` applies [MQTT-4.7.2-1] itself (no wildcard at the first level for `$` topics),
  !!    * `iterateShared`/`MatchName` checks the length of `SplitN(name, "/", 3)` (`substore-matchname-panic`).
  !!  On the unchanged tree the correspondence streams of C02/C11 therefore report violations; see the findings.

  Modelling decisions
  * Go maps are association lists (`Model/AList.lean`), iteration order is not modelled (drivers sort).
  * `*gmqtt.Subscription` is the record `Sub`; the pointer identity is not modelled (the store never mutates one).
  * The indexes `map[clientID]map[key]*topicNode` store the KEY only; the node pointer is the node reached by
    walking `strings.Split(filter, "/")` from the root. The two agree as long as a node that holds a client
    is never detached — invariant `Inv` in `Proofs/SubStore.lean`; if it ever broke on the real code, the
    per-client listing of the Go driver would print `c,nil` or a stale entry and the streams would differ.
  * `sync.RWMutex`: every public method is one atomic step.
  * uint64 counters are `Nat`; `Nat` subtraction truncates where uint64 would wrap (never happens under `Inv`).
-/
namespace GmqttVerif.SubStore
open GmqttVerif Topic

/-- `gmqtt.Subscription` -/
structure Sub where
  share  : Str        -- ShareName, [] = non-shared
  filter : Str        -- TopicFilter (without the share name)
  qos    : Nat
  nl     : Bool
  rap    : Bool
  rh     : Nat
  id     : Nat
  deriving DecidableEq, Repr, Inhabited

/-- `clientOpts` : map[clientID]*Subscription -/
abbrev ClientOpts := List (Str × Sub)

/-- payload of a `topicNode` -/
structure Node where
  clients : ClientOpts := []
  shared  : List (Str × ClientOpts) := []     -- key: ShareName
  name    : Str := []                          -- topicName
  deriving Repr, Inhabited

abbrev TTrie := Trie Node

def emptyTrie : TTrie := Trie.leaf {}

/-- `setRs` -/
def setRs (n : Node) : List (Str × Sub) :=
  n.clients ++ (n.shared.map (·.2)).flatten

/-- the assignments at the end of `topicTrie.subscribe` -/
def subscribeNode (c : Str) (s : Sub) (n : Node) : Node :=
  if s.share ≠ [] then
    { n with shared := AL.set s.share (AL.set c s ((AL.get s.share n.shared).getD [])) n.shared, name := s.filter }
  else
    { n with clients := AL.set c s n.clients, name := s.filter }

/-- `topicTrie.subscribe` -/
def subscribeTrie (t : TTrie) (c : Str) (s : Sub) : TTrie :=
  Trie.update {} (subscribeNode c s) (splitLevels s.filter) t

/-- what `topicTrie.unsubscribe` does to the node it reaches; `none` = the `if c != nil` guard failed -/
def unsubNode (c share : Str) (n : Node) : Option Node :=
  if share ≠ [] then
    match AL.get share n.shared with
    | none => none
    | some cl =>
      let cl' := AL.del c cl
      some { n with shared := if cl'.isEmpty then AL.del share n.shared else AL.set share cl' n.shared }
  else
    some { n with clients := AL.del c n.clients }

/-- the first conjunct of the pruning test -/
def deadNode (share : Str) (n : Node) : Bool :=
  if share ≠ [] then n.shared.isEmpty else n.clients.isEmpty

/-- `topicTrie.unsubscribe(clientID, topicName, shareName)` -/
def unsubscribeTrie (t : TTrie) (c topic share : Str) : TTrie :=
  Trie.remove (unsubNode c share) (deadNode share) (splitLevels topic) t

/-- `topicTrie.find` -/
def find (t : TTrie) (filter : Str) : Option Node :=
  match Trie.at? (splitLevels filter) t with
  | some n => if n.payload.name = filter then some n.payload else none
  | none => none

/-- the temporary root built by the fixed `getMatchedTopicFilter` for `$` topics: only the exact first level -/
def restrictFirst (l : Str) (t : TTrie) : TTrie :=
  match AL.get l t.children with
  | some c => Trie.node {} [(l, c)]
  | none => Trie.node {} []

/-- `topicTrie.getMatchedTopicFilter` (fixed), flattened to (client, subscription) pairs -/
def getMatched (t : TTrie) (topic : Str) : List (Str × Sub) :=
  let lv := splitLevels topic
  let t' := if isSystemTopic topic then restrictFirst (lv.headD []) t else t
  Trie.matchTopic setRs lv t'

/-- `preOrderTraverse` with the `topicName != ""` guard -/
def traverse (t : TTrie) : List (Str × Sub) :=
  Trie.preOrder (fun n => if n.name ≠ [] then setRs n else []) t

structure Stats where
  total   : Nat := 0
  current : Nat := 0
  deriving DecidableEq, Repr, Inhabited

inductive Which | user | system | shared
  deriving DecidableEq, Repr

/-- `map[clientID]map[key]*topicNode`, node pointers replaced by their key (see header) -/
abbrev Index := List (Str × List Str)

/-- `TrieDB` -/
structure Store where
  trie  : Which → TTrie := fun _ => emptyTrie
  index : Which → Index := fun _ => []
  stats : Stats := {}
  clientStats : List (Str × Stats) := []

/-- `NewStore()` -/
def new : Store := {}

def Store.setTrie (st : Store) (w : Which) (t : TTrie) : Store :=
  { st with trie := fun w' => if w' = w then t else st.trie w' }

def Store.setIndex (st : Store) (w : Which) (i : Index) : Store :=
  { st with index := fun w' => if w' = w then i else st.index w' }

/-- which trie/index a (shareName, topicFilter) pair lives in -/
def whichOf (share filter : Str) : Which :=
  if share ≠ [] then .shared else if isSystemTopic filter then .system else .user

/-- key in the per-client index: the filter; for the shared index `shareName/topicFilter` -/
def indexKey (share filter : Str) : Str :=
  if share ≠ [] then share ++ '/' :: filter else filter

def bumpNew (s : Stats) : Stats := { total := s.total + 1, current := s.current + 1 }

def decCur (s : Stats) (n : Nat) : Stats := { s with current := s.current - n }

/-- `index[clientID]` as a key list (empty when the client has no entry) -/
def Store.keysOf (st : Store) (w : Which) (c : Str) : List Str := (AL.get c (st.index w)).getD []

/-- `clientStats` after `SubscribeLocked`: the entry is created together with the client's index map
    (`if index[clientID] == nil { …; if db.clientStats[clientID] == nil { … } }`), then bumped for a new key -/
def subscribeCStats (cs : List (Str × Stats)) (c : Str) (hasIndex existed : Bool) : List (Str × Stats) :=
  let cs1 := if !hasIndex && !AL.has c cs then AL.set c {} cs else cs
  if existed then cs1
  else match AL.get c cs1 with
    | some x => AL.set c (bumpNew x) cs1
    | none => cs1            -- Go: nil dereference; unreachable (index entry ⇒ stats entry, `Rel.cstatsIdx`)

/-- `SubscribeLocked` for one subscription; the Bool is `AlreadyExisted` -/
def Store.subscribe (st : Store) (c : Str) (s : Sub) : Store × Bool :=
  let w := whichOf s.share s.filter
  let key := indexKey s.share s.filter
  let existed := (st.keysOf w c).contains key
  ({ trie := fun w' => if w' = w then subscribeTrie (st.trie w) c s else st.trie w',
     index := fun w' => if w' = w then
        AL.set c (if existed then st.keysOf w c else key :: st.keysOf w c) (st.index w) else st.index w',
     stats := if existed then st.stats else bumpNew st.stats,
     clientStats := subscribeCStats st.clientStats c (AL.has c (st.index w)) existed }, existed)

/-- `clientStats[c].SubscriptionsCurrent -= n` when the entry exists -/
def decCStats (cs : List (Str × Stats)) (c : Str) (n : Nat) : List (Str × Stats) :=
  match AL.get c cs with
  | some x => AL.set c (decCur x n) cs
  | none => cs

/-- body of the `UnsubscribeLocked` loop for `shareName, topic := subscription.SplitTopic(fullName)` -/
def Store.unsubscribeKey (st : Store) (c share topic : Str) : Store :=
  let w := whichOf share topic
  let key := indexKey share topic
  let hasIndex := AL.has c (st.index w)
  let existed := (st.keysOf w c).contains key       -- false when the client has no index entry
  { trie := fun w' => if w' = w then unsubscribeTrie (st.trie w) c topic share else st.trie w',
    index := fun w' => if w' = w ∧ hasIndex then
        AL.set c ((st.keysOf w c).filter (fun k => !decide (k = key))) (st.index w) else st.index w',
    stats := if existed then decCur st.stats 1 else st.stats,
    -- Go dereferences clientStats[c] unconditionally here; it exists whenever the index entry does (`Rel.cstatsIdx`)
    clientStats := if existed then decCStats st.clientStats c 1 else st.clientStats }

/-- `UnsubscribeLocked` for one topic (full name: `filter` or `$share/<g>/<filter>`) -/
def Store.unsubscribe (st : Store) (c full : Str) : Store :=
  st.unsubscribeKey c (splitTopic full).1 (splitTopic full).2

/-- (shareName, topicFilter) of an index key; `strings.SplitN(key, "/", 2)` for the shared index -/
def keyParts (w : Which) (key : Str) : Str × Str :=
  if w = .shared then
    match cut '/' key with
    | (g, some f) => (g, f)
    | (g, none) => (g, [])        -- Go: ss[1] out of range; unreachable, every shared key contains '/'
  else ([], key)

/-- `unsubscribeAll(index, trie, clientID)` (fixed) -/
def Store.unsubscribeAllIn (st : Store) (w : Which) (c : Str) : Store :=
  let ks := st.keysOf w c
  { trie := fun w' => if w' = w then
        ks.foldl (fun t key => unsubscribeTrie t c (keyParts w key).2 (keyParts w key).1) (st.trie w) else st.trie w',
    index := fun w' => if w' = w then AL.del c (st.index w) else st.index w',
    stats := decCur st.stats ks.length,
    clientStats := decCStats st.clientStats c ks.length }

/-- `UnsubscribeAllLocked` -/
def Store.unsubscribeAll (st : Store) (c : Str) : Store :=
  ((st.unsubscribeAllIn .user c).unsubscribeAllIn .system c).unsubscribeAllIn .shared c

/-- `subscription.IterationOptions`; type: bit mask 1 = SYS, 2 = Shared, 4 = NonShared; matchType: 1 = MatchName, 2 = MatchFilter -/
structure Opts where
  type      : Nat
  client    : Str := []
  topic     : Str := []
  matchType : Nat := 0
  deriving Repr

def Opts.sys (o : Opts) : Bool := o.type % 2 = 1
def Opts.shared (o : Opts) : Bool := (o.type / 2) % 2 = 1
def Opts.nonShared (o : Opts) : Bool := (o.type / 4) % 2 = 1

def ofClient (c : Str) (l : List (Str × Sub)) : List (Str × Sub) := l.filter (fun e => e.1 = c)

/-- entries of one node restricted to a client (`node.clients[c]`, then every group's `[c]`) -/
def nodeOfClient (c : Str) (n : Node) : List (Str × Sub) :=
  ((AL.get c n.clients).toList ++ n.shared.filterMap (fun g => AL.get c g.2)).map (fun s => (c, s))

/-- `MatchName` branch of `iterateNonShared` -/
def nameNonShared (o : Opts) (t : TTrie) : List (Str × Sub) :=
  match find t o.topic with
  | none => []
  | some n => if o.client ≠ [] then nodeOfClient o.client n else setRs n

/-- per-client listing of `iterateNonShared`: `for _, v := range index[c] { fn(c, v.clients[c]) }` (node pointer = node at
    the key's path; a missing entry — Go would hand `nil` to the callback — is skipped, see header) -/
def listNonShared (c : Str) (index : Index) (t : TTrie) : List (Str × Sub) :=
  ((AL.get c index).getD []).filterMap (fun key =>
    match Trie.at? (splitLevels key) t with
    | some n => (AL.get c n.payload.clients).map (fun s => (c, s))
    | none => none)

/-- `iterateNonShared` (callback always continues) -/
def iterateNonShared (o : Opts) (index : Index) (t : TTrie) : List (Str × Sub) :=
  if o.topic ≠ [] && o.matchType = 1 then nameNonShared o t
  else if o.topic ≠ [] && o.matchType = 2 then
    let rs := getMatched t o.topic
    if o.client ≠ [] then ofClient o.client rs else rs
  else if o.client ≠ [] then listNonShared o.client index t
  else traverse t

/-- `MatchName` branch of `iterateShared` (with the fixed length check) -/
def nameShared (o : Opts) (t : TTrie) : List (Str × Sub) :=
  if hasPrefix o.topic sharePrefix then
    match cut '/' (o.topic.drop 7) with
    | (g, some f) =>
      match find t f with
      | none => []
      | some n =>
        let cl := (AL.get g n.shared).getD []
        if o.client ≠ [] then ((AL.get o.client cl).toList.map (fun s => (o.client, s))) else cl
    | (_, none) => []       -- fixed code: `if len(shared) < 3 { return true }` (the unchanged code panics here)
  else []

/-- per-client listing of `iterateShared` (fixed: the entry of the index key's own group) -/
def listShared (c : Str) (index : Index) (t : TTrie) : List (Str × Sub) :=
  ((AL.get c index).getD []).filterMap (fun key =>
    match Trie.at? (splitLevels (keyParts .shared key).2) t with
    | some n => (AL.get c ((AL.get (keyParts .shared key).1 n.payload.shared).getD [])).map (fun s => (c, s))
    | none => none)

/-- `iterateShared` (fixed per-client listing, fixed length check in the `MatchName` branch) -/
def iterateShared (o : Opts) (index : Index) (t : TTrie) : List (Str × Sub) :=
  if o.topic ≠ [] && o.matchType = 1 then nameShared o t
  else if o.topic ≠ [] && o.matchType = 2 then
    let rs := getMatched t o.topic
    if o.client ≠ [] then ofClient o.client rs else rs
  else if o.client ≠ [] then listShared o.client index t
  else traverse t

/-- `IterateLocked` with a callback that never stops -/
def Store.iterate (st : Store) (o : Opts) : List (Str × Sub) :=
  (if o.shared then iterateShared o (st.index .shared) (st.trie .shared) else []) ++
  (if o.nonShared && !(o.topic ≠ [] && isSystemTopic o.topic) then
      iterateNonShared o (st.index .user) (st.trie .user) else []) ++
  (if o.sys && !(o.topic ≠ [] && !isSystemTopic o.topic) then
      iterateNonShared o (st.index .system) (st.trie .system) else [])

def Store.getClientStats (st : Store) (c : Str) : Option Stats := AL.get c st.clientStats

/-! ### operation histories -/

inductive Op
  | sub (c : Str) (s : Sub)
  | unsub (c full : Str)
  | unsubAll (c : Str)
  deriving Repr

/-- one step; the Bool is `AlreadyExisted` (false for the other operations) -/
def step (st : Store) : Op → Store × Bool
  | .sub c s => st.subscribe c s
  | .unsub c full => (st.unsubscribe c full, false)
  | .unsubAll c => (st.unsubscribeAll c, false)

def run (st : Store) : List Op → Store × List Bool
  | [] => (st, [])
  | op :: ops =>
    let (st1, b) := step st op
    let (st2, bs) := run st1 ops
    (st2, b :: bs)

end GmqttVerif.SubStore
