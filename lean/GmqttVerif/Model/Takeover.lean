/-
  Take-over of a client id by concurrently connecting clients (server/server.go:
  `lockDuplicatedID`, `registerClient`, `unregisterClient`).

  `n` connecting processes all use ONE client id. The atomic steps are the critical sections delimited by
  `srv.mu.Lock()/Unlock()` in the source, plus "the connection dies". Shared state: `srv.clients[id]`
  (`registeredIn`), whether `sessionStore` holds a session for the id, the holder of `srv.mu`, and for every
  process whether `setError/Close` has been called on it (`killed`).

  `asIs = true` models the code before the repair: when a session exists but no client is online,
  `lockDuplicatedID` does `srv.mu.Unlock()` and then `srv.mu.Lock()` again before it returns — a window in which
  another connecting process can run the same check. `asIs = false` keeps the lock in that branch.
-/
namespace GmqttVerif.Takeover

inductive PC
  | start                 -- about to enter the `for` loop of lockDuplicatedID
  | relock                -- (as-is only) has unlocked after seeing "session, nobody online", about to Lock again
  | waiting (old : Nat)   -- closed the online client `old`, blocked on `<-oldClient.closed`
  | locked                -- returned from lockDuplicatedID holding srv.mu; registerClient body runs
  | registered            -- in srv.clients, CONNACK sent
  | closing               -- connection ended, `unregisterClient` not yet run
  | done
  deriving DecidableEq, Repr

structure State (n : Nat) where
  pc : Fin n → PC
  registeredIn : Option (Fin n)     -- srv.clients[id]
  session : Bool                    -- sessionStore.Get(id) != nil
  mu : Option (Fin n)               -- holder of srv.mu
  killed : Fin n → Bool             -- setError(SessionTakenOver) + Close() called on it

def upd {n : Nat} {α : Type} (f : Fin n → α) (i : Fin n) (v : α) : Fin n → α :=
  fun j => if j = i then v else f j

def init (n : Nat) : State n :=
  { pc := fun _ => .start, registeredIn := none, session := false, mu := none, killed := fun _ => false }

/-- one atomic step of process `i` (or of its socket) -/
inductive Step (asIs : Bool) {n : Nat} : State n → State n → Prop
  /-- lockDuplicatedID, loop body under the lock: an online client exists -> unlock, kill it, wait -/
  | checkOnline (s : State n) (i j : Fin n) :
      s.pc i = .start → s.mu = none → s.session = true → s.registeredIn = some j →
      Step asIs s { s with pc := upd s.pc i (.waiting j.val), killed := upd s.killed j true }
  /-- … no session at all: leave the loop holding the lock -/
  | checkNoSession (s : State n) (i : Fin n) :
      s.pc i = .start → s.mu = none → s.session = false →
      Step asIs s { s with pc := upd s.pc i .locked, mu := some i }
  /-- … a session but nobody online (repaired code): leave the loop, still holding the lock -/
  | checkOffline (s : State n) (i : Fin n) :
      asIs = false → s.pc i = .start → s.mu = none → s.session = true → s.registeredIn = none →
      Step asIs s { s with pc := upd s.pc i .locked, mu := some i }
  /-- … a session but nobody online (code as it was): Unlock … -/
  | checkOfflineUnlock (s : State n) (i : Fin n) :
      asIs = true → s.pc i = .start → s.mu = none → s.session = true → s.registeredIn = none →
      Step asIs s { s with pc := upd s.pc i .relock }
  /-- … and Lock again, then leave the loop -/
  | relock (s : State n) (i : Fin n) :
      s.pc i = .relock → s.mu = none →
      Step asIs s { s with pc := upd s.pc i .locked, mu := some i }
  /-- the killed older client has finished: `<-oldClient.closed` returns, loop again -/
  | wake (s : State n) (i j : Fin n) :
      s.pc i = .waiting j.val → s.pc j = .done →
      Step asIs s { s with pc := upd s.pc i .start }
  /-- registerClient body + deferred Unlock: session stored, `srv.clients[id] = client`, CONNACK follows -/
  | register (s : State n) (i : Fin n) :
      s.pc i = .locked → s.mu = some i →
      Step asIs s { s with pc := upd s.pc i .registered, registeredIn := some i, session := true, mu := none }
  /-- the connection ends (killed by a take-over, or any other reason) -/
  | die (s : State n) (i : Fin n) :
      s.pc i = .registered →
      Step asIs s { s with pc := upd s.pc i .closing }
  /-- unregisterClient under the lock: `delete(srv.clients, id)`; the session is kept or removed -/
  | unregister (s : State n) (i : Fin n) (keep : Bool) :
      s.pc i = .closing → s.mu = none →
      Step asIs s { s with pc := upd s.pc i .done, registeredIn := none, session := keep }

inductive Reachable (asIs : Bool) {n : Nat} : State n → Prop
  | init : Reachable asIs (init n)
  | step (s t : State n) : Reachable asIs s → Step asIs s t → Reachable asIs t

/-- a process is attached to the client id: in `srv.clients`, its connection possibly already dead -/
def attached {n : Nat} (s : State n) (i : Fin n) : Prop := s.pc i = .registered ∨ s.pc i = .closing

end GmqttVerif.Takeover
