/-
  Topic names, topic filters and the MQTT 4.7 matching relation.

  Strings are modelled as `List Char` (`Str`): the Go code only ever compares bytes for equality
  and with the four ASCII characters '/', '+', '#', '$'; the drivers convert with `String.toList`.
  (Byte strings from the `topicmatch` stream are mapped byte b ↦ `Char.ofNat b`.)

  * `splitLevels`  = `strings.Split(s, "/")`  (never returns the empty list; "" ↦ [""])
  * `Matches f t`  = the declarative MQTT 4.7 relation on level lists, written from the standard:
        - `#` must be the last level of the filter and matches any remainder, including none
          (so "sport/#" matches "sport": the parent level)           [MQTT 4.7.1.2]
        - `+` matches exactly one level, which may be empty            [MQTT 4.7.1.3]
        - every other level matches only itself
  * `MatchesTopic filter topic` adds [MQTT-4.7.2-1]: a filter whose first level is a wildcard
    does not match a topic name beginning with `$`.
  * `splitTopic`   = `subscription.SplitTopic`, `fullName` = `subscription.GetFullTopicName`.
-/
namespace GmqttVerif

abbrev Str := List Char

namespace Topic

/-- `strings.Split(s, "/")` for a one-character separator. -/
def splitOn (sep : Char) : Str → List Str
  | [] => [[]]
  | c :: cs =>
    if c = sep then [] :: splitOn sep cs
    else match splitOn sep cs with
      | [] => [[c]]          -- unreachable: `splitOn` never returns []
      | l :: ls => (c :: l) :: ls

def splitLevels (s : Str) : List Str := splitOn '/' s

/-- `strings.Join(levels, "/")` -/
def joinLevels : List Str → Str
  | [] => []
  | [l] => l
  | l :: ls => l ++ '/' :: joinLevels ls

def plus : Str := ['+']
def hash : Str := ['#']

/-- MQTT 4.7 matching on levels: `Matches filterLevels topicLevels`. -/
def Matches : List Str → List Str → Bool
  | [], [] => true
  | [], _ :: _ => false
  | f :: fs, ts =>
    if f = hash then fs.isEmpty
    else match ts with
      | [] => false
      | t :: ts' => (f = plus || f = t) && Matches fs ts'

/-- `isSystemTopic`: `len(s) >= 1 && s[0] == '$'` -/
def isSystemTopic : Str → Bool
  | [] => false
  | c :: _ => c = '$'

/-- first level of the filter is `+` or `#` -/
def startsWithWildcard (filter : Str) : Bool :=
  match splitLevels filter with
  | l :: _ => l = plus || l = hash
  | [] => false

/-- the full relation between a topic filter and a topic name (both as strings) -/
def MatchesTopic (filter topic : Str) : Bool :=
  !(isSystemTopic topic && startsWithWildcard filter) && Matches (splitLevels filter) (splitLevels topic)

/-- a topic NAME: at least one character, no wildcard characters anywhere [MQTT-4.7.3-1, 4.7.1-1] -/
def validTopicName (s : Str) : Bool := !s.isEmpty && !s.contains '+' && !s.contains '#'

/-- a topic level of a published topic name: not itself a wildcard -/
def plainLevel (l : Str) : Bool := l != plus && l != hash

/-- levels of a valid FILTER: `#` only as the complete last level, `+` only as a complete level
    [MQTT-4.7.1-2], [MQTT-4.7.1-3] -/
def validFilterLevels : List Str → Bool
  | [] => false
  | [l] => l = hash || l = plus || (!l.contains '+' && !l.contains '#')
  | l :: ls => (l = plus || (!l.contains '+' && !l.contains '#')) && validFilterLevels ls

def validFilter (s : Str) : Bool := !s.isEmpty && validFilterLevels (splitLevels s)

/-- `strings.HasPrefix` -/
def hasPrefix : Str → Str → Bool
  | _, [] => true
  | [], _ :: _ => false
  | c :: cs, p :: ps => c = p && hasPrefix cs ps

def sharePrefix : Str := ['$', 's', 'h', 'a', 'r', 'e', '/']

/-- split at the first `sep`: `(before, some after)` or `(s, none)` when `sep` does not occur
    (`strings.SplitN(s, sep, 2)`) -/
def cut (sep : Char) : Str → Str × Option Str
  | [] => ([], none)
  | c :: cs =>
    if c = sep then ([], some cs)
    else let (a, b) := cut sep cs; (c :: a, b)

/-- `subscription.SplitTopic`: `$share/<g>/<f>` ↦ (g, f); `$share/<x>` without a further '/' ↦ ("", "");
    anything else ↦ ("", topic). -/
def splitTopic (topic : Str) : Str × Str :=
  if hasPrefix topic sharePrefix then
    match cut '/' (topic.drop 7) with
    | (g, some f) => (g, f)
    | (_, none) => ([], [])
  else ([], topic)

/-- `subscription.GetFullTopicName` -/
def fullName (share filter : Str) : Str :=
  if share ≠ [] then sharePrefix ++ share ++ '/' :: filter else filter

end Topic
end GmqttVerif
