import GmqttVerif.Model.Topic
/-
  Model of the exported byte scanner

      func TopicMatch(topic []byte, topicFilter []byte) bool        /repo/pkg/packets/packets.go

  This file mirrors the code AS IT IS in /repo (no patch): exhaustive testing of the real scanner against the
  MQTT 4.7 relation (all valid topic-name x valid-filter pairs up to length 7 over {a,b,/,+,#,$}, 6.2·10^8 pairs)
  found no disagreement and no panic, so there is nothing to patch.

  Conventions
  * bytes are `Char`s (byte b ↦ `Char.ofNat b`); the scanner only compares bytes for equality and against
    '/', '+', '#', '$'.
  * `spos`, `tpos`, `sublen`, `topiclen` are Go `int`s that never go negative; the Go comparisons with a
    subtraction on the right-hand side are written additively so that they mean the same over `Nat`:
        spos == sublen-3   ⇝  spos + 3 == sublen        (false when sublen < 3, as in Go where sublen-3 < 0 ≤ spos)
        tpos == topiclen-1 ⇝  tpos + 1 == topiclen
        spos == sublen-1   ⇝  spos + 1 == sublen
    `topicFilter[spos-1]` is only evaluated behind the guard `spos > 0`, so `spos - 1` is the Go value.
  * every Go index expression is a checked access (`a[i]?`); an out-of-range access makes the whole condition
    `none`, and the function result `R.oob` (= the Go runtime panic "index out of range").
  * Go `&&` / `||` short-circuit: `cand` / `cor` evaluate the right operand only when Go would.
  * the unbounded `for {}` gets fuel; `spos` increases on every iteration that does not return, and the loop
    breaks when `spos ≥ sublen`, so `sublen + 1` iterations suffice (`Proofs/TopicMatchBytes.lean` proves that
    neither `oob` nor `outOfFuel` is ever produced).
  * the local `multilevelWildcard` is only ever set immediately before `return true`; after the loop both
    paths `return false`. It is therefore not modelled as state.
-/
namespace GmqttVerif.TopicMatchBytes
open GmqttVerif

/-- result of the scanner: a returned bool, a Go index-out-of-range panic, or model fuel exhausted -/
inductive R where
  | ret (b : Bool)
  | oob
  | outOfFuel
  deriving DecidableEq, Repr

/-- result of the inner "skip to the next separator" loop -/
inductive S where
  | pos (tpos : Nat)
  | oob
  | outOfFuel
  deriving DecidableEq, Repr

/-- Go `a && b` on conditions that may panic (`none`) -/
def cand (a b : Option Bool) : Option Bool :=
  match a with
  | none => none
  | some false => some false
  | some true => b

/-- Go `a || b` on conditions that may panic (`none`) -/
def cor (a b : Option Bool) : Option Bool :=
  match a with
  | none => none
  | some true => some true
  | some false => b

/-- `a[i] == c` -/
def eqAt (a : Str) (i : Nat) (c : Char) : Option Bool := (a[i]?).map (fun x => x == c)

/-- `a[i] != c` -/
def neAt (a : Str) (i : Nat) (c : Char) : Option Bool := (a[i]?).map (fun x => x != c)

/-- `a[i] == b[j]` -/
def eqIdx (a : Str) (i : Nat) (b : Str) (j : Nat) : Option Bool :=
  match a[i]?, b[j]? with
  | some x, some y => some (x == y)
  | _, _ => none

/-- `for { if tpos < topiclen && topic[tpos] != '/' { tpos++ } else { break } }` -/
def skip (topic : Str) : Nat → Nat → S
  | 0, _ => .outOfFuel
  | fuel + 1, tpos =>
    match cand (some (decide (tpos < topic.length))) (neAt topic tpos '/') with
    | none => .oob
    | some true => skip topic fuel (tpos + 1)
    | some false => .pos tpos

/-- the main `for { … }` of `TopicMatch`, one iteration per unit of fuel -/
def loop (topic filter : Str) : Nat → Nat → Nat → R
  | 0, _, _ => .outOfFuel
  | fuel + 1, spos, tpos =>
    let sublen := filter.length
    let topiclen := topic.length
    -- if spos < sublen && tpos <= topiclen {
    if spos < sublen ∧ tpos ≤ topiclen then
      -- if tpos != topiclen && topicFilter[spos] == topic[tpos] {
      match cand (some (tpos != topiclen)) (eqIdx filter spos topic tpos) with
      | none => .oob
      | some true =>
        -- if tpos == topiclen-1 { if spos == sublen-3 && topicFilter[spos+1] == '/' && topicFilter[spos+2] == '#' { return true } }
        match cand (some (tpos + 1 == topiclen))
                (cand (some (spos + 3 == sublen)) (cand (eqAt filter (spos + 1) '/') (eqAt filter (spos + 2) '#'))) with
        | none => .oob
        | some true => .ret true                                   -- "foo" matching "foo/#"
        | some false =>
          -- spos++ ; tpos++
          let spos := spos + 1
          let tpos := tpos + 1
          -- if spos == sublen && tpos == topiclen { return true }
          if spos = sublen ∧ tpos = topiclen then .ret true
          else
            -- else if tpos == topiclen && spos == sublen-1 && topicFilter[spos] == '+' {
            match cand (some (tpos == topiclen)) (cand (some (spos + 1 == sublen)) (eqAt filter spos '+')) with
            | none => .oob
            | some true =>
              -- if spos > 0 && topicFilter[spos-1] != '/' { return false } ; spos++ ; return true
              match cand (some (decide (spos > 0))) (neAt filter (spos - 1) '/') with
              | none => .oob
              | some true => .ret false
              | some false => .ret true                            -- "foo/" matching "foo/+"
            | some false => loop topic filter fuel spos tpos
      | some false =>
        -- } else { if topicFilter[spos] == '+' {
        match eqAt filter spos '+' with
        | none => .oob
        | some true =>
          -- spos++ ; skip the rest of the topic level
          let spos := spos + 1
          match skip topic (topiclen + 1) tpos with
          | .oob => .oob
          | .outOfFuel => .outOfFuel
          | .pos tpos =>
            -- if tpos == topiclen && spos == sublen { return true }
            if tpos = topiclen ∧ spos = sublen then .ret true
            else loop topic filter fuel spos tpos
        | some false =>
          -- } else if topicFilter[spos] == '#' { return true }
          match eqAt filter spos '#' with
          | none => .oob
          | some true => .ret true
          | some false =>
            -- "foo/bar" matching "foo/+/#":
            -- if spos > 0 && spos+2 == sublen && tpos == topiclen && topicFilter[spos-1] == '+'
            --    && topicFilter[spos] == '/' && topicFilter[spos+1] == '#' { return true } ; return false
            match cand (some (decide (spos > 0))) (cand (some (spos + 2 == sublen)) (cand (some (tpos == topiclen))
                    (cand (eqAt filter (spos - 1) '+') (cand (eqAt filter spos '/') (eqAt filter (spos + 1) '#'))))) with
            | none => .oob
            | some true => .ret true
            | some false => .ret false
    else
      -- } else { break } ; after the loop: both paths `return false`
      .ret false

/-- `packets.TopicMatch(topic, topicFilter)` -/
def topicMatchBytes (topic filter : Str) : R :=
  -- if sublen == 0 || topiclen == 0 { return false }
  if filter.length = 0 ∨ topic.length = 0 then .ret false
  else
    -- if (topicFilter[0] == '$' && topic[0] != '$') || (topic[0] == '$' && topicFilter[0] != '$') { return false }
    match cor (cand (eqAt filter 0 '$') (neAt topic 0 '$')) (cand (eqAt topic 0 '$') (neAt filter 0 '$')) with
    | none => .oob
    | some true => .ret false
    | some false => loop topic filter (filter.length + 1) 0 0

/-- canonical output token of the `topicmatch` line protocol -/
def R.show : R → String
  | .ret true => "true"
  | .ret false => "false"
  | .oob => "panic"
  | .outOfFuel => "outoffuel"

end GmqttVerif.TopicMatchBytes
