import GmqttVerif.Model.AList
import GmqttVerif.Model.Topic
/-
  Generic level-keyed trie, as used by `persistence/subscription/mem.topicNode`
  (payload = clients / shared / topicName) — children are a Go map `map[string]*topicNode`.

  The `parent` back pointer of the Go node is only used to delete a node from its parent's
  `children` map; the model performs that deletion on the way back up the walk.
-/
namespace GmqttVerif

inductive Trie (β : Type) where
  | node (payload : β) (children : List (Str × Trie β))

namespace Trie
variable {β γ : Type}

def payload : Trie β → β
  | node b _ => b

def children : Trie β → List (Str × Trie β)
  | node _ ch => ch

/-- `newNode()` -/
def leaf (b : β) : Trie β := node b []

/-- pointer walk `pNode = pNode.children[lv]` for every level; `none` when a level is missing. -/
def at? : List Str → Trie β → Option (Trie β)
  | [], t => some t
  | l :: ls, node _ ch =>
    match AL.get l ch with
    | some c => at? ls c
    | none => none

/-- the walk of `subscribe`: missing children are created (`newChild`, payload `dflt`),
    then `f` is applied to the payload of the node reached. -/
def update (dflt : β) (f : β → β) : List Str → Trie β → Trie β
  | [], node b ch => node (f b) ch
  | l :: ls, node b ch =>
    node b (AL.set l (update dflt f ls ((AL.get l ch).getD (leaf dflt))) ch)

/-- the walk of `unsubscribe`, seen from the node itself: `none` = "delete me from my parent".
    Reaching the node, `g payload = none` means nothing is touched at all (the `if c != nil` guard of the
    shared branch); `some b'` installs the new payload and, when `dead b'` and the node has no children,
    the node is removed from its parent — ONE level only, the parent itself is never re-examined.
    A missing level anywhere ⇒ unchanged. -/
def removeGo (g : β → Option β) (dead : β → Bool) : List Str → Trie β → Option (Trie β)
  | [], node b ch =>
    match g b with
    | none => some (node b ch)
    | some b' => if dead b' && ch.isEmpty then none else some (node b' ch)
  | l :: ls, node b ch =>
    match AL.get l ch with
    | none => some (node b ch)
    | some c =>
      match removeGo g dead ls c with
      | none => some (node b (AL.del l ch))
      | some c' => some (node b (AL.set l c' ch))

/-- `unsubscribe` on the root. (`strings.Split` never returns an empty slice, so the root itself is
    never the target; for the empty path the model leaves the trie unchanged.) -/
def remove (g : β → Option β) (dead : β → Bool) (p : List Str) (t : Trie β) : Trie β :=
  match p with
  | [] => t
  | _ :: _ => (removeGo g dead p t).getD t

/-- `cnode.children["#"]` -/
def hashChild (out : β → List γ) (t : Trie β) : List γ :=
  match AL.get Topic.hash t.children with
  | some n => out n.payload
  | none => []

/-- `setRs(cnode, rs); if n := cnode.children["#"]; n != nil { setRs(n, rs) }` -/
def matchEnd (out : β → List γ) (t : Trie β) : List γ :=
  out t.payload ++ hashChild out t

/-- `topicTrie.matchTopic(topicSlice, rs)`; `out` = `setRs`. The result multiset is what ends up in `rs`. -/
def matchTopic (out : β → List γ) : List Str → Trie β → List γ
  | [], _ => []          -- Go would panic on topicSlice[0]; `strings.Split` never returns []
  | l :: ls, node _ ch =>
    (match AL.get Topic.hash ch with
      | some n => out n.payload
      | none => []) ++
    (match AL.get Topic.plus ch with
      | some c => if ls.isEmpty then matchEnd out c else matchTopic out ls c
      | none => []) ++
    (match AL.get l ch with
      | some c => if ls.isEmpty then matchEnd out c else matchTopic out ls c
      | none => [])

mutual
/-- `preOrderTraverse` (the callback never stops the iteration) -/
def preOrder (out : β → List γ) : Trie β → List γ
  | node b ch => out b ++ preOrderCh out ch
def preOrderCh (out : β → List γ) : List (Str × Trie β) → List γ
  | [] => []
  | (_, t) :: r => preOrder out t ++ preOrderCh out r
end

end Trie
end GmqttVerif
