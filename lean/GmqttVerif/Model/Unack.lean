/-
  Model of `persistence/unack/mem/mem.go` (gmqtt): the per-session set of packet ids of QoS 2
  PUBLISH packets received and not yet released by PUBREL.

  The Go map `unackpublish map[packets.PacketID]struct{}` is a list of keys (most recent first);
  its iteration order is never observed by the code. Errors: the memory backend never returns one.
-/
namespace GmqttVerif.Unack

structure Store where
  ids : List Nat
  deriving Repr, DecidableEq, Inhabited

/-- `mem.New` (mem.go:19-24) -/
def new : Store := { ids := [] }

/-- `Init(cleanStart)` (mem.go:26-31) -/
def Store.init (s : Store) (cleanStart : Bool) : Store :=
  if cleanStart then { ids := [] } else s

/-- `Set(id)` (mem.go:33-39): reports whether the id was present, inserts it otherwise -/
def Store.set (s : Store) (id : Nat) : Store × Bool :=
  if id ∈ s.ids then (s, true) else ({ ids := id :: s.ids }, false)

/-- `Remove(id)` (mem.go:41-44): `delete(map, id)` -/
def Store.remove (s : Store) (id : Nat) : Store :=
  { ids := s.ids.filter (· != id) }

end GmqttVerif.Unack
