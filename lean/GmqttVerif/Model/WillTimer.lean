/-
  The delayed-will goroutine of one client id (server/server.go: `unregisterClient` starts it, `willMsg.signal`,
  `registerClient` / `sessionTerminatedLocked` signal it, the goroutine's tail runs under `srv.mu`).

  Shared state: `srv.willMessage[id]` (`entry`, the identity of the registered `*willMsg`), whether a connection of
  the client is online, and for every delayed will ever registered the state of its goroutine:

    waiting buf      blocked in `select { case send = <-wm.send: … case <-t.C: … }`; `buf` is the content of the
                     1-buffered channel `wm.send` (`signal` is a non-blocking send: the first signal wins)
    signalled send   left the select with `send`, has not yet obtained `srv.mu`
    done             has run its tail: removed the map entry, published the will iff `send`

  Each `Op` is one critical section of `srv.mu` (or one scheduling decision of the goroutine). `asIs = true` is the
  code before the repair (finding F16): the tail did `delete(srv.willMessage, id)` unconditionally. `asIs = false`
  removes the entry only when it still is this goroutine's own `*willMsg`.
-/
namespace GmqttVerif.WillTimer

inductive T
  | waiting (buf : Option Bool)
  | signalled (send : Bool)
  | done
  deriving DecidableEq, Repr

inductive Op
  | discWill          -- the online connection ends, will delayed: unregisterClient registers a new *willMsg + goroutine
  | discPlain         -- the online connection ends without a (delayed) will
  | resume            -- CONNECT resumes the stored session: `w.signal(false)` on the registered will, if any
  | terminate         -- the stored session ends (expiry, TerminateSession, first half of a clean-start CONNECT): `w.signal(true)`
  | connectFresh      -- a CONNECT that finds no session (second half of a clean-start CONNECT): online with a new session
  | fire (w : Nat)    -- goroutine `w` leaves the select through `<-t.C`
  | wake (w : Nat)    -- goroutine `w` leaves the select through `<-wm.send`
  | finish (w : Nat)  -- goroutine `w` obtains srv.mu and runs its tail
  deriving DecidableEq, Repr

structure State where
  entry : Option Nat := none            -- srv.willMessage[id]
  timers : List T := []                 -- every will goroutine ever started; its position is its identity
  online : Bool := true
  session : Bool := true                -- the session store holds a session for the id
  published : List Nat := []            -- wills handed to sendWillLocked, in order
  fired : List Nat := []                -- goroutines that took the timer branch
  ended : List Nat := []                -- wills that were the registered one when the session ended
  deriving DecidableEq, Repr

/-- `wm.signal(b)`: a non-blocking send into the 1-buffered channel -/
def signal (ts : List T) (w : Nat) (b : Bool) : List T :=
  match ts[w]? with
  | some (.waiting none) => ts.set w (.waiting (some b))
  | _ => ts        -- buffer full, or nobody will ever receive: dropped (`default:`)

def step (asIs : Bool) (s : State) : Op → State
  | .discWill =>
    if s.online then
      { s with entry := some s.timers.length, timers := s.timers ++ [.waiting none], online := false }
    else s
  | .discPlain => if s.online then { s with online := false } else s
  | .resume =>
    if s.online || !s.session then s else
    match s.entry with
    | some w => { s with timers := signal s.timers w false, online := true }
    | none => { s with online := true }
  | .terminate =>
    if s.online || !s.session then s else
    match s.entry with
    | some w => { s with session := false, timers := signal s.timers w true,
                         ended := if s.timers[w]? = some (.waiting none) then w :: s.ended else s.ended }
    | none => { s with session := false }
  | .connectFresh => if s.online || s.session then s else { s with online := true, session := true }
  | .fire w =>
    match s.timers[w]? with
    | some (.waiting _) => { s with timers := s.timers.set w (.signalled true), fired := w :: s.fired }
    | _ => s
  | .wake w =>
    match s.timers[w]? with
    | some (.waiting (some b)) => { s with timers := s.timers.set w (.signalled b) }
    | _ => s
  | .finish w =>
    match s.timers[w]? with
    | some (.signalled send) =>
      { s with timers := s.timers.set w .done,
               entry := if asIs then none else (if s.entry = some w then none else s.entry),
               published := if send then s.published ++ [w] else s.published }
    | _ => s

def run (asIs : Bool) (ops : List Op) : State := ops.foldl (step asIs) {}

/-- a will whose goroutine is still blocked in the select and has not been signalled: it will be published when its
    timer fires unless somebody signals it first -/
def pending (s : State) (w : Nat) : Prop := s.timers[w]? = some (T.waiting none)

instance (s : State) (w : Nat) : Decidable (pending s w) := by unfold pending; exact inferInstance

/-- every pending will is the one registered in `srv.willMessage`: a resume or the end of the session can reach it -/
def NoOrphan (s : State) : Prop := ∀ w, pending s w → s.entry = some w

end GmqttVerif.WillTimer
